#!/bin/sh
# usage: tools/import_seed.sh <worktree> <seeded-id> "<demo command run inside the worktree>"
# Confirms a seeded change in its scratch worktree (patch applies to a clean /repo HEAD, workspace builds,
# test-suite result equals the baseline, demo fails with / passes without the change) and copies it to seeded/<id>/.
set -u
WT=$1; ID=$2; DEMO=$3
OUT=/verif/seeded/$ID
mkdir -p $OUT
cp $WT/seeded_out/patch.diff $OUT/patch.diff
rm -rf $OUT/demo; cp -r $WT/seeded_out/demo $OUT/demo
cp $WT/seeded_out/meta.json $OUT/meta.agent.json
export CARGO_TARGET_DIR=$WT/target CARGO_NET_OFFLINE=true
cd $WT
LOG=$OUT/confirm.log; : > $LOG
# the worktree has the change applied; make sure it is exactly patch.diff on top of HEAD (plus untracked demo files).
# No `git stash` here: the stash is shared between all worktrees of a repository, and concurrent use swaps changes
# between them (it happened in round 4).
git checkout -q -- . 2>>$LOG
git apply --check $OUT/patch.diff >>$LOG 2>&1 || { echo "patch does not apply to HEAD" | tee -a $LOG; }
echo "== demo WITHOUT change" >>$LOG
( eval "timeout 1800 $DEMO" ) >>$LOG 2>&1; W0=$?
git apply $OUT/patch.diff
echo "== demo WITH change" >>$LOG
( eval "timeout 1800 $DEMO" ) >>$LOG 2>&1; W1=$?
echo "== test-suite WITH change" >>$LOG
timeout 3000 cargo test --workspace --no-fail-fast --offline > $OUT/suite.log 2>&1
grep -E "^test .* \.\.\. (ok|FAILED|ignored)" $OUT/suite.log | grep -v "^test result" | sed 's/ - should panic//' | sort -u > $OUT/suite.with.txt
NF=$(grep -c "FAILED" $OUT/suite.with.txt); NP=$(grep -c "\.\.\. ok" $OUT/suite.with.txt)
echo "demo without=$W0 with=$W1 suite: pass=$NP failed=$NF" | tee -a $LOG
grep "FAILED" $OUT/suite.with.txt | tee -a $LOG
rm -f $OUT/suite.log
