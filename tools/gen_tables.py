#!/usr/bin/env python3
"""Translator: regenerates lean/Pumpkin/Gen/*.lean from the *current* /repo sources on every run.

Gen/Ambient.lean  inventory of every ambient-input source in the workspace (hash containers with a
                  randomly seeded hasher, clocks, entropy, environment), each classified from the
                  surrounding code. Props/C20.lean proves `∀ e ∈ ambient, e.cls ∈ allowed` by `decide`;
                  a new unclassified source breaks that obligation.
Gen/Tables.lean   literal tables: the FlatZinc builtin names handled by post_constraints.rs, the enum
                  variants that span the configuration spaces, the result mapping of Solver::satisfy.
"""
import os
import re
import sys

REPO = "/repo"
ROOT = os.path.dirname(os.path.dirname(os.path.abspath(__file__)))
OUT = os.path.join(ROOT, "lean", "Pumpkin", "Gen")
SRC_DIRS = ["pumpkin-solver/src", "drcp-format/src"]


def rust_files():
    for d in SRC_DIRS:
        for base, _, files in os.walk(os.path.join(REPO, d)):
            for f in sorted(files):
                if f.endswith(".rs"):
                    yield os.path.join(base, f)


def strip_line_comment(line):
    i = line.find("//")
    return line if i < 0 else line[:i]


def lean_str(s):
    return '"' + s.replace("\\", "\\\\").replace('"', '\\"') + '"'


def classify_hash_use(path, lines):
    """A file that imports std's HashMap/HashSet without a fixed hasher: is any such container iterated?"""
    text = "\n".join(strip_line_comment(l) for l in lines)
    # names of fields / bindings typed as HashMap / HashSet
    names = set(re.findall(r"(\w+)\s*:\s*(?:std::collections::)?Hash(?:Map|Set)\s*<", text))
    names |= set(re.findall(r"let\s+(?:mut\s+)?(\w+)\s*(?::[^=]*)?=\s*Hash(?:Map|Set)::(?:new|default|with_capacity)", text))
    iterated = []
    for n in names:
        for m in re.finditer(r"(?:self\.)?\b" + re.escape(n) + r"\s*\.\s*(iter|iter_mut|values|values_mut|keys|into_iter|drain|into_keys|into_values)\s*\(", text):
            # sorted right afterwards? (collect + sort within the next 400 characters)
            tail = text[m.end(): m.end() + 400]
            if re.search(r"\.sort(_by|_by_key|_unstable|_unstable_by|_unstable_by_key)?\s*\(", tail):
                iterated.append((n, "sorted"))
            else:
                iterated.append((n, "unsorted"))
        if re.search(r"\bin\s+&?(?:mut\s+)?(?:self\.)?" + re.escape(n) + r"\b\s*\{", text):
            iterated.append((n, "unsorted"))
    if any(k == "unsorted" for _, k in iterated):
        return "defaultHasherIterated", ",".join(sorted({n for n, k in iterated if k == "unsorted"}))
    if iterated:
        return "defaultHasherIteratedSorted", ",".join(sorted({n for n, _ in iterated}))
    return "defaultHasherLookupOnly", ",".join(sorted(names))


TIME_STATS_FILES = {
    # Instant::now whose value only reaches time statistics / log lines
    "pumpkin-solver/src/engine/constraint_satisfaction_solver.rs": r"time_spent_in_solver",
    "pumpkin-solver/src/bin/pumpkin-solver/maxsat/optimisation/stopwatch.rs": r"elapsed",
    "pumpkin-solver/src/bin/pumpkin-solver/maxsat/encoders/cardinality_networks_encoder.rs": r"debug!|info!|println!\(\s*\n?\s*\"c ",
    "pumpkin-solver/src/bin/pumpkin-solver/maxsat/encoders/pseudo_boolean_constraint_encoder.rs": r"debug!|info!",
}


def gen_ambient():
    entries = []
    for path in rust_files():
        rel = os.path.relpath(path, REPO)
        lines = open(path, errors="replace").read().split("\n")
        in_test = False
        for ln, raw in enumerate(lines, 1):
            if re.match(r"\s*#\[cfg\(test\)\]", raw):
                in_test = True  # test modules are at the end of the files in this code base
            if in_test:
                continue
            line = strip_line_comment(raw)
            if re.search(r"std::collections::Hash(Map|Set)", line) or re.search(r"use std::collections::\{[^}]*Hash(Map|Set)", line):
                if "FnvBuildHasher" in line or "Hasher = Fnv" in line:
                    entries.append((rel, ln, "hash container alias with fixed hasher", "fixedHasher", ""))
                else:
                    cls, names = classify_hash_use(path, lines)
                    entries.append((rel, ln, "std hash container with default (randomly seeded) hasher", cls, names))
            for pat, what in [(r"RandomState", "RandomState"), (r"thread_rng|from_entropy|OsRng|getrandom", "entropy source"),
                              (r"SystemTime", "wall clock"), (r"std::env::|env::var|env::args", "process environment"),
                              (r"as \*const|as \*mut|\.as_ptr\(\)\s+as\s+usize", "pointer value")]:
                if re.search(pat, line):
                    cls = "other"
                    if what == "process environment" and "env::args" in line:
                        cls = "other"
                    entries.append((rel, ln, what, cls, ""))
            if re.search(r"Instant::now", line):
                if rel.endswith("engine/termination/time_budget.rs"):
                    entries.append((rel, ln, "clock read by TimeBudget (the documented time limit)", "timeBudget", ""))
                elif rel in TIME_STATS_FILES:
                    # the bound variable must only be used in statistics / log statements
                    m = re.search(r"let\s+(\w+)\s*=\s*Instant::now", line)
                    ok = False
                    if m:
                        var = m.group(1)
                        uses = [l for l in lines if re.search(r"\b" + var + r"\b", strip_line_comment(l)) and "Instant::now" not in l]
                        ok = bool(uses) and all(
                            re.search(TIME_STATS_FILES[rel], "\n".join(lines[max(0, lines.index(u) - 4): lines.index(u) + 2])) for u in uses)
                    elif "time_start: Instant::now()" in line:
                        ok = True
                    entries.append((rel, ln, "clock", "timeOnlyStats" if ok else "other", ""))
                else:
                    entries.append((rel, ln, "clock", "other", ""))
    out = ["/- GENERATED by tools/gen_tables.py from /repo's current sources; do not edit. -/", "namespace Pumpkin.Gen", "",
           "inductive AmbCls where", "  | fixedHasher | timeOnlyStats | timeBudget | defaultHasherLookupOnly | defaultHasherIteratedSorted",
           "  | defaultHasherIterated | other", "deriving DecidableEq, Repr", "",
           "structure Amb where", "  file : String", "  line : Nat", "  what : String", "  cls : AmbCls", "  detail : String", "deriving Repr", "",
           "def ambient : List Amb := ["]
    rows = [f"  ⟨{lean_str(f)}, {ln}, {lean_str(w)}, .{c}, {lean_str(d)}⟩" for f, ln, w, c, d in entries]
    out.append(",\n".join(rows))
    out += ["]", "", "end Pumpkin.Gen", ""]
    return "\n".join(out), entries


def enum_variants(rel, enum_name):
    text = open(os.path.join(REPO, rel)).read()
    m = re.search(r"enum\s+" + enum_name + r"\s*\{(.*?)\n\}", text, re.S)
    if not m:
        raise SystemExit(f"gen_tables: enum {enum_name} not found in {rel} (correspondence broken)")
    body = re.sub(r"//[^\n]*", "", m.group(1))
    body = re.sub(r"#\[[^\]]*\]", "", body)
    vs = re.findall(r"^\s*([A-Z][A-Za-z0-9]*)\s*(?:\{[^}]*\}|\([^)]*\))?\s*,", body, re.M)
    return vs


def gen_tables():
    post = open(os.path.join(REPO, "pumpkin-solver/src/bin/pumpkin-solver/flatzinc/compiler/post_constraints.rs")).read()
    m = re.search(r"match id\.as_str\(\)\s*\{(.*?)unknown =>", post, re.S)
    if not m:
        raise SystemExit("gen_tables: FlatZinc builtin table not found (correspondence broken)")
    builtins = re.findall(r'^\s*"([a-z0-9_]+)"\s*(?:\|[^=]*)?=>', m.group(1), re.M)
    # arity checks: check_parameters!(exprs, N, "name")
    arity = dict((n, int(k)) for k, n in re.findall(r'check_parameters!\(exprs,\s*(\d+),\s*"([a-z0-9_]+)"\)', post))
    solver_rs = open(os.path.join(REPO, "pumpkin-solver/src/api/solver.rs")).read()
    m = re.search(r"pub fn satisfy<.*?\{(.*?)\n    \}\n", solver_rs, re.S)
    if not m:
        raise SystemExit("gen_tables: Solver::satisfy not found (correspondence broken)")
    body = m.group(1)
    mapping = []
    for flag in ["Feasible", "Infeasible", "Timeout"]:
        mm = re.search(r"CSPSolverExecutionFlag::" + flag + r"\s*=>\s*\{(.*?)\n            \}", body, re.S)
        if not mm:
            raise SystemExit(f"gen_tables: arm {flag} of Solver::satisfy not found (correspondence broken)")
        res = re.search(r"SatisfactionResult::(\w+)", mm.group(1))
        mapping.append((flag, res.group(1) if res else "None"))
    enums = {
        "cumulativeMethods": enum_variants("pumpkin-solver/src/propagators/cumulative/options.rs", "CumulativePropagationMethod"),
        "cumulativeExplanations": enum_variants("pumpkin-solver/src/propagators/cumulative/time_table/explanations/mod.rs", "CumulativeExplanationType"),
        "conflictResolvers": enum_variants("pumpkin-solver/src/engine/constraint_satisfaction_solver.rs", "ConflictResolver"),
        "sequenceGenerators": enum_variants("pumpkin-solver/src/basic_types/sequence_generators/sequence_generator_type.rs", "SequenceGeneratorType"),
        "sortingStrategies": enum_variants("pumpkin-solver/src/propagators/nogoods/learning_options.rs", "LearnedNogoodSortingStrategy"),
        "optimisationStrategies": enum_variants("pumpkin-solver/src/optimisation/mod.rs", "OptimisationStrategy"),
    }
    vs_dir = os.path.join(REPO, "pumpkin-solver/src/branching/value_selection")
    valsel = sorted(re.findall(r"pub struct (\w+)", "\n".join(open(os.path.join(vs_dir, f)).read() for f in sorted(os.listdir(vs_dir)) if f.endswith(".rs"))))
    valsel = [v for v in valsel if not v.startswith("Dynamic")]
    vr_dir = os.path.join(REPO, "pumpkin-solver/src/branching/variable_selection")
    varsel = sorted(re.findall(r"pub struct (\w+)", "\n".join(open(os.path.join(vr_dir, f)).read() for f in sorted(os.listdir(vr_dir)) if f.endswith(".rs"))))
    varsel = [v for v in varsel if not v.startswith("Dynamic")]
    out = ["/- GENERATED by tools/gen_tables.py from /repo's current sources; do not edit. -/", "namespace Pumpkin.Gen", ""]
    out.append("def fznBuiltins : List String := [" + ", ".join(lean_str(b) for b in builtins) + "]")
    out.append("def fznArity : List (String × Nat) := [" + ", ".join(f"({lean_str(n)}, {k})" for n, k in sorted(arity.items())) + "]")
    out.append("def satisfyResultMap : List (String × String) := [" + ", ".join(f"({lean_str(a)}, {lean_str(b)})" for a, b in mapping) + "]")
    for name, vs in enums.items():
        out.append(f"def {name} : List String := [" + ", ".join(lean_str(v) for v in vs) + "]")
    out.append("def valueSelectors : List String := [" + ", ".join(lean_str(v) for v in valsel) + "]")
    out.append("def variableSelectors : List String := [" + ", ".join(lean_str(v) for v in varsel) + "]")
    out += ["", "end Pumpkin.Gen", ""]
    return "\n".join(out)


def write_if_changed(path, text):
    if os.path.exists(path) and open(path).read() == text:
        return False
    with open(path, "w") as f:
        f.write(text)
    return True


def main():
    os.makedirs(OUT, exist_ok=True)
    amb, entries = gen_ambient()
    c1 = write_if_changed(os.path.join(OUT, "Ambient.lean"), amb)
    c2 = write_if_changed(os.path.join(OUT, "Tables.lean"), gen_tables())
    if "-v" in sys.argv:
        for e in entries:
            print(e)
    print(f"gen_tables: ambient={len(entries)} changed={c1 or c2}")


if __name__ == "__main__":
    main()
