#!/usr/bin/env python3
"""Apply a seeded change to /repo, run the quick checks of the given properties, restore /repo.
usage: tools/seeded.py <seeded-id> [<property> ...]   (default: the property the change was seeded for)
Results are appended to seeded/<id>/results.json."""
import json, os, subprocess, sys, time
ROOT = os.path.dirname(os.path.dirname(os.path.abspath(__file__)))

def sh(cmd, **kw):
    return subprocess.run(cmd, shell=True, capture_output=True, text=True, **kw)

def main():
    sid = sys.argv[1]
    d = os.path.join(ROOT, "seeded", sid)
    meta = json.load(open(os.path.join(d, "meta.json")))
    props = sys.argv[2:] or [meta["property"]]
    if sh("git -C /repo status --porcelain").stdout.strip():
        print("refusing: /repo is not clean"); return 2
    r = sh(f"git -C /repo apply {d}/patch.diff")
    if r.returncode != 0:
        print("patch does not apply:", r.stderr); return 2
    results = {}
    try:
        for p in props:
            t = time.time()
            r = sh(f"cd {ROOT} && timeout 3000 ./check {p} --tier quick")
            lines = [l for l in r.stdout.splitlines() if l.startswith("VIOLATION") or l.startswith("[" + p)]
            nv = sum(1 for l in lines if l.startswith("VIOLATION"))
            results[p] = {"exit": r.returncode, "violations": nv, "caught": r.returncode != 0, "wall_s": round(time.time() - t, 1),
                          "first": next((l for l in lines if l.startswith("VIOLATION")), "")}
            print(p, "CAUGHT" if r.returncode != 0 else "missed", nv, "violation lines;", results[p]["first"][:160])
    finally:
        sh("git -C /repo checkout -- .")
        assert not sh("git -C /repo status --porcelain").stdout.strip()
    path = os.path.join(d, "results.json")
    old = json.load(open(path)) if os.path.exists(path) else {}
    old.update(results)
    json.dump(old, open(path, "w"), indent=1)
    return 0

if __name__ == "__main__":
    sys.exit(main())
