"""Per-property configuration of ./check: harness streams, which driver verdicts count for the
property, Lean modules/theorems beyond Props/<id>.lean."""

import cli_streams  # noqa: E402

ALL_SCEN = "satisfy=3,iterate=2,iterprefix=1,optimise=2,assume=2"


def kinds(*ks):
    s = set(ks)
    return lambda kind, rec, case: kind in s


def c12_relevant(kind, rec, case):
    if kind == "asg":
        return True  # the domain store against Model/Assignments.lean
    if kind == "fix":
        return rec.startswith("fix root")  # the root state after posting everything
    return panic_or({"bounds", "vbounds", "bad", "verdict"}, ["bounds", "fix"])(kind, rec, case)


def c01_relevant(kind, rec, case):
    # every solution handed out by any entry point
    if kind in ("fix", "asg"):
        return True  # exact propagation / domain-store correspondence
    if kind in ("bad", "panic", "same") and "bigsearch" in rec + " " + case.desc:
        return True  # long searches on larger models: totality and reference evaluation of every solution
    return kind in ("sol", "asol", "partial") or (kind in ("subset", "solset") and False)


def c02_relevant(kind, rec, case):
    if kind == "nlsearch":
        return True
    if kind == "verdict":
        return True
    if kind == "nonterm":
        return True
    if kind == "sol" and " satisfy " in rec + " ":
        return True  # a returned solution proves "satisfiable"; validity is C01's concern, but the verdict is ours
    return False


HOOK_COMMITS = [
    "e321c05af721a8d9561389c159d6dfceedd0897d",
    "d74f5a917363a9bc2d3a5d81e0e790775a0fb827",
    "c4459971472dd072f36422595d14d0accf522f97",
    "98eed37a9ece2b904c22e16ba539aeee0c9108c3",
    "e083470ed97a47094fe9a3c95d90269a387547d6",
    "c3177feaf6928496a10a4eb0a6033f17052334e7",
    "fa850e7b8c519544f58724ad57983943c882cc39",
    "3772dc97559afc4ce1e7fc13fab68ef5816cfbdb",
    "8f54ee07b53e5748d855503a4dcaf4981f0f9852",
    "570f12b86acbe4996e24f24a3127040cdfa7689a",
]

LEVEL_NOTE_COMMON = (
    "Trusted: Lean 4.33 kernel; axioms ⊆ {propext, Classical.choice, Quot.sound} (audited by #print axioms every run); "
    "the correspondence is differential testing (bounded, seeded): Rust harness + token parser of the Lean driver + generators; "
    "Spec/Basic.lean is the reading of the documented constraint semantics. "
)

def scen_of(case):
    import re
    m = re.search(r"scen=([a-z:]+)", case.desc)
    return m.group(1) if m else ""


def panic_or(kinds_set, scen_prefixes):
    """relevant = record kind in kinds_set, or a panic/hang of a case whose scenario belongs to the property"""
    def rel(kind, rec, case):
        if kind in kinds_set:
            return True
        if kind in ("panic", "nonterm", "hang"):
            return any(scen_of(case).startswith(p) for p in scen_prefixes)
        return False
    return rel


def c01_relevant(kind, rec, case):
    if kind == "panic" and "Expected_retrieved_integer_variable_from_solution_to_be_assigned" in rec:
        return True  # a partial assignment was handed out as a solution
    if kind in ("fix", "asg"):
        return True  # exact propagation / domain-store correspondence
    if kind in ("bad", "panic", "same") and "bigsearch" in rec + " " + case.desc:
        return True  # long searches on larger models: totality and reference evaluation of every solution
    return kind in ("sol", "asol", "partial")


def c02_relevant(kind, rec, case):
    if "bigsearch" in case.desc:
        return kind in ("bad", "panic", "partial", "same", "hang")  # known-answer families on larger models
    if kind == "nlsearch":
        return True
    if kind == "verdict":
        return True
    if kind == "sol" and rec.startswith("sol satisfy"):
        return True  # "satisfiable" verdict of satisfy (the solution itself is also C01's concern)
    if kind in ("nonterm", "panic", "hang"):
        return scen_of(case).startswith("satisfy") or scen_of(case).startswith("iterate")
    if scen_of(case).startswith("tap"):
        # explanation tap: calls of the semantic minimiser (exact correspondence with the model) and
        # learned nogoods (implied by the model); the explanations themselves are C17's
        return kind in ("semmin", "recmin", "nogood", "derive", "nderive", "panic", "hang", "nonterm")
    if kind == "solset":
        # the end of an enumeration is an Unsatisfiable verdict on the model plus blocking clauses:
        # a missing solution means it came too early (foreign / repeated solutions are C01 / C03)
        resp = getattr(case, "current_resp", "")
        return resp.startswith("ok") or (" missing=" in resp and " missing=0 " not in resp + " ")
    return False


def c07_relevant(kind, rec, case):
    return kind in ("sol", "verdict", "solset", "opt", "partial", "nonterm", "panic", "hang", "bad")


def c10_relevant(kind, rec, case):
    return kind != "branchviolation"


def c11_relevant(kind, rec, case):
    # asol / averdict / core / conflicting: answers of assumption solves made after (or cut short by) an interruption
    return kind in ("sol", "verdict", "solset", "subset", "opt", "partial", "nonterm", "panic", "hang", "bad",
                    "asol", "averdict", "core", "conflicting")


def c18_relevant(kind, rec, case):
    return kind in ("branchviolation", "valsel", "partial", "nonterm", "hang") or (kind == "panic" and ("Decision" in rec or "brancher" in rec.lower() or "branching" in rec or "sparse_set" in rec or "random" in rec
                                                                                           # the solver accepted a state with unfixed variables as a solution (the brancher proposed nothing)
                                                                                           or "Expected_retrieved_integer_variable_from_solution_to_be_assigned" in rec))


PROPS = {
    "C01": {
        "streams": [
            {"name": "answers", "mode": "answers", "quick": 400, "thorough": 12000, "args": ["--mix", ALL_SCEN]},
            {"name": "fix", "mode": "fix", "quick": 1200, "thorough": 30000, "args": []},
            {"name": "store", "mode": "asg", "quick": 500, "thorough": 12000, "args": []},
            {"name": "bigsearch", "mode": "bigsearch", "quick": 1500, "thorough": 20000, "args": []},
        ],
        "relevant": c01_relevant,
        "lean_modules": ["Pumpkin.Model.Propagation", "Pumpkin.Model.PropagationChecks", "Pumpkin.Model.AssignmentsEvents"],
        "level_text": "Proof: fixed_fixpoint_is_solution — over the propagator models of Model/Propagation.lean, a state in which every variable is fixed and whose propagation fixpoint reports no conflict satisfies the WHOLE model (pass_checks: at a full assignment every modelled propagator decides its constraint — LinearLeq, LinearNe, IntAbs, Maximum, IntTimes, Division, Element, clauses, time-table cumulative, reified wrapper; compile_bwd / compile_fwd: the decomposition into propagators has exactly the constraint's meaning), for every model of the modelled kinds; solution_is_fixed_fixpoint is the converse. Tied exactly by the `fix` records (the state at every decision point of real solves, the last one of a satisfiable solve being the solution state, equals the model's fixpoint). Lean theorems state that an accepted solution lies in the declared domains and satisfies every constraint under the Spec semantics (views, half/full reification), and that acceptance = membership in the verified oracle `solutions`. Tie to code: every solution handed out by satisfy / iterator / assumptions / optimise (result and callbacks) of the real solver on generated models is judged by that verified acceptor.",
        "level_note": LEVEL_NOTE_COMMON + "Not modelled line by line: search loop, 2-watch scheme, time-table bookkeeping (covered only through the answers they produce).",
        "assumptions": [
            "solutions are judged by Model.sat of lean/Pumpkin/Spec/Basic.lean (the documented meaning of each constraint)",
            "models are generated with at most ~20k assignments so that the oracle can enumerate",
        ],
    },
    "C02": {
        "streams": [
            {"name": "answers", "mode": "answers", "quick": 500, "thorough": 15000,
             "args": ["--mix", "satisfy=4,iterate=3,optimise=1,assume=1"]},
            {"name": "minimiser", "mode": "tap", "quick": 400, "thorough": 8000, "args": []},
            {"name": "symmetric", "mode": "answers", "quick": 1500, "thorough": 12000,
             "args": ["--mix", "iterate=3,satisfy=1", "--sympct", "100"]},
            {"name": "nlsearch", "mode": "nlsearch", "quick": 1500, "thorough": 40000, "args": []},
            {"name": "bigsearch", "mode": "bigsearch", "quick": 1200, "thorough": 20000, "args": []},
        ],
        "lean_modules": ["Pumpkin.Model.SemMin", "Pumpkin.Model.RecMin", "Pumpkin.Model.PropagationCompile", "Pumpkin.Model.Search", "Pumpkin.Model.Narrow"],
        "relevant": c02_relevant,
        "level_text": "modelled_solver_unsat_sound / modelled_solver_sat_sound (end to end): Pg.solveNL — post the Spec model at the root (decomposition into propagators, fixpoint after every posting), then the search loop — answers unsat only for models without solutions and sat a only for a solution of the model, for every model of the modelled constraint kinds, every decision strategy and fuel (Model/Narrow.lean: propagation only narrows; compile_fwd / compile_bwd; rootFix_sound; search invariants); pdrive runs exactly this function on the replayed decisions. nolearning_search_unsat_sound / nolearning_search_sat_sound: Model/Search.lean models the search loop itself in its simplest configuration (ConflictResolver::NoLearning, no restarts: decide, propagate to the fixpoint, on conflict undo the last decision and post its negation, repeatedly; solution when the brancher has no decision left; unsat on a conflict at the root) over the propagator models, with the decision strategy as a parameter; for EVERY strategy, fuel and start state the answer unsat is only given if no assignment in the start domains satisfies all propagators' constraints (DFS covering invariant over the open alternatives) and sat a only for an a satisfying all of them. Tied exactly: the decisions of real NoLearning solves (all brancher families) are replayed through the model, which must be in the same domains at every decision point, also after every backtrack, and give the same answer (`nlsearch` records, 1500 solves per quick run). root_conflict_unsat / search_conflict_sound: an infeasibility reported while posting (Pg.rootFix = conflict) is only reported for models without solutions and a conflict of the propagation fixpoint after a decision refutes the current domains, for every model of the modelled constraint kinds (propagator models of Model/Propagation.lean, tied to the real solver by the exact `fix` correspondence run under C17/C12). recursive_minimiser_preserves_meaning: Model/RecMin.lean mirrors recursive_minimiser.rs (initial labels, allowed decision levels, compute_label with its depth cut-off, decision / level / Poison rules, the sweep which keeps Poison and Keep) over opaque predicates and an arbitrary reason graph; proved for every nogood, every acyclic reason graph and every depth limit: whenever the kept predicates hold, all predicates of the original nogood hold (removeDominated_sound), and nothing is invented (recursive_minimiser_subset). Tied exactly: the hook records every run of the real minimiser (initial labels, each compute_label call with its outcome and the non-root antecedents of each requested reason, result) and the model, fed with that reason graph, must keep the same predicates in the same order and make the same sequence of calls with the same outcomes; the observed reason graph must be acyclic; through the hook the depth limit is lowered to 1-6 on a third of the cases so that the cut-off branch runs on small models. semantic_minimiser_preserves_meaning: Model/SemMin.lean mirrors semantic_minimiser.rs (apply_predicates, hole propagation loops, redundant-hole removal, consistency, description relative to the original domain, equality merging) and is proved meaning-preserving for every nogood, every original domain and every assignment; tied exactly: the hook records input and output of every call of the real minimiser during search and the model must return the same set of predicates (or 'trivially false'). Proof: the oracle is exact (mem_solutions, solutions_eq_nil_iff), so an accepted Unsatisfiable verdict or posting error means the (prefix) model has no satisfying assignment, and a prefix-unsat model is unsat. Tie to code: every verdict of satisfy and every Err from post/add_clause on generated models is judged against the oracle; non-termination is observed as a poll cap / wall-clock cap.",
        "level_note": LEVEL_NOTE_COMMON + "Completeness (termination) of real CDCL with restarts/deletion is not a theorem; observed only.",
        "assumptions": ["termination is observed as: no solve exceeds 2,000,000 polls of the termination condition and no case exceeds the stream timeout"],
    },
    "C03": {
        "streams": [
            {"name": "iterate", "mode": "answers", "quick": 300, "thorough": 8000,
             "args": ["--mix", "iterate=4,iterprefix=1", "--maxproduct", "6000"]},
        ],
        "relevant": panic_or({"solset", "subset", "bad", "partial"}, ["iterate", "iterprefix"]),
        "level_text": "Proof: `iterate` models solution_iterator.rs (solve, yield, add blocking clause over all variables); theorem iterate_exact: for every sound+complete solve oracle the iteration is a permutation of the verified solution list (nothing missing/repeated/foreign), iterate_prefix for every prefix, blocking_sat: the blocking clause excludes exactly the yielded assignment. Tie to code: the real iterator is run to the end (and to random prefixes) and the reported list is accepted iff it is such a permutation (checkSolSet_perm).",
        "level_note": LEVEL_NOTE_COMMON + "The theorem is relative to SolveSpec (= C01 + C02).",
    },
    "C04": {
        "streams": [
            {"name": "optimise", "mode": "answers", "quick": 400, "thorough": 10000, "args": ["--mix", "optimise=1"]},
        ],
        "relevant": panic_or({"opt", "improving", "sol", "partial", "verdict"}, ["optimise"]),
        "level_text": "lus_optimal / optimiseMinLus_spec: the lower-bounding loop of linear_unsat_sat.rs (assume obj <= root bound; on failure make obj >= bound+1 hard) returns an optimum within objective(w)-lb+1 rounds for every sound+complete oracle and every sound root bound. Proof: `lsu` models linear_sat_unsat.rs (cut objective <= best-1 as root clause, loop until unsat); theorems lsu_optimal / optimiseMin_optimal / optimiseMin_unsat_iff: for every sound+complete oracle the result is a solution of the original model that no solution beats, Unsatisfiable iff no solution; maximise_via_negation for the scaled(-1) objective. Tie to code: optimise() with both procedures, both directions and view objectives on generated models; result kind, optimum value (= verified `optimum`), every callback solution and strict improvement are judged.",
        "level_note": LEVEL_NOTE_COMMON + "The root lower bound used by LUS is abstract (RootLb: never above a solution's objective, reflects a posted bound); the oracle `Solve` is any sound and complete solve (C01 + C02).",
    },
    "C05": {
        "streams": [
            {"name": "assume", "mode": "answers", "quick": 400, "thorough": 10000, "args": ["--mix", "assume=1"]},
            {"name": "assume-eq-nolearning", "mode": "answers", "quick": 1200, "thorough": 20000,
             "args": ["--mix", "assume=1", "--eqassume", "1", "--nolearning", "1"]},
            {"name": "assume-eq", "mode": "answers", "quick": 600, "thorough": 10000,
             "args": ["--mix", "assume=1", "--eqassume", "1"]},
        ],
        "relevant": panic_or({"asol", "averdict", "core", "conflicting", "sol", "verdict", "partial"}, ["assume"]),
        "level_text": "Proof: checkCore_iff (accepted core <-> IsCore: every core predicate implied by the assumptions within the declared domains, model /\\ core inconsistent), core_refutes, withAtoms_sat; Atom.mutex models Predicate::is_mutually_exclusive_with arm by arm with mutex_iff (exactness over all integers). Tie to code: 1-3 assumption solves (all predicate kinds, duplicates, contradictory pairs, root-true/false) + a plain solve afterwards on one solver; every solution, verdict, core and conflicting-pair report is judged.",
        "level_note": LEVEL_NOTE_COMMON,
    },
    "C06": {
        "streams": [
            {"name": "proof", "mode": "proof", "quick": 3000, "thorough": 40000, "args": []},
        ],
        "relevant": lambda kind, rec, case: True,
        "lean_modules": ["Pumpkin.Check.DrcpCheck", "Pumpkin.Check.AtomRup"],
        "level_text": "Proof: Check/DrcpCheck.lean is a verified DRCP checker over Check/AtomRup.lean (domain-aware reverse unit propagation on atomic constraints, rup_sound). stepCheck_inv / runSteps_inv: every accepted step keeps the invariant that all window inferences and live nogoods hold in every solution (that also satisfies the improvement axioms used so far); checkDrcp_unsat_sound: accepted UNSAT proof => the model has no solution; checkDrcp_bound_sound_min/max: accepted optimality proof => no solution beats the concluded bound; accepted_nogoods_implied; inference_follows_from_its_constraint (a tagged inference is entailed by exactly the tagged constraint, checkInference_iff); conclusion_needs_empty_nogood; with hints a nogood may use only the listed steps (usable_sub). Tie to code: random models (planted 25%) are posted with names and tags on a solver with ProofLog::cp in scaffold / full / hinted mode, solved by satisfy, LSU or LUS under random options and branchers (UIP learning, with/without minimisation); the .drcp and .lits files are read with the repo's own reader, every used literal code must be defined, and the whole certificate is judged by the verified checker against the Spec model (UNSAT => refutation accepted; optimal => bound equals the verified optimum and, when the proof refutes the axioms, the checker derives the same bound).",
        "level_note": LEVEL_NOTE_COMMON + "An optimality proof whose steps are all valid but which contains no refutation of the improvement axioms (LUS proofs, which state the bound found by core-guided search) is accepted as 'steps valid' and its bound is judged by the verified optimum instead of by the proof. Untagged inferences (posted clauses) are accepted when they follow from one constraint plus the unit nogoods derived so far. Scaffold proofs carry no inferences: only the nogood skeleton, the conclusion and the literal definitions are checked.",
    },
    "C07": {
        "streams": [
            {"name": "configs", "mode": "configs", "quick": 120, "thorough": 3000, "args": ["--nconfigs", "6", "--maxproduct", "6000"]},
            {"name": "bigsearch", "mode": "bigsearch", "quick": 1200, "thorough": 20000, "args": []},
        ],
        "relevant": c07_relevant,
        "level_text": "Proof: the specification-level answers are functions of the model alone; accepted_sets_agree / accepted_optima_agree / iterate_config_free / optimise_config_free: any two accepted answers (or any two sound+complete solve procedures) agree on verdict, solution set (as permutation) and optimum. Tie to code: each generated model is solved under 6 option vectors (default, NoLearning, frequent restarts, database limits 0-5, both sortings, seeds, all brancher families) and every answer is judged against the oracle, hence pairwise equal.",
        "level_note": LEVEL_NOTE_COMMON,
    },
    "C10": {
        "streams": [
            {"name": "history", "mode": "history", "quick": 500, "thorough": 12000, "args": []},
        ],
        "relevant": c10_relevant,
        "level_text": "Correspondence-centred: random histories (3-10 operations: new variable, post, satisfy, assumptions +/- core, iterate k, optimise LSU/LUS) on one real solver under catch_unwind; every answer is judged by the verified acceptors against the model accumulated so far (posted constraints + blocking clauses + LSU cuts), any panic or hang is a violation. Lean: the acceptors' soundness theorems and the accumulated-model lemmas (solutions_addCons, more_constraints_fewer_solutions).",
        "level_note": LEVEL_NOTE_COMMON + "No Lean automaton of CSPSolverState yet; the life-cycle is exercised, not proved.",
        "level": "proof",
    },
    "C11": {
        "streams": [
            {"name": "interrupt", "mode": "interrupt", "quick": 800, "thorough": 12000, "args": []},
        ],
        "relevant": c11_relevant,
        "level_text": "Fault enumeration over poll indices tied to the verified acceptors: for each model/procedure the number N of polls of an uninterrupted run is measured, then the run is repeated with should_stop first true at k in {0,1,2,N-1,N, random} (thorough: 40 more): any definitive answer given must be correct (oracle), a best-so-far solution must be a solution; then the same solver+brancher is asked again uninterrupted and must answer correctly. Lean: acceptor soundness; lsu_optimal shows a best-so-far incumbent is always a solution of the original model.",
        "level_note": LEVEL_NOTE_COMMON,
    },
    "C12": {
        "streams": [
            {"name": "bounds", "mode": "bounds", "quick": 300, "thorough": 8000, "args": []},
            {"name": "fixroot", "mode": "fix", "quick": 1500, "thorough": 40000, "args": []},
            {"name": "store", "mode": "asg", "quick": 1500, "thorough": 40000, "args": []},
        ],
        "relevant": c12_relevant,
        "lean_modules": ["Pumpkin.Model.Propagation", "Pumpkin.Model.PropagationCompile", "Pumpkin.Model.Assignments", "Pumpkin.Model.AssignmentsSound", "Pumpkin.Model.AssignmentsState", "Pumpkin.Model.AssignmentsRefine"],
        "level_text": "Proof: store_bounds_tight / store_domain_is_trail / store_post_exact / store_backtrack_restores: Model/Assignments.lean mirrors the domain store engine/cp/assignments.rs (chronological lower/upper-bound update lists, hole updates with their bound-moved flags, bounds skipping over holes until the domain is empty, one trail entry per real change, [x == v] split in two, synchronise popping and undoing entries) and for EVERY sequence of operations (creation at the root, posting any predicate incl. ones which empty a domain, new levels, backtracking): the domains are the replay of the trail, a value is in a domain iff the declared interval and every trail predicate allow it, posting removes exactly the excluded values, reported bounds of a non-empty domain are values of the domain, and backtracking restores the earlier state exactly; tied exactly: random operation sequences are run on the real Assignments through a forwarding hook and every observable after every operation (bounds, value sets, results, trail entries, bounds / membership at every past trail position, evaluate and the trail position / decision level of every predicate, the unfixed list of synchronise) must equal the model's (`asg` records, 1500 sequences per quick run). root_state_encloses: the modelled root state Pg.rootFix (constraints posted one after the other, decomposed into propagators as pumpkin_solver::constraints does — compile_fwd proves the decomposition keeps the meaning, compile_wf the variables — each propagated to the fixpoint of the propagator models of Model/Propagation.lean, pass_ok) contains the value of every variable in every solution, for every model of the modelled constraint kinds; tied exactly: the real root domains of every variable after posting (observed through a recording brancher) must equal the model's (`fix root` records, 1500 models per quick run), and the oracle checks them against the solution set. bounds_enclose / view_bounds_enclose (accepted bounds enclose every solution), view_rule (AffineView bound rule with swap on negative scale is enclosing), more_constraints_fewer_solutions. Tie to code: after every posting step lower_bound/upper_bound of every variable and of random views and get_literal_value are read from the real solver: must enclose all oracle solutions, lie in the declared domain, be monotone along the sequence, and equal the view rule applied to the inner bounds.",
        "level_note": LEVEL_NOTE_COMMON,
    },
    "C18": {
        "streams": [
            {"name": "branchers", "mode": "branchers", "quick": 700, "thorough": 14000, "args": ["--allow-subset-random", "1"]},
            {"name": "bigsearch", "mode": "bigsearch", "quick": 3000, "thorough": 30000, "args": []},
        ],
        "relevant": c18_relevant,
        "level_text": "Correspondence: a checking wrapper (possible only through the Assignments re-export hook) around every built-in brancher during real solves: all 10x14 variable x value selector pairs are cycled deterministically, plus DynamicBrancher, AlternatingBrancher (4 strategies), AutonomousSearch, the default brancher; each proposed decision must be over one of the brancher's variables and currently unassigned, and `None` only when all its variables are fixed; reported solutions must be total. Lean: value-selector models with undecidedness theorems (Model/Branching.lean).",
        "level_note": LEVEL_NOTE_COMMON,
    },
    "C08": {
        "streams": [
            {"name": "cumulative", "mode": "answers", "quick": 3000, "thorough": 60000,
             "args": ["--mix", "iterate=3,satisfy=1,optimise=1", "--kinds", "cumul,cumul,cumul,linle,impl,clause", "--maxproduct", "4000"]},
            {"name": "cumulative-tap", "mode": "tap", "quick": 150, "thorough": 4000,
             "args": ["--kinds", "cumul,cumul,linle"]},
            {"name": "cumulative-probe", "mode": "probe", "quick": 1500, "thorough": 30000,
             "args": ["--kinds", "cumul", "--probes", "200"]},
            {"name": "timetable", "mode": "fix", "quick": 1500, "thorough": 40000, "args": ["--kinds", "cumul"]},
        ],
        "relevant": panic_or({"solset", "subset", "sol", "verdict", "opt", "partial", "bad", "infer", "fix"}, ["iterate", "satisfy", "optimise", "tap", "fix"]),
        "lean_modules": ["Pumpkin.Model.Cumulative", "Pumpkin.Model.CumulativeSound"],
        "level_text": "Proof: timetable_never_prunes / timetable_fixpoint_never_prunes / timetable_conflict_sound — Model/Cumulative.lean is time-table filtering as a function on domains (tasks with zero duration or usage dropped, a usage above the capacity is infeasible, profile of mandatory parts [ub, lb+p), conflict when a profile exceeds the capacity, a task outside a profile which it would overflow is pushed off that time point: lower bound to t+1, upper bound to t-p, with allow_holes_in_domain the start times t-p+1..t removed); proved for EVERY domain state, task list (views as start times, negative times, zero durations/usages), capacity and holes flag: it never removes the start times of an assignment which satisfies the constraint under its documented time-point meaning and reports a conflict only if there is none (via cumulative_sat_iff). Tied: the fixpoint of these rules is what all six propagator variants compute; the real solver's domains at every decision point of solves over cumulative-only models (all 144 option combinations) must equal the model's fixpoint (`fix` records, 1500 solves per quick run; > 99.7 % are equal, the rest are WEAKER than the model — the incremental variants and tasks sharing a start variable occasionally miss a propagation, which the property does not forbid — counted in the evidence; a real state STRONGER than the model breaks the correspondence and is judged by the oracle). cumulative_sat_iff — the executable test used by the oracle (load at every task start <= capacity, 0 <= capacity) is equivalent to the documented meaning (at EVERY integer time point the usages of the running tasks sum to at most the capacity) for non-negative usages; loadAt_drop_zero — zero-usage / zero-duration tasks never contribute. Tie to code: models built around cumulative constraints (durations 0-3, usages 0-3, capacity 0-4, negative / scaled / offset / sparse start times, half-reified) are iterated to completion under option sets drawn from all 144 CumulativeOptions combinations; each solution set must equal the oracle's; every explanation of every variant seen by the tap is checked by checkInference against the cumulative constraint.",
        "level_note": LEVEL_NOTE_COMMON + "The incremental time-table maintenance is not modelled; it is tied only through answers and explanations.",
    },
    "C09": {
        "streams": [
            {"name": "reified", "mode": "answers", "quick": 500, "thorough": 12000,
             "args": ["--mix", "iterate=3,satisfy=1,assume=1", "--kinds", "impl,impl,reif,reif,neg,linle,clause", "--maxproduct", "4000"]},
            {"name": "reified-stateful", "mode": "answers", "quick": 1000, "thorough": 20000,
             "args": ["--mix", "iterate=4,satisfy=1", "--kinds", "implstate,implstate,implstate,linle,clause", "--maxproduct", "4000"]},
        ],
        "relevant": panic_or({"solset", "subset", "sol", "asol", "verdict", "averdict", "partial", "bad"}, ["iterate", "satisfy", "assume"]),
        "level_text": "Proof: models of how the library builds reified constraints, proved equal to the documented meaning: reify_decomposition (reify = implied_by r /\ negation.implied_by not-r), negLinLe_sat (Inequality::negation is the complement), equals_decomposition, neg_eq_ne, neg_clause_conj, clause_implied_by, implied_sem / reif_sem (C01). Tie to code: every constraint kind under implied_by, every negatable kind under reify and negation() (also doubly negated), reification literal shared between constraints and fixed by other constraints either way; solution sets compared with the oracle.",
        "level_note": LEVEL_NOTE_COMMON + "ReifiedPropagator's cached inconsistency / notify filtering is covered through answers and the tap, not by a Lean state machine yet.",
    },
    "C16": {
        "streams": [
            {"name": "big", "mode": "answers", "quick": 500, "thorough": 12000,
             "args": ["--big", "60", "--mix", "satisfy=2,iterate=2,optimise=1", "--kinds", "linle,lineq,linne,times,div,abs,max,min,elem"]},
            {"name": "bigbounds", "mode": "bounds", "quick": 200, "thorough": 4000,
             "args": ["--big", "60", "--kinds", "linle,lineq,linne,times,div,abs,max,min,elem"]},
            {"name": "wide", "mode": "answers", "quick": 500, "thorough": 5000,
             "args": ["--wide", "100", "--big", "60", "--viewpct", "0", "--mix", "satisfy=2,iterate=2,optimise=1", "--kinds", "linle,lineq,linne,max,min,abs"]},
        ],
        "relevant": lambda kind, rec, case: kind != "branchviolation" and kind != "valsel",
        "level_text": "Proof: the 32-bit instantiation of each arithmetic expression (view map, linear bound c-(lb_lhs-lb_i), products of bounds), written operation by operation as in the source, equals unbounded arithmetic exactly under explicit fits32 side conditions (…_exact) and provably differs beyond them (…_partial_witness, decide); div_ceil/div_floor and the view predicate translation are exact for all scales != 0 (View.gePred_sem / lePred_sem). Tie to code: models with huge-but-narrow domains (around ±2^31, ±2^30, ±2^16, ±46341) whose every view value fits i32 are solved with overflow checks on and compared with the oracle over unbounded Int. The full-strength property is FALSE for the unchanged tree (overflow panics at the sites listed as known findings); anything else — a wrong answer, a new file — is a violation.",
        "level_note": LEVEL_NOTE_COMMON + "dev profile (overflow-checks on): wrap-around shows as a panic; silent wrap in release builds is the same arithmetic event.",
    },
    "C17": {
        "streams": [
            {"name": "tap", "mode": "tap", "quick": 500, "thorough": 12000, "args": []},
            {"name": "probe", "mode": "probe", "quick": 1500, "thorough": 30000, "args": ["--probes", "200"]},
            {"name": "cumulative-probe", "mode": "probe", "quick": 1500, "thorough": 30000,
             "args": ["--kinds", "cumul", "--probes", "200"]},
            {"name": "fix", "mode": "fix", "quick": 2500, "thorough": 60000, "args": []},
            {"name": "timetable", "mode": "fix", "quick": 800, "thorough": 20000, "args": ["--kinds", "cumul"]},
            {"name": "store", "mode": "asg", "quick": 600, "thorough": 15000, "args": []},
        ],
        "relevant": panic_or({"infer", "minfer", "nogood", "bad", "implicit", "fix", "asg"}, ["tap", "fix", "asg"]),
        "lean_modules": ["Pumpkin.Model.ImplicitReason", "Pumpkin.Model.Propagation", "Pumpkin.Model.PropagationSound", "Pumpkin.Model.PropagationArith", "Pumpkin.Model.PropagationCompile", "Pumpkin.Model.Cumulative", "Pumpkin.Model.CumulativeSound", "Pumpkin.Model.AssignmentsHist"],
        "level_text": "Proof: Model/Propagation.lean models the propagators themselves as functions on domains, statement by statement after the Rust sources (LinearLeq, LinearNe, IntAbs, Maximum, IntTimes incl. propagate_signs, Division incl. sign normalisation / propagate_upper_bounds / propagate_positive_domains, Element (four phases), cumulative (time-table filtering at its fixpoint: Model/Cumulative.lean, posted with the default options; half-reified incl. the oversize-task decision at posting), the unit rule of the nogood propagator after add_permanent_nogood's semantic minimisation, the reified wrapper with detect_inconsistency and the initialise_at_root conflict), the decomposition of constraints into propagators (equals, not_equals, all_different, minimum, negation, implied_by, reify) and the fixpoint; pass_ok / propagation_never_prunes / propagation_conflict_sound / fixpoint_never_prunes prove for ALL domain states, views and constants that a pass (and the fixpoint of any set of propagators) never removes a value used by a solution of its constraint within the current domains and reports a conflict only if there is none (the division and multiplication rules included: truncating division, sign cases, ceil/floor bounds). Tied exactly: a recording brancher snapshots the domains of all variables at every decision point of real solves (`fix` records); root state = model of sequential posting, state after each decision = fixpoint of (previous state + decision), conflicts = model conflicts, exactly, until the first learned nogood (afterwards the real state must be a subset); independently the verified oracle checks that no value of a solution within the start domains is ever pruned. A mismatch that is not a pruned solution is reported as a broken correspondence (no-failing-input-found unless the run's oracle-judged records find one). implicit_reason_entails / implicit_reason_progress — Model/ImplicitReason.lean mirrors the nine arms (and assertion guards) of get_propagation_reason for predicates that are not literally on the trail; every reason it produces entails the explained predicate for ALL integer values and never contains it; tied exactly: the hook records the trail predicate next to each implicit reason and the model must produce the identical list. checkInference_iff — the acceptor for an explanation (premises -> conclusion, or -> false) is equivalent to semantic entailment from the single tagged constraint within the declared domains, hence sound AND complete (never rejects a valid explanation); accepted_propagation / accepted_conflict / never_prunes_solution / accepted_model_inference. Tie to code (hook: explanation tap): every propagation (reason computed immediately, lazy reasons included), every reported conflict, every reason handed to conflict analysis later (explicit, lazily recomputed, implicit) and every learned nogood during real searches is recorded with the propagator's tag and judged; 'all reason predicates hold in the state in which the reason is given' is evaluated inside the hook.",
        "level_note": LEVEL_NOTE_COMMON + "Enumeration limits trace acceptance to small domains; nogood-propagator reasons are judged against the whole model.",
    },
    "C19": {
        "streams": [
            {"name": "drcp", "mode": "drcp", "quick": 400, "thorough": 10000, "args": []},
        ],
        "relevant": lambda kind, rec, case: True,
        "lean_modules": ["Pumpkin.Model.Lits"],
        "level_text": "Model/Lits.lean models the literal definition file at byte level (LiteralDefinitions::write and the nom grammar of parse: atomic_definition, variable, atomic_list, int_atomic before bool_atomic, comparator, identifier, i64 with sign, trailing input ignored, blank lines skipped); lits_line_read_back / lits_file_read_back: every file the writer can produce for names [A-Za-z_][A-Za-z0-9_]* is read back unchanged, for all codes, comparisons, i64 values; tied exactly: written files and perturbed / hand-made variants must give the same accept/reject verdict and the same definitions as the real parser. Proof: Model/Drcp.lean models the writer (render) and the reader grammar (parse) at token level with the Rust types' ranges (NonZero i32 literals, u64 ids, u32 tags); parse_render: every well-formed step reads back unchanged (empty premise lists, empty nogoods with/without hints, empty hint lists, tag, label, extreme codes), parse_render_seq for sequences; IntAtomic.not_not / not64_not64 / BoolAtomic.not_not. Tie to code: random step sequences through the real ProofWriter must be byte-identical to the model's rendering (exact), the real ProofReader must return the written steps, on malformed token soups the real reader's accept/reject verdict and result must equal the model's; LiteralDefinitions write -> parse -> equal and deterministic; !!a == a through the real Not impl.",
        "level_note": LEVEL_NOTE_COMMON + "Lexing (characters <-> tokens, Rust integer Display / nom integer parsers) is glue checked by the exact correspondence, not proved.",
    },
    "C14": {
        "needs_cli": True,
        "streams": [
            {"name": "cnf", "py": cli_streams.stream_c14, "quick": 250, "thorough": 5000},
            {"name": "dimacs", "mode": "dimacs", "quick": 3000, "thorough": 100000, "args": []},
        ],
        "lean_modules": ["Pumpkin.Model.Dimacs", "Pumpkin.Model.DimacsLayout"],
        "relevant": lambda kind, rec, case: True,
        "level_text": "Proof: Check/Rup.lean is a verified clausal RUP checker — rup_sound (an accepted lemma holds in every model of the clause set, by an invariant over unit propagation), checkProof_sound / accepted_proof_refutes (an accepted proof file refutes the formula), needs_empty_clause; lit_sem ties the DIMACS reading of a literal to the Spec's 0-1 model. Tie to code (black box, CLI built from the working tree): generated CNFs (0-8 variables; empty formula, empty clause, units, duplicate and tautological clauses, dense unsatisfiable ones) are each written in three layouts (canonical; comments / tabs / blank lines / clauses broken over lines with comments in between / several clauses per line / CRLF; header with repeated blanks or as last line without newline); every s-line is judged against the oracle, every v-line must satisfy all clauses, the three verdicts must be equal, and with --proof-path the proof file must be accepted by the verified checker. Model/Dimacs.lean mirrors the byte-level state machine of parsers/dimacs.rs (parse_chunk, finish_literal, finish_clause, init_formula, CNFHeader::from_str, complete); Model/DimacsLayout.lean proves layout_independent: every file of the layout family (comment lines and blank space before the header, arbitrary blank runs in the header, literals and terminators separated by arbitrary non-empty white-space runs, comment lines wherever a line starts, clauses broken over lines or several per line) is parsed to exactly the formula it denotes, for all formulas and all such layouts (two_layouts_agree). Tie: the real parser source is compiled into the harness with a recording sink and must give exactly the model's result (clauses or error kind) on generated files of the family, perturbations of them and junk, read in random chunk sizes.",
        "level_note": LEVEL_NOTE_COMMON + "The byte-level parser is exercised black-box; no Lean model of the DIMACS state machine yet.",
    },
    "C15": {
        "needs_cli": True,
        "streams": [
            {"name": "wcnf", "py": cli_streams.stream_c15, "quick": 250, "thorough": 5000},
            {"name": "wcnfparse", "mode": "dimacs", "quick": 3000, "thorough": 100000, "args": ["--wcnf", "1"]},
        ],
        "lean_modules": ["Pumpkin.Model.Dimacs"],
        "relevant": lambda kind, rec, case: True,
        "level_text": "Model/Dimacs.lean also mirrors parse_wcnf (header `p wcnf v c top`, the weight in front of each clause, weight = top means hard, the callback's panics on an empty or non-positively weighted clause): the real parser (compiled into the harness with a recording sink) must return exactly the model's hard / weighted soft clauses or error kind on generated WCNF files, perturbations and junk. Proof: Check/MaxSat.lean — maxsatOpt_spec (the oracle value is attained by a hard-satisfying assignment and no hard-satisfying assignment is cheaper), maxsatOpt_none_iff, checkMaxSat_sound (an accepted answer: the printed model satisfies the hard clauses, costs exactly the reported value, which is optimal), encodings_agree. Tie to code (black box): generated WCNFs (1-7 variables, unit / empty / duplicate soft clauses, soft clauses decided at the root in both polarities, weights 1-9 and a few large, hard part sometimes unsatisfiable) are solved by the CLI with both upper-bound encodings and random seeds; the last o-line, the v-line and the status are judged; the o-lines must strictly decrease; both encodings must report the same optimum.",
        "level_note": LEVEL_NOTE_COMMON + "linear_search_optimal proves the linear search of maxsat/optimisation/linear_search.rs optimal given the contract of the upper-bound encoders (after constrain_at_most_k k the solver answers for hard clauses and cost <= k; the constant term is a lower bound); the encoders themselves (generalised totaliser, cardinality network) are exercised end-to-end, not modelled.",
    },
    "C13": {
        "needs_cli": True,
        "streams": [
            {"name": "fzn", "py": cli_streams.stream_c13, "quick": 300, "thorough": 6000},
        ],
        "relevant": lambda kind, rec, case: True,
        "level_text": "Proof: the standard meaning of the builtins as Spec constraints (the table used to translate a generated FlatZinc model into a Spec model) is proved to say what the FlatZinc standard says (int_le/lt/eq/ne_sem, int_plus_sem, bool_not_sem over 0-1 values, element_index_shift for the 1-based index, set_in_sem), reification via C09, -a completeness via checkSolSet_perm. Tie to code (black box, CLI built from the working tree): generated .fzn models over 41 builtins (ranges, set-typed and fixed declarations, constants as arguments, search annotations) run with/without -a, -f, random seeds and both optimisation strategies; every printed assignment must be a solution, with -a the printed set must equal the oracle's solution set and end with the completeness line, =====UNSATISFIABLE===== only if there is no solution, and for minimize/maximize the last solution's objective must be the verified optimum.",
        "level_note": LEVEL_NOTE_COMMON + "The third-party flatzinc parser crate and the compiler passes (prepare_variables, merge_equivalences, collect_domains, search strategy construction) are tied only through the answers.",
    },
    "C20": {
        "needs_cli": True,
        "level": "other",
        "streams": [
            {"name": "repro", "py": cli_streams.stream_c20, "quick": 120, "thorough": 2500},
        ],
        "relevant": lambda kind, rec, case: True,
        "level_text": "Other (inventory theorem + divergence search): the translator regenerates Gen/Ambient.lean from the current sources — every hash container with std's randomly seeded hasher (classified: look-ups only / iteration sorted / iterated), every clock, entropy source, environment access and pointer-to-integer cast — and Lean proves by kernel evaluation that every entry is of an allowed class (ambient_ok); Gen/Tables.lean pins the option spaces. The property itself is decided by running identical invocations twice in separate processes with different environment size and working directory: library runs through the harness (solution order, verdicts, cores, poll and decision counts, explanations) and CLI runs on CNF (+DRAT file), WCNF and FlatZinc (+ .drcp and .lits files, statistics with the time-valued lines removed) across seeds and options; all bytes must be equal.",
        "level_note": "A Lean proof cannot exhibit hashbrown iteration order, allocator addresses or the wall clock; the inventory classification is a syntactic analysis by the translator (trusted). " + LEVEL_NOTE_COMMON,
        "explanation": "inventory theorem (Lean, decide) + replay-divergence search over separate processes",
    },
}
