"""Per-property configuration of ./check: harness streams, which driver verdicts count for the
property, Lean modules/theorems beyond Props/<id>.lean."""

ALL_SCEN = "satisfy=3,iterate=2,iterprefix=1,optimise=2,assume=2"


def kinds(*ks):
    s = set(ks)
    return lambda kind, rec, case: kind in s


def c01_relevant(kind, rec, case):
    # every solution handed out by any entry point
    return kind in ("sol", "asol", "partial") or (kind in ("subset", "solset") and False)


def c02_relevant(kind, rec, case):
    if kind == "verdict":
        return True
    if kind == "nonterm":
        return True
    if kind == "sol" and " satisfy " in rec + " ":
        return True  # a returned solution proves "satisfiable"; validity is C01's concern, but the verdict is ours
    return False


HOOK_COMMITS = [
    "e321c05af721a8d9561389c159d6dfceedd0897d",
    "d74f5a917363a9bc2d3a5d81e0e790775a0fb827",
]

LEVEL_NOTE_COMMON = (
    "Trusted: Lean 4.33 kernel; axioms ⊆ {propext, Classical.choice, Quot.sound} (audited by #print axioms every run); "
    "the correspondence is differential testing (bounded, seeded): Rust harness + token parser of the Lean driver + generators; "
    "Spec/Basic.lean is the reading of the documented constraint semantics. "
)

PROPS = {
    "C01": {
        "streams": [
            {"name": "answers", "mode": "answers", "quick": 400, "thorough": 12000,
             "args": ["--mix", ALL_SCEN]},
        ],
        "relevant": c01_relevant,
        "level_text": "Proof: Lean theorems state that an accepted solution lies in the declared domains and satisfies every constraint under the Spec semantics (views, half/full reification), and that acceptance = membership in the verified oracle `solutions`. Tie to code: every solution handed out by satisfy / iterator / assumptions / optimise (result and callbacks) of the real solver on generated models is judged by that verified acceptor.",
        "level_note": LEVEL_NOTE_COMMON + "Not modelled line by line: search loop, 2-watch scheme, time-table bookkeeping (covered only through the answers they produce).",
        "assumptions": [
            "solutions are judged by Model.sat of lean/Pumpkin/Spec/Basic.lean (the documented meaning of each constraint)",
            "models are generated with at most ~20k assignments so that the oracle can enumerate",
        ],
    },
    "C02": {
        "streams": [
            {"name": "answers", "mode": "answers", "quick": 500, "thorough": 15000,
             "args": ["--mix", "satisfy=5,iterate=1,optimise=1,assume=1"]},
        ],
        "relevant": c02_relevant,
        "level_text": "Proof: the oracle is exact (mem_solutions, solutions_eq_nil_iff), so an accepted Unsatisfiable verdict or posting error means the (prefix) model has no satisfying assignment, and a prefix-unsat model is unsat. Tie to code: every verdict of satisfy and every Err from post/add_clause on generated models is judged against the oracle; non-termination is observed as a poll cap.",
        "level_note": LEVEL_NOTE_COMMON + "Completeness (termination) of real CDCL with restarts/deletion is not a theorem; observed only.",
        "assumptions": [
            "termination is observed as: no solve exceeds 2,000,000 polls of the termination condition",
        ],
    },
}
