#!/usr/bin/env python3
"""Writes MANIFEST.json from tools/props.py (claimed properties) and properties.jsonl."""
import json
import os
import sys

ROOT = os.path.dirname(os.path.dirname(os.path.abspath(__file__)))
sys.path.insert(0, os.path.join(ROOT, "tools"))
import props  # noqa: E402

ids = [json.loads(l)["id"] for l in open(os.path.join(ROOT, "properties.jsonl"))]
checks = []
na = []
for pid in ids:
    spec = props.PROPS.get(pid)
    if spec is None or spec.get("not_applicable"):
        na.append({"property_id": pid, "reason": (spec or {}).get("not_applicable", "check not built yet in this session (planned in DESIGN.md section 5)")})
        continue
    checks.append({
        "property_id": pid,
        "quick_cmd": f"./check {pid} --tier quick",
        "thorough_cmd": f"./check {pid} --tier thorough",
        "evidence_file": f"evidence/{pid}.json",
        "replay_cmd_template": f"./check {pid} --replay {{path}}",
        "engine": "lean4+harness",
        "level_claimed": {
            "category": spec.get("level", "proof"),
            "text": spec["level_text"],
            "design_ref": f"DESIGN.md section 5, {pid}",
        },
        "level_note": spec["level_note"],
        "technique": spec.get("technique", "Lean 4 theorems over a model + differential correspondence check against the code"),
    })
manifest = {
    "version": 1,
    "setup_cmd": "./setup.sh",
    "hooks": {
        "guard": "cargo feature verif-hooks (pumpkin-solver)",
        "enable": "the harness depends on pumpkin-solver with features = [\"verif-hooks\"] (harness/Cargo.toml); cargo build --offline in /verif/harness",
        "baseline_off_cmd": "cd /repo && cargo test --workspace --no-fail-fast --offline",
        "source_commits": props.HOOK_COMMITS,
        "add_only": True,
    },
    "engines": [
        {"name": "lean4+harness", "path": "lean/ harness/ check",
         "serves_properties": [c["property_id"] for c in checks],
         "kind_free_text": "Lean 4 library (Spec, Model, Check, Props) with a compiled line-protocol driver (pdrive); Rust harness crate linking the real pumpkin-solver from /repo's working tree; python orchestrator ./check"},
    ],
    "checks": checks,
    "not_applicable": na,
    "notes": "See DESIGN.md. Known findings: known_findings.json.",
}
json.dump(manifest, open(os.path.join(ROOT, "MANIFEST.json"), "w"), indent=1)
print(f"MANIFEST.json: {len(checks)} checks, {len(na)} not applicable")
