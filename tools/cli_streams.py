"""Black-box correspondence streams over the command-line solver (built from /repo's working tree
into .work/cli-target): generated CNF / WCNF / FlatZinc files -> stdout -> records for the Lean driver."""
import os
import random
import re
import subprocess
import time


def cli_run(chk, args, timeout=20):
    try:
        p = subprocess.run([chk.CLI] + args, stdout=subprocess.PIPE, stderr=subprocess.PIPE, text=True, timeout=timeout)
        return p.returncode, p.stdout, p.stderr
    except subprocess.TimeoutExpired:
        return -9, "", "timeout"


# ------------------------------------------------------------------------------------------------
# C14: DIMACS CNF
# ------------------------------------------------------------------------------------------------

def gen_cnf(r):
    n = r.choice([0, 1, 2, 3, 4, 5, 6, 7, 8])
    if n == 0:
        m = r.choice([0, 0, 1])
        return 0, [[] for _ in range(m)]
    kind = r.random()
    if kind < 0.25:
        # dense: likely unsatisfiable
        m = r.randint(2 * n, 5 * n + 4)
        width = (1, 3)
    elif kind < 0.35:
        m = r.randint(0, 3)
        width = (0, 3)
    else:
        m = r.randint(1, 4 * n)
        width = (1, 4)
    clauses = []
    for _ in range(m):
        k = r.randint(*width)
        if r.random() < 0.04:
            k = 0  # the empty clause
        c = [r.choice([-1, 1]) * r.randint(1, n) for _ in range(k)]
        if c and r.random() < 0.08:
            c.append(-c[0])  # tautology
        if c and r.random() < 0.08:
            c.append(c[0])   # duplicate literal
        clauses.append(c)
        if r.random() < 0.08:
            clauses.append(list(c))  # duplicate clause
    return n, clauses


def render_cnf(r, n, clauses, style):
    """style 0: canonical; 1: noisy layout (comments, tabs, blank lines, clauses broken over lines, several
    clauses per line, trailing blanks, CRLF); 2: header variations."""
    if style == 0:
        out = [f"p cnf {n} {len(clauses)}\n"]
        for c in clauses:
            out.append(" ".join(map(str, c + [0])) + "\n")
        return "".join(out)
    ws = lambda: r.choice([" ", " ", "  ", "\t", " \t "])
    nl = lambda: r.choice(["\n", "\n", "\r\n", " \n", "\n\n", "\n \n"])
    out = []
    if style == 1:
        if r.random() < 0.5:
            out.append("c a comment before the header\n")
        if r.random() < 0.3:
            out.append("\n")
        out.append(f"p cnf {n} {len(clauses)}" + r.choice(["\n", " \n", "\r\n"]))
    else:
        hws = lambda: r.choice([" ", "  ", " \t", "\t"])
        out.append("p cnf" + " " + hws().lstrip(" ") + f"{n}" + hws() + f"{len(clauses)}")
        if clauses or r.random() < 0.5:
            out.append("\n")
        # header as last line without newline only when there are no clauses
    for c in clauses:
        toks = list(map(str, c + [0]))
        line = ""
        for i, t in enumerate(toks):
            line += t
            if i + 1 < len(toks):
                x = r.random()
                if x < 0.2:
                    line += "\n"            # new-line directly after a literal
                    if r.random() < 0.4:
                        line += "c comment inside a clause\n"
                elif x < 0.3:
                    line += " \n" + ("c another comment\n" if r.random() < 0.3 else "")
                else:
                    line += ws()
        out.append(line)
        out.append(r.choice([nl(), ws(), nl(), nl() + "c trailing comment\n"]))
    if r.random() < 0.3:
        out.append("\n\n")
    return "".join(out)


def cnf_model_text(n, clauses):
    parts = [str(n)] + ["2 0 1"] * n + [str(len(clauses))]
    for c in clauses:
        atoms = []
        for l in c:
            atoms.append(f"ge {l-1} 1" if l > 0 else f"le {-l-1} 0")
        parts.append(f"clause {len(c)} " + " ".join(atoms))
    return " ".join(" ".join(parts).split())


def clause_list_text(cls):
    return f"{len(cls)} " + " ".join(f"{len(c)} " + " ".join(map(str, c)) for c in cls)


def parse_proof(path):
    lemmas = []
    if not os.path.exists(path):
        return None
    for line in open(path):
        line = line.strip()
        if not line or line.startswith("c"):
            continue
        if line.startswith("d"):
            continue  # deletions: ignoring them keeps the check sound
        toks = line.split()
        lits = [int(t) for t in toks]
        if lits and lits[-1] == 0:
            lits = lits[:-1]
        lemmas.append(lits)
    return lemmas


def stream_c14(stream, seed, tier, pid, chk):
    n_cases = stream["thorough"] if tier == "thorough" else stream["quick"]
    r = random.Random(seed * 7919 + 14)
    work = os.path.join(chk.WORK, "c14")
    os.makedirs(work, exist_ok=True)
    rec_path = os.path.join(chk.WORK, f"{pid}_{stream['name']}.rec")
    t0 = time.time()
    lines = []
    for i in range(n_cases):
        n, clauses = gen_cnf(r)
        cid = f"{seed}-{i}"
        lines.append(f"case {cid} scen=cnf nvars={n} nclauses={len(clauses)}")
        lines.append("model " + cnf_model_text(n, clauses))
        verdicts = []
        for style in (0, 1, 2):
            text = render_cnf(r, n, clauses, style)
            path = os.path.join(work, f"f{i}_{style}.cnf")
            with open(path, "w", newline="") as f:
                f.write(text)
            proof = os.path.join(work, f"f{i}_{style}.drat")
            if os.path.exists(proof):
                os.remove(proof)
            args = [path]
            if style != 1:
                args += ["--proof-path", proof]
            if style == 2:
                args += ["--random-seed", str(r.randint(0, 999))]
            rc, out, err = cli_run(chk, args)
            s_line = [l for l in out.split("\n") if l.startswith("s ")]
            v_line = [l for l in out.split("\n") if l.startswith("v ")]
            lines.append(f"# layout{style} rc={rc} text={text!r}")
            if rc != 0 or len(s_line) != 1:
                msg = (out + err).strip().replace("\n", " | ")[-300:].replace(" ", "_")
                lines.append(f"bad cli-no-verdict layout={style} rc={rc} {msg}")
                verdicts.append("error")
                continue
            if s_line[0] == "s SATISFIABLE":
                verdicts.append("sat")
                if len(v_line) != 1:
                    lines.append(f"bad cli-no-model-line layout={style}")
                    continue
                lits = [int(t) for t in v_line[0][2:].split()]
                if not lits or lits[-1] != 0:
                    lines.append(f"bad cli-model-line-not-terminated layout={style}")
                lits = [l for l in lits if l != 0]
                vals = [None] * n
                okm = True
                for l in lits:
                    if abs(l) > n or vals[abs(l) - 1] is not None:
                        okm = False
                    else:
                        vals[abs(l) - 1] = 1 if l > 0 else 0
                if not okm or any(v is None for v in vals):
                    lines.append(f"bad cli-model-line-malformed layout={style} line={v_line[0].replace(' ', '_')}")
                else:
                    lines.append(f"sol cli-layout{style} " + " ".join(map(str, vals)))
            elif s_line[0] == "s UNSATISFIABLE":
                verdicts.append("unsat")
                lines.append(f"verdict cli-layout{style} unsat")
                if style != 1:
                    lemmas = parse_proof(proof)
                    if lemmas is None:
                        lines.append(f"bad cli-no-proof-file layout={style}")
                    else:
                        lines.append(f"drat layout{style} {clause_list_text(clauses)} {clause_list_text(lemmas)}")
            else:
                verdicts.append("other")
                lines.append(f"bad cli-unexpected-status layout={style} {s_line[0].replace(' ', '_')}")
        lines.append(f"same verdict-across-layouts {verdicts[0]}|{verdicts[0]}|{verdicts[0]} {'|'.join(verdicts)}")
    with open(rec_path, "w") as f:
        f.write("\n".join(lines) + "\n")
    cases = chk.load_cases(rec_path, f"./check {pid} (python stream {stream['name']}, seed {seed})", stream["name"])
    return cases, time.time() - t0, rec_path


# ------------------------------------------------------------------------------------------------
# C15: MaxSAT (WCNF)
# ------------------------------------------------------------------------------------------------

def gen_wcnf(r):
    n = r.randint(1, 7)
    hard = []
    soft = []
    nh = r.choice([0, 0, 1, 2, 3, n, 2 * n])
    for _ in range(nh):
        k = r.randint(1, 3)
        hard.append([r.choice([-1, 1]) * r.randint(1, n) for _ in range(k)])
    if r.random() < 0.07 and n >= 1:
        # hard clauses unsatisfiable
        hard.append([1])
        hard.append([-1])
    if r.random() < 0.3:
        # a few root-decided literals, both polarities, so that soft clauses are decided at the root
        for _ in range(r.randint(1, 2)):
            hard.append([r.choice([-1, 1]) * r.randint(1, n)])
    ns = r.randint(1, 2 * n + 2)
    # half of the instances are unweighted (the cardinality-network encoding supports only those)
    unweighted = r.random() < 0.5
    unit_w = r.choice([1, 1, 3])
    # weighted instances: often a palette without weight 1 whose members are not multiples of the smallest
    # (an improvement may then swap a heavy violated clause for a lighter one: gaps of less than the smallest weight)
    palette = r.choice([None, None, [3, 4, 6, 9], [2, 3, 5], [5, 7], [4, 6, 7], [10, 15, 25, 12], [2, 5, 9, 100]])
    for _ in range(ns):
        x = r.random()
        if x < 0.06:
            c = []                                    # empty soft clause
        elif x < 0.5:
            c = [r.choice([-1, 1]) * r.randint(1, n)]  # unit
        else:
            c = [r.choice([-1, 1]) * r.randint(1, n) for _ in range(r.randint(2, 3))]
        if unweighted:
            w = unit_w
        elif palette is not None:
            w = r.choice(palette)
        else:
            w = r.choice([1, 1, 1, 2, 3, 5, 9, r.randint(1, 9), r.choice([100, 1000])])
        soft.append((w, c))
        if r.random() < 0.1:
            soft.append((unit_w if unweighted else (r.choice(palette) if palette else r.randint(1, 9)), list(c)))   # duplicate soft clause
    return n, hard, soft, (unit_w if unweighted else 0)


def stream_c15(stream, seed, tier, pid, chk):
    n_cases = stream["thorough"] if tier == "thorough" else stream["quick"]
    r = random.Random(seed * 7919 + 15)
    work = os.path.join(chk.WORK, "c15")
    os.makedirs(work, exist_ok=True)
    rec_path = os.path.join(chk.WORK, f"{pid}_{stream['name']}.rec")
    t0 = time.time()
    lines = []
    for i in range(n_cases):
        n, hard, soft, unitw = gen_wcnf(r)
        top = sum(w for w, _ in soft) + 1 + r.choice([0, 0, 1000])
        text = f"p wcnf {n} {len(hard) + len(soft)} {top}\n"
        entries = [(top, c) for c in hard] + soft
        # the parser decides soft/hard by weight; keep the order mixed
        r.shuffle(entries)
        for w, c in entries:
            text += " ".join(map(str, [w] + c + [0])) + "\n"
        path = os.path.join(work, f"w{i}.wcnf")
        with open(path, "w") as f:
            f.write(text)
        cid = f"{seed}-{i}"
        lines.append(f"case {cid} scen=wcnf nvars={n} hard={len(hard)} soft={len(soft)} unitw={unitw}")
        lines.append("model " + cnf_model_text(n, hard))
        lines.append(f"# text={text!r}")
        softs_txt = f"{len(soft)} " + " ".join(
            f"{w} {len(c)} " + " ".join((f"ge {l-1} 1" if l > 0 else f"le {-l-1} 0") for l in c) for w, c in soft)
        softs_txt = " ".join(softs_txt.split())
        costs = []
        for enc in ("generalized-totalizer", "cardinality-network"):
            sd = r.randint(0, 50)
            rc, out, err = cli_run(chk, [path, "--upper-bound-encoding", enc, "--random-seed", str(sd)])
            s_line = [l for l in out.split("\n") if l.startswith("s ")]
            o_lines = [l for l in out.split("\n") if l.startswith("o ")]
            v_line = [l for l in out.split("\n") if l.startswith("v ")]
            tag = f"{enc}@{sd}"
            if "Sorting network encoding is only supported on unweighted instances" in (out + err):
                # documented precondition of the cardinality-network encoder: not an answer, not a violation
                lines.append(f"# unsupported enc={tag} (weighted objective)")
                costs.append(costs[0] if costs else "unsupported")
                continue
            if rc != 0 or len(s_line) != 1:
                m2 = re.search(r"panicked at ([^\n]*)\n([^\n]*)", out + err)
                msg = (m2.group(1) + " " + m2.group(2) if m2 else (out + err).strip()[-300:]).replace("\n", " | ").replace(" ", "_")
                kind = "panic" if "panicked" in (out + err) else "bad"
                lines.append(f"{kind} cli-no-verdict enc={tag} rc={rc} {msg}")
                costs.append("error")
                continue
            if s_line[0] == "s UNSATISFIABLE":
                lines.append(f"verdict {tag} unsat")
                costs.append("unsat")
            elif s_line[0] == "s OPTIMUM FOUND":
                if not o_lines or len(v_line) != 1:
                    lines.append(f"bad cli-missing-o-or-v-line enc={tag}")
                    costs.append("error")
                    continue
                cost = int(o_lines[-1][2:])
                lits = [int(t) for t in v_line[0][2:].split()]
                vals = [None] * n
                for l in lits:
                    if 1 <= abs(l) <= n:
                        vals[abs(l) - 1] = 1 if l > 0 else 0
                if any(v is None for v in vals) or len(lits) != n:
                    lines.append(f"bad cli-model-line-malformed enc={tag} line={v_line[0].replace(' ', '_')}")
                    costs.append("error")
                    continue
                lines.append(f"maxsat {tag} {softs_txt} {cost} " + " ".join(map(str, vals)))
                # the `o` lines are strictly decreasing
                os_ = [int(l[2:]) for l in o_lines]
                # (informational: the property does not require the o-lines to decrease strictly)
                lines.append("# o-lines " + " ".join(map(str, os_)))
                costs.append(str(cost))
            else:
                lines.append(f"bad cli-unexpected-status enc={tag} {s_line[0].replace(' ', '_')}")
                costs.append("other")
        if "error" not in costs:
            lines.append(f"same optimum-across-encodings {costs[0]} {costs[1]}")
    with open(rec_path, "w") as f:
        f.write("\n".join(lines) + "\n")
    cases = chk.load_cases(rec_path, f"./check {pid} (python stream {stream['name']}, seed {seed})", stream["name"])
    return cases, time.time() - t0, rec_path


# ------------------------------------------------------------------------------------------------
# C13: FlatZinc
# ------------------------------------------------------------------------------------------------

class Fzn:
    """A generated FlatZinc model together with its meaning as a Spec model (token text)."""

    def __init__(self, r):
        self.r = r
        self.vars = []      # (name, kind 'int'|'bool', values(list), decl text)
        self.cons_fzn = []
        self.cons_spec = []
        self.param_arrays = []

    def nvars(self):
        return len(self.vars)

    def new_int(self):
        r = self.r
        lo = r.randint(-4, 3)
        w = r.choice([0, 1, 1, 2, 3, 4, 5])
        vals = list(range(lo, lo + w + 1))
        name = f"x{len(self.vars)}"
        if len(vals) >= 2 and r.random() < 0.3:
            # set-typed declaration (possibly with holes, possibly a singleton)
            keep = [v for v in vals if r.random() < 0.7] or [vals[0]]
            vals = keep
            # FlatZinc does not prescribe an order for the elements of a set literal
            lit = list(vals)
            if r.random() < 0.5:
                r.shuffle(lit)
            decl = f"var {{{','.join(map(str, lit))}}}: {name}"
        elif r.random() < 0.12 and self.ints():
            return self.new_alias()
        elif r.random() < 0.08:
            v = r.choice(vals)
            decl = f"var {vals[0]}..{vals[-1]}: {name}"
            self.fixed = getattr(self, "fixed", {})
            self.fixed[name] = v
            decl_fix = f" = {v}"
            vals_fixed = [v]
            self.vars.append((name, "int", vals_fixed, decl, decl_fix))
            return len(self.vars) - 1
        else:
            decl = f"var {vals[0]}..{vals[-1]}: {name}"
        self.vars.append((name, "int", vals, decl, ""))
        return len(self.vars) - 1

    def new_alias(self):
        # alias of an earlier variable: `var lo..hi: x = y;` (the two share one domain: the intersection)
        r = self.r
        name = f"x{len(self.vars)}"
        other = r.choice(self.ints())
        ovals = self.vars[other][2]
        lo2 = min(ovals) - r.randint(0, 2)
        hi2 = max(ovals) + r.randint(-1, 2)
        if r.random() < 0.5:
            lo2 = min(ovals) + r.randint(0, 1)
        if hi2 < lo2 or not [v for v in ovals if lo2 <= v <= hi2]:
            lo2, hi2 = min(ovals), max(ovals)
        vals = list(range(lo2, hi2 + 1))
        decl = f"var {lo2}..{hi2}: {name}"
        self.vars.append((name, "int", vals, decl, f" = {self.vars[other][0]}"))
        me = len(self.vars) - 1
        self.cons_spec.append(f"lineq 2 {self.view(1, 0, me)} {self.view(-1, 0, other)} 0")
        self.kinds.append("alias")
        return me

    def new_bool(self):
        name = f"b{len(self.vars)}"
        self.vars.append((name, "bool", [0, 1], f"var bool: {name}", ""))
        return len(self.vars) - 1

    def ints(self):
        return [i for i, v in enumerate(self.vars) if v[1] == "int"]

    def bools(self):
        return [i for i, v in enumerate(self.vars) if v[1] == "bool"]

    def pick_int(self):
        xs = self.ints()
        if not xs or (len(xs) < 5 and self.r.random() < 0.3):
            return self.new_int()
        return self.r.choice(xs)

    def pick_bool(self):
        xs = self.bools()
        if not xs or (len(xs) < 4 and self.r.random() < 0.35):
            return self.new_bool()
        return self.r.choice(xs)

    def name(self, i):
        return self.vars[i][0]

    # Spec helpers ---------------------------------------------------------------------------------
    @staticmethod
    def view(scale, off, var):
        return f"{scale} {off} {var}"

    def int_arg(self):
        """an integer argument: a variable or (sometimes) a constant; returns (fzn text, spec view)"""
        if self.r.random() < 0.12:
            c = self.r.randint(-3, 5)
            return str(c), self.view(0, c, 0)
        i = self.pick_int()
        return self.name(i), self.view(1, 0, i)

    def bool_arg(self):
        if self.r.random() < 0.08:
            c = self.r.choice([0, 1])
            return ("true" if c else "false"), None, c
        i = self.pick_bool()
        return self.name(i), i, None

    def lit_atom(self, barg, positive=True):
        """atom text for a bool argument being true (or false)"""
        _, i, c = barg
        if i is None:
            # constant: an always-true / always-false atom over variable 0
            truth = (c == 1) == positive
            return "ge 0 -1000" if truth else "ge 0 1000"
        return f"ge {i} 1" if positive else f"le {i} 0"

    def add(self, fzn, spec):
        self.cons_fzn.append(f"constraint {fzn};")
        self.cons_spec.append(spec)

    def reif_wrap(self, spec, barg):
        _, i, c = barg
        if i is None:
            return spec if c == 1 else f"neg {spec}"
        return f"reif ge {i} 1 {spec}"

    def gen_constraint(self):
        r = self.r
        kind = r.choice([
            "int_lin_le", "int_lin_eq", "int_lin_ne", "int_lin_le_reif", "int_lin_eq_reif", "int_lin_ne_reif",
            "int_le", "int_lt", "int_eq", "int_ne", "int_le_reif", "int_lt_reif", "int_eq_reif", "int_ne_reif",
            "int_plus", "int_times", "int_div", "int_abs", "int_max", "int_min", "array_int_maximum", "array_int_minimum",
            "array_int_element", "array_var_int_element", "pumpkin_all_different", "pumpkin_cumulative",
            "set_in", "set_in", "set_in_sparse", "set_in_sparse", "set_in_sparse", "set_in_reif", "bool_and", "array_bool_and", "array_bool_or", "bool_clause", "bool_not", "bool_eq",
            "bool_eq_reif", "pumpkin_bool_xor", "pumpkin_bool_xor_reif", "bool2int", "bool_lin_eq", "bool_lin_le",
            "array_var_bool_element",
        ])
        self.kinds.append(kind)
        if kind.startswith("int_lin"):
            n = r.randint(1, 3)
            ws = [r.choice([-2, -1, 1, 1, 2, 3]) for _ in range(n)]
            xs = [self.pick_int() for _ in range(n)]
            c = r.randint(-4, 8)
            base = {"int_lin_le": "linle", "int_lin_eq": "lineq", "int_lin_ne": "linne"}[kind.replace("_reif", "")]
            spec = f"{base} {n} " + " ".join(self.view(w, 0, x) for w, x in zip(ws, xs)) + f" {c}"
            args = f"[{','.join(map(str, ws))}], [{','.join(self.name(x) for x in xs)}], {c}"
            if kind.endswith("_reif"):
                b = self.bool_arg()
                self.add(f"{kind}({args}, {b[0]})", self.reif_wrap(spec, b))
            else:
                self.add(f"{kind}({args})", spec)
        elif kind in ("int_le", "int_lt", "int_eq", "int_ne", "int_le_reif", "int_lt_reif", "int_eq_reif", "int_ne_reif"):
            a, av = self.int_arg()
            b, bv = self.int_arg()
            base = kind.replace("_reif", "")
            neg_b = " ".join([str(-int(bv.split()[0])), str(-int(bv.split()[1])), bv.split()[2]])
            if base == "int_le":
                spec = f"linle 2 {av} {neg_b} 0"
            elif base == "int_lt":
                spec = f"linle 2 {av} {neg_b} -1"
            elif base == "int_eq":
                spec = f"lineq 2 {av} {neg_b} 0"
            else:
                spec = f"linne 2 {av} {neg_b} 0"
            if kind.endswith("_reif"):
                rb = self.bool_arg()
                self.add(f"{kind}({a}, {b}, {rb[0]})", self.reif_wrap(spec, rb))
            else:
                self.add(f"{kind}({a}, {b})", spec)
        elif kind == "int_plus":
            (a, av), (b, bv), (c, cv) = self.int_arg(), self.int_arg(), self.int_arg()
            neg_c = " ".join([str(-int(cv.split()[0])), str(-int(cv.split()[1])), cv.split()[2]])
            self.add(f"int_plus({a}, {b}, {c})", f"lineq 3 {av} {bv} {neg_c} 0")
        elif kind in ("int_times", "int_max", "int_min"):
            (a, av), (b, bv), (c, cv) = self.int_arg(), self.int_arg(), self.int_arg()
            if kind == "int_times":
                self.add(f"int_times({a}, {b}, {c})", f"times {av} {bv} {cv}")
            else:
                self.add(f"{kind}({a}, {b}, {c})", f"{kind[4:]} 2 {av} {bv} {cv}")
        elif kind == "int_div":
            (a, av), (c, cv) = self.int_arg(), self.int_arg()
            # divisor without 0 in its domain: a fresh strictly positive or strictly negative variable
            lo = r.choice([1, 1, -3])
            name = f"x{len(self.vars)}"
            vals = list(range(lo, lo + r.randint(0, 2) + 1))
            self.vars.append((name, "int", vals, f"var {vals[0]}..{vals[-1]}: {name}", ""))
            d = len(self.vars) - 1
            self.add(f"int_div({a}, {name}, {c})", f"div {av} {self.view(1, 0, d)} {cv}")
        elif kind == "int_abs":
            (a, av), (b, bv) = self.int_arg(), self.int_arg()
            self.add(f"int_abs({a}, {b})", f"abs {av} {bv}")
        elif kind in ("array_int_maximum", "array_int_minimum"):
            n = r.randint(1, 3)
            xs = [self.pick_int() for _ in range(n)]
            m, mv = self.int_arg()
            base = "max" if kind.endswith("maximum") else "min"
            self.add(f"{kind}({m}, [{','.join(self.name(x) for x in xs)}])",
                     f"{base} {n} " + " ".join(self.view(1, 0, x) for x in xs) + f" {mv}")
        elif kind == "array_int_element":
            n = r.randint(1, 4)
            cs = [r.randint(-3, 5) for _ in range(n)]
            idx = self.pick_int()
            res, resv = self.int_arg()
            self.add(f"array_int_element({self.name(idx)}, [{','.join(map(str, cs))}], {res})",
                     f"elem {self.view(1, -1, idx)} {n} " + " ".join(self.view(0, c, 0) for c in cs) + f" {resv}")
        elif kind == "array_var_int_element":
            n = r.randint(1, 3)
            xs = [self.pick_int() for _ in range(n)]
            idx = self.pick_int()
            res = self.pick_int()
            if res == idx:
                return  # known finding KF1 (index and right-hand side over the same variable) is kept out
            self.add(f"array_var_int_element({self.name(idx)}, [{','.join(self.name(x) for x in xs)}], {self.name(res)})",
                     f"elem {self.view(1, -1, idx)} {n} " + " ".join(self.view(1, 0, x) for x in xs) + f" {self.view(1, 0, res)}")
        elif kind == "array_var_bool_element":
            n = r.randint(1, 3)
            bs = [self.pick_bool() for _ in range(n)]
            idx = self.pick_int()
            res = self.pick_bool()
            self.add(f"array_var_bool_element({self.name(idx)}, [{','.join(self.name(x) for x in bs)}], {self.name(res)})",
                     f"elem {self.view(1, -1, idx)} {n} " + " ".join(self.view(1, 0, x) for x in bs) + f" {self.view(1, 0, res)}")
        elif kind == "pumpkin_all_different":
            n = r.randint(2, 4)
            xs = [self.pick_int() for _ in range(n)]
            self.add(f"pumpkin_all_different([{','.join(self.name(x) for x in xs)}])",
                     f"alldiff {n} " + " ".join(self.view(1, 0, x) for x in xs))
        elif kind == "pumpkin_cumulative":
            n = r.randint(2, 3)
            xs = [self.pick_int() for _ in range(n)]
            ds = [r.randint(0, 3) for _ in range(n)]
            us = [r.randint(0, 3) for _ in range(n)]
            cap = r.randint(1, 4)
            self.add(f"pumpkin_cumulative([{','.join(self.name(x) for x in xs)}], [{','.join(map(str, ds))}], [{','.join(map(str, us))}], {cap})",
                     f"cumul {n} " + " ".join(f"{self.view(1, 0, x)} {d} {u}" for x, d, u in zip(xs, ds, us)) + f" {cap}")
        elif kind == "set_in_sparse":
            # a variable declared with a set type meets a top-level set_in over a sparse set, both
            # written in arbitrary element order (FlatZinc prescribes none), with a common value
            lo = r.randint(-4, 2)
            pool = list(range(lo, lo + 8))
            vals = sorted(r.sample(pool, r.randint(3, 6)))
            lit = list(vals)
            r.shuffle(lit)
            name = f"x{len(self.vars)}"
            self.vars.append((name, "int", vals, f"var {{{','.join(map(str, lit))}}}: {name}", ""))
            x = len(self.vars) - 1
            svals = sorted(set(r.sample(pool, r.randint(3, 6))) | {r.choice(vals)})
            slit = list(svals)
            r.shuffle(slit)
            spec = f"clause {len(svals)} " + " ".join(f"eq {x} {v}" for v in svals)
            self.add(f"set_in({name}, {{{','.join(map(str, slit))}}})", spec)
        elif kind in ("set_in", "set_in_reif"):
            x = self.pick_int()
            # prefer a variable which was declared with a set type (sparse domain meets sparse set)
            sparse = [i for i, v in enumerate(self.vars) if v[1] == "int" and v[3].startswith("var {") and len(v[2]) >= 3]
            if sparse and r.random() < 0.6:
                x = r.choice(sparse)
            if r.random() < 0.5:
                lo = r.randint(-3, 3)
                hi = lo + r.randint(0, 3)
                stxt = f"{lo}..{hi}"
                vals = list(range(lo, hi + 1))
            else:
                vals = sorted(set(r.randint(-3, 6) for _ in range(r.randint(1, 6))))
                lit = list(vals)
                if r.random() < 0.6:
                    r.shuffle(lit)  # unsorted set literal
                stxt = "{" + ",".join(map(str, lit)) + "}"
            spec = f"clause {len(vals)} " + " ".join(f"eq {x} {v}" for v in vals)
            if kind == "set_in":
                self.add(f"set_in({self.name(x)}, {stxt})", spec)
            else:
                b = self.bool_arg()
                self.add(f"set_in_reif({self.name(x)}, {stxt}, {b[0]})", self.reif_wrap(spec, b))
        elif kind == "bool_and":
            a, b, rr = self.bool_arg(), self.bool_arg(), self.bool_arg()
            self.add(f"bool_and({a[0]}, {b[0]}, {rr[0]})",
                     self.reif_wrap(f"conj 2 {self.lit_atom(a)} {self.lit_atom(b)}", rr))
        elif kind in ("array_bool_and", "array_bool_or"):
            n = r.randint(1, 3)
            bs = [self.bool_arg() for _ in range(n)]
            rr = self.bool_arg()
            base = "conj" if kind.endswith("and") else "clause"
            self.add(f"{kind}([{','.join(b[0] for b in bs)}], {rr[0]})",
                     self.reif_wrap(f"{base} {n} " + " ".join(self.lit_atom(b) for b in bs), rr))
        elif kind == "bool_clause":
            pos = [self.bool_arg() for _ in range(r.randint(0, 2))]
            neg = [self.bool_arg() for _ in range(r.randint(0, 2))]
            atoms = [self.lit_atom(b) for b in pos] + [self.lit_atom(b, False) for b in neg]
            self.add(f"bool_clause([{','.join(b[0] for b in pos)}], [{','.join(b[0] for b in neg)}])",
                     f"clause {len(atoms)} " + " ".join(atoms))
        elif kind in ("bool_not", "bool_eq", "pumpkin_bool_xor"):
            a, b = self.pick_bool(), self.pick_bool()
            if kind == "bool_eq":
                spec = f"lineq 2 {self.view(1, 0, a)} {self.view(-1, 0, b)} 0"
            else:
                spec = f"lineq 2 {self.view(1, 0, a)} {self.view(1, 0, b)} 1"
            self.add(f"{kind}({self.name(a)}, {self.name(b)})", spec)
        elif kind in ("bool_eq_reif", "pumpkin_bool_xor_reif"):
            a, b = self.pick_bool(), self.pick_bool()
            rr = self.bool_arg()
            if kind == "bool_eq_reif":
                spec = f"lineq 2 {self.view(1, 0, a)} {self.view(-1, 0, b)} 0"
            else:
                spec = f"lineq 2 {self.view(1, 0, a)} {self.view(1, 0, b)} 1"
            self.add(f"{kind}({self.name(a)}, {self.name(b)}, {rr[0]})", self.reif_wrap(spec, rr))
        elif kind == "bool2int":
            b, x = self.pick_bool(), self.pick_int()
            self.add(f"bool2int({self.name(b)}, {self.name(x)})", f"lineq 2 {self.view(1, 0, b)} {self.view(-1, 0, x)} 0")
        elif kind in ("bool_lin_eq", "bool_lin_le"):
            n = r.randint(1, 3)
            ws = [r.choice([-2, -1, 1, 1, 2, 3]) for _ in range(n)]
            bs = [self.pick_bool() for _ in range(n)]
            terms = " ".join(self.view(w, 0, b) for w, b in zip(ws, bs))
            if kind == "bool_lin_eq":
                x = self.pick_int()
                self.add(f"bool_lin_eq([{','.join(map(str, ws))}], [{','.join(self.name(b) for b in bs)}], {self.name(x)})",
                         f"lineq {n + 1} {terms} {self.view(-1, 0, x)} 0")
            else:
                c = r.randint(-2, 4)
                self.add(f"bool_lin_le([{','.join(map(str, ws))}], [{','.join(self.name(b) for b in bs)}], {c})",
                         f"linle {n} {terms} {c}")

    def build(self):
        r = self.r
        self.kinds = []
        for _ in range(r.randint(1, 3)):
            self.new_int()
        if r.random() < 0.25:
            # several aliases, of different variables and of each other
            for _ in range(r.randint(1, 3)):
                self.new_alias()
                if r.random() < 0.5:
                    self.new_int()
        if r.random() < 0.6:
            self.new_bool()
        for _ in range(r.randint(1, 5)):
            self.gen_constraint()
        # product cap
        prod = 1
        for v in self.vars:
            prod *= len(v[2])
        return prod <= 20000

    def text(self, solve):
        out = []
        for name, kind, vals, decl, fix in self.vars:
            out.append(f"{decl} :: output_var{fix};")
        out.extend(self.cons_fzn)
        out.append(solve)
        return "\n".join(out) + "\n"

    def model_text(self):
        parts = [str(len(self.vars))]
        for v in self.vars:
            parts.append(f"{len(v[2])} " + " ".join(map(str, v[2])))
        parts.append(str(len(self.cons_spec)))
        parts.extend(self.cons_spec)
        return " ".join(" ".join(parts).split())


def parse_fzn_output(out, fz):
    """returns (solutions as value lists in variable order, complete?, unsat?, unknown?, errors)"""
    sols = []
    cur = {}
    complete = unsat = False
    errors = []
    for line in out.split("\n"):
        line = line.strip()
        if not line or line.startswith("%"):
            continue
        if line == "----------":
            vals = []
            for name, kind, _, _, _ in fz.vars:
                if name not in cur:
                    errors.append(f"missing-output-{name}")
                    vals = None
                    break
                vals.append(cur[name])
            if vals is not None:
                sols.append(vals)
            cur = {}
        elif line == "==========":
            complete = True
        elif line == "=====UNSATISFIABLE=====":
            unsat = True
        elif line == "=====UNKNOWN=====":
            errors.append("unknown")
        else:
            m = re.match(r"^([A-Za-z_][A-Za-z0-9_]*) = (-?\d+|true|false);$", line)
            if m:
                v = m.group(2)
                cur[m.group(1)] = 1 if v == "true" else (0 if v == "false" else int(v))
            else:
                errors.append("unparsed-line-" + line.replace(" ", "_")[:80])
    return sols, complete, unsat, errors


def stream_c13(stream, seed, tier, pid, chk):
    n_cases = stream["thorough"] if tier == "thorough" else stream["quick"]
    r = random.Random(seed * 7919 + 13)
    work = os.path.join(chk.WORK, "c13")
    os.makedirs(work, exist_ok=True)
    rec_path = os.path.join(chk.WORK, f"{pid}_{stream['name']}.rec")
    t0 = time.time()
    lines = []
    i = 0
    while i < n_cases:
        fz = Fzn(r)
        if not fz.build():
            continue
        mode = r.choice(["all", "all", "one", "min", "max"])
        ints = fz.ints()
        search = ""
        if r.random() < 0.4 and ints:
            xs = r.sample(ints, k=min(len(ints), r.randint(1, 3)))
            # (`occurrence`, `most_constrained`, `dom_w_deg`, `impact` are todo!() in the front-end: documented as not implemented)
            varsel = r.choice(["input_order", "first_fail", "anti_first_fail", "smallest", "largest", "max_regret"])
            valsel = r.choice(["indomain_min", "indomain_max", "indomain_median", "indomain_split", "indomain_reverse_split",
                               "indomain_random", "indomain_middle", "indomain_interval", "outdomain_min", "outdomain_max"])
            search = f" :: int_search([{','.join(fz.name(x) for x in xs)}], {varsel}, {valsel}, complete)"
        args = []
        obj = None
        if mode in ("min", "max") and ints:
            obj = r.choice(ints)
            solve = f"solve{search} {'minimize' if mode == 'min' else 'maximize'} {fz.name(obj)};"
            args += ["--optimisation-strategy", r.choice(["linear-sat-unsat", "linear-unsat-sat"])]
        else:
            if mode in ("min", "max"):
                mode = "all"
            solve = f"solve{search} satisfy;"
            if mode == "all":
                args.append("-a")
        if r.random() < 0.3:
            args.append("-f")
        if r.random() < 0.5:
            args += ["--random-seed", str(r.randint(0, 99))]
        text = fz.text(solve)
        path = os.path.join(work, f"m{i}.fzn")
        with open(path, "w") as f:
            f.write(text)
        cid = f"{seed}-{i}"
        lines.append(f"case {cid} scen=fzn:{mode} args={'_'.join(args)} kinds={','.join(fz.kinds)}")
        lines.append("model " + fz.model_text())
        lines.append(f"# text={text!r}")
        rc, out, err = cli_run(chk, [path] + args)
        i += 1
        if rc != 0:
            m2 = re.search(r"panicked at ([^\n]*)\n([^\n]*)", out + err)
            msg = (m2.group(1) + " " + m2.group(2) if m2 else (out + err).strip()[-300:]).replace("\n", " | ").replace(" ", "_")
            kind = "panic" if "panicked" in (out + err) else ("hang" if rc == -9 else "bad")
            lines.append(f"{kind} cli-failed rc={rc} {msg}")
            continue
        sols, complete, unsat, errors = parse_fzn_output(out, fz)
        for e in errors:
            lines.append(f"bad fzn-output {e}")
        n = fz.nvars()
        if unsat:
            lines.append("verdict fzn unsat")
            if sols:
                lines.append("bad fzn-unsat-after-solutions")
            continue
        for s in sols:
            lines.append("sol fzn " + " ".join(map(str, s)))
        if mode == "all":
            if complete:
                # the printed set is exactly the set of solutions (all variables are output variables)
                uniq = []
                for s in sols:
                    if s not in uniq:
                        uniq.append(s)
                flat = " ".join(" ".join(map(str, s)) for s in uniq)
                lines.append(f"solset fzn-all {len(uniq)} {n} {flat}")
            else:
                lines.append("bad fzn-all-without-completeness-line")
        elif mode == "one":
            if not sols:
                lines.append("bad fzn-no-solution-and-no-unsat-marker")
        else:
            if not complete or not sols:
                lines.append("bad fzn-optimisation-without-completeness-line-or-solution")
            else:
                best = sols[-1][obj]
                lines.append(f"opt {mode} 1 0 {obj} {best}")
    with open(rec_path, "w") as f:
        f.write("\n".join(lines) + "\n")
    cases = chk.load_cases(rec_path, f"./check {pid} (python stream {stream['name']}, seed {seed})", stream["name"])
    return cases, time.time() - t0, rec_path


# ------------------------------------------------------------------------------------------------
# C20: reproducibility (the implementation against itself)
# ------------------------------------------------------------------------------------------------

import hashlib


def _digest(b):
    return hashlib.sha1(b if isinstance(b, bytes) else b.encode()).hexdigest()[:16]


TIME_LINE = re.compile(r"time|seconds|_ms|elapsed", re.I)


def _filter_time(text):
    return "\n".join(l for l in text.split("\n") if not TIME_LINE.search(l))


def _run_perturbed(argv, k, cwd_base, timeout=120):
    """same argv, different ambient environment: environment size, working directory, (ASLR is on by default)"""
    env = dict(os.environ)
    env["VERIF_PADDING"] = "x" * (17 * k * k + 3)
    env["CARGO_NET_OFFLINE"] = "true"
    cwd = os.path.join(cwd_base, f"cwd{k}")
    os.makedirs(cwd, exist_ok=True)
    try:
        p = subprocess.run(argv, stdout=subprocess.PIPE, stderr=subprocess.PIPE, timeout=timeout, env=env, cwd=cwd)
        return p.returncode, p.stdout, p.stderr
    except subprocess.TimeoutExpired:
        return -9, b"", b"timeout"


def stream_c20(stream, seed, tier, pid, chk):
    n_cases = stream["thorough"] if tier == "thorough" else stream["quick"]
    r = random.Random(seed * 7919 + 20)
    work = os.path.join(chk.WORK, "c20")
    os.makedirs(work, exist_ok=True)
    rec_path = os.path.join(chk.WORK, f"{pid}_{stream['name']}.rec")
    t0 = time.time()
    lines = []
    # (1) library runs through the harness: solutions in order, verdicts, cores, polls, decisions
    for j, mode_args in enumerate([
        ["answers", "--mix", "satisfy=2,iterate=2,optimise=2,assume=1"],
        ["history"],
        ["tap"],
        ["branchers"],
    ]):
        sd = seed * 100 + j
        argv = [chk.PHARNESS] + mode_args + ["--seed", str(sd), "--cases", str(max(20, n_cases // 2))]
        outs = [_run_perturbed(argv, k, work) for k in (1, 2)]
        lines.append(f"case {seed}-lib{j} scen=repro:library cmd={'_'.join(argv[1:])}")
        lines.append(f"same library-{mode_args[0]} {outs[0][0]}:{_digest(outs[0][1])} {outs[1][0]}:{_digest(outs[1][1])}")
        lines.append(f"# bytes={len(outs[0][1])}")
    # (2) CLI runs: CNF (+DRAT), WCNF, FlatZinc (+DRCP proof and .lits), with statistics
    for i in range(n_cases):
        kind = r.choice(["cnf", "wcnf", "wcnfbig", "wcnfbig", "fzn", "fzn", "fznproof", "fznproof"])
        cid = f"{seed}-{i}"
        extra = []
        proof_files = []
        if kind == "cnf":
            n, clauses = gen_cnf(r)
            text = render_cnf(r, n, clauses, 0)
            path = os.path.join(work, f"r{i}.cnf")
            proof_files = ["proof.drat"]
            extra = ["--proof-path", "proof.drat"]
        elif kind == "wcnfbig":
            # many soft clauses with distinct weights: the order in which the objective terms reach
            # the encoder shows in the search (o-lines, statistics, model)
            n = r.randint(6, 12)
            weights = r.sample(range(1, 60), n)
            soft = [(weights[v - 1], [v if r.random() < 0.5 else -v]) for v in range(1, n + 1)]
            hard = []
            for _ in range(n + r.randint(0, n)):
                vs = r.sample(range(1, n + 1), min(3, n))
                hard.append([v if r.random() < 0.5 else -v for v in vs])
            top = sum(w for w, _ in soft) + 1
            text = f"p wcnf {n} {len(hard) + len(soft)} {top}\n" + "".join(
                " ".join(map(str, [w] + c + [0])) + "\n" for w, c in [(top, c) for c in hard] + soft)
            path = os.path.join(work, f"r{i}.wcnf")
            extra = ["-s"]
        elif kind == "wcnf":
            n, hard, soft, unitw = gen_wcnf(r)
            top = sum(w for w, _ in soft) + 1
            text = f"p wcnf {n} {len(hard) + len(soft)} {top}\n" + "".join(
                " ".join(map(str, [w] + c + [0])) + "\n" for w, c in [(top, c) for c in hard] + soft)
            path = os.path.join(work, f"r{i}.wcnf")
        else:
            while True:
                fz = Fzn(r)
                if fz.build():
                    break
            ints = fz.ints()
            if kind == "fznproof":
                solve = "solve satisfy;"
                if ints and r.random() < 0.5:
                    solve = f"solve minimize {fz.name(r.choice(ints))};"
                proof_files = ["proof.drcp", "proof.lits"]
                extra = ["--proof-path", "proof.drcp", "--proof-type", r.choice(["scaffold", "full", "with-hints"])]
            else:
                solve = "solve satisfy;"
                extra = ["-a"]
            text = fz.text(solve)
            path = os.path.join(work, f"r{i}.fzn")
        with open(path, "w") as f:
            f.write(text)
        opts = ["--random-seed", str(r.randint(0, 999))]
        if r.random() < 0.5:
            opts += ["-s"]
        if r.random() < 0.3:
            opts += ["--learning-max-num-clauses", str(r.randint(0, 5)), "--learning-lbd-threshold", str(r.randint(0, 3))]
        if r.random() < 0.3:
            opts += ["--restart-base-interval", str(r.randint(1, 4)), "--restart-min-initial-conflicts", str(r.randint(0, 2))]
        argv = [chk.CLI, path] + extra + opts
        obs = []
        for k in (1, 2):
            cwd = os.path.join(work, f"cwd{k}")
            os.makedirs(cwd, exist_ok=True)
            for pf in proof_files:
                if os.path.exists(os.path.join(cwd, pf)):
                    os.remove(os.path.join(cwd, pf))
            rc, out, err = _run_perturbed(argv, k, work, timeout=30)
            parts = [str(rc), _digest(_filter_time(out.decode(errors="replace")))]
            for pf in proof_files:
                pth = os.path.join(cwd, pf)
                parts.append(_digest(open(pth, "rb").read()) if os.path.exists(pth) else "absent")
            obs.append(":".join(parts))
        lines.append(f"case {cid} scen=repro:{kind} args={'_'.join(extra + opts)}")
        lines.append(f"# text={text!r}")
        lines.append(f"same cli-{kind} {obs[0]} {obs[1]}")
    with open(rec_path, "w") as f:
        f.write("\n".join(lines) + "\n")
    cases = chk.load_cases(rec_path, f"./check {pid} (python stream {stream['name']}, seed {seed})", stream["name"])
    return cases, time.time() - t0, rec_path
