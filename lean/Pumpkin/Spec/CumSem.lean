/-
The documented meaning of `cumulative` (at every integer time point the usages of the running tasks sum
to at most the capacity) against the executable test of `Cons.sat` (the load at the start of every task):
`cumulative_sat_iff`; tasks of zero usage or non-positive duration never contribute: `loadAt_drop_zero`.
(Moved here from `Props/C08.lean`, which restates the two theorems, so that the propagator models can
use them.)
-/
import Pumpkin.Spec.Basic

namespace Pumpkin.CumSem

def runs (k : Task) (a : List Int) (t : Int) : Prop := k.start.eval a ≤ t ∧ t < k.start.eval a + k.dur

instance (k : Task) (a : List Int) (t : Int) : Decidable (runs k a t) := by unfold runs; infer_instance

def contrib (k : Task) (a : List Int) (t : Int) : Int := if runs k a t then k.use else 0

theorem foldl_add (l : List Int) (z : Int) : l.foldl (· + ·) z = z + l.foldl (· + ·) 0 := by
  induction l generalizing z with
  | nil => simp
  | cons x xs ih => simp only [List.foldl_cons]; rw [ih (z + x), ih (0 + x)]; omega

theorem loadAt_cons (k : Task) (ts : List Task) (a : List Int) (t : Int) :
    loadAt (k :: ts) a t = contrib k a t + loadAt ts a t := by
  simp only [loadAt, List.map_cons, List.foldl_cons, contrib, runs]
  rw [foldl_add]; omega

theorem loadAt_nil (a : List Int) (t : Int) : loadAt [] a t = 0 := rfl

theorem loadAt_nonneg (ts : List Task) (a : List Int) (t : Int) (hu : ∀ k ∈ ts, 0 ≤ k.use) :
    0 ≤ loadAt ts a t := by
  induction ts with
  | nil => simp [loadAt_nil]
  | cons k ts ih =>
    rw [loadAt_cons]
    have := ih (fun k' hk' => hu k' (List.mem_cons_of_mem _ hk'))
    have hk := hu k (by simp)
    simp only [contrib]; split <;> omega

/-- If every task running at `t` also runs at `s`, the load at `t` is at most the load at `s`. -/
theorem loadAt_mono (ts : List Task) (a : List Int) (t s : Int) (hu : ∀ k ∈ ts, 0 ≤ k.use)
    (h : ∀ k ∈ ts, runs k a t → runs k a s) : loadAt ts a t ≤ loadAt ts a s := by
  induction ts with
  | nil => simp [loadAt_nil]
  | cons k ts ih =>
    rw [loadAt_cons, loadAt_cons]
    have h1 := ih (fun k' hk' => hu k' (List.mem_cons_of_mem _ hk'))
      (fun k' hk' => h k' (List.mem_cons_of_mem _ hk'))
    have hk := hu k (by simp)
    have hk2 := h k (by simp)
    simp only [contrib]
    split
    · rename_i hr; simp only [hk2 hr, if_true]; omega
    · split <;> omega

/-- No task runs at `t` ⇒ load 0. -/
theorem loadAt_zero (ts : List Task) (a : List Int) (t : Int) (h : ∀ k ∈ ts, ¬ runs k a t) :
    loadAt ts a t = 0 := by
  induction ts with
  | nil => rfl
  | cons k ts ih =>
    rw [loadAt_cons, ih (fun k' hk' => h k' (List.mem_cons_of_mem _ hk'))]
    simp [contrib, h k (by simp)]

/-- Among the tasks running at `t` there is one with the latest start. -/
theorem exists_latest (ts : List Task) (a : List Int) (t : Int) (h : ∃ k ∈ ts, runs k a t) :
    ∃ k ∈ ts, runs k a t ∧ ∀ k' ∈ ts, runs k' a t → k'.start.eval a ≤ k.start.eval a := by
  induction ts with
  | nil => obtain ⟨k, hk, _⟩ := h; cases hk
  | cons x xs ih =>
    by_cases hx : ∃ k ∈ xs, runs k a t
    · obtain ⟨k, hk, hr, hmax⟩ := ih hx
      by_cases hxr : runs x a t
      · by_cases hle : x.start.eval a ≤ k.start.eval a
        · refine ⟨k, List.mem_cons_of_mem _ hk, hr, ?_⟩
          intro k' hk' hr'
          cases hk' with
          | head => exact hle
          | tail _ h' => exact hmax k' h' hr'
        · refine ⟨x, by simp, hxr, ?_⟩
          intro k' hk' hr'
          cases hk' with
          | head => exact Int.le_refl _
          | tail _ h' => have := hmax k' h' hr'; omega
      · refine ⟨k, List.mem_cons_of_mem _ hk, hr, ?_⟩
        intro k' hk' hr'
        cases hk' with
        | head => exact absurd hr' hxr
        | tail _ h' => exact hmax k' h' hr'
    · obtain ⟨k, hk, hr⟩ := h
      cases hk with
      | head =>
        refine ⟨x, by simp, hr, ?_⟩
        intro k' hk' hr'
        cases hk' with
        | head => exact Int.le_refl _
        | tail _ h' => exact absurd ⟨k', h', hr'⟩ hx
      | tail _ h' => exact absurd ⟨k, h', hr⟩ hx

/-- **The executable check decides the documented meaning.** For non-negative resource usages:
the oracle's test (load at every task's start time ≤ capacity, and 0 ≤ capacity) holds iff at
every time point the total usage of the running tasks is at most the capacity. -/
theorem cumulative_sat_iff (ts : List Task) (cap : Int) (a : List Int) (hu : ∀ k ∈ ts, 0 ≤ k.use) :
    (Cons.cumulative ts cap).sat a = true ↔ ∀ t : Int, loadAt ts a t ≤ cap := by
  simp only [Cons.sat, Bool.and_eq_true, List.all_eq_true, decide_eq_true_eq]
  constructor
  · rintro ⟨hstart, hcap⟩ t
    by_cases hex : ∃ k ∈ ts, runs k a t
    · obtain ⟨k, hk, hr, hmax⟩ := exists_latest ts a t hex
      have hle : loadAt ts a t ≤ loadAt ts a (k.start.eval a) := by
        apply loadAt_mono ts a t _ hu
        intro k' hk' hr'
        have := hmax k' hk' hr'
        unfold runs at *
        omega
      exact Int.le_trans hle (hstart k hk)
    · rw [loadAt_zero ts a t (fun k hk hr => hex ⟨k, hk, hr⟩)]; exact hcap
  · intro h
    refine ⟨fun k _ => h _, ?_⟩
    -- a time point before every start: nothing runs there
    have : ∃ t : Int, ∀ k ∈ ts, t < k.start.eval a := by
      clear h hu
      induction ts with
      | nil => exact ⟨0, fun k hk => by cases hk⟩
      | cons x xs ih =>
        obtain ⟨t, ht⟩ := ih
        refine ⟨min t (x.start.eval a - 1), ?_⟩
        intro k hk
        cases hk with
        | head => omega
        | tail _ h' => have := ht k h'; omega
    obtain ⟨t, ht⟩ := this
    have hz := loadAt_zero ts a t (fun k hk hr => by have := ht k hk; unfold runs at hr; omega)
    have := h t
    omega

/-- Tasks of zero usage or non-positive duration never contribute: dropping them (as
`create_tasks` does) preserves the load at every time point. -/
theorem loadAt_drop_zero (ts : List Task) (a : List Int) (t : Int) :
    loadAt (ts.filter (fun k => decide (0 < k.use) && decide (0 < k.dur))) a t = loadAt ts a t ∨
    ∃ k ∈ ts, k.use < 0 := by
  induction ts with
  | nil => left; rfl
  | cons k ts ih =>
    rcases ih with ih | ⟨k', hk', hneg⟩
    · by_cases hneg : k.use < 0
      · right; exact ⟨k, by simp, hneg⟩
      · left
        by_cases hkeep : (decide (0 < k.use) && decide (0 < k.dur)) = true
        · simp only [List.filter_cons, hkeep, if_true]
          rw [loadAt_cons, loadAt_cons, ih]
        · simp only [List.filter_cons, hkeep, Bool.false_eq_true, if_false]
          rw [loadAt_cons, ih]
          simp only [Bool.and_eq_true, decide_eq_true_eq, not_and, Int.not_lt] at hkeep
          have : contrib k a t = 0 := by
            unfold contrib
            by_cases hr : runs k a t
            · rw [if_pos hr]
              unfold runs at hr
              by_cases hu : 0 < k.use
              · have := hkeep hu; omega
              · omega
            · rw [if_neg hr]
          omega
    · right; exact ⟨k', List.mem_cons_of_mem _ hk', hneg⟩


end Pumpkin.CumSem
