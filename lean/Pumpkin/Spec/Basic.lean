/-
Specification layer: the documented meaning of Pumpkin models.

Core Lean only (no Mathlib), so that the driver executable links.

* variables are natural numbers (index into the assignment), an assignment is a `List Int`
  (reads outside the list give 0; the model-level predicate `inDoms` fixes the length),
* atomic predicates mirror `engine/predicates/predicate.rs` (`[x >= v]`, `[x <= v]`, `[x != v]`,
  `[x == v]`),
* a view is `scale * x + offset` (`engine/variables/affine_view.rs`); a literal is an atomic
  predicate on a 0-1 variable (`Literal::get_true_predicate`),
* `Cons` carries one constructor per documented constraint of `pumpkin_solver::constraints`,
  with the meaning stated in the doc comment of the constructor function.
-/
namespace Pumpkin

/-- Value of variable `x` under assignment `a`. -/
def val (a : List Int) (x : Nat) : Int := a.getD x 0

inductive Atom where
  | ge (x : Nat) (v : Int)
  | le (x : Nat) (v : Int)
  | ne (x : Nat) (v : Int)
  | eq (x : Nat) (v : Int)
deriving DecidableEq, Repr, Inhabited

namespace Atom

def var : Atom → Nat
  | ge x _ | le x _ | ne x _ | eq x _ => x

def bound : Atom → Int
  | ge _ v | le _ v | ne _ v | eq _ v => v

/-- Does the value `z` of the atom's variable make the atom true? -/
def holdsVal : Atom → Int → Bool
  | ge _ v, z => decide (v ≤ z)
  | le _ v, z => decide (z ≤ v)
  | ne _ v, z => decide (z ≠ v)
  | eq _ v, z => decide (z = v)

def holds (p : Atom) (a : List Int) : Bool := p.holdsVal (val a p.var)

/-- Mirrors `impl Not for Predicate`. -/
def neg : Atom → Atom
  | ge x v => le x (v - 1)
  | le x v => ge x (v + 1)
  | ne x v => eq x v
  | eq x v => ne x v

@[simp] theorem neg_var (p : Atom) : p.neg.var = p.var := by cases p <;> rfl

theorem neg_holdsVal (p : Atom) (z : Int) : p.neg.holdsVal z = !p.holdsVal z := by
  cases p <;> simp only [neg, holdsVal] <;> rw [Bool.eq_iff_iff] <;> simp <;> omega

theorem neg_holds (p : Atom) (a : List Int) : p.neg.holds a = !p.holds a := by
  simp [holds, neg_holdsVal]

theorem neg_neg (p : Atom) : p.neg.neg = p := by
  cases p <;> simp [neg] <;> omega

end Atom

/-- `scale * x + offset`. -/
structure View where
  scale : Int
  offset : Int
  var : Nat
deriving DecidableEq, Repr, Inhabited

namespace View
def eval (w : View) (a : List Int) : Int := w.scale * val a w.var + w.offset
def ofVar (x : Nat) : View := ⟨1, 0, x⟩
def scaled (w : View) (k : Int) : View := ⟨w.scale * k, w.offset * k, w.var⟩
def offsetBy (w : View) (k : Int) : View := ⟨w.scale, w.offset + k, w.var⟩

theorem scaled_eval (w : View) (k : Int) (a : List Int) : (w.scaled k).eval a = k * w.eval a := by
  simp only [scaled, eval]
  rw [Int.mul_add, Int.mul_comm w.scale k, Int.mul_assoc, Int.mul_comm w.offset k]

theorem offsetBy_eval (w : View) (k : Int) (a : List Int) : (w.offsetBy k).eval a = w.eval a + k := by
  simp only [offsetBy, eval]; omega
end View

/-- A cumulative task: start-time view, duration, resource usage. -/
structure Task where
  start : View
  dur : Int
  use : Int
deriving DecidableEq, Repr, Inhabited

def sumViews (ts : List View) (a : List Int) : Int := (ts.map (·.eval a)).foldl (· + ·) 0

/-- all elements of a list of integers pairwise distinct -/
def pairwiseNe : List Int → Bool
  | [] => true
  | x :: xs => xs.all (fun y => decide (x ≠ y)) && pairwiseNe xs

/-- resource usage at time `t` -/
def loadAt (ts : List Task) (a : List Int) (t : Int) : Int :=
  (ts.map (fun k => if k.start.eval a ≤ t ∧ t < k.start.eval a + k.dur then k.use else 0)).foldl (· + ·) 0

inductive Cons where
  /-- `Σ ts ≤ c` (`less_than_or_equals`) -/
  | linLe (ts : List View) (c : Int)
  /-- `Σ ts = c` (`equals`) -/
  | linEq (ts : List View) (c : Int)
  /-- `Σ ts ≠ c` (`not_equals`) -/
  | linNe (ts : List View) (c : Int)
  /-- `a * b = c` (`times`) -/
  | times (a b c : View)
  /-- `n / d = r` with truncating division, `d ≠ 0` (`division`) -/
  | div (n d r : View)
  /-- `|s| = a` (`absolute`) -/
  | abs (s a : View)
  /-- `max xs = r` (`maximum`) -/
  | max (xs : List View) (r : View)
  /-- `min xs = r` (`minimum`) -/
  | min (xs : List View) (r : View)
  /-- `xs[i] = r`, zero-indexed (`element`) -/
  | element (i : View) (xs : List View) (r : View)
  /-- pairwise distinct (`all_different`) -/
  | allDiff (xs : List View)
  /-- at every time point the usage of running tasks is at most `cap` (`cumulative`) -/
  | cumulative (ts : List Task) (cap : Int)
  /-- disjunction of atomic predicates (`add_clause`, `clause`) -/
  | clause (ls : List Atom)
  /-- conjunction of atomic predicates (`conjunction`) -/
  | conj (ls : List Atom)
  /-- `r → c` (`implied_by`) -/
  | implied (r : Atom) (c : Cons)
  /-- `r ↔ c` (`reify`) -/
  | reif (r : Atom) (c : Cons)
  /-- complement (`negation()`) -/
  | neg (c : Cons)
deriving Repr, Inhabited

namespace Cons

def sat (a : List Int) : Cons → Bool
  | linLe ts c => decide (sumViews ts a ≤ c)
  | linEq ts c => decide (sumViews ts a = c)
  | linNe ts c => decide (sumViews ts a ≠ c)
  | times x y z => decide (x.eval a * y.eval a = z.eval a)
  | div n d r => decide (d.eval a ≠ 0) && decide (Int.tdiv (n.eval a) (d.eval a) = r.eval a)
  | abs s r => decide ((s.eval a).natAbs = r.eval a)
  | max xs r => xs.all (fun x => decide (x.eval a ≤ r.eval a)) && xs.any (fun x => decide (x.eval a = r.eval a))
  | min xs r => xs.all (fun x => decide (r.eval a ≤ x.eval a)) && xs.any (fun x => decide (x.eval a = r.eval a))
  | element i xs r =>
      decide (0 ≤ i.eval a) &&
        (match xs[(i.eval a).toNat]? with
         | some x => decide (x.eval a = r.eval a)
         | none => false)
  | allDiff xs => pairwiseNe (xs.map (·.eval a))
  | cumulative ts cap => ts.all (fun k => decide (loadAt ts a (k.start.eval a) ≤ cap))
                          && decide (0 ≤ cap)
  | clause ls => ls.any (·.holds a)
  | conj ls => ls.all (·.holds a)
  | implied r c => !r.holds a || c.sat a
  | reif r c => r.holds a == c.sat a
  | neg c => !c.sat a

end Cons

structure Model where
  /-- declared domain of each variable: the list of its values -/
  doms : List (List Int)
  cons : List Cons
deriving Repr, Inhabited

/-- `a` gives every variable a value from its declared domain (and nothing else). -/
def inDoms : List (List Int) → List Int → Bool
  | [], [] => true
  | d :: ds, v :: vs => d.contains v && inDoms ds vs
  | _, _ => false

def Model.sat (m : Model) (a : List Int) : Bool :=
  inDoms m.doms a && m.cons.all (·.sat a)

/-- Cartesian product of the declared domains, in lexicographic order of the listed values. -/
def product : List (List Int) → List (List Int)
  | [] => [[]]
  | d :: ds => d.flatMap (fun v => (product ds).map (fun vs => v :: vs))

/-- Verified brute-force oracle: all solutions of a finite-domain model. -/
def solutions (m : Model) : List (List Int) :=
  (product m.doms).filter (fun a => m.cons.all (·.sat a))

theorem mem_product (ds : List (List Int)) (a : List Int) : a ∈ product ds ↔ inDoms ds a = true := by
  induction ds generalizing a with
  | nil => cases a <;> simp [product, inDoms]
  | cons d ds ih =>
    cases a with
    | nil => simp [product, inDoms]
    | cons v vs =>
      simp only [product, List.mem_flatMap, List.mem_map, inDoms, Bool.and_eq_true,
        List.contains_iff_mem]
      constructor
      · rintro ⟨w, hw, vs', hvs', h⟩
        cases h
        exact ⟨hw, (ih _).1 hvs'⟩
      · rintro ⟨hv, hvs⟩
        exact ⟨v, hv, vs, (ih _).2 hvs, rfl⟩

/-- The oracle is exact: its members are precisely the satisfying assignments. -/
theorem mem_solutions (m : Model) (a : List Int) : a ∈ solutions m ↔ m.sat a = true := by
  simp [solutions, Model.sat, mem_product]

theorem solutions_eq_nil_iff (m : Model) : solutions m = [] ↔ ∀ a, m.sat a = false := by
  constructor
  · intro h a
    cases hs : m.sat a with
    | false => rfl
    | true => have := (mem_solutions m a).2 hs; simp [h] at this
  · intro h
    apply List.eq_nil_iff_forall_not_mem.2
    intro a ha
    have := (mem_solutions m a).1 ha
    simp [h a] at this

theorem product_nodup (ds : List (List Int)) (h : ∀ d ∈ ds, d.Nodup) : (product ds).Nodup := by
  induction ds with
  | nil => simp [product]
  | cons d ds ih =>
    have hd : d.Nodup := h d (by simp)
    have hds : (product ds).Nodup := ih (fun d' hd' => h d' (by simp [hd']))
    simp only [product]
    clear ih h
    induction d with
    | nil => simp
    | cons v vs ihv =>
      simp only [List.flatMap_cons]
      rw [List.nodup_append]
      have hv := List.nodup_cons.1 hd
      refine ⟨?_, ihv hv.2, ?_⟩
      · refine List.pairwise_map.2 (List.Pairwise.imp ?_ hds)
        intro x y hxy h
        exact hxy (by simpa using h)
      · intro x hx y hy hxy
        subst hxy
        simp only [List.mem_map] at hx
        obtain ⟨xs, _, rfl⟩ := hx
        simp only [List.mem_flatMap, List.mem_map] at hy
        obtain ⟨w, hw, ys, _, hys⟩ := hy
        cases hys
        exact hv.1 hw

theorem solutions_nodup (m : Model) (h : ∀ d ∈ m.doms, d.Nodup) : (solutions m).Nodup :=
  List.Nodup.sublist List.filter_sublist (product_nodup _ h)

theorem inDoms_length {ds : List (List Int)} {a : List Int} (h : inDoms ds a = true) :
    a.length = ds.length := by
  induction ds generalizing a with
  | nil => cases a <;> simp_all [inDoms]
  | cons d ds ih =>
    cases a with
    | nil => simp [inDoms] at h
    | cons v vs =>
      simp only [inDoms, Bool.and_eq_true] at h
      simp [ih h.2]

end Pumpkin
