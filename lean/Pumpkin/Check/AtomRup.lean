/-
Reverse unit propagation over *atomic predicates with domain semantics* (the derivation rule of
DRCP nogood steps): a clause is a disjunction of atoms `[x ≥ v]`, `[x ≤ v]`, `[x ≠ v]`, `[x = v]`;
the propagation state is the current value set of every variable (starting from the declared
domains). Asserting an atom filters its variable's value set; an atom is true / false when all /
no remaining values satisfy it.

`rup_sound`: if `rup doms clauses goal = true`, every assignment within `doms` that satisfies all
`clauses` satisfies `goal`.
-/
import Pumpkin.Spec.Basic

namespace Pumpkin.AtomRup

abbrev Doms := List (List Int)

def domOf (ds : Doms) (x : Nat) : List Int := ds.getD x []

def atomTrue (ds : Doms) (p : Atom) : Bool := (domOf ds p.var).all p.holdsVal
def atomFalse (ds : Doms) (p : Atom) : Bool := (domOf ds p.var).all (fun v => !p.holdsVal v)

/-- restrict variable `x` to the values satisfying `f` -/
def restrict : Doms → Nat → (Int → Bool) → Doms
  | [], _, _ => []
  | d :: ds, 0, f => d.filter f :: ds
  | d :: ds, x + 1, f => d :: restrict ds x f

def assume (ds : Doms) (p : Atom) : Doms := restrict ds p.var p.holdsVal

def hasEmpty (ds : Doms) : Bool := ds.any List.isEmpty

def wfAtom (n : Nat) (p : Atom) : Bool := decide (p.var < n)
def wfClause (n : Nat) (c : List Atom) : Bool := c.all (wfAtom n)

inductive Status | satisfied | conflict | unit (p : Atom) | open_

def status (ds : Doms) (c : List Atom) : Status :=
  if c.any (atomTrue ds) then .satisfied
  else
    match c.filter (fun p => !atomFalse ds p) with
    | [] => .conflict
    | p :: rest => if rest.all (fun q => q == p) then .unit p else .open_

def pass : List (List Atom) → Doms → Bool → Option (Doms × Bool)
  | [], ds, grew => some (ds, grew)
  | c :: cs, ds, grew =>
    match status ds c with
    | .conflict => none
    | .unit p => pass cs (assume ds p) true
    | _ => pass cs ds grew

def propagatesToConflict (cs : List (List Atom)) : Nat → Doms → Bool
  | 0, _ => false
  | fuel + 1, ds =>
    if hasEmpty ds then true
    else
      match pass cs ds false with
      | none => true
      | some (ds', grew) => if grew then propagatesToConflict cs fuel ds' else hasEmpty ds'

/-- assume the negation of every atom of the goal, then propagate -/
def rup (doms : Doms) (cs : List (List Atom)) (goal : List Atom) : Bool :=
  propagatesToConflict cs (cs.length + goal.length + 2) (goal.foldl (fun ds p => assume ds p.neg) doms)

/-! ### soundness -/

theorem val_mem_of_inDoms {ds : Doms} {a : List Int} (h : inDoms ds a = true) {x : Nat}
    (hx : x < ds.length) : val a x ∈ domOf ds x := by
  induction ds generalizing a x with
  | nil => simp at hx
  | cons d ds ih =>
    cases a with
    | nil => simp [inDoms] at h
    | cons v vs =>
      simp only [inDoms, Bool.and_eq_true, List.contains_iff_mem] at h
      cases x with
      | zero => simpa [val, domOf] using h.1
      | succ x =>
        have := ih h.2 (x := x) (by simpa using hx)
        simpa [val, domOf] using this

theorem atomTrue_sound {ds : Doms} {a : List Int} (h : inDoms ds a = true) {p : Atom}
    (hw : p.var < ds.length) (ht : atomTrue ds p = true) : p.holds a = true := by
  have hm := val_mem_of_inDoms h hw
  exact List.all_eq_true.1 ht _ hm

theorem atomFalse_sound {ds : Doms} {a : List Int} (h : inDoms ds a = true) {p : Atom}
    (hw : p.var < ds.length) (hf : atomFalse ds p = true) : p.holds a = false := by
  have hm := val_mem_of_inDoms h hw
  have := List.all_eq_true.1 hf _ hm
  simpa [Atom.holds] using this

theorem restrict_length (ds : Doms) (x : Nat) (f : Int → Bool) : (restrict ds x f).length = ds.length := by
  induction ds generalizing x with
  | nil => rfl
  | cons d ds ih => cases x <;> simp [restrict, ih]

theorem inDoms_restrict {ds : Doms} {a : List Int} (h : inDoms ds a = true) (x : Nat) (f : Int → Bool)
    (hf : f (val a x) = true) : inDoms (restrict ds x f) a = true := by
  induction ds generalizing a x with
  | nil => simpa [restrict] using h
  | cons d ds ih =>
    cases a with
    | nil => simp [inDoms] at h
    | cons v vs =>
      simp only [inDoms, Bool.and_eq_true, List.contains_iff_mem] at h
      cases x with
      | zero =>
        simp only [restrict, inDoms, Bool.and_eq_true, List.contains_iff_mem, List.mem_filter]
        exact ⟨⟨h.1, by simpa [val] using hf⟩, h.2⟩
      | succ x =>
        simp only [restrict, inDoms, Bool.and_eq_true, List.contains_iff_mem]
        exact ⟨h.1, ih h.2 x (by simpa [val] using hf)⟩

theorem inDoms_assume {ds : Doms} {a : List Int} (h : inDoms ds a = true) {p : Atom}
    (hp : p.holds a = true) : inDoms (assume ds p) a = true :=
  inDoms_restrict h p.var p.holdsVal hp

theorem assume_length (ds : Doms) (p : Atom) : (assume ds p).length = ds.length :=
  restrict_length ds p.var p.holdsVal

theorem not_hasEmpty_of_inDoms {ds : Doms} {a : List Int} (h : inDoms ds a = true) : hasEmpty ds = false := by
  induction ds generalizing a with
  | nil => rfl
  | cons d ds ih =>
    cases a with
    | nil => simp [inDoms] at h
    | cons v vs =>
      simp only [inDoms, Bool.and_eq_true, List.contains_iff_mem] at h
      simp only [hasEmpty, List.any_cons, Bool.or_eq_false_iff]
      refine ⟨?_, ih h.2⟩
      cases d with
      | nil => cases h.1
      | cons _ _ => rfl

/-- a true atom of a satisfied clause survives the filter -/
theorem live_of_holds {ds : Doms} {a : List Int} (h : inDoms ds a = true) (c : List Atom)
    (hw : ∀ p ∈ c, p.var < ds.length) (hc : c.any (·.holds a) = true) :
    ∃ p, p ∈ c.filter (fun p => !atomFalse ds p) ∧ p.holds a = true := by
  obtain ⟨p, hp, hpt⟩ := List.any_eq_true.1 hc
  have hnf : atomFalse ds p = false := by
    cases hf : atomFalse ds p with
    | false => rfl
    | true => have := atomFalse_sound h (hw p hp) hf; simp [hpt] at this
  exact ⟨p, by simp [List.mem_filter, hp, hnf], hpt⟩

theorem status_not_conflict {ds : Doms} {a : List Int} (h : inDoms ds a = true) (c : List Atom)
    (hw : ∀ p ∈ c, p.var < ds.length) (hc : c.any (·.holds a) = true) : status ds c ≠ .conflict := by
  obtain ⟨p, hp, _⟩ := live_of_holds h c hw hc
  unfold status
  by_cases hany : c.any (atomTrue ds) = true
  · rw [if_pos hany]; intro h'; cases h'
  · rw [if_neg hany]
    cases hlive : c.filter (fun p => !atomFalse ds p) with
    | nil => rw [hlive] at hp; cases hp
    | cons x xs =>
      simp only
      split <;> (intro h'; cases h')

theorem status_unit_holds {ds : Doms} {a : List Int} (h : inDoms ds a = true) (c : List Atom)
    (hw : ∀ p ∈ c, p.var < ds.length) (hc : c.any (·.holds a) = true) (u : Atom)
    (hu : status ds c = .unit u) : u.holds a = true ∧ u ∈ c := by
  obtain ⟨p, hp, hpt⟩ := live_of_holds h c hw hc
  unfold status at hu
  by_cases hany : c.any (atomTrue ds) = true
  · rw [if_pos hany] at hu; cases hu
  · rw [if_neg hany] at hu
    cases hlive : c.filter (fun p => !atomFalse ds p) with
    | nil => rw [hlive] at hp; cases hp
    | cons x xs =>
      rw [hlive] at hu hp
      simp only at hu
      have hxc : x ∈ c := by
        have : x ∈ c.filter (fun p => !atomFalse ds p) := by rw [hlive]; simp
        exact (List.mem_filter.1 this).1
      by_cases hall : xs.all (fun q => q == x) = true
      · rw [if_pos hall] at hu
        simp only [Status.unit.injEq] at hu
        subst hu
        refine ⟨?_, hxc⟩
        cases hp with
        | head => exact hpt
        | tail _ hp' =>
          have := List.all_eq_true.1 hall p hp'
          have : p = x := by simpa using this
          subst this; exact hpt
      · rw [if_neg hall] at hu; cases hu

theorem pass_sound {a : List Int} (cs : List (List Atom)) (ds : Doms) (grew : Bool)
    (h : inDoms ds a = true) (hw : ∀ c ∈ cs, ∀ p ∈ c, p.var < ds.length)
    (hcs : ∀ c ∈ cs, c.any (·.holds a) = true) :
    pass cs ds grew ≠ none ∧ ∀ ds' g, pass cs ds grew = some (ds', g) → inDoms ds' a = true ∧ ds'.length = ds.length := by
  induction cs generalizing ds grew with
  | nil =>
    simp only [pass]
    refine ⟨by simp, ?_⟩
    intro ds' g h'
    simp only [Option.some.injEq, Prod.mk.injEq] at h'
    rw [← h'.1]; exact ⟨h, rfl⟩
  | cons c cs ih =>
    have hwc := hw c (by simp)
    have hcc := hcs c (by simp)
    have hw' : ∀ c' ∈ cs, ∀ p ∈ c', p.var < ds.length := fun c' hc' => hw c' (List.mem_cons_of_mem _ hc')
    have hcs' : ∀ c' ∈ cs, c'.any (·.holds a) = true := fun c' hc' => hcs c' (List.mem_cons_of_mem _ hc')
    simp only [pass]
    cases hst : status ds c with
    | conflict => exact absurd hst (status_not_conflict h c hwc hcc)
    | unit u =>
      have hu := status_unit_holds h c hwc hcc u hst
      have h2 := inDoms_assume h hu.1
      have hl := assume_length ds u
      have := ih (assume ds u) true h2 (by intro c' hc' p hp; rw [hl]; exact hw' c' hc' p hp) hcs'
      refine ⟨this.1, ?_⟩
      intro ds' g hp
      have := this.2 ds' g hp
      exact ⟨this.1, by rw [this.2, hl]⟩
    | satisfied => exact ih ds grew h hw' hcs'
    | open_ => exact ih ds grew h hw' hcs'

theorem propagates_sound {a : List Int} (cs : List (List Atom)) (fuel : Nat) (ds : Doms)
    (h : inDoms ds a = true) (hw : ∀ c ∈ cs, ∀ p ∈ c, p.var < ds.length)
    (hcs : ∀ c ∈ cs, c.any (·.holds a) = true) : propagatesToConflict cs fuel ds = false := by
  induction fuel generalizing ds with
  | zero => rfl
  | succ fuel ih =>
    unfold propagatesToConflict
    rw [not_hasEmpty_of_inDoms h]
    simp only [Bool.false_eq_true, if_false]
    have hp := pass_sound cs ds false h hw hcs
    cases hpass : pass cs ds false with
    | none => exact absurd hpass hp.1
    | some r =>
      obtain ⟨ds', grew⟩ := r
      have h2 := hp.2 ds' grew hpass
      cases grew
      · simp only [Bool.false_eq_true, if_false]
        exact not_hasEmpty_of_inDoms h2.1
      · simp only [if_true]
        exact ih ds' h2.1 (by intro c hc p hpp; rw [h2.2]; exact hw c hc p hpp)

theorem foldl_assume_neg {a : List Int} (goal : List Atom) (ds : Doms) (h : inDoms ds a = true)
    (hg : ∀ p ∈ goal, p.holds a = false) :
    inDoms (goal.foldl (fun ds p => assume ds p.neg) ds) a = true ∧
      (goal.foldl (fun ds p => assume ds p.neg) ds).length = ds.length := by
  induction goal generalizing ds with
  | nil => exact ⟨h, rfl⟩
  | cons p ps ih =>
    simp only [List.foldl_cons]
    have hp : p.neg.holds a = true := by rw [Atom.neg_holds, hg p (by simp)]; rfl
    have := ih (assume ds p.neg) (inDoms_assume h hp) (fun q hq => hg q (List.mem_cons_of_mem _ hq))
    exact ⟨this.1, by rw [this.2, assume_length]⟩

/-- **Soundness of domain-aware RUP.** -/
theorem rup_sound (doms : Doms) (cs : List (List Atom)) (goal : List Atom)
    (hw : ∀ c ∈ cs, ∀ p ∈ c, p.var < doms.length) (h : rup doms cs goal = true)
    (a : List Int) (ha : inDoms doms a = true) (hcs : ∀ c ∈ cs, c.any (·.holds a) = true) :
    goal.any (·.holds a) = true := by
  cases hg : goal.any (·.holds a) with
  | true => rfl
  | false =>
    exfalso
    have hgf : ∀ p ∈ goal, p.holds a = false := by
      intro p hp
      cases hv : p.holds a with
      | false => rfl
      | true =>
        have : goal.any (·.holds a) = true := List.any_eq_true.2 ⟨p, hp, hv⟩
        simp [hg] at this
    have h2 := foldl_assume_neg goal doms ha hgf
    have := propagates_sound cs (cs.length + goal.length + 2) _ h2.1
      (by intro c hc p hp; rw [h2.2]; exact hw c hc p hp) hcs
    unfold rup at h
    rw [this] at h
    cases h

end Pumpkin.AtomRup
