/-
Derivation check for learned nogoods: a nogood `N` is accepted if it follows by domain-aware unit
propagation (`AtomRup.rup`) from a set of implications `premises → conclusion` (the reasons handed to
conflict analysis, the conflict, root propagations, earlier nogoods). `derivable_sound`: under any
assignment within the domains which respects every implication, not all predicates of `N` hold.
-/
import Pumpkin.Check.AtomRup

namespace Pumpkin.Derive

open Pumpkin.AtomRup

/-- `premises → conclusion` (`none` = the premises are contradictory) -/
abbrev Impl := List Atom × Option Atom

def clauseOf (c : Impl) : List Atom := c.1.map Atom.neg ++ c.2.toList

def Impl.respected (c : Impl) (a : List Int) : Prop :=
  (∀ p ∈ c.1, p.holds a = true) → ∃ q, c.2 = some q ∧ q.holds a = true

def wf (n : Nat) (g : List Impl) (ng : List Atom) : Bool :=
  g.all (fun c => (clauseOf c).all (fun p => decide (p.var < n))) && ng.all (fun p => decide (p.var < n))

def derivable (doms : Doms) (g : List Impl) (ng : List Atom) : Bool :=
  wf doms.length g ng && rup doms (g.map clauseOf) (ng.map Atom.neg)

theorem clause_holds (c : Impl) (a : List Int) (h : c.respected a) : (clauseOf c).any (·.holds a) = true := by
  unfold clauseOf
  by_cases hp : ∀ p ∈ c.1, p.holds a = true
  · obtain ⟨q, hq, hh⟩ := h hp
    rw [hq]
    simp [List.any_append, hh]
  · have : ∃ p ∈ c.1, p.holds a = false := by
      apply Classical.byContradiction
      intro hc
      apply hp
      intro p hpm
      cases hv : p.holds a
      · exact absurd ⟨p, hpm, hv⟩ hc
      · rfl
    obtain ⟨p, hpm, hv⟩ := this
    rw [List.any_append, Bool.or_eq_true]
    left
    rw [List.any_eq_true]
    exact ⟨p.neg, List.mem_map.2 ⟨p, hpm, rfl⟩, by rw [Atom.neg_holds, hv]; rfl⟩

/-- **An accepted derivation is sound.** -/
theorem derivable_sound (doms : Doms) (g : List Impl) (ng : List Atom) (h : derivable doms g ng = true)
    (a : List Int) (ha : inDoms doms a = true) (hg : ∀ c ∈ g, c.respected a) :
    ¬ ∀ p ∈ ng, p.holds a = true := by
  unfold derivable at h
  rw [Bool.and_eq_true] at h
  obtain ⟨hw, hr⟩ := h
  have hw' : ∀ c ∈ g.map clauseOf, ∀ p ∈ c, p.var < doms.length := by
    intro c hc p hp
    obtain ⟨i, hi, rfl⟩ := List.mem_map.1 hc
    unfold wf at hw
    rw [Bool.and_eq_true] at hw
    have := List.all_eq_true.1 hw.1 i hi
    have := List.all_eq_true.1 this p hp
    simpa using this
  have hcs : ∀ c ∈ g.map clauseOf, c.any (·.holds a) = true := by
    intro c hc
    obtain ⟨i, hi, rfl⟩ := List.mem_map.1 hc
    exact clause_holds i a (hg i hi)
  have := rup_sound doms (g.map clauseOf) (ng.map Atom.neg) hw' hr a ha hcs
  intro hall
  obtain ⟨q, hq, hh⟩ := List.any_eq_true.1 this
  obtain ⟨p, hp, rfl⟩ := List.mem_map.1 hq
  rw [Atom.neg_holds, hall p hp] at hh
  cases hh

end Pumpkin.Derive
