/-
Verified checker for DRCP certificates (C06).

A proof is a list of `Drcp.Step`s over literal codes; `lits` maps a positive code to its atomic
predicate (negative codes denote the negation). The checker accepts

* an inference step tagged `t` iff `premises → conclusion` (conclusion absent = false) follows
  from constraint number `t` of the model alone, within the declared domains and given the
  definitions of the literal variables (`checkInferenceD`; the first `nd` constraints of the model);
* an untagged inference iff it follows from some single constraint of the model together with the
  unit nogoods derived so far (the solver stores a posted clause simplified by the root facts), or
  by domain-aware RUP from the live nogoods, or — when an objective is given — it is an
  *improvement axiom*: a bound on the objective (`[obj ≤ v]` when minimising), written as a
  conclusion without premises or as `[obj ≥ v+1] → false`, possibly padded with constant literals;
* a nogood step iff its clause follows by domain-aware RUP (`AtomRup.rup`) from the steps it may
  use: with hints exactly the listed steps (inferences since the previous nogood and live nogoods),
  without hints all inferences since the previous nogood together with all live nogoods;
* `c UNSAT` iff the empty nogood was derived (and no improvement axiom was used);
* an optimality conclusion iff the empty nogood was derived and the concluded bound is the
  strongest improvement axiom's bound + 1 (minimisation) resp. − 1 (maximisation).

Soundness: `checkDrcp_unsat_sound` (accepted UNSAT proof ⇒ the model has no solution) and
`checkDrcp_bound_sound` (accepted optimality proof ⇒ no solution is strictly better than the bound).
-/
import Pumpkin.Spec.Basic
import Pumpkin.Check.Oracle
import Pumpkin.Check.AtomRup
import Pumpkin.Model.Drcp

namespace Pumpkin.DrcpCheck
open Pumpkin.Drcp Pumpkin.AtomRup

def atomOfCode (lits : List (Nat × Atom)) (code : Int) : Option Atom :=
  match lits.find? (fun e => e.1 == code.natAbs) with
  | some e => some (if code > 0 then e.2 else e.2.neg)
  | none => none

def atomsOfCodes (lits : List (Nat × Atom)) (codes : List Int) : Option (List Atom) :=
  codes.mapM (atomOfCode lits)

/-- direction of the improvement axioms: `none` = satisfaction problem -/
inductive Obj | none | minimise (x : Nat) | maximise (x : Nat)
deriving Repr

structure St where
  /-- clauses of the inference steps since the last nogood step -/
  window : List (List Atom) := []
  /-- step ids of the inference steps in `window` (same order) -/
  windowIds : List Nat := []
  /-- live nogood clauses with their step ids -/
  nogoods : List (Nat × List Atom) := []
  sawEmpty : Bool := false
  /-- bounds `v` of the improvement axioms used so far -/
  axioms : List Int := []
deriving Repr

/-- An improvement axiom `[obj ≤ v]` (minimising) / `[obj ≥ v]` (maximising); the solver writes it
either as "no premises, conclusion `l`" or in the form `¬l → false` (premise `¬l`, no conclusion). -/
def isAxiom (obj : Obj) (prem : List Atom) (concl : Option Atom) : Option Int :=
  match obj, prem, concl with
  | .minimise x, [], some (Atom.le y v) => if x == y then some v else Option.none
  | .maximise x, [], some (Atom.ge y v) => if x == y then some v else Option.none
  | .minimise x, [Atom.ge y v], Option.none => if x == y then some (v - 1) else Option.none
  | .maximise x, [Atom.le y v], Option.none => if x == y then some (v + 1) else Option.none
  | _, _, _ => Option.none

/-- An inference is accepted as an improvement axiom when the axiom is the inference itself, one of
its premises alone (`¬p → false`), or its conclusion alone: the solver writes "true"/"false" as
literals over its constant variable, so the axiom `[obj ≥ v] → false` may come out as
`[obj ≥ v] ∧ true → false` or `[obj ≥ v] → false-literal`. A clause implies each of its supersets. -/
def axiomOf (obj : Obj) (prem : List Atom) (concl : Option Atom) : Option Int :=
  match isAxiom obj prem concl with
  | some v => some v
  | none =>
    match prem.findSome? (fun p => isAxiom obj [p] Option.none) with
    | some v => some v
    | none => isAxiom obj [] concl

def inferenceClause (prem : List Atom) (concl : Option Atom) : List Atom :=
  prem.map Atom.neg ++ (match concl with | some q => [q] | none => [])

def liveClauses (st : St) : List (List Atom) := st.nogoods.map (·.2)

/-- the facts established so far by unit nogoods -/
def unitFacts (st : St) : List Atom :=
  (liveClauses st).filterMap (fun cl => match cl with | [q] => some q | _ => Option.none)

/-- The clauses a nogood step may use: without hints every inference since the last nogood and every
live nogood; with hints only the steps whose id is listed. -/
def usable (st : St) (hints : Option (List Nat)) : List (List Atom) :=
  match hints with
  | none => st.window ++ liveClauses st
  | some hs => ((st.windowIds.zip st.window ++ st.nogoods).filter (fun e => hs.contains e.1)).map (·.2)

theorem usable_sub (st : St) (hints : Option (List Nat)) :
    ∀ c ∈ usable st hints, c ∈ st.window ++ liveClauses st := by
  intro c hc
  cases hints with
  | none => exact hc
  | some hs =>
    simp only [usable, List.mem_map, List.mem_filter, List.mem_append] at hc
    obtain ⟨e, ⟨he, _⟩, rfl⟩ := hc
    rcases he with he | he
    · exact List.mem_append_left _ (List.of_mem_zip he).2
    · exact List.mem_append_right _ (List.mem_map.2 ⟨e, he, rfl⟩)

/-- The first `nd` constraints of the model are *definitions* of literal variables (`r ↔ p`, posted by
the solver itself when the literal is created with `new_literal_for_predicate`); the proof writes
`p` wherever `r` is meant, so inferences are judged given the definitions. -/
def defsOf (m : Model) (nd : Nat) : List Cons := m.cons.take nd

theorem defsOf_sub (m : Model) (nd : Nat) : ∀ d ∈ defsOf m nd, d ∈ m.cons :=
  fun _ hd => List.mem_of_mem_take hd

theorem defsOf_zero (m : Model) : defsOf m 0 = [] := by simp [defsOf]

def stepCheck (m : Model) (nd : Nat) (lits : List (Nat × Atom)) (obj : Obj) (st : St) : Step → Option St
  | .inference id prem prop tag _ => do
    let premA ← atomsOfCodes lits prem
    let conclA ← (match prop with
      | some p => (atomOfCode lits p).map some
      | none => some none)
    let clause := inferenceClause premA conclA
    if !wfClause m.doms.length clause then none else
    match tag with
    | some t =>
      match m.cons[t - 1]? with
      | some c =>
        if t ≠ 0 && checkInferenceD m.doms (defsOf m nd) c premA conclA then some { st with window := clause :: st.window, windowIds := id :: st.windowIds } else none
      | none => none
    | none =>
      -- an untagged inference may come from a posted clause, which the solver stores simplified by
      -- the root facts: it has to follow from one constraint together with the unit nogoods so far
      if m.cons.any (fun c => checkInferenceD m.doms (defsOf m nd) c (premA ++ unitFacts st) conclA) then
        some { st with window := clause :: st.window, windowIds := id :: st.windowIds }
      else if rup m.doms (liveClauses st) clause then
        some { st with window := clause :: st.window, windowIds := id :: st.windowIds }
      else
        match axiomOf obj premA conclA with
        | some v => some { st with window := clause :: st.window, windowIds := id :: st.windowIds, axioms := v :: st.axioms }
        | none => none
  | .nogood id codes hints => do
    let clause ← atomsOfCodes lits codes
    if !wfClause m.doms.length clause then none else
    if rup m.doms (usable st hints) clause then
      some { st with window := [], windowIds := [], nogoods := (id, clause) :: st.nogoods,
                     sawEmpty := st.sawEmpty || clause.isEmpty }
    else none
  | .deletion id => some { st with nogoods := st.nogoods.filter (fun e => e.1 != id) }
  | .unsat => some st
  | .optimal _ => some st

def runSteps (m : Model) (nd : Nat) (lits : List (Nat × Atom)) (obj : Obj) : St → List Step → Option St
  | st, [] => some st
  | st, s :: rest =>
    match stepCheck m nd lits obj st s with
    | some st' => runSteps m nd lits obj st' rest
    | none => none

inductive Verdict
  | unsat
  | bound (b : Int)
  /-- every step is valid, the conclusion states the bound `b` on variable `x`, but the proof does
  not contain a refutation of the improvement axioms (the bound itself is then judged by the oracle) -/
  | stepsValid (x : Nat) (b : Int)
  | rejected
deriving DecidableEq, Repr

/-- the verdict when the proof does not refute the improvement axioms: only an optimality conclusion
over the objective variable is reported (as `stepsValid`), everything else is rejected -/
def concludeWithoutRefutation (lits : List (Nat × Atom)) (obj : Obj) (last : Option Step) : Verdict :=
  match last, obj with
  | some (.optimal code), .minimise x | some (.optimal code), .maximise x =>
    (match atomOfCode lits code with
     | some q => if q.var == x then .stepsValid x q.bound else .rejected
     | none => .rejected)
  | _, _ => .rejected

theorem concludeWithoutRefutation_ne (lits : List (Nat × Atom)) (obj : Obj) (last : Option Step) :
    concludeWithoutRefutation lits obj last ≠ .unsat ∧ ∀ b, concludeWithoutRefutation lits obj last ≠ .bound b := by
  unfold concludeWithoutRefutation
  constructor
  · split <;> (try split) <;> (try split) <;> simp
  · intro b
    split <;> (try split) <;> (try split) <;> simp

/-- the conclusion is the last step -/
def checkDrcp (m : Model) (nd : Nat) (lits : List (Nat × Atom)) (obj : Obj) (steps : List Step) : Verdict :=
  match runSteps m nd lits obj {} steps with
  | none => .rejected
  | some st =>
    if !st.sawEmpty then concludeWithoutRefutation lits obj steps.getLast?
    else
    match steps.getLast? with
    | some .unsat => if st.axioms.isEmpty then .unsat else .rejected
    | some (.optimal code) =>
      match obj, atomOfCode lits code, st.axioms with
      | .minimise x, some q, v :: vs =>
        let vmin := vs.foldl min v
        if q.var == x && q.bound == vmin + 1 then .bound (vmin + 1) else .rejected
      | .maximise x, some q, v :: vs =>
        let vmax := vs.foldl max v
        if q.var == x && q.bound == vmax - 1 then .bound (vmax - 1) else .rejected
      | .minimise x, some q, [] | .maximise x, some q, [] =>
        if q.var == x then .stepsValid x q.bound else .rejected
      | _, _, _ => .rejected
    | _ => .rejected

/-! ### soundness -/

/-- the assignments the proof talks about: solutions of the model that also satisfy every
improvement axiom of the given direction with bound in `axs` -/
def Good (m : Model) (obj : Obj) (axs : List Int) (a : List Int) : Prop :=
  m.sat a = true ∧
    match obj with
    | .none => True
    | .minimise x => ∀ v ∈ axs, val a x ≤ v
    | .maximise x => ∀ v ∈ axs, v ≤ val a x

def Inv (m : Model) (obj : Obj) (axs : List Int) (st : St) : Prop :=
  (∀ v ∈ st.axioms, v ∈ axs) ∧
  (∀ c ∈ st.window, wfClause m.doms.length c = true ∧ ∀ a, Good m obj axs a → c.any (·.holds a) = true) ∧
  (∀ e ∈ st.nogoods, wfClause m.doms.length e.2 = true ∧ ∀ a, Good m obj axs a → e.2.any (·.holds a) = true) ∧
  (st.sawEmpty = true → ∀ a, ¬ Good m obj axs a)

theorem good_inDoms {m : Model} {obj : Obj} {axs : List Int} {a : List Int} (h : Good m obj axs a) :
    inDoms m.doms a = true := by
  have := h.1
  simp only [Model.sat, Bool.and_eq_true] at this
  exact this.1

theorem wf_of_wfClause {n : Nat} {c : List Atom} (h : wfClause n c = true) : ∀ p ∈ c, p.var < n := by
  intro p hp
  have := List.all_eq_true.1 h p hp
  simpa [wfAtom] using this

theorem any_neg_eq_not_all (prem : List Atom) (a : List Int) :
    (prem.map Atom.neg).any (·.holds a) = !prem.all (·.holds a) := by
  induction prem with
  | nil => rfl
  | cons p ps ih =>
    simp only [List.map_cons, List.any_cons, List.all_cons, ih, Atom.neg_holds, Bool.not_and]

theorem inferenceClause_holds (prem : List Atom) (concl : Option Atom) (a : List Int)
    (h : (∀ p ∈ prem, p.holds a = true) → (match concl with | some q => q.holds a = true | none => False)) :
    (inferenceClause prem concl).any (·.holds a) = true := by
  simp only [inferenceClause, List.any_append, any_neg_eq_not_all]
  cases hall : prem.all (·.holds a) with
  | false => rfl
  | true =>
    have := h (List.all_eq_true.1 hall)
    cases concl with
    | none => exact this.elim
    | some q => simp [this]

theorem good_defs {m : Model} {obj : Obj} {axs : List Int} {a : List Int} (ha : Good m obj axs a) (nd : Nat) :
    ∀ d ∈ defsOf m nd, d.sat a = true := by
  intro d hd
  have := ha.1
  simp only [Model.sat, Bool.and_eq_true, List.all_eq_true] at this
  exact this.2 d (defsOf_sub m nd d hd)

theorem checkInference_clause {m : Model} {obj : Obj} {axs : List Int} (nd : Nat) (c : Cons) (hc : c ∈ m.cons)
    (prem : List Atom) (concl : Option Atom) (h : checkInferenceD m.doms (defsOf m nd) c prem concl = true)
    (a : List Int) (ha : Good m obj axs a) : (inferenceClause prem concl).any (·.holds a) = true := by
  apply inferenceClause_holds
  intro hp
  have hsat : c.sat a = true := by
    have := ha.1
    simp only [Model.sat, Bool.and_eq_true, List.all_eq_true] at this
    exact this.2 c hc
  exact (checkInferenceD_iff m.doms _ c prem concl).1 h a (good_inDoms ha) (good_defs ha nd) hsat hp

theorem unitFacts_hold {m : Model} {obj : Obj} {axs : List Int} {st : St} (hinv : Inv m obj axs st)
    (a : List Int) (ha : Good m obj axs a) : ∀ q ∈ unitFacts st, q.holds a = true := by
  intro q hq
  simp only [unitFacts, liveClauses, List.mem_filterMap, List.mem_map] at hq
  obtain ⟨cl, ⟨e, he, rfl⟩, hcl⟩ := hq
  have hh := (hinv.2.2.1 e he).2 a ha
  split at hcl
  · rename_i q' heq
    simp only [Option.some.injEq] at hcl
    subst hcl
    rw [heq] at hh
    simpa using hh
  · cases hcl

theorem checkInference_clause_units {m : Model} {obj : Obj} {axs : List Int} {st : St} (hinv : Inv m obj axs st)
    (nd : Nat) (c : Cons) (hc : c ∈ m.cons)
    (prem : List Atom) (concl : Option Atom) (h : checkInferenceD m.doms (defsOf m nd) c (prem ++ unitFacts st) concl = true)
    (a : List Int) (ha : Good m obj axs a) : (inferenceClause prem concl).any (·.holds a) = true := by
  apply inferenceClause_holds
  intro hp
  have hsat : c.sat a = true := by
    have := ha.1
    simp only [Model.sat, Bool.and_eq_true, List.all_eq_true] at this
    exact this.2 c hc
  refine (checkInferenceD_iff m.doms _ c _ concl).1 h a (good_inDoms ha) (good_defs ha nd) hsat ?_
  intro p hp'
  rcases List.mem_append.1 hp' with h1 | h1
  · exact hp p h1
  · exact unitFacts_hold hinv a ha p h1

theorem live_hold {m : Model} {obj : Obj} {axs : List Int} {st : St} (hinv : Inv m obj axs st)
    (a : List Int) (ha : Good m obj axs a) :
    (∀ c ∈ st.window ++ liveClauses st, c.any (·.holds a) = true) ∧
    (∀ c ∈ st.window ++ liveClauses st, ∀ p ∈ c, p.var < m.doms.length) := by
  constructor
  · intro c hc
    rcases List.mem_append.1 hc with h | h
    · exact (hinv.2.1 c h).2 a ha
    · simp only [liveClauses, List.mem_map] at h
      obtain ⟨e, he, rfl⟩ := h
      exact (hinv.2.2.1 e he).2 a ha
  · intro c hc
    rcases List.mem_append.1 hc with h | h
    · exact wf_of_wfClause (hinv.2.1 c h).1
    · simp only [liveClauses, List.mem_map] at h
      obtain ⟨e, he, rfl⟩ := h
      exact wf_of_wfClause (hinv.2.2.1 e he).1

theorem axiom_clause {m : Model} {obj : Obj} {axs : List Int} (prem : List Atom) (concl : Option Atom)
    (v : Int) (h : isAxiom obj prem concl = some v) (hv : v ∈ axs) (a : List Int) (ha : Good m obj axs a) :
    (inferenceClause prem concl).any (·.holds a) = true := by
  unfold isAxiom at h
  split at h
  · -- minimise, [], some (le y v)
    rename_i x y w
    split at h
    · rename_i hxy
      simp only [Option.some.injEq] at h; subst h
      have hxy' : x = y := by simpa using hxy
      subst hxy'
      have := ha.2 w hv
      simp [inferenceClause, Atom.holds, Atom.holdsVal, Atom.var, this]
    · cases h
  · rename_i x y w
    split at h
    · rename_i hxy
      simp only [Option.some.injEq] at h; subst h
      have hxy' : x = y := by simpa using hxy
      subst hxy'
      have := ha.2 w hv
      simp [inferenceClause, Atom.holds, Atom.holdsVal, Atom.var, this]
    · cases h
  · -- minimise, [ge y w], none : axiom bound w - 1
    rename_i x y w
    split at h
    · rename_i hxy
      simp only [Option.some.injEq] at h; subst h
      have hxy' : x = y := by simpa using hxy
      subst hxy'
      have h2 : val a x ≤ w - 1 := ha.2 (w - 1) hv
      simp only [inferenceClause, List.map_cons, List.map_nil, List.append_nil, List.any_cons,
        List.any_nil, Bool.or_false, Atom.neg, Atom.holds, Atom.holdsVal, Atom.var, decide_eq_true_eq]
      omega
    · cases h
  · rename_i x y w
    split at h
    · rename_i hxy
      simp only [Option.some.injEq] at h; subst h
      have hxy' : x = y := by simpa using hxy
      subst hxy'
      have h2 : w + 1 ≤ val a x := ha.2 (w + 1) hv
      simp only [inferenceClause, List.map_cons, List.map_nil, List.append_nil, List.any_cons,
        List.any_nil, Bool.or_false, Atom.neg, Atom.holds, Atom.holdsVal, Atom.var, decide_eq_true_eq]
      omega
    · cases h
  · cases h

theorem axiomOf_clause {m : Model} {obj : Obj} {axs : List Int} (prem : List Atom) (concl : Option Atom)
    (v : Int) (h : axiomOf obj prem concl = some v) (hv : v ∈ axs) (a : List Int) (ha : Good m obj axs a) :
    (inferenceClause prem concl).any (·.holds a) = true := by
  unfold axiomOf at h
  cases h1 : isAxiom obj prem concl with
  | some w =>
    rw [h1] at h
    simp only [Option.some.injEq] at h
    subst h
    exact axiom_clause prem concl w h1 hv a ha
  | none =>
    rw [h1] at h
    simp only at h
    cases h2 : prem.findSome? (fun p => isAxiom obj [p] Option.none) with
    | some w =>
      rw [h2] at h
      simp only [Option.some.injEq] at h
      subst h
      obtain ⟨p, hp, hpa⟩ := List.exists_of_findSome?_eq_some h2
      have := axiom_clause (m := m) [p] Option.none w hpa hv a ha
      simp only [inferenceClause, List.map_cons, List.map_nil, List.append_nil, List.any_cons,
        List.any_nil, Bool.or_false] at this
      simp only [inferenceClause, List.any_append, Bool.or_eq_true]
      left
      exact List.any_eq_true.2 ⟨p.neg, List.mem_map.2 ⟨p, hp, rfl⟩, this⟩
    | none =>
      rw [h2] at h
      simp only at h
      have := axiom_clause (m := m) [] concl v h hv a ha
      simp only [inferenceClause, List.map_nil, List.nil_append] at this
      simp only [inferenceClause, List.any_append, this, Bool.or_true]

theorem stepCheck_axioms_mono (m : Model) (nd : Nat) (lits : List (Nat × Atom)) (obj : Obj) (st st' : St) (s : Step)
    (h : stepCheck m nd lits obj st s = some st') : ∀ v ∈ st.axioms, v ∈ st'.axioms := by
  intro v hv
  cases s with
  | deletion id => simp only [stepCheck, Option.some.injEq] at h; subst h; exact hv
  | unsat => simp only [stepCheck, Option.some.injEq] at h; subst h; exact hv
  | optimal l => simp only [stepCheck, Option.some.injEq] at h; subst h; exact hv
  | nogood id codes hints =>
    simp only [stepCheck, Option.bind_eq_bind] at h
    cases hc : atomsOfCodes lits codes with
    | none => simp [hc] at h
    | some clause =>
      simp only [hc, Option.bind_some] at h
      split at h
      · cases h
      · split at h
        · simp only [Option.some.injEq] at h; subst h; exact hv
        · cases h
  | inference id prem prop tag label =>
    simp only [stepCheck, Option.bind_eq_bind] at h
    cases hp : atomsOfCodes lits prem with
    | none => simp [hp] at h
    | some premA =>
      simp only [hp, Option.bind_some] at h
      cases hq : (match prop with
        | some p => (atomOfCode lits p).map some
        | none => some none) with
      | none => simp [hq] at h
      | some conclA =>
        simp only [hq, Option.bind_some] at h
        split at h
        · cases h
        · cases tag with
          | some t =>
            simp only at h
            split at h
            · split at h
              · simp only [Option.some.injEq] at h; subst h; exact hv
              · cases h
            · cases h
          | none =>
            simp only at h
            split at h
            · simp only [Option.some.injEq] at h; subst h; exact hv
            · split at h
              · simp only [Option.some.injEq] at h; subst h; exact hv
              · split at h
                · simp only [Option.some.injEq] at h; subst h; exact List.mem_cons_of_mem _ hv
                · cases h

theorem stepCheck_inv (m : Model) (nd : Nat) (lits : List (Nat × Atom)) (obj : Obj) (axs : List Int) (st st' : St)
    (s : Step) (h : stepCheck m nd lits obj st s = some st') (hax : ∀ v ∈ st'.axioms, v ∈ axs)
    (hinv : Inv m obj axs st) : Inv m obj axs st' := by
  cases s with
  | unsat => simp only [stepCheck, Option.some.injEq] at h; subst h; exact hinv
  | optimal l => simp only [stepCheck, Option.some.injEq] at h; subst h; exact hinv
  | deletion id =>
    simp only [stepCheck, Option.some.injEq] at h
    subst h
    refine ⟨hinv.1, hinv.2.1, ?_, hinv.2.2.2⟩
    intro e he
    exact hinv.2.2.1 e (List.mem_filter.1 he).1
  | nogood id codes hints =>
    simp only [stepCheck, Option.bind_eq_bind] at h
    cases hc : atomsOfCodes lits codes with
    | none => simp [hc] at h
    | some clause =>
      simp only [hc, Option.bind_some] at h
      split at h
      · cases h
      · rename_i hwf
        split at h
        · rename_i hrup
          simp only [Option.some.injEq] at h
          subst h
          have hwf' : wfClause m.doms.length clause = true := by simpa using hwf
          have hholds : ∀ a, Good m obj axs a → clause.any (·.holds a) = true := by
            intro a ha
            have hl := live_hold hinv a ha
            exact rup_sound m.doms _ clause (fun c hc => hl.2 c (usable_sub st hints c hc)) hrup a
              (good_inDoms ha) (fun c hc => hl.1 c (usable_sub st hints c hc))
          refine ⟨hinv.1, by intro c hc'; simp at hc', ?_, ?_⟩
          · intro e he
            cases he with
            | head => exact ⟨hwf', hholds⟩
            | tail _ he' => exact hinv.2.2.1 e he'
          · intro hs a ha
            simp only [Bool.or_eq_true] at hs
            rcases hs with hs | hs
            · exact hinv.2.2.2 hs a ha
            · have : clause = [] := by simpa using hs
              subst this
              have := hholds a ha
              simp at this
        · cases h
  | inference id prem prop tag label =>
    simp only [stepCheck, Option.bind_eq_bind] at h
    cases hp : atomsOfCodes lits prem with
    | none => simp [hp] at h
    | some premA =>
      simp only [hp, Option.bind_some] at h
      cases hq : (match prop with
        | some p => (atomOfCode lits p).map some
        | none => some none) with
      | none => simp [hq] at h
      | some conclA =>
        simp only [hq, Option.bind_some] at h
        split at h
        · cases h
        · rename_i hwf
          have hwf' : wfClause m.doms.length (inferenceClause premA conclA) = true := by simpa using hwf
          -- in every accepted case the new state adds the clause to the window
          have key : ∀ (axs' : List Int), (∀ a, Good m obj axs a → (inferenceClause premA conclA).any (·.holds a) = true) →
              (∀ v ∈ axs', v ∈ axs) →
              Inv m obj axs { st with window := inferenceClause premA conclA :: st.window, windowIds := id :: st.windowIds, axioms := axs' } := by
            intro axs' hcl hsub
            refine ⟨hsub, ?_, hinv.2.2.1, hinv.2.2.2⟩
            intro c hc
            cases hc with
            | head => exact ⟨hwf', hcl⟩
            | tail _ hc' => exact hinv.2.1 c hc'
          cases tag with
          | some t =>
            simp only at h
            split at h
            · rename_i c hcget
              split at h
              · rename_i hchk
                simp only [Option.some.injEq] at h
                subst h
                have hmem : c ∈ m.cons := List.mem_of_getElem? hcget
                have hchk' : checkInferenceD m.doms (defsOf m nd) c premA conclA = true := by
                  simp only [Bool.and_eq_true] at hchk; exact hchk.2
                exact key st.axioms (fun a ha => checkInference_clause nd c hmem premA conclA hchk' a ha) hinv.1
              · cases h
            · cases h
          | none =>
            simp only at h
            split at h
            · rename_i hany
              simp only [Option.some.injEq] at h
              subst h
              obtain ⟨c, hmem, hchk⟩ := List.any_eq_true.1 hany
              exact key st.axioms (fun a ha => checkInference_clause_units hinv nd c hmem premA conclA hchk a ha) hinv.1
            · split at h
              · rename_i hrup
                simp only [Option.some.injEq] at h
                subst h
                refine key st.axioms ?_ hinv.1
                intro a ha
                have hl := live_hold hinv a ha
                exact rup_sound m.doms _ _ (fun c hc => hl.2 c (List.mem_append_right _ hc)) hrup a
                  (good_inDoms ha) (fun c hc => hl.1 c (List.mem_append_right _ hc))
              · split at h
                · rename_i v hax'
                  simp only [Option.some.injEq] at h
                  subst h
                  have hv : v ∈ axs := hax v (by simp)
                  exact key (v :: st.axioms) (fun a ha => axiomOf_clause premA conclA v hax' hv a ha)
                    (fun w hw => hax w hw)
                · cases h

theorem runSteps_inv (m : Model) (nd : Nat) (lits : List (Nat × Atom)) (obj : Obj) (axs : List Int)
    (steps : List Step) (st stf : St) (h : runSteps m nd lits obj st steps = some stf)
    (hax : ∀ v ∈ stf.axioms, v ∈ axs) (hinv : Inv m obj axs st) : Inv m obj axs stf := by
  induction steps generalizing st with
  | nil => simp only [runSteps, Option.some.injEq] at h; subst h; exact hinv
  | cons s rest ih =>
    simp only [runSteps] at h
    cases hs : stepCheck m nd lits obj st s with
    | none => simp [hs] at h
    | some st' =>
      simp only [hs] at h
      -- axioms only grow, so those of st' are among the final ones
      have hmono : ∀ v ∈ st'.axioms, v ∈ stf.axioms := by
        clear ih hinv hs
        induction rest generalizing st' with
        | nil => simp only [runSteps, Option.some.injEq] at h; subst h; exact fun v hv => hv
        | cons s2 rest2 ih2 =>
          simp only [runSteps] at h
          cases hs2 : stepCheck m nd lits obj st' s2 with
          | none => simp [hs2] at h
          | some st2 =>
            simp only [hs2] at h
            intro v hv
            exact ih2 st2 h v (stepCheck_axioms_mono m nd lits obj st' st2 s2 hs2 v hv)
      exact ih st' h (stepCheck_inv m nd lits obj axs st st' s hs (fun v hv => hax v (hmono v hv)) hinv)

theorem inv_init (m : Model) (obj : Obj) (axs : List Int) : Inv m obj axs {} := by
  refine ⟨by intro v hv; simp at hv, by intro c hc; simp at hc, by intro e he; simp at he, by intro h; simp at h⟩

/-- **An accepted UNSAT certificate: the model has no solution.** -/
theorem checkDrcp_unsat_sound (m : Model) (nd : Nat) (lits : List (Nat × Atom)) (obj : Obj) (steps : List Step)
    (h : checkDrcp m nd lits obj steps = .unsat) : ∀ a, m.sat a = false := by
  unfold checkDrcp at h
  cases hr : runSteps m nd lits obj {} steps with
  | none => simp [hr] at h
  | some st =>
    simp only [hr] at h
    by_cases hse : st.sawEmpty = true
    · simp only [hse, Bool.not_true, Bool.false_eq_true, if_false] at h
      cases hl : steps.getLast? with
      | none => simp [hl] at h
      | some last =>
        simp only [hl] at h
        cases last with
        | unsat =>
          simp only at h
          by_cases hax : st.axioms.isEmpty = true
          · have haxs : st.axioms = [] := by simpa using hax
            have hinv := runSteps_inv m nd lits obj [] steps {} st hr (by rw [haxs]; intro v hv; cases hv)
              (inv_init m obj [])
            intro a
            cases hs : m.sat a with
            | false => rfl
            | true =>
              exfalso
              apply hinv.2.2.2 hse a
              refine ⟨hs, ?_⟩
              cases obj <;> simp
          · simp [hax] at h
        | optimal code =>
          simp only at h
          split at h <;> (try split at h) <;> simp at h
        | inference _ _ _ _ _ => simp at h
        | nogood _ _ _ => simp at h
        | deletion _ => simp at h
    · simp only [hse, Bool.not_false, if_true] at h
      exact absurd h (concludeWithoutRefutation_ne lits obj _).1

theorem foldl_min_le (v : Int) (vs : List Int) : vs.foldl min v ≤ v ∧ ∀ w ∈ vs, vs.foldl min v ≤ w := by
  induction vs generalizing v with
  | nil => exact ⟨Int.le_refl _, by intro w hw; cases hw⟩
  | cons x xs ih =>
    simp only [List.foldl_cons]
    have := ih (min v x)
    refine ⟨by have := this.1; omega, ?_⟩
    intro w hw
    cases hw with
    | head => have := this.1; omega
    | tail _ hw' => exact this.2 w hw'

theorem foldl_max_ge (v : Int) (vs : List Int) : v ≤ vs.foldl max v ∧ ∀ w ∈ vs, w ≤ vs.foldl max v := by
  induction vs generalizing v with
  | nil => exact ⟨Int.le_refl _, by intro w hw; cases hw⟩
  | cons x xs ih =>
    simp only [List.foldl_cons]
    have := ih (max v x)
    refine ⟨by have := this.1; omega, ?_⟩
    intro w hw
    cases hw with
    | head => have := this.1; omega
    | tail _ hw' => exact this.2 w hw'

theorem foldl_min_mem (v : Int) (vs : List Int) : vs.foldl min v ∈ v :: vs := by
  induction vs generalizing v with
  | nil => simp
  | cons x xs ih =>
    simp only [List.foldl_cons]
    have := ih (min v x)
    simp only [List.mem_cons] at this ⊢
    rcases this with h | h
    · rw [h]
      by_cases hvx : v ≤ x
      · left; omega
      · right; left; omega
    · right; right; exact h

/-- **An accepted optimality certificate (minimisation): no solution is below the concluded bound.** -/
theorem checkDrcp_bound_sound_min (m : Model) (nd : Nat) (lits : List (Nat × Atom)) (x : Nat) (steps : List Step)
    (b : Int) (h : checkDrcp m nd lits (.minimise x) steps = .bound b) :
    ∀ a, m.sat a = true → b ≤ val a x := by
  unfold checkDrcp at h
  cases hr : runSteps m nd lits (.minimise x) {} steps with
  | none => simp [hr] at h
  | some st =>
    simp only [hr] at h
    by_cases hse : st.sawEmpty = true
    · simp only [hse, Bool.not_true, Bool.false_eq_true, if_false] at h
      cases hl : steps.getLast? with
      | none => simp [hl] at h
      | some last =>
        simp only [hl] at h
        cases last with
        | optimal code =>
          simp only at h
          cases hq : atomOfCode lits code with
          | none => simp [hq] at h
          | some q =>
            cases hax : st.axioms with
            | nil => simp only [hq, hax] at h; split at h <;> simp at h
            | cons v vs =>
              simp only [hq, hax] at h
              split at h
              · simp only [Verdict.bound.injEq] at h
                have hinv := runSteps_inv m nd lits (.minimise x) (v :: vs) steps {} st hr
                  (by rw [hax]; exact fun w hw => hw) (inv_init m _ _)
                intro a ha
                -- if `a` were at or below the strongest axiom it would satisfy all of them
                have hmin := foldl_min_le v vs
                by_cases hlt : val a x < b
                · exfalso
                  apply hinv.2.2.2 hse a
                  refine ⟨ha, ?_⟩
                  intro w hw
                  cases hw with
                  | head => omega
                  | tail _ hw' => have := hmin.2 w hw'; omega
                · omega
              · simp at h
        | unsat => simp only at h; split at h <;> simp at h
        | inference _ _ _ _ _ => simp at h
        | nogood _ _ _ => simp at h
        | deletion _ => simp at h
    · simp only [hse, Bool.not_false, if_true] at h
      exact absurd h ((concludeWithoutRefutation_ne lits _ _).2 b)

/-- … and for maximisation: no solution is above the concluded bound. -/
theorem checkDrcp_bound_sound_max (m : Model) (nd : Nat) (lits : List (Nat × Atom)) (x : Nat) (steps : List Step)
    (b : Int) (h : checkDrcp m nd lits (.maximise x) steps = .bound b) :
    ∀ a, m.sat a = true → val a x ≤ b := by
  unfold checkDrcp at h
  cases hr : runSteps m nd lits (.maximise x) {} steps with
  | none => simp [hr] at h
  | some st =>
    simp only [hr] at h
    by_cases hse : st.sawEmpty = true
    · simp only [hse, Bool.not_true, Bool.false_eq_true, if_false] at h
      cases hl : steps.getLast? with
      | none => simp [hl] at h
      | some last =>
        simp only [hl] at h
        cases last with
        | optimal code =>
          simp only at h
          cases hq : atomOfCode lits code with
          | none => simp [hq] at h
          | some q =>
            cases hax : st.axioms with
            | nil => simp only [hq, hax] at h; split at h <;> simp at h
            | cons v vs =>
              simp only [hq, hax] at h
              split at h
              · simp only [Verdict.bound.injEq] at h
                have hinv := runSteps_inv m nd lits (.maximise x) (v :: vs) steps {} st hr
                  (by rw [hax]; exact fun w hw => hw) (inv_init m _ _)
                intro a ha
                have hmax := foldl_max_ge v vs
                by_cases hlt : b < val a x
                · exfalso
                  apply hinv.2.2.2 hse a
                  refine ⟨ha, ?_⟩
                  intro w hw
                  cases hw with
                  | head => omega
                  | tail _ hw' => have := hmax.2 w hw'; omega
                · omega
              · simp at h
        | unsat => simp only at h; split at h <;> simp at h
        | inference _ _ _ _ _ => simp at h
        | nogood _ _ _ => simp at h
        | deletion _ => simp at h
    · simp only [hse, Bool.not_false, if_true] at h
      exact absurd h ((concludeWithoutRefutation_ne lits _ _).2 b)

end Pumpkin.DrcpCheck
