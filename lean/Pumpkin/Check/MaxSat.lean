/-
MaxSAT specification and verified oracle (C15): the cost of an assignment is the total weight of
the falsified soft clauses; the optimum is the minimum cost over the assignments satisfying the
hard clauses (the model).
-/
import Pumpkin.Spec.Basic
import Pumpkin.Check.Oracle

namespace Pumpkin

/-- a soft clause: weight and atoms (disjunction) -/
structure Soft where
  weight : Nat
  atoms : List Atom
deriving Repr, Inhabited

def softCost (softs : List Soft) (a : List Int) : Nat :=
  (softs.map (fun s => if s.atoms.any (·.holds a) then 0 else s.weight)).foldl (· + ·) 0

/-- minimum cost over all solutions of the hard part (`none` iff the hard clauses are unsatisfiable) -/
def maxsatOpt (m : Model) (softs : List Soft) : Option Nat :=
  ((solutions m).map (softCost softs)).min?

theorem maxsatOpt_spec (m : Model) (softs : List Soft) (v : Nat) :
    maxsatOpt m softs = some v ↔
      (∃ a, m.sat a = true ∧ softCost softs a = v) ∧ ∀ a, m.sat a = true → v ≤ softCost softs a := by
  simp only [maxsatOpt, List.min?_eq_some_iff, List.mem_map]
  constructor
  · rintro ⟨⟨a, ha, rfl⟩, h2⟩
    exact ⟨⟨a, (mem_solutions m a).1 ha, rfl⟩, fun b hb => h2 _ ⟨b, (mem_solutions m b).2 hb, rfl⟩⟩
  · rintro ⟨⟨a, ha, rfl⟩, h2⟩
    refine ⟨⟨a, (mem_solutions m a).2 ha, rfl⟩, ?_⟩
    rintro _ ⟨b, hb, rfl⟩
    exact h2 b ((mem_solutions m b).1 hb)

theorem maxsatOpt_none_iff (m : Model) (softs : List Soft) :
    maxsatOpt m softs = none ↔ solutions m = [] := by
  simp [maxsatOpt]

/-- acceptor for one MaxSAT answer: the printed model satisfies the hard clauses, its cost is the
reported one, and no hard-satisfying assignment is cheaper -/
def checkMaxSat (m : Model) (softs : List Soft) (reported : Nat) (a : List Int) : Bool :=
  m.sat a && softCost softs a == reported && maxsatOpt m softs == some reported

theorem checkMaxSat_sound (m : Model) (softs : List Soft) (reported : Nat) (a : List Int)
    (h : checkMaxSat m softs reported a = true) :
    m.sat a = true ∧ softCost softs a = reported ∧ ∀ b, m.sat b = true → reported ≤ softCost softs b := by
  simp only [checkMaxSat, Bool.and_eq_true, beq_iff_eq] at h
  exact ⟨h.1.1, h.1.2, ((maxsatOpt_spec m softs reported).1 h.2).2⟩

end Pumpkin
