/-
Verified acceptors over the oracle `solutions`: what the driver runs on every observation of the
real solver. Each `check…` is an executable Bool function with a theorem tying `= true` to the
specification-level statement.
-/
import Pumpkin.Spec.Basic

namespace Pumpkin

/-- nodup as a Bool -/
def nodupB : List (List Int) → Bool
  | [] => true
  | x :: xs => !xs.contains x && nodupB xs

theorem nodupB_iff (l : List (List Int)) : nodupB l = true ↔ l.Nodup := by
  induction l with
  | nil => simp [nodupB]
  | cons x xs ih => simp [nodupB, ih, List.nodup_cons]

/-- The reported list `ls` is exactly the solution set: no duplicates, nothing foreign, nothing missing. -/
def checkSolSet (m : Model) (sols ls : List (List Int)) : Bool :=
  nodupB ls && ls.all (fun a => m.sat a) && sols.all (fun a => ls.contains a)

theorem checkSolSet_perm (m : Model) (hd : ∀ d ∈ m.doms, d.Nodup) (ls : List (List Int))
    (h : checkSolSet m (solutions m) ls = true) : ls.Perm (solutions m) := by
  simp only [checkSolSet, Bool.and_eq_true, List.all_eq_true, List.contains_iff_mem] at h
  obtain ⟨⟨h1, h2⟩, h3⟩ := h
  refine (List.perm_ext_iff_of_nodup ((nodupB_iff _).1 h1) (solutions_nodup m hd)).2 ?_
  intro a
  exact ⟨fun ha => (mem_solutions m a).2 (h2 a ha), fun ha => h3 a ha⟩

theorem checkSolSet_complete (m : Model) (ls : List (List Int)) (h : ls.Perm (solutions m))
    (hd : ∀ d ∈ m.doms, d.Nodup) : checkSolSet m (solutions m) ls = true := by
  simp only [checkSolSet, Bool.and_eq_true, List.all_eq_true, List.contains_iff_mem]
  refine ⟨⟨(nodupB_iff _).2 (h.symm.nodup (solutions_nodup m hd)), ?_⟩, ?_⟩
  · intro a ha; exact (mem_solutions m a).1 (h.subset ha)
  · intro a ha; exact h.symm.subset ha

/-- A prefix of an iteration: duplicate-free and made of solutions. -/
def checkSubset (m : Model) (ls : List (List Int)) : Bool :=
  nodupB ls && ls.all (fun a => m.sat a)

theorem checkSubset_sound (m : Model) (ls : List (List Int)) (h : checkSubset m ls = true) :
    ls.Nodup ∧ ∀ a ∈ ls, a ∈ solutions m := by
  simp only [checkSubset, Bool.and_eq_true, List.all_eq_true] at h
  exact ⟨(nodupB_iff _).1 h.1, fun a ha => (mem_solutions m a).2 (h.2 a ha)⟩

/-- Optimal objective value over all solutions (none iff no solution). -/
def optimum (m : Model) (obj : View) (maximise : Bool) : Option Int :=
  let vals := (solutions m).map obj.eval
  if maximise then vals.max? else vals.min?

theorem optimum_min_spec (m : Model) (obj : View) (v : Int) :
    optimum m obj false = some v ↔
      (∃ a, m.sat a = true ∧ obj.eval a = v) ∧ ∀ a, m.sat a = true → v ≤ obj.eval a := by
  simp only [optimum, Bool.false_eq_true, ↓reduceIte, List.min?_eq_some_iff, List.mem_map]
  constructor
  · rintro ⟨⟨a, ha, rfl⟩, h2⟩
    exact ⟨⟨a, (mem_solutions m a).1 ha, rfl⟩,
      fun b hb => h2 _ ⟨b, (mem_solutions m b).2 hb, rfl⟩⟩
  · rintro ⟨⟨a, ha, rfl⟩, h2⟩
    refine ⟨⟨a, (mem_solutions m a).2 ha, rfl⟩, ?_⟩
    rintro _ ⟨b, hb, rfl⟩
    exact h2 b ((mem_solutions m b).1 hb)

theorem optimum_max_spec (m : Model) (obj : View) (v : Int) :
    optimum m obj true = some v ↔
      (∃ a, m.sat a = true ∧ obj.eval a = v) ∧ ∀ a, m.sat a = true → obj.eval a ≤ v := by
  simp only [optimum, ↓reduceIte, List.max?_eq_some_iff, List.mem_map]
  constructor
  · rintro ⟨⟨a, ha, rfl⟩, h2⟩
    exact ⟨⟨a, (mem_solutions m a).1 ha, rfl⟩,
      fun b hb => h2 _ ⟨b, (mem_solutions m b).2 hb, rfl⟩⟩
  · rintro ⟨⟨a, ha, rfl⟩, h2⟩
    refine ⟨⟨a, (mem_solutions m a).2 ha, rfl⟩, ?_⟩
    rintro _ ⟨b, hb, rfl⟩
    exact h2 b ((mem_solutions m b).1 hb)

theorem optimum_none_iff (m : Model) (obj : View) (mx : Bool) :
    optimum m obj mx = none ↔ solutions m = [] := by
  cases mx <;> simp [optimum]

/-- `[lb, ub]` encloses the value of variable `x` in every solution. -/
def checkBounds (sols : List (List Int)) (x : Nat) (lb ub : Int) : Bool :=
  sols.all (fun a => decide (lb ≤ val a x) && decide (val a x ≤ ub))

theorem checkBounds_sound (m : Model) (x : Nat) (lb ub : Int)
    (h : checkBounds (solutions m) x lb ub = true) (a : List Int) (ha : m.sat a = true) :
    lb ≤ val a x ∧ val a x ≤ ub := by
  simp only [checkBounds, List.all_eq_true, Bool.and_eq_true, decide_eq_true_eq] at h
  exact h a ((mem_solutions m a).2 ha)

/-- `[lb, ub]` encloses the value of a view in every solution. -/
def checkViewBounds (sols : List (List Int)) (w : View) (lb ub : Int) : Bool :=
  sols.all (fun a => decide (lb ≤ w.eval a) && decide (w.eval a ≤ ub))

theorem checkViewBounds_sound (m : Model) (w : View) (lb ub : Int)
    (h : checkViewBounds (solutions m) w lb ub = true) (a : List Int) (ha : m.sat a = true) :
    lb ≤ w.eval a ∧ w.eval a ≤ ub := by
  simp only [checkViewBounds, List.all_eq_true, Bool.and_eq_true, decide_eq_true_eq] at h
  exact h a ((mem_solutions m a).2 ha)

/-- No solution satisfies all atoms of the nogood. -/
def checkNogood (sols : List (List Int)) (ng : List Atom) : Bool :=
  sols.all (fun a => !ng.all (·.holds a))

theorem checkNogood_sound (m : Model) (ng : List Atom) (h : checkNogood (solutions m) ng = true)
    (a : List Int) (ha : m.sat a = true) : ¬ ∀ p ∈ ng, p.holds a = true := by
  simp only [checkNogood, List.all_eq_true, Bool.not_eq_eq_eq_not, Bool.not_true] at h
  have := h a ((mem_solutions m a).2 ha)
  intro hall
  have : ng.all (·.holds a) = true := List.all_eq_true.2 hall
  simp_all

/-- Specification of a core (relative to the declared domains):
every core predicate is implied by the assumptions, and model ∧ core has no solution. -/
def IsCore (m : Model) (assumps core : List Atom) : Prop :=
  (∀ c ∈ core, ∀ a, inDoms m.doms a = true → (∀ p ∈ assumps, p.holds a = true) → c.holds a = true)
  ∧ ∀ a, m.sat a = true → ¬ ∀ c ∈ core, c.holds a = true

def checkCore (m : Model) (assumps core : List Atom) : Bool :=
  (product m.doms).all (fun a => !assumps.all (·.holds a) || core.all (·.holds a))
  && checkNogood (solutions m) core

theorem checkCore_iff (m : Model) (assumps core : List Atom) :
    checkCore m assumps core = true ↔ IsCore m assumps core := by
  simp only [checkCore, IsCore, Bool.and_eq_true, List.all_eq_true, Bool.or_eq_true,
    Bool.not_eq_eq_eq_not, Bool.not_true, mem_product]
  constructor
  · rintro ⟨h1, h2⟩
    refine ⟨?_, fun a ha => checkNogood_sound m core h2 a ha⟩
    intro c hc a hdom hass
    rcases h1 a hdom with h | h
    · have : assumps.all (·.holds a) = true := List.all_eq_true.2 hass
      simp_all
    · exact h c hc
  · rintro ⟨h1, h2⟩
    refine ⟨?_, ?_⟩
    · intro a hdom
      by_cases hass : assumps.all (·.holds a) = true
      · right
        intro c hc
        exact h1 c hc a hdom (List.all_eq_true.1 hass)
      · left; simpa using hass
    · simp only [checkNogood, List.all_eq_true, Bool.not_eq_eq_eq_not, Bool.not_true]
      intro a ha
      have := h2 a ((mem_solutions m a).1 ha)
      cases hc : core.all (·.holds a) with
      | false => rfl
      | true => exact absurd (List.all_eq_true.1 hc) this

/-- Model with extra atoms (assumptions) conjoined. -/
def Model.withAtoms (m : Model) (as : List Atom) : Model :=
  { m with cons := m.cons ++ [Cons.conj as] }

theorem withAtoms_sat (m : Model) (as : List Atom) (a : List Int) :
    (m.withAtoms as).sat a = (m.sat a && as.all (·.holds a)) := by
  simp [Model.withAtoms, Model.sat, Cons.sat, Bool.and_assoc]

/-- Inference check by enumeration within the declared domains:
`c ∧ premises → conclusion` (conclusion `none` = false, i.e. a conflict). -/
def checkInference (doms : List (List Int)) (c : Cons) (prem : List Atom) (concl : Option Atom) : Bool :=
  (product doms).all (fun a =>
    !(c.sat a && prem.all (·.holds a)) ||
      (match concl with
       | some q => q.holds a
       | none => false))

theorem checkInference_iff (doms : List (List Int)) (c : Cons) (prem : List Atom) (concl : Option Atom) :
    checkInference doms c prem concl = true ↔
      ∀ a, inDoms doms a = true → c.sat a = true → (∀ p ∈ prem, p.holds a = true) →
        (match concl with | some q => q.holds a = true | none => False) := by
  simp only [checkInference, List.all_eq_true, mem_product, Bool.or_eq_true, Bool.not_eq_eq_eq_not,
    Bool.not_true, Bool.and_eq_false_iff]
  constructor
  · intro h a hd hc hp
    rcases h a hd with (h | h) | h
    · simp_all
    · have : prem.all (·.holds a) = true := List.all_eq_true.2 hp
      simp_all
    · cases concl <;> simp_all
  · intro h a hd
    by_cases hc : c.sat a = true
    · by_cases hp : prem.all (·.holds a) = true
      · right
        have := h a hd hc (List.all_eq_true.1 hp)
        cases concl <;> simp_all
      · left; right; simpa using hp
    · left; left; simpa using hc

/-- The same check given *definitions*: constraints of the model of the form `r ↔ p` which define a
0-1 variable `r` as the truth value of an atomic predicate `p` (`Solver::new_literal_for_predicate`).
The solver writes `p` wherever `r` is meant, so an inference about `r` is judged with the
definitions at hand: `defs ∧ c ∧ premises → conclusion`. -/
def checkInferenceD (doms : List (List Int)) (defs : List Cons) (c : Cons) (prem : List Atom)
    (concl : Option Atom) : Bool :=
  (product doms).all (fun a =>
    !(defs.all (·.sat a)) ||
    (!(c.sat a && prem.all (·.holds a)) ||
      (match concl with
       | some q => q.holds a
       | none => false)))

theorem checkInferenceD_nil (doms : List (List Int)) (c : Cons) (prem : List Atom) (concl : Option Atom) :
    checkInferenceD doms [] c prem concl = checkInference doms c prem concl := by
  simp [checkInferenceD, checkInference]

theorem checkInferenceD_iff (doms : List (List Int)) (defs : List Cons) (c : Cons) (prem : List Atom)
    (concl : Option Atom) :
    checkInferenceD doms defs c prem concl = true ↔
      ∀ a, inDoms doms a = true → (∀ d ∈ defs, d.sat a = true) → c.sat a = true →
        (∀ p ∈ prem, p.holds a = true) →
        (match concl with | some q => q.holds a = true | none => False) := by
  simp only [checkInferenceD, List.all_eq_true, mem_product, Bool.or_eq_true, Bool.not_eq_eq_eq_not,
    Bool.not_true, Bool.and_eq_false_iff]
  constructor
  · intro h a hd hdef hc hp
    rcases h a hd with h | (h | h) | h
    · have : defs.all (·.sat a) = true := List.all_eq_true.2 hdef
      simp_all
    · simp_all
    · have : prem.all (·.holds a) = true := List.all_eq_true.2 hp
      simp_all
    · cases concl <;> simp_all
  · intro h a hd
    by_cases hdef : defs.all (·.sat a) = true
    · by_cases hc : c.sat a = true
      · by_cases hp : prem.all (·.holds a) = true
        · right; right
          have := h a hd (List.all_eq_true.1 hdef) hc (List.all_eq_true.1 hp)
          cases concl <;> simp_all
        · right; left; right; simpa using hp
      · right; left; left; simpa using hc
    · left; simpa using hdef

/-- shape of a definition: `[r ≥ 1] ↔ (± x ⋈ k)` for a 0-1 variable `r` and a single variable `x` -/
def isDef (doms : List (List Int)) : Cons → Bool
  | .reif (.ge r 1) (.linLe [v] _) | .reif (.ge r 1) (.linEq [v] _) | .reif (.ge r 1) (.linNe [v] _) =>
    doms[r]? == some [0, 1] && v.var != r && (v.scale == 1 || v.scale == -1) && v.offset == 0
  | _ => false

end Pumpkin
