/-
Verified clausal reverse-unit-propagation checker for DIMACS CNF formulas and DRAT-style proofs
(used for C14: the clauses the solver writes to its proof file must be a RUP refutation).

Literals are non-zero integers (DIMACS); an assignment is `Nat → Bool`.
-/
namespace Pumpkin.Rup

abbrev Clause := List Int

def litHolds (a : Nat → Bool) (l : Int) : Bool := if l > 0 then a l.natAbs else !a l.natAbs

def clauseHolds (a : Nat → Bool) (c : Clause) : Bool := c.any (litHolds a)

def cnfHolds (a : Nat → Bool) (cs : List Clause) : Bool := cs.all (clauseHolds a)

theorem litHolds_neg (a : Nat → Bool) (l : Int) (h : l ≠ 0) : litHolds a (-l) = !litHolds a l := by
  unfold litHolds
  by_cases hp : l > 0
  · have hn : ¬ (-l > 0) := by omega
    rw [if_pos hp, if_neg hn, Int.natAbs_neg]
  · have hn : -l > 0 := by omega
    rw [if_neg hp, if_pos hn, Int.natAbs_neg, Bool.not_not]

/-- state of unit propagation: the literals known to be true -/
def isTrue (tr : List Int) (l : Int) : Bool := tr.contains l
def isFalse (tr : List Int) (l : Int) : Bool := tr.contains (-l)

inductive ClauseStatus | satisfied | conflict | unit (l : Int) | open_
deriving Repr

/-- status of a clause under the true-literal list -/
def status (tr : List Int) (c : Clause) : ClauseStatus :=
  if c.any (isTrue tr) then .satisfied
  else
    match c.filter (fun l => !isFalse tr l) with
    | [] => .conflict
    | l :: rest => if rest.all (fun l' => l' == l) then .unit l else .open_

/-- one pass over the clauses: returns `none` on conflict, else the extended list and whether it grew -/
def pass : List Clause → List Int → Bool → Option (List Int × Bool)
  | [], tr, grew => some (tr, grew)
  | c :: cs, tr, grew =>
    match status tr c with
    | .conflict => none
    | .unit l => pass cs (l :: tr) true
    | _ => pass cs tr grew

/-- unit propagation to fixpoint (fuel bounded); `true` iff a conflict is derived -/
def propagatesToConflict (cs : List Clause) : Nat → List Int → Bool
  | 0, _ => false
  | fuel + 1, tr =>
    match pass cs tr false with
    | none => true
    | some (tr', grew) => if grew then propagatesToConflict cs fuel tr' else false

/-- `c` is a RUP consequence of `cs`: assuming all literals of `c` false leads to a conflict -/
def rup (cs : List Clause) (c : Clause) : Bool :=
  propagatesToConflict cs (cs.length + c.length + 1) (c.map (fun l => -l))

/-- all literals in the list hold under `a` -/
def allTrue (a : Nat → Bool) (tr : List Int) : Prop := ∀ l ∈ tr, litHolds a l = true

def WfClause (c : Clause) : Prop := ∀ l ∈ c, l ≠ 0

theorem isFalse_sound (a : Nat → Bool) (tr : List Int) (l : Int) (hl : l ≠ 0) (ht : allTrue a tr)
    (h : isFalse tr l = true) : litHolds a l = false := by
  have hm : -l ∈ tr := by simpa [isFalse] using h
  have := ht (-l) hm
  rw [litHolds_neg a l hl] at this
  cases hv : litHolds a l <;> simp_all

/-- a literal of a clause that holds under `a` survives the filter of non-false literals -/
theorem live_of_holds (a : Nat → Bool) (tr : List Int) (c : Clause) (hw : WfClause c)
    (ht : allTrue a tr) (hc : clauseHolds a c = true) :
    ∃ l, l ∈ c.filter (fun l => !isFalse tr l) ∧ litHolds a l = true := by
  simp only [clauseHolds, List.any_eq_true] at hc
  obtain ⟨l, hl, hlt⟩ := hc
  have hnf : isFalse tr l = false := by
    cases hf : isFalse tr l with
    | false => rfl
    | true => have := isFalse_sound a tr l (hw l hl) ht hf; simp [hlt] at this
  exact ⟨l, by simp [List.mem_filter, hl, hnf], hlt⟩

theorem status_not_conflict (a : Nat → Bool) (tr : List Int) (c : Clause) (hw : WfClause c)
    (ht : allTrue a tr) (hc : clauseHolds a c = true) : status tr c ≠ .conflict := by
  obtain ⟨l, hl, _⟩ := live_of_holds a tr c hw ht hc
  unfold status
  by_cases hany : c.any (isTrue tr) = true
  · rw [if_pos hany]; intro h; cases h
  · rw [if_neg hany]
    cases hlive : c.filter (fun l => !isFalse tr l) with
    | nil => rw [hlive] at hl; cases hl
    | cons x xs =>
      simp only
      split <;> (intro h; cases h)

theorem status_unit_holds (a : Nat → Bool) (tr : List Int) (c : Clause) (hw : WfClause c)
    (ht : allTrue a tr) (hc : clauseHolds a c = true) (u : Int) (hu : status tr c = .unit u) :
    litHolds a u = true := by
  obtain ⟨l, hl, hlt⟩ := live_of_holds a tr c hw ht hc
  unfold status at hu
  by_cases hany : c.any (isTrue tr) = true
  · rw [if_pos hany] at hu; cases hu
  · rw [if_neg hany] at hu
    cases hlive : c.filter (fun l => !isFalse tr l) with
    | nil => rw [hlive] at hl; cases hl
    | cons x xs =>
      rw [hlive] at hu hl
      simp only at hu
      by_cases hall : xs.all (fun l' => l' == x) = true
      · rw [if_pos hall] at hu
        simp only [ClauseStatus.unit.injEq] at hu
        subst hu
        cases hl with
        | head => exact hlt
        | tail _ hl' =>
          have := List.all_eq_true.1 hall l hl'
          have : l = x := by simpa using this
          subst this; exact hlt
      · rw [if_neg hall] at hu; cases hu

theorem pass_sound (a : Nat → Bool) (cs : List Clause) (hw : ∀ c ∈ cs, WfClause c)
    (hcs : ∀ c ∈ cs, clauseHolds a c = true) (tr : List Int) (grew : Bool) (ht : allTrue a tr) :
    pass cs tr grew ≠ none ∧ ∀ tr' g, pass cs tr grew = some (tr', g) → allTrue a tr' := by
  induction cs generalizing tr grew with
  | nil =>
    simp only [pass]
    refine ⟨by simp, ?_⟩
    intro tr' g h
    simp only [Option.some.injEq, Prod.mk.injEq] at h
    rw [← h.1]; exact ht
  | cons c cs ih =>
    have hwc := hw c (by simp)
    have hcc := hcs c (by simp)
    have hw' : ∀ c' ∈ cs, WfClause c' := fun c' h => hw c' (List.mem_cons_of_mem _ h)
    have hcs' : ∀ c' ∈ cs, clauseHolds a c' = true := fun c' h => hcs c' (List.mem_cons_of_mem _ h)
    simp only [pass]
    cases hst : status tr c with
    | conflict => exact absurd hst (status_not_conflict a tr c hwc ht hcc)
    | unit u =>
      have hu := status_unit_holds a tr c hwc ht hcc u hst
      have ht' : allTrue a (u :: tr) := by
        intro x hx
        cases hx with
        | head => exact hu
        | tail _ hx' => exact ht x hx'
      exact ih hw' hcs' (u :: tr) true ht'
    | satisfied => exact ih hw' hcs' tr grew ht
    | open_ => exact ih hw' hcs' tr grew ht

theorem propagates_sound (a : Nat → Bool) (cs : List Clause) (hw : ∀ c ∈ cs, WfClause c)
    (hcs : cnfHolds a cs = true) (fuel : Nat) (tr : List Int) (ht : allTrue a tr) :
    propagatesToConflict cs fuel tr = false := by
  have hcs' : ∀ c ∈ cs, clauseHolds a c = true := fun c hc => List.all_eq_true.1 hcs c hc
  induction fuel generalizing tr with
  | zero => rfl
  | succ fuel ih =>
    unfold propagatesToConflict
    have hp := pass_sound a cs hw hcs' tr false ht
    cases hpass : pass cs tr false with
    | none => exact absurd hpass hp.1
    | some p =>
      obtain ⟨tr', grew⟩ := p
      have := hp.2 tr' grew hpass
      cases grew
      · rfl
      · exact ih tr' this

/-- **RUP soundness**: a clause accepted by `rup` holds in every model of the clause set. -/
theorem rup_sound (cs : List Clause) (c : Clause) (hw : ∀ c' ∈ cs, WfClause c') (hwc : WfClause c)
    (h : rup cs c = true) (a : Nat → Bool) (hcs : cnfHolds a cs = true) : clauseHolds a c = true := by
  cases hc : clauseHolds a c with
  | true => rfl
  | false =>
    exfalso
    -- all negated literals of c hold under a
    have ht : allTrue a (c.map (fun l => -l)) := by
      intro l hl
      simp only [List.mem_map] at hl
      obtain ⟨l', hl', rfl⟩ := hl
      rw [litHolds_neg a l' (hwc l' hl')]
      have : litHolds a l' = false := by
        cases hv : litHolds a l' with
        | false => rfl
        | true =>
          have : clauseHolds a c = true := List.any_eq_true.2 ⟨l', hl', hv⟩
          simp [hc] at this
      simp [this]
    have := propagates_sound a cs hw hcs (cs.length + c.length + 1) _ ht
    unfold rup at h
    rw [this] at h
    cases h

/-- Checks a clausal proof: every lemma must be RUP w.r.t. the formula and the earlier lemmas;
accepted iff the empty clause is derived (a lemma that is the empty clause and passes RUP). -/
def checkProof (cs : List Clause) : List Clause → Bool
  | [] => false
  | lemma :: rest =>
    if rup cs lemma then
      (if lemma.isEmpty then true else checkProof (lemma :: cs) rest)
    else false

/-- **Proof soundness**: an accepted proof means the formula has no model. -/
theorem checkProof_sound (cs : List Clause) (proof : List Clause) (hw : ∀ c ∈ cs, WfClause c)
    (hwp : ∀ c ∈ proof, WfClause c) (h : checkProof cs proof = true) :
    ∀ a : Nat → Bool, cnfHolds a cs = false := by
  induction proof generalizing cs with
  | nil => simp [checkProof] at h
  | cons lem rest ih =>
    intro a
    cases hcs : cnfHolds a cs with
    | false => rfl
    | true =>
      exfalso
      unfold checkProof at h
      by_cases hr : rup cs lem = true
      · simp only [hr, if_true] at h
        have hl := rup_sound cs lem hw (hwp lem (by simp)) hr a hcs
        by_cases he : lem.isEmpty = true
        · have : lem = [] := by simpa using he
          subst this
          simp [clauseHolds] at hl
        · simp only [he, Bool.false_eq_true, if_false] at h
          have := ih (lem :: cs)
            (by intro c hc; cases hc with
                | head => exact hwp lem (by simp)
                | tail _ h' => exact hw c h')
            (fun c hc => hwp c (List.mem_cons_of_mem _ hc)) h a
          have hcs' : cs.all (clauseHolds a) = true := hcs
          simp only [cnfHolds, List.all_cons, hl, hcs', Bool.and_self] at this
          cases this
      · simp [hr] at h

end Pumpkin.Rup
