/-
C17 — every explanation given by a propagator follows from its constraint.

The driver accepts an explanation `premises → conclusion` (or `premises → ⊥` for a conflict) that
the tap recorded for a propagator iff `checkInference` holds for the constraint the propagator was
posted for; `checkInference_iff` makes that acceptance *equivalent* to semantic entailment within
the declared domains (so a valid explanation is never rejected, and an accepted one is valid).
Reasons of the nogood propagator are accepted iff they are entailed by the model as a whole.
"The stated facts hold in the state in which the reason is given" is evaluated inside the hook.
-/
import Pumpkin.Spec.Basic
import Pumpkin.Check.Oracle
import Pumpkin.Model.ImplicitReason
import Pumpkin.Model.PropagationCompile
import Pumpkin.Model.AssignmentsHist

namespace Pumpkin.C17

theorem accepted_propagation (doms : List (List Int)) (c : Cons) (prem : List Atom) (q : Atom)
    (h : checkInference doms c prem (some q) = true) (a : List Int) (hd : inDoms doms a = true)
    (hc : c.sat a = true) (hp : ∀ p ∈ prem, p.holds a = true) : q.holds a = true := by
  have := (checkInference_iff doms c prem (some q)).1 h a hd hc hp
  simpa using this

theorem accepted_conflict (doms : List (List Int)) (c : Cons) (prem : List Atom)
    (h : checkInference doms c prem none = true) (a : List Int) (hd : inDoms doms a = true)
    (hc : c.sat a = true) : ¬ ∀ p ∈ prem, p.holds a = true := by
  intro hp
  have := (checkInference_iff doms c prem none).1 h a hd hc hp
  simpa using this

/-- Completeness of the acceptor: a semantically valid explanation is never rejected. -/
theorem valid_explanation_accepted (doms : List (List Int)) (c : Cons) (prem : List Atom) (q : Atom)
    (h : ∀ a, inDoms doms a = true → c.sat a = true → (∀ p ∈ prem, p.holds a = true) → q.holds a = true) :
    checkInference doms c prem (some q) = true :=
  (checkInference_iff doms c prem (some q)).2 (fun a hd hc hp => by simpa using h a hd hc hp)

/-- A propagated predicate with an accepted explanation never removes a value used by a solution
of the constraint that agrees with the premises. -/
theorem never_prunes_solution (doms : List (List Int)) (c : Cons) (prem : List Atom) (q : Atom)
    (h : checkInference doms c prem (some q) = true) (a : List Int) (hd : inDoms doms a = true)
    (hc : c.sat a = true) (hp : ∀ p ∈ prem, p.holds a = true) : q.neg.holds a = false := by
  rw [Atom.neg_holds, accepted_propagation doms c prem q h a hd hc hp]; rfl

/-- Model-level acceptance (used for the nogood propagator): entailed by the model. -/
theorem accepted_model_inference (m : Model) (prem : List Atom) (q : Atom)
    (h : checkNogood (solutions m) (q.neg :: prem) = true) (a : List Int) (ha : m.sat a = true)
    (hp : ∀ p ∈ prem, p.holds a = true) : q.holds a = true := by
  have := checkNogood_sound m _ h a ha
  cases hq : q.holds a with
  | true => rfl
  | false =>
    exfalso
    apply this
    intro p hp'
    cases hp' with
    | head => rw [Atom.neg_holds, hq]; rfl
    | tail _ h' => exact hp p h'

/-- The implicit reasons of conflict analysis (for a predicate that is true but not literally on the
trail; `Model/ImplicitReason.lean` mirrors the code arm by arm) entail the explained predicate for
**every** integer value — no constraint, no domain involved. -/
theorem implicit_reason_entails (trail queried : Atom) (r : List Atom) (hv : trail.var = queried.var)
    (h : Pumpkin.Implicit.implicitReason trail queried = some r) (a : List Int)
    (hr : ∀ p ∈ r, p.holds a = true) : queried.holds a = true := by
  have hsame := Pumpkin.Implicit.implicit_same_var trail queried r hv h
  unfold Atom.holds
  apply Pumpkin.Implicit.implicit_entails trail queried r hv h
  intro p hp
  have := hr p hp
  unfold Atom.holds at this
  rw [hsame p hp] at this
  exact this

/-- … and never contain the explained predicate itself. -/
theorem implicit_reason_progress (trail queried : Atom) (r : List Atom)
    (h : Pumpkin.Implicit.implicitReason trail queried = some r) (hne : trail ≠ queried) : queried ∉ r :=
  Pumpkin.Implicit.implicit_smaller trail queried r h hne

example : checkInference [[0, 1, 2, 3], [0, 1, 2, 3]] (Cons.linLe [⟨1, 0, 0⟩, ⟨1, 0, 1⟩] 3)
    [Atom.ge 0 2] (some (Atom.le 1 1)) = true := by decide
example : checkInference [[0, 1, 2, 3], [0, 1, 2, 3]] (Cons.linLe [⟨1, 0, 0⟩, ⟨1, 0, 1⟩] 3)
    [Atom.ge 0 2] (some (Atom.le 1 0)) = false := by decide


/-! ### the propagator models (`Model/Propagation.lean`, tied to the code by the `fix` records)

For **every** domain state, view and constant — no bound on sizes, signs or holes: -/

/-- A pass of any modelled propagator (LinearLeq, LinearNe, IntAbs, Maximum, IntTimes, Division,
Element, the clause unit rule, the reified wrapper around any of them) never removes a value used by
a solution of its constraint within the current domains … -/
theorem propagation_never_prunes (n : Nat) (p : Pg.PropInst) (hw : p.Wf n) (d d' : Pg.Doms) (hl : d.length = n)
    (hp : p.pass d = some d') (a : List Int) (hin : inDoms d a = true) (hsat : p.cons.sat a = true) :
    inDoms d' a = true := by
  obtain ⟨d'', e, h', _⟩ := Pg.pass_ok p hw d hin hl hsat
  rw [hp] at e; cases e; exact h'

/-- … and signals a conflict only if its constraint has no solution within the current domains. -/
theorem propagation_conflict_sound (n : Nat) (p : Pg.PropInst) (hw : p.Wf n) (d : Pg.Doms) (hl : d.length = n)
    (hp : p.pass d = none) (a : List Int) (hin : inDoms d a = true) : p.cons.sat a = false := by
  cases hs : p.cons.sat a with
  | false => rfl
  | true =>
    obtain ⟨d'', e, _, _⟩ := Pg.pass_ok p hw d hin hl hs
    rw [hp] at e; cases e

/-- The same for the fixpoint of any set of propagators (one decision point to the next). -/
theorem fixpoint_never_prunes (n : Nat) (ps : List Pg.PropInst) (hw : ∀ p ∈ ps, p.Wf n) (d d' : Pg.Doms)
    (hl : d.length = n) (hf : Pg.fixpoint ps d = some d') (a : List Int) (hin : inDoms d a = true)
    (hsat : ∀ p ∈ ps, p.cons.sat a = true) : inDoms d' a = true :=
  Pg.fixpoint_keeps_solutions ps hw d d' hl hf a hin hsat

-- the hypotheses are satisfiable and the passes do something: x0 + x1 ≤ 3 with x0 ≥ 2 narrows x1
example : (Pg.PropInst.linLe [⟨1, 0, 0⟩, ⟨1, 0, 1⟩] 3).pass [[2, 3], [0, 1, 2, 3]] = some [[2, 3], [0, 1]] := by decide
example : (Pg.PropInst.div ⟨1, 0, 0⟩ ⟨1, 0, 1⟩ ⟨1, 0, 2⟩).pass [[7, 8, 9], [2, 3], [0, 1, 2, 3, 4, 5]]
    = some [[7, 8, 9], [2, 3], [2, 3, 4]] := by decide
example : (Pg.PropInst.times ⟨1, 0, 0⟩ ⟨1, 0, 1⟩ ⟨1, 0, 2⟩).pass [[2], [3], [5]] = none := by decide

/-! ### "the stated facts hold in the state in which the reason is given"

Lazy explanations and conflict analysis ask the domain store for the bounds a variable had at an
earlier trail position. In the model of the store (`Model/Assignments.lean`, tied to the real
`Assignments` by the `asg` correspondence, which compares these queries at every position) the answer is
the bound the variable really had at that moment, in every reachable state: -/

theorem store_historic_bounds (ops : List Asg.St.Op) (x p : Nat)
    (hp : p < (Asg.St.run Asg.St.empty ops).trail.length)
    (hx : x < (Asg.build (Asg.upTo (Asg.St.run Asg.St.empty ops).trail p)).length) :
    ((Asg.St.run Asg.St.empty ops).dom x).lbAt p =
        ((Asg.build (Asg.upTo (Asg.St.run Asg.St.empty ops).trail p)).getD x default).lb ∧
    ((Asg.St.run Asg.St.empty ops).dom x).ubAt p =
        ((Asg.build (Asg.upTo (Asg.St.run Asg.St.empty ops).trail p)).getD x default).ub := by
  have h := Asg.inv_run ops _ Asg.inv_empty
  rw [Asg.St.dom, h.doms]
  exact Asg.boundsAt_spec _ h.wf x p hp hx

-- non-vacuous: after [x >= 2] (position 4) and [x >= 4] (position 5) the bound at position 4 is 2
example :
    let s := Asg.St.run Asg.St.empty [.grow 1 1, .grow 0 9, .newLevel, .post (.ge 1 2), .post (.ge 1 4)]
    (s.dom 1).lbAt 4 = 2 ∧ (s.dom 1).lbAt 5 = 4 ∧ (s.dom 1).lbAt 3 = 0 := by decide

end Pumpkin.C17
