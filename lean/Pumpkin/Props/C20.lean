/-
C20 — runs are reproducible for a fixed seed.

A machine-checked proof cannot establish the absence of hidden inputs in compiled Rust code
(hasher seeds, clocks, addresses). What it carries:

* `ambient_ok`: the translator's inventory (`Gen/Ambient.lean`, regenerated from the current source
  on every run) of every ambient-input source in the workspace — hash containers with std's
  randomly seeded hasher, clocks, entropy, environment, pointer values — contains only entries of
  an allowed class: containers with the fixed Fnv hasher, containers with the default hasher that
  are only used for look-ups or whose iteration is sorted before use, the clock of the documented
  `TimeBudget`, clocks that only reach time statistics / log lines. A new source, or one that
  starts to be iterated, breaks this obligation.
* the models of the pure components are functions of (input, options, random draws), so the same
  inputs give the same outputs; this says nothing about the Rust and is labelled accordingly.

The property itself is decided by the divergence search: identical invocations in separate
processes with perturbed environments must produce identical bytes.
-/
import Pumpkin.Gen.Ambient
import Pumpkin.Gen.Tables
import Pumpkin.Model.Branching

namespace Pumpkin.C20
open Pumpkin.Gen

def allowed : List AmbCls :=
  [.fixedHasher, .timeOnlyStats, .timeBudget, .defaultHasherLookupOnly, .defaultHasherIteratedSorted]

theorem ambient_ok : ∀ e ∈ ambient, e.cls ∈ allowed := by decide

/-- the inventory is not empty (the translator still finds the sources it is meant to find) -/
theorem ambient_nonvacuous : 5 ≤ ambient.length := by decide

/-- the value-selector models are functions: equal random draws give equal decisions -/
theorem model_deterministic (x : Nat) (vs : List Int) (r : Int) (coin : Bool) :
    Branching.randomSplitter x vs r coin = Branching.randomSplitter x vs r coin := rfl

/-- the configuration spaces the streams enumerate are the ones present in the source -/
theorem option_spaces :
    cumulativeMethods.length = 6 ∧ cumulativeExplanations.length = 3 ∧ conflictResolvers.length = 2 ∧
    sequenceGenerators.length = 3 ∧ sortingStrategies.length = 2 ∧ optimisationStrategies.length = 2 ∧
    valueSelectors.length = 14 ∧ variableSelectors.length = 10 := by decide

end Pumpkin.C20
