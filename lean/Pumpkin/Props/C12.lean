/-
C12 — root bounds reported by the solver never exclude a solution.

The driver accepts reported bounds `[lb, ub]` of a variable (or view) iff they enclose the value in
every solution of the accumulated model and lie within the declared domain; monotonicity along the
posting sequence is checked by the harness on the reported numbers.
-/
import Pumpkin.Spec.Basic
import Pumpkin.Check.Oracle

namespace Pumpkin.C12

theorem bounds_enclose (m : Model) (x : Nat) (lb ub : Int)
    (h : checkBounds (solutions m) x lb ub = true) (a : List Int) (ha : m.sat a = true) :
    lb ≤ val a x ∧ val a x ≤ ub := checkBounds_sound m x lb ub h a ha

theorem view_bounds_enclose (m : Model) (w : View) (lb ub : Int)
    (h : checkViewBounds (solutions m) w lb ub = true) (a : List Int) (ha : m.sat a = true) :
    lb ≤ w.eval a ∧ w.eval a ≤ ub := checkViewBounds_sound m w lb ub h a ha

/-- Bounds of a view computed from enclosing bounds of its variable (the `AffineView` rule: swap for
negative scale) enclose the view's value. -/
theorem view_rule (w : View) (a : List Int) (lb ub : Int) (h : lb ≤ val a w.var ∧ val a w.var ≤ ub) :
    (if w.scale < 0 then w.scale * ub + w.offset else w.scale * lb + w.offset) ≤ w.eval a ∧
    w.eval a ≤ (if w.scale < 0 then w.scale * lb + w.offset else w.scale * ub + w.offset) := by
  simp only [View.eval]
  split
  · rename_i hs
    constructor
    · have := Int.mul_le_mul_of_nonpos_left (Int.le_of_lt hs) h.2; omega
    · have := Int.mul_le_mul_of_nonpos_left (Int.le_of_lt hs) h.1; omega
  · rename_i hs
    have hs' : 0 ≤ w.scale := by omega
    constructor
    · have := Int.mul_le_mul_of_nonneg_left h.1 hs'; omega
    · have := Int.mul_le_mul_of_nonneg_left h.2 hs'; omega

/-- Adding a constraint can only shrink the solution set, so enclosing bounds stay enclosing. -/
theorem more_constraints_fewer_solutions (m : Model) (c : Cons) (a : List Int)
    (h : (Model.mk m.doms (m.cons ++ [c])).sat a = true) : m.sat a = true := by
  simp only [Model.sat, List.all_append, Bool.and_eq_true] at *
  exact ⟨h.1, h.2.1⟩

end Pumpkin.C12
