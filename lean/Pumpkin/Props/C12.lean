/-
C12 — root bounds reported by the solver never exclude a solution.

The driver accepts reported bounds `[lb, ub]` of a variable (or view) iff they enclose the value in
every solution of the accumulated model and lie within the declared domain; monotonicity along the
posting sequence is checked by the harness on the reported numbers.
-/
import Pumpkin.Spec.Basic
import Pumpkin.Check.Oracle
import Pumpkin.Model.PropagationCompile
import Pumpkin.Model.AssignmentsState
import Pumpkin.Model.AssignmentsRefine

namespace Pumpkin.C12

theorem bounds_enclose (m : Model) (x : Nat) (lb ub : Int)
    (h : checkBounds (solutions m) x lb ub = true) (a : List Int) (ha : m.sat a = true) :
    lb ≤ val a x ∧ val a x ≤ ub := checkBounds_sound m x lb ub h a ha

theorem view_bounds_enclose (m : Model) (w : View) (lb ub : Int)
    (h : checkViewBounds (solutions m) w lb ub = true) (a : List Int) (ha : m.sat a = true) :
    lb ≤ w.eval a ∧ w.eval a ≤ ub := checkViewBounds_sound m w lb ub h a ha

/-- Bounds of a view computed from enclosing bounds of its variable (the `AffineView` rule: swap for
negative scale) enclose the view's value. -/
theorem view_rule (w : View) (a : List Int) (lb ub : Int) (h : lb ≤ val a w.var ∧ val a w.var ≤ ub) :
    (if w.scale < 0 then w.scale * ub + w.offset else w.scale * lb + w.offset) ≤ w.eval a ∧
    w.eval a ≤ (if w.scale < 0 then w.scale * lb + w.offset else w.scale * ub + w.offset) := by
  simp only [View.eval]
  split
  · rename_i hs
    constructor
    · have := Int.mul_le_mul_of_nonpos_left (Int.le_of_lt hs) h.2; omega
    · have := Int.mul_le_mul_of_nonpos_left (Int.le_of_lt hs) h.1; omega
  · rename_i hs
    have hs' : 0 ≤ w.scale := by omega
    constructor
    · have := Int.mul_le_mul_of_nonneg_left h.1 hs'; omega
    · have := Int.mul_le_mul_of_nonneg_left h.2 hs'; omega

/-- Adding a constraint can only shrink the solution set, so enclosing bounds stay enclosing. -/
theorem more_constraints_fewer_solutions (m : Model) (c : Cons) (a : List Int)
    (h : (Model.mk m.doms (m.cons ++ [c])).sat a = true) : m.sat a = true := by
  simp only [Model.sat, List.all_append, Bool.and_eq_true] at *
  exact ⟨h.1, h.2.1⟩


/-- **The modelled root state** (`Pg.rootFix`: the constraints posted one after the other, each
decomposed into propagators as `pumpkin_solver::constraints` does and propagated to the fixpoint;
tied to the real solver's root domains by exact correspondence on every run) **contains the value
of every variable in every solution of the model** — hence so do the bounds read off it — for every
model built from the modelled constraint kinds. -/
theorem root_state_encloses (m : Model) (hw : ∀ c ∈ m.cons, Pg.consWf m.doms.length c) (d : Pg.Doms)
    (hr : Pg.rootFix m.doms m.cons = some (some d)) (a : List Int) (ha : m.sat a = true) (x : Nat)
    (hx : x < m.doms.length) : val a x ∈ Pg.dom d x ∧ Pg.lb d (View.ofVar x) ≤ val a x ∧ val a x ≤ Pg.ub d (View.ofVar x) := by
  have hin := Pg.rootFix_encloses m hw d hr a ((mem_solutions m a).2 ha)
  have hlen : d.length = m.doms.length := by
    have h1 := inDoms_length hin
    simp only [Model.sat, Bool.and_eq_true] at ha
    have h2 := inDoms_length ha.1
    omega
  have hxd : x < d.length := by omega
  refine ⟨AtomRup.val_mem_of_inDoms hin hxd, ?_, ?_⟩
  · have := Pg.lb_le hin (w := View.ofVar x) hxd
    simpa [View.ofVar, View.eval] using this
  · have := Pg.le_ub hin (w := View.ofVar x) hxd
    simpa [View.ofVar, View.eval] using this

example : Pg.rootFix [[0, 1, 2, 3], [0, 1, 2, 3]] [Cons.linLe [⟨1, 0, 0⟩, ⟨1, 0, 1⟩] 1, Cons.linNe [⟨1, 0, 0⟩] 0]
    = some (some [[1], [0]]) := by decide

/-! ### the domain store itself (`engine/cp/assignments.rs`, `Model/Assignments.lean`)

The bounds the API reports are read from `Assignments`; the following hold for the model of its update
lists after **every** sequence of operations (variable creation at the root, posting predicates of the
four kinds — also ones emptying a domain —, opening decision levels, backtracking), and the model is
tied to the real store by exact correspondence of every observable after every operation (`asg`
records). -/

/-- The reported bounds of a non-empty domain are values of the domain (never a hole, never outside),
and every value of the domain lies between them. -/
theorem store_bounds_tight (ops : List Asg.St.Op) (x : Nat)
    (hx : x < (Asg.St.run Asg.St.empty ops).doms.length)
    (hne : (Asg.St.run Asg.St.empty ops).lb x ≤ (Asg.St.run Asg.St.empty ops).ub x) :
    (Asg.St.run Asg.St.empty ops).contains x ((Asg.St.run Asg.St.empty ops).lb x) = true ∧
    (Asg.St.run Asg.St.empty ops).contains x ((Asg.St.run Asg.St.empty ops).ub x) = true ∧
    ∀ v, (Asg.St.run Asg.St.empty ops).contains x v = true →
      (Asg.St.run Asg.St.empty ops).lb x ≤ v ∧ v ≤ (Asg.St.run Asg.St.empty ops).ub x :=
  Asg.bounds_tight ops x hx hne

/-- A value is in the domain of `x` exactly if the declared interval and every predicate currently on
the trail over `x` allow it: nothing else is ever lost (no solution excluded by the store), nothing
comes back. -/
theorem store_domain_is_trail (ops : List Asg.St.Op) (x : Nat) (v : Int)
    (hx : x < (Asg.St.run Asg.St.empty ops).doms.length) :
    (Asg.St.run Asg.St.empty ops).contains x v = true ↔
      ∀ e ∈ (Asg.St.run Asg.St.empty ops).trail, e.atom.var = x → e.allows v :=
  Asg.mem_iff_trail ops x v hx

/-- Posting a predicate removes exactly the values it excludes ("only ever tighten"), whatever the
state of the update lists. -/
theorem store_post_exact (s : Asg.St) (p : Atom) (hp : p.var < s.doms.length) (x : Nat) (v : Int) :
    (s.post p).1.contains x v = true ↔ s.contains x v = true ∧ (x = p.var → p.holdsVal v = true) :=
  Asg.post_contains s p hp x v

/-- Backtracking gives back exactly the state in which the level was left. -/
theorem store_backtrack_restores (ops ops' : List Asg.St.Op)
    (h : ∀ k, Asg.St.Op.sync k ∈ ops' → (Asg.St.run Asg.St.empty ops).level < k) :
    (Asg.St.run (Asg.St.run Asg.St.empty ops).newLevel ops').sync (Asg.St.run Asg.St.empty ops).level
      = Asg.St.run Asg.St.empty ops :=
  Asg.sync_restores _ (Asg.inv_run ops _ Asg.inv_empty) ops' h

/-- **The store refines the abstract domains of the propagator models**: the values read off the
store (`Asg.toDoms`) form a `Doms`, and posting a predicate on the store is `AtomRup.assume` (the
`Pg.postAtom` of `Model/Propagation.lean` without its emptiness test) on it — in every reachable state.
This is what connects the two halves of the model: the propagators are modelled as functions on
`Doms`, the solver keeps `Assignments`. -/
theorem store_refines_domains (ops : List Asg.St.Op) (p : Atom)
    (hp : p.var < (Asg.St.run Asg.St.empty ops).doms.length) :
    Asg.toDoms ((Asg.St.run Asg.St.empty ops).post p).1 =
      AtomRup.assume (Asg.toDoms (Asg.St.run Asg.St.empty ops)) p :=
  Asg.post_refines _ (Asg.inv_run ops _ Asg.inv_empty) p hp

-- the hypotheses are met by a non-trivial history: a bound lands on a hole and skips it, a level is
-- opened, the domain is emptied, and backtracking restores the state
example :
    let ops := [Asg.St.Op.grow 1 1, .grow 0 5, .post (.ne 1 2), .post (.ge 1 2)]
    let s := Asg.St.run Asg.St.empty ops
    s.lb 1 = 3 ∧ s.contains 1 2 = false ∧
    (Asg.St.run s.newLevel [.post (.le 1 3), .post (.ne 1 3)]).lb 1 = 4 ∧
    (Asg.St.run s.newLevel [.post (.le 1 3), .post (.ne 1 3)]).ub 1 = 2 ∧
    (Asg.St.run s.newLevel [.post (.le 1 3), .post (.ne 1 3)]).sync s.level = s := by decide

end Pumpkin.C12
