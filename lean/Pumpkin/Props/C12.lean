/-
C12 — root bounds reported by the solver never exclude a solution.

The driver accepts reported bounds `[lb, ub]` of a variable (or view) iff they enclose the value in
every solution of the accumulated model and lie within the declared domain; monotonicity along the
posting sequence is checked by the harness on the reported numbers.
-/
import Pumpkin.Spec.Basic
import Pumpkin.Check.Oracle
import Pumpkin.Model.PropagationCompile

namespace Pumpkin.C12

theorem bounds_enclose (m : Model) (x : Nat) (lb ub : Int)
    (h : checkBounds (solutions m) x lb ub = true) (a : List Int) (ha : m.sat a = true) :
    lb ≤ val a x ∧ val a x ≤ ub := checkBounds_sound m x lb ub h a ha

theorem view_bounds_enclose (m : Model) (w : View) (lb ub : Int)
    (h : checkViewBounds (solutions m) w lb ub = true) (a : List Int) (ha : m.sat a = true) :
    lb ≤ w.eval a ∧ w.eval a ≤ ub := checkViewBounds_sound m w lb ub h a ha

/-- Bounds of a view computed from enclosing bounds of its variable (the `AffineView` rule: swap for
negative scale) enclose the view's value. -/
theorem view_rule (w : View) (a : List Int) (lb ub : Int) (h : lb ≤ val a w.var ∧ val a w.var ≤ ub) :
    (if w.scale < 0 then w.scale * ub + w.offset else w.scale * lb + w.offset) ≤ w.eval a ∧
    w.eval a ≤ (if w.scale < 0 then w.scale * lb + w.offset else w.scale * ub + w.offset) := by
  simp only [View.eval]
  split
  · rename_i hs
    constructor
    · have := Int.mul_le_mul_of_nonpos_left (Int.le_of_lt hs) h.2; omega
    · have := Int.mul_le_mul_of_nonpos_left (Int.le_of_lt hs) h.1; omega
  · rename_i hs
    have hs' : 0 ≤ w.scale := by omega
    constructor
    · have := Int.mul_le_mul_of_nonneg_left h.1 hs'; omega
    · have := Int.mul_le_mul_of_nonneg_left h.2 hs'; omega

/-- Adding a constraint can only shrink the solution set, so enclosing bounds stay enclosing. -/
theorem more_constraints_fewer_solutions (m : Model) (c : Cons) (a : List Int)
    (h : (Model.mk m.doms (m.cons ++ [c])).sat a = true) : m.sat a = true := by
  simp only [Model.sat, List.all_append, Bool.and_eq_true] at *
  exact ⟨h.1, h.2.1⟩


/-- **The modelled root state** (`Pg.rootFix`: the constraints posted one after the other, each
decomposed into propagators as `pumpkin_solver::constraints` does and propagated to the fixpoint;
tied to the real solver's root domains by exact correspondence on every run) **contains the value
of every variable in every solution of the model** — hence so do the bounds read off it — for every
model built from the modelled constraint kinds. -/
theorem root_state_encloses (m : Model) (hw : ∀ c ∈ m.cons, Pg.consWf m.doms.length c) (d : Pg.Doms)
    (hr : Pg.rootFix m.doms m.cons = some (some d)) (a : List Int) (ha : m.sat a = true) (x : Nat)
    (hx : x < m.doms.length) : val a x ∈ Pg.dom d x ∧ Pg.lb d (View.ofVar x) ≤ val a x ∧ val a x ≤ Pg.ub d (View.ofVar x) := by
  have hin := Pg.rootFix_encloses m hw d hr a ((mem_solutions m a).2 ha)
  have hlen : d.length = m.doms.length := by
    have h1 := inDoms_length hin
    simp only [Model.sat, Bool.and_eq_true] at ha
    have h2 := inDoms_length ha.1
    omega
  have hxd : x < d.length := by omega
  refine ⟨AtomRup.val_mem_of_inDoms hin hxd, ?_, ?_⟩
  · have := Pg.lb_le hin (w := View.ofVar x) hxd
    simpa [View.ofVar, View.eval] using this
  · have := Pg.le_ub hin (w := View.ofVar x) hxd
    simpa [View.ofVar, View.eval] using this

example : Pg.rootFix [[0, 1, 2, 3], [0, 1, 2, 3]] [Cons.linLe [⟨1, 0, 0⟩, ⟨1, 0, 1⟩] 1, Cons.linNe [⟨1, 0, 0⟩] 0]
    = some (some [[1], [0]]) := by decide

end Pumpkin.C12
