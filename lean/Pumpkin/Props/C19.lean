/-
C19 — DRCP files written by the library read back unchanged.

`Model/Drcp.lean` models the writer (`render`) and the reader grammar (`parse`) at token level.
`parse_render`: every well-formed step — all that the Rust types can express: non-zero literal
codes of any sign and magnitude within `i32`, non-zero `u64` ids, empty premise lists, empty
nogoods with and without hints, empty hint lists, optional tag and label — is read back unchanged;
`parse_render_seq` lifts this to step sequences. Negating an atomic constraint twice gives the
original (`not_not`, and over wrapping 64-bit values `not64_not64`).

Before the repair of the reader (`fix: DRCP reader rejected steps that the DRCP writer emits`) the
statement was false; `old_reader_rejected` records the four shapes that failed, as tokens.
-/
import Pumpkin.Model.Drcp
import Pumpkin.Model.Lits

namespace Pumpkin.C19
open Pumpkin.Drcp

theorem read_back (s : Step) (h : s.WF) : parse (render s) = some s := parse_render s h

theorem read_back_sequence (ss : List Step) (h : ∀ s ∈ ss, s.WF) :
    (ss.map render).mapM parse = some ss := parse_render_seq ss h

theorem negate_twice_int (a : IntAtomic) : a.not.not = a := IntAtomic.not_not a
theorem negate_twice_int64 (a : IntAtomic)
    (h : -9223372036854775808 ≤ a.value ∧ a.value ≤ 9223372036854775807) : a.not64.not64 = a :=
  IntAtomic.not64_not64 a h
theorem negate_twice_bool (a : BoolAtomic) : a.not.not = a := BoolAtomic.not_not a

/-- The shapes the unrepaired reader rejected are well-formed and round-trip in the model. -/
theorem old_reader_rejected :
    parse (render (.inference 1 [] (some 7) none none)) = some (.inference 1 [] (some 7) none none) ∧
    parse (render (.inference 2 [] none (some 3) none)) = some (.inference 2 [] none (some 3) none) ∧
    parse (render (.nogood 5 [1, 2] (some []))) = some (.nogood 5 [1, 2] (some [])) ∧
    parse (render (.nogood 7 [] none)) = some (.nogood 7 [] none) := by decide

/-- The grammar is unambiguous where it matters: a `0` followed by numbers after a nogood's
literals is always the hint list. -/
example : parse [Tok.kw "n", Tok.num 100, Tok.num 0, Tok.num 1, Tok.num 4, Tok.num 5]
    = some (.nogood 100 [] (some [1, 4, 5])) := by decide

/-- Non-vacuity of `WF`. -/
example : (Step.inference 3 [-5, 2147483647] (some (-1)) (some 20) (some "linear_bound")).WF := by
  refine ⟨by decide, ?_, ?_, ?_⟩
  · intro p hp; simp at hp; rcases hp with rfl | rfl <;> decide
  · intro p hp; cases hp; decide
  · intro t ht; cases ht; decide

/-! ### the literal definition file (`.lits`), byte level -/

/-- A definition line written by `LiteralDefinitions::write` — any non-zero `u32` code, at least one
atomic constraint, names of the documented shape `[A-Za-z_][A-Za-z0-9_]*`, any comparison, any `i64`
value, either Boolean value — is read back unchanged by the model of the nom grammar. -/
theorem lits_line_read_back (code : Nat) (a : Pumpkin.Lits.Atomic) (as : List Pumpkin.Lits.Atomic)
    (hc : 1 ≤ code ∧ code ≤ 4294967295) (hw : ∀ x ∈ a :: as, Pumpkin.Lits.WfAtomic x) :
    Pumpkin.Lits.parseDef (Pumpkin.Lits.renderDef code (a :: as)) = some (code, a :: as) :=
  Pumpkin.Lits.parseDef_renderDef code a as hc hw

/-- … and so is a whole file. -/
theorem lits_file_read_back (defs : List (Nat × List Pumpkin.Lits.Atomic))
    (hw : ∀ d ∈ defs, Pumpkin.Lits.WfDef d) :
    Pumpkin.Lits.parseFile (Pumpkin.Lits.renderFile defs) = some defs :=
  Pumpkin.Lits.parseFile_renderFile defs hw

/-- a name starting with `_` is well formed (the shape a seeded change of the reader rejected) -/
example : Pumpkin.Lits.WfName [95, 98, 48] := ⟨95, [98, 48], rfl, by decide, by decide⟩

end Pumpkin.C19
