/-
C07 — answers do not depend on the solver configuration.

The specification-level answers (satisfiability, the solution set, the optimum) are functions of
the model alone; every answer the real solver gives under any option vector / brancher is judged
against them. Two configurations that are both accepted therefore agree: same verdict, solution
lists that are permutations of each other, same optimal value.
-/
import Pumpkin.Spec.Basic
import Pumpkin.Check.Oracle
import Pumpkin.Props.C03
import Pumpkin.Props.C04

namespace Pumpkin.C07

theorem accepted_sets_agree (m : Model) (hd : ∀ d ∈ m.doms, d.Nodup) (l₁ l₂ : List (List Int))
    (h₁ : checkSolSet m (solutions m) l₁ = true) (h₂ : checkSolSet m (solutions m) l₂ = true) :
    l₁.Perm l₂ :=
  (checkSolSet_perm m hd l₁ h₁).trans (checkSolSet_perm m hd l₂ h₂).symm

theorem accepted_optima_agree (m : Model) (obj : View) (mx : Bool) (v₁ v₂ : Int)
    (h₁ : optimum m obj mx = some v₁) (h₂ : optimum m obj mx = some v₂) : v₁ = v₂ := by
  rw [h₁] at h₂; exact Option.some.inj h₂

/-- Two sound-and-complete solve procedures (any two configurations, given C01 + C02) iterate to
permutations of each other and optimise to the same value. -/
theorem iterate_config_free (s₁ s₂ : C03.Solve) (m : Model) (hd : ∀ d ∈ m.doms, d.Nodup) :
    (C03.iterate s₁ ((solutions m).length + 1) m).Perm (C03.iterate s₂ ((solutions m).length + 1) m) :=
  (C03.iterate_exact s₁ _ m hd (Nat.lt_succ_self _)).trans
    (C03.iterate_exact s₂ _ m hd (Nat.lt_succ_self _)).symm

theorem optimise_config_free (s₁ s₂ : C03.Solve) (obj : View) (m : Model) (r₁ r₂ : List Int)
    (h₁ : C04.optimiseMin s₁ obj (solutions m).length m = some r₁)
    (h₂ : C04.optimiseMin s₂ obj (solutions m).length m = some r₂) : obj.eval r₁ = obj.eval r₂ := by
  have a := C04.optimiseMin_optimal s₁ obj m r₁ h₁
  have b := C04.optimiseMin_optimal s₂ obj m r₂ h₂
  have := a.2 r₂ b.1
  have := b.2 r₁ a.1
  omega

end Pumpkin.C07
