/-
C01 — every returned solution satisfies the whole model.

Shape of the argument: the driver accepts a reported solution `a` iff `Model.sat m a`; the
theorems below say what acceptance means at the level of the specification: every variable
takes a value of its declared domain and every posted constraint holds under its documented
meaning, including constraints over views and (half-)reified constraints.
-/
import Pumpkin.Spec.Basic
import Pumpkin.Check.Oracle
import Pumpkin.Model.PropagationChecks
import Pumpkin.Model.AssignmentsEvents

namespace Pumpkin.C01

/-- An accepted solution is total (one value per variable), inside the declared domains, and
satisfies every constraint. -/
theorem accepted_solution (m : Model) (a : List Int) (h : m.sat a = true) :
    a.length = m.doms.length ∧ inDoms m.doms a = true ∧ ∀ c ∈ m.cons, c.sat a = true := by
  simp only [Model.sat, Bool.and_eq_true, List.all_eq_true] at h
  exact ⟨inDoms_length h.1, h.1, h.2⟩

/-- Acceptance coincides with membership in the verified oracle's solution list. -/
theorem accepted_iff_oracle (m : Model) (a : List Int) : m.sat a = true ↔ a ∈ solutions m :=
  (mem_solutions m a).symm

/-- Half reification has implication semantics. -/
theorem implied_sem (r : Atom) (c : Cons) (a : List Int) :
    (Cons.implied r c).sat a = true ↔ (r.holds a = true → c.sat a = true) := by
  simp only [Cons.sat, Bool.or_eq_true, Bool.not_eq_eq_eq_not, Bool.not_true]
  cases r.holds a <;> simp

/-- Full reification has equivalence semantics. -/
theorem reif_sem (r : Atom) (c : Cons) (a : List Int) :
    (Cons.reif r c).sat a = true ↔ (r.holds a = true ↔ c.sat a = true) := by
  simp only [Cons.sat]
  cases r.holds a <;> cases c.sat a <;> simp

/-- A scaled/offset view evaluates to `scale * x + offset`. -/
theorem view_sem (w : View) (a : List Int) : w.eval a = w.scale * val a w.var + w.offset := rfl

/-- Non-vacuity: a concrete model with a view, a reified constraint and a sparse domain has an
accepted solution and a rejected assignment. -/
example :
    let m : Model := { doms := [[0, 2, 5], [0, 1]],
                       cons := [Cons.reif (Atom.ge 1 1) (Cons.linLe [⟨-2, 1, 0⟩] (-3))] }
    m.sat [2, 1] = true ∧ m.sat [2, 0] = false ∧ m.sat [1, 1] = false := by decide


/-! ### why "no decision left, fixpoint, no conflict" is a solution

The solver hands out the current assignment when the brancher has no decision left, i.e. every
variable is fixed, propagation is at its fixpoint and no conflict was reported. Over the propagator
models of `Model/Propagation.lean` (tied to the real propagation by the exact `fix` correspondence:
the last record of every satisfiable solve is exactly such a state) this is a theorem: -/

/-- **A full assignment whose propagation fixpoint reports no conflict satisfies the whole model**,
for every model of the modelled constraint kinds (linear ≤ = ≠, times, division, absolute value,
maximum / minimum, element, all-different, clauses, conjunctions, negation, half and full
reification, over arbitrary views). `Pre` are the preconditions the real propagators assert
(denominator ≠ 0, `maximum` over a non-empty array). -/
theorem fixed_fixpoint_is_solution (m : Model) (hw : ∀ c ∈ m.cons, Pg.consWf m.doms.length c)
    (ps : List Pg.PropInst) (hc : Pg.compileAll m.doms m.cons = some ps) (a : List Int)
    (hin : inDoms m.doms a = true) (hpre : ∀ p ∈ ps, p.Pre a) (d' : Pg.Doms)
    (hf : Pg.fixpoint ps (Pg.sing a) = some d') : m.sat a = true :=
  Pg.full_assignment_fixpoint_is_solution m hw ps hc a hin hpre d' hf

/-- … and conversely a solution is never rejected: the fixpoint at a solution is the solution. -/
theorem solution_is_fixed_fixpoint (n : Nat) (ps : List Pg.PropInst) (hw : ∀ p ∈ ps, p.Wf n) (a : List Int)
    (hl : a.length = n) (hsat : ∀ p ∈ ps, p.cons.sat a = true) : ∃ d', Pg.fixpoint ps (Pg.sing a) = some d' := by
  have hin : inDoms (Pg.sing a) a = true := by
    clear hl hsat hw
    induction a with
    | nil => rfl
    | cons v vs ih => simp [Pg.sing, inDoms] at ih ⊢; exact ih
  obtain ⟨d', e, _, _⟩ := Pg.fixpoint_ok ps hw hsat (Pg.sing a) hin (by simp [Pg.sing, hl])
  exact ⟨d', e⟩

-- a violated constraint is detected at the full assignment, a satisfied one is not
example : Pg.fixpoint [.div ⟨1, 0, 0⟩ ⟨1, 0, 1⟩ ⟨1, 0, 2⟩] (Pg.sing [-7, 2, -4]) = none := by decide
example : Pg.fixpoint [.div ⟨1, 0, 0⟩ ⟨1, 0, 1⟩ ⟨1, 0, 2⟩] (Pg.sing [-7, 2, -3]) = some (Pg.sing [-7, 2, -3]) := by decide

/-! ### propagators are woken by every change (`EventSink`)

A propagator only runs when it is notified of a domain event of one of its variables; "every propagator
detects violation once its variables are fixed" therefore needs every change to raise its event. In the
model of the domain store (tied to the real `Assignments` incl. its event sink by the `asg`
correspondence): -/

/-- every real change of a domain raises at least one event, a moved lower / upper bound raises
`LowerBound` / `UpperBound`, and `Assign` is raised exactly when the domain has become a single value —
for every domain state (holes, bounds skipping over holes) and every predicate. -/
theorem store_events_complete (d : Asg.IDom) (a : Atom) (l pos : Nat) (hc : Asg.St.changes d a = true) :
    (Asg.Ev.lowerBound ∈ Asg.evAtom d (Asg.St.applyAtom d a l pos) a ↔ (Asg.St.applyAtom d a l pos).lb ≠ d.lb) ∧
    (Asg.Ev.upperBound ∈ Asg.evAtom d (Asg.St.applyAtom d a l pos) a ↔ (Asg.St.applyAtom d a l pos).ub ≠ d.ub) ∧
    (Asg.Ev.assign ∈ Asg.evAtom d (Asg.St.applyAtom d a l pos) a ↔
      (Asg.St.applyAtom d a l pos).lb = (Asg.St.applyAtom d a l pos).ub) ∧
    Asg.evAtom d (Asg.St.applyAtom d a l pos) a ≠ [] :=
  Asg.events_complete d a l pos hc

end Pumpkin.C01
