/-
C01 — every returned solution satisfies the whole model.

Shape of the argument: the driver accepts a reported solution `a` iff `Model.sat m a`; the
theorems below say what acceptance means at the level of the specification: every variable
takes a value of its declared domain and every posted constraint holds under its documented
meaning, including constraints over views and (half-)reified constraints.
-/
import Pumpkin.Spec.Basic
import Pumpkin.Check.Oracle

namespace Pumpkin.C01

/-- An accepted solution is total (one value per variable), inside the declared domains, and
satisfies every constraint. -/
theorem accepted_solution (m : Model) (a : List Int) (h : m.sat a = true) :
    a.length = m.doms.length ∧ inDoms m.doms a = true ∧ ∀ c ∈ m.cons, c.sat a = true := by
  simp only [Model.sat, Bool.and_eq_true, List.all_eq_true] at h
  exact ⟨inDoms_length h.1, h.1, h.2⟩

/-- Acceptance coincides with membership in the verified oracle's solution list. -/
theorem accepted_iff_oracle (m : Model) (a : List Int) : m.sat a = true ↔ a ∈ solutions m :=
  (mem_solutions m a).symm

/-- Half reification has implication semantics. -/
theorem implied_sem (r : Atom) (c : Cons) (a : List Int) :
    (Cons.implied r c).sat a = true ↔ (r.holds a = true → c.sat a = true) := by
  simp only [Cons.sat, Bool.or_eq_true, Bool.not_eq_eq_eq_not, Bool.not_true]
  cases r.holds a <;> simp

/-- Full reification has equivalence semantics. -/
theorem reif_sem (r : Atom) (c : Cons) (a : List Int) :
    (Cons.reif r c).sat a = true ↔ (r.holds a = true ↔ c.sat a = true) := by
  simp only [Cons.sat]
  cases r.holds a <;> cases c.sat a <;> simp

/-- A scaled/offset view evaluates to `scale * x + offset`. -/
theorem view_sem (w : View) (a : List Int) : w.eval a = w.scale * val a w.var + w.offset := rfl

/-- Non-vacuity: a concrete model with a view, a reified constraint and a sparse domain has an
accepted solution and a rejected assignment. -/
example :
    let m : Model := { doms := [[0, 2, 5], [0, 1]],
                       cons := [Cons.reif (Atom.ge 1 1) (Cons.linLe [⟨-2, 1, 0⟩] (-3))] }
    m.sat [2, 1] = true ∧ m.sat [2, 0] = false ∧ m.sat [1, 1] = false := by decide

end Pumpkin.C01
