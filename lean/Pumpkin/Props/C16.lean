/-
C16 — constraint arithmetic is exact over the admitted integer range.

The 32-bit instantiations of the arithmetic expressions (`Model/Wrap.lean`, written operation by
operation as in the Rust source) coincide with unbounded integer arithmetic exactly when every
intermediate result fits `i32` (`…_exact`), and differ as soon as one does not (`…_wraps`,
witnesses below). These `fits32` side conditions are the *weakest* ranges under which the code is
exact; inputs the API accepts (any `i32` bounds and coefficients) can violate them, which is a
known finding (see DESIGN.md §7, D8) replayed on the real code by the correspondence stream.
The predicate translation through views (`div_ceil`/`div_floor`) is exact for every scale ≠ 0
(`View.gePred_sem`, `View.lePred_sem`).
-/
import Pumpkin.Model.NumExt
import Pumpkin.Model.Wrap

namespace Pumpkin.C16

theorem view_value_exact (w : View) (x : Int) (h1 : fits32 (w.scale * x))
    (h2 : fits32 (w.scale * x + w.offset)) : w.map32 x = w.scale * x + w.offset :=
  View.map32_exact w x h1 h2

theorem view_lower_bound_predicate_exact (w : View) (v : Int) (a : List Int) (hs : w.scale ≠ 0) :
    (w.gePred v).holds a = true ↔ v ≤ w.eval a := View.gePred_sem w v a hs

theorem view_upper_bound_predicate_exact (w : View) (v : Int) (a : List Int) (hs : w.scale ≠ 0) :
    (w.lePred v).holds a = true ↔ w.eval a ≤ v := View.lePred_sem w v a hs

theorem linear_bound_exact (c lbLhs lbI : Int) (h1 : fits32 (lbLhs - lbI))
    (h2 : fits32 (c - (lbLhs - lbI))) : linLeBound32 c lbLhs lbI = c - (lbLhs - lbI) :=
  linLeBound32_exact c lbLhs lbI h1 h2

theorem product_exact (a b : Int) (h : fits32 (a * b)) : mul32 a b = a * b := mul32_exact a b h

/-- Full-strength statement is **false** for the code as written: with all inputs inside `i32` the
product of two bounds / the linear bound / the view value can leave `i32`. Witnesses (replayed on
the real code by the C16 stream, where they panic with overflow checks on): -/
theorem product_partial_witness : fits32 65536 ∧ fits32 32768 ∧ mul32 65536 32768 ≠ 65536 * 32768 := by
  decide

theorem linear_bound_partial_witness :
    fits32 (-2147483000) ∧ fits32 1000 ∧ fits32 5 ∧
      linLeBound32 5 (-2147483000) 1000 ≠ 5 - (-2147483000 - 1000) := by decide

theorem view_value_partial_witness :
    (⟨3, 0, 0⟩ : View).map32 1073741824 ≠ 3 * 1073741824 + 0 := by decide

/-- div_ceil / div_floor agree with mathematical ceiling / floor for positive divisors. -/
theorem div_ceil_spec (a : Int) {b : Int} (hb : 0 < b) :
    b * divCeil a b - b < a ∧ a ≤ b * divCeil a b := divCeil_pos a hb
theorem div_floor_spec (a : Int) {b : Int} (hb : 0 < b) :
    b * divFloor a b ≤ a ∧ a < b * divFloor a b + b := divFloor_pos a hb

example : divCeil 7 2 = 4 ∧ divCeil (-7) 2 = -3 ∧ divCeil 7 (-2) = -3 ∧ divCeil (-7) (-2) = 4 ∧
    divFloor 7 2 = 3 ∧ divFloor (-7) 2 = -4 ∧ divFloor 7 (-2) = -4 ∧ divFloor (-7) (-2) = 3 := by decide

end Pumpkin.C16
