/-
C06 — emitted DRCP proofs are valid certificates.

The theorems are about the verified checker `DrcpCheck.checkDrcp` (`Check/DrcpCheck.lean`), which
is what judges every proof file the solver writes in the correspondence run:

* `unsat_certificate`: an accepted proof concluding `UNSAT` ⇒ the posted model has no solution;
* `optimal_certificate_min/max`: an accepted optimality proof ⇒ no solution is strictly better
  than the concluded bound (the improvement axioms `[obj ≤ best-1]` the solver adds after each
  solution are the only steps not implied by the model, and the concluded bound must be the
  strongest of them + 1);
* `accepted_nogoods_implied`: in a satisfaction proof every nogood step that was accepted — each
  derived by RUP from exactly the steps it may use — holds in every solution of the model;
* `inference_follows_from_its_constraint`: an accepted tagged inference is entailed by the single
  constraint it is tagged with (within the declared domains, and given the definitions `r ↔ p` of
  literal variables created for a predicate — the proof writes `p` where the constraint says `r`;
  `inference_follows_from_its_constraint_plain`: with no such literals, by the constraint alone);
* `conclusion_needs_empty_nogood`: without the empty nogood nothing is accepted as `UNSAT`.

The reading of the two files into steps and literal definitions is the repo's own reader
(harness) plus `Model/Drcp.parse` (driver); C19 proves that model reader inverse to the writer.
-/
import Pumpkin.Check.DrcpCheck

namespace Pumpkin.C06
open Pumpkin.Drcp Pumpkin.DrcpCheck Pumpkin.AtomRup

theorem unsat_certificate (m : Model) (nd : Nat) (lits : List (Nat × Atom)) (obj : Obj) (steps : List Step)
    (h : checkDrcp m nd lits obj steps = .unsat) : ∀ a, m.sat a = false :=
  checkDrcp_unsat_sound m nd lits obj steps h

theorem optimal_certificate_min (m : Model) (nd : Nat) (lits : List (Nat × Atom)) (x : Nat) (steps : List Step)
    (b : Int) (h : checkDrcp m nd lits (.minimise x) steps = .bound b) :
    ∀ a, m.sat a = true → b ≤ val a x :=
  checkDrcp_bound_sound_min m nd lits x steps b h

theorem optimal_certificate_max (m : Model) (nd : Nat) (lits : List (Nat × Atom)) (x : Nat) (steps : List Step)
    (b : Int) (h : checkDrcp m nd lits (.maximise x) steps = .bound b) :
    ∀ a, m.sat a = true → val a x ≤ b :=
  checkDrcp_bound_sound_max m nd lits x steps b h

/-- In a satisfaction proof there are no improvement axioms, so every accepted nogood is implied by
the model alone. -/
theorem accepted_nogoods_implied (m : Model) (nd : Nat) (lits : List (Nat × Atom)) (steps : List Step) (st : St)
    (h : runSteps m nd lits .none {} steps = some st) :
    ∀ e ∈ st.nogoods, ∀ a, m.sat a = true → e.2.any (·.holds a) = true := by
  intro e he a ha
  -- with objective `none` the `Good` assignments are exactly the solutions, whatever `axs` is
  have hinv := runSteps_inv m nd lits .none st.axioms steps {} st h (fun v hv => hv) (inv_init m _ _)
  exact (hinv.2.2.1 e he).2 a ⟨ha, trivial⟩

/-- An accepted tagged inference follows from the constraint it is tagged with. -/
theorem inference_follows_from_its_constraint (m : Model) (nd : Nat) (lits : List (Nat × Atom)) (obj : Obj)
    (st st' : St) (id : Nat) (prem : List Int) (prop : Option Int) (t : Nat) (label : Option String)
    (h : stepCheck m nd lits obj st (.inference id prem prop (some t) label) = some st') :
    ∃ (c : Cons) (premA : List Atom) (conclA : Option Atom), m.cons[t - 1]? = some c ∧ t ≠ 0 ∧ atomsOfCodes lits prem = some premA ∧
      ∀ a, inDoms m.doms a = true → (∀ d ∈ defsOf m nd, d.sat a = true) → c.sat a = true →
        (∀ p ∈ premA, p.holds a = true) →
        (match conclA with | some q => q.holds a = true | none => False) := by
  simp only [stepCheck, Option.bind_eq_bind] at h
  cases hp : atomsOfCodes lits prem with
  | none => simp [hp] at h
  | some premA =>
    simp only [hp, Option.bind_some] at h
    cases prop with
    | none =>
      simp only [Option.bind_some] at h
      split at h
      · cases h
      · split at h
        · rename_i c hc
          split at h
          · rename_i hchk
            simp only [Bool.and_eq_true, ne_eq, decide_eq_true_eq] at hchk
            exact ⟨c, premA, none, hc, hchk.1, rfl, (checkInferenceD_iff m.doms _ c premA none).1 hchk.2⟩
          · cases h
        · cases h
    | some p =>
      cases hq : atomOfCode lits p with
      | none => simp [hq] at h
      | some q =>
        simp only [hq, Option.map_some, Option.bind_some] at h
        split at h
        · cases h
        · split at h
          · rename_i c hc
            split at h
            · rename_i hchk
              simp only [Bool.and_eq_true, ne_eq, decide_eq_true_eq] at hchk
              exact ⟨c, premA, (some q), hc, hchk.1, rfl, (checkInferenceD_iff m.doms _ c premA (some q)).1 hchk.2⟩
            · cases h
          · cases h

/-- Without literals of predicates (`nd = 0`) the tagged constraint alone entails the inference. -/
theorem inference_follows_from_its_constraint_plain (m : Model) (lits : List (Nat × Atom)) (obj : Obj)
    (st st' : St) (id : Nat) (prem : List Int) (prop : Option Int) (t : Nat) (label : Option String)
    (h : stepCheck m 0 lits obj st (.inference id prem prop (some t) label) = some st') :
    ∃ (c : Cons) (premA : List Atom) (conclA : Option Atom), m.cons[t - 1]? = some c ∧ t ≠ 0 ∧ atomsOfCodes lits prem = some premA ∧
      ∀ a, inDoms m.doms a = true → c.sat a = true → (∀ p ∈ premA, p.holds a = true) →
        (match conclA with | some q => q.holds a = true | none => False) := by
  obtain ⟨c, premA, conclA, h1, h2, h3, h4⟩ := inference_follows_from_its_constraint m 0 lits obj st st' id prem prop t label h
  refine ⟨c, premA, conclA, h1, h2, h3, fun a hd hc hp => h4 a hd ?_ hc hp⟩
  rw [defsOf_zero]
  intro d hd'
  cases hd'

/-- `UNSAT` is never accepted unless the empty nogood was derived by an accepted step. -/
theorem conclusion_needs_empty_nogood (m : Model) (nd : Nat) (lits : List (Nat × Atom)) (obj : Obj)
    (steps : List Step) (st : St) (hr : runSteps m nd lits obj {} steps = some st)
    (hs : st.sawEmpty = false) : checkDrcp m nd lits obj steps ≠ .unsat := by
  unfold checkDrcp
  simp only [hr, hs, Bool.not_false, if_true]
  exact (concludeWithoutRefutation_ne lits obj _).1

/-! Non-vacuity: a two-variable model `x0 + x1 ≤ 0`, `x0 ≥ 1` over `{0,1}²`... is satisfiable;
`x0 + x1 ≤ 0` with `x0 - 1 ≥ 0` written as `-x0 ≤ -1` is not, and the following proof (in the
solver's own shape: root propagation as inference + unit nogood, then the conflict inference and
the empty nogood) is accepted. -/
def exModel : Model :=
  Model.mk [[0, 1], [0, 1]]
    [Cons.linLe [⟨1, 0, 0⟩, ⟨1, 0, 1⟩] 0, Cons.linLe [⟨-1, 0, 0⟩] (-1)]

def exLits : List (Nat × Atom) := [(1, Atom.ge 0 1)]

def exProof : List Step :=
  [ .inference 1 [-1] none (some 2) none,      -- ¬[x0 ≥ 1] → false   (constraint 2)
    .nogood 2 [1] (some [1]),                  -- [x0 ≥ 1]
    .inference 3 [1] none (some 1) none,       -- [x0 ≥ 1] → false    (constraint 1)
    .nogood 4 [] (some [2, 3]),                -- empty nogood from steps 2 and 3
    .unsat ]

example : checkDrcp exModel 0 exLits .none exProof = .unsat := by decide +kernel

/-- dropping the hint to the unit nogood makes the last nogood underivable -/
example : checkDrcp exModel 0 exLits .none
    [ .inference 1 [-1] none (some 2) none, .nogood 2 [1] (some [1]),
      .inference 3 [1] none (some 1) none, .nogood 4 [] (some [3]), .unsat ] = .rejected := by
  decide +kernel

/-- an inference tagged with the wrong constraint is rejected -/
example : checkDrcp exModel 0 exLits .none
    [ .inference 1 [-1] none (some 1) none, .nogood 2 [1] (some [1]), .unsat ] = .rejected := by
  decide +kernel

/-! A literal of a predicate: `x0 ∈ 0..3`, `x1 ∈ {0,1}` defined as `[x0 ≥ 2]` (first constraint),
constraint 2 `x1 ≥ 1`, constraint 3 `x0 ≤ 1`. The solver writes `[x0 ≥ 2]` for `[x1 ≥ 1]`: the
inference `¬[x0 ≥ 2] → false` tagged with constraint 2 is accepted given the definition, and
rejected when the definition is not declared. -/
def exModelD : Model :=
  Model.mk [[0, 1, 2, 3], [0, 1]]
    [Cons.reif (Atom.ge 1 1) (Cons.linLe [⟨-1, 0, 0⟩] (-2)),
     Cons.linLe [⟨-1, 0, 1⟩] (-1), Cons.linLe [⟨1, 0, 0⟩] 1]

def exProofD : List Step :=
  [ .inference 1 [-1] none (some 2) none, .nogood 2 [1] (some [1]),
    .inference 3 [1] none (some 3) none, .nogood 4 [] (some [2, 3]), .unsat ]

example : (defsOf exModelD 1).all (isDef exModelD.doms) = true := by decide +kernel
example : checkDrcp exModelD 1 [(1, Atom.ge 0 2)] .none exProofD = .unsat := by decide +kernel
example : checkDrcp exModelD 0 [(1, Atom.ge 0 2)] .none exProofD = .rejected := by decide +kernel
/-- the negated predicate written for the literal (the seeded change C06b) is rejected -/
example : checkDrcp exModelD 1 [(1, Atom.ge 0 2)] .none
    [ .inference 1 [1] none (some 2) none, .nogood 2 [-1] (some [1]), .unsat ] = .rejected := by
  decide +kernel

end Pumpkin.C06
