/-
C03 — solution iteration yields every solution exactly once.

`iterate` mirrors `api/outputs/solution_iterator.rs`: solve; on a solution yield it and add the
blocking clause `⋁ xᵢ ≠ vᵢ` over all variables; stop when the solver reports unsatisfiable.
For every solve oracle that is sound and complete (that is C01 + C02) the iteration returns a
permutation of the solution list of the model: nothing missing, nothing repeated, nothing foreign.
The driver's acceptor `checkSolSet` accepts a reported list iff it is such a permutation.
-/
import Pumpkin.Spec.Basic
import Pumpkin.Check.Oracle

namespace Pumpkin.C03

/-- What C01 and C02 guarantee about one `satisfy` call. -/
structure Solve where
  run : Model → Option (List Int)
  sound : ∀ m a, run m = some a → m.sat a = true
  complete : ∀ m, run m = none → ∀ a, m.sat a = false

/-- the blocking clause of `get_blocking_clause`: `[x₀ ≠ v₀] ∨ [x₁ ≠ v₁] ∨ …`, variables from index `i` on -/
def blockingFrom : Nat → List Int → List Atom
  | _, [] => []
  | i, v :: vs => Atom.ne i v :: blockingFrom (i + 1) vs

def blocking (a : List Int) : Cons := Cons.clause (blockingFrom 0 a)

theorem blockingFrom_any (pre a b : List Int) (h : a.length = b.length) :
    (blockingFrom pre.length a).any (·.holds (pre ++ b)) = true ↔ b ≠ a := by
  induction a generalizing pre b with
  | nil => cases b <;> simp_all [blockingFrom]
  | cons v vs ih =>
    cases b with
    | nil => simp at h
    | cons w ws =>
      have hlen : vs.length = ws.length := by simpa using h
      have key := ih (pre ++ [w]) ws hlen
      simp only [List.length_append, List.length_cons, List.length_nil, Nat.zero_add,
        List.append_assoc, List.cons_append, List.nil_append] at key
      simp only [blockingFrom, List.any_cons, Bool.or_eq_true, key]
      have hv : (Atom.ne pre.length v).holds (pre ++ w :: ws) = decide (w ≠ v) := by
        simp [Atom.holds, Atom.holdsVal, Atom.var, val, List.getD_eq_getElem?_getD]
      rw [hv]
      simp only [decide_eq_true_eq, ne_eq, List.cons.injEq, not_and]
      constructor
      · rintro (h1 | h1)
        · intro h2; exact absurd h2 h1
        · intro _; exact h1
      · intro h1
        by_cases hw : w = v
        · exact Or.inr (h1 hw)
        · exact Or.inl hw

/-- The blocking clause of `a` excludes exactly `a` (among assignments of the same length). -/
theorem blocking_sat (a b : List Int) (h : a.length = b.length) :
    (blocking a).sat b = true ↔ b ≠ a := by
  have := blockingFrom_any [] a b h
  simpa [blocking, Cons.sat] using this

def addCons (m : Model) (c : Cons) : Model := { m with cons := m.cons ++ [c] }

theorem solutions_addCons (m : Model) (c : Cons) :
    solutions (addCons m c) = (solutions m).filter (fun a => c.sat a) := by
  simp only [solutions, addCons, List.filter_filter, List.all_append, List.all_cons, List.all_nil,
    Bool.and_true]
  congr 1
  funext a
  exact Bool.and_comm _ _

/-- iteration with fuel (the number of solutions is finite, so fuel `> #solutions` suffices) -/
def iterate (s : Solve) : Nat → Model → List (List Int)
  | 0, _ => []
  | fuel + 1, m =>
    match s.run m with
    | none => []
    | some a => a :: iterate s fuel (addCons m (blocking a))

theorem sat_length {m : Model} {a : List Int} (h : m.sat a = true) : a.length = m.doms.length := by
  simp only [Model.sat, Bool.and_eq_true] at h
  exact inDoms_length h.1

theorem filter_blocking (m : Model) (a : List Int) (ha : m.sat a = true) :
    (solutions m).filter (fun b => (blocking a).sat b) = (solutions m).filter (fun b => decide (b ≠ a)) := by
  apply List.filter_congr
  intro b hb
  have hb' := (mem_solutions m b).1 hb
  have hl : a.length = b.length := by rw [sat_length ha, sat_length hb']
  have := blocking_sat a b hl
  by_cases hba : b = a
  · subst hba
    have h1 : (blocking b).sat b = false := by
      cases h : (blocking b).sat b with
      | false => rfl
      | true => exact absurd rfl (this.1 h)
    simp [h1]
  · simp [this.2 hba, hba]

theorem length_filter_ne_lt (l : List (List Int)) (a : List Int) (ha : a ∈ l) :
    (l.filter (fun b => decide (b ≠ a))).length < l.length := by
  induction l with
  | nil => simp at ha
  | cons x xs ih =>
    by_cases hx : x = a
    · subst hx
      simp only [ne_eq, not_true_eq_false, decide_false, Bool.false_eq_true, not_false_eq_true,
        List.filter_cons_of_neg, List.length_cons]
      exact Nat.lt_succ_of_le (List.length_filter_le _ _)
    · have : a ∈ xs := by
        cases ha with
        | head => exact absurd rfl hx
        | tail _ h => exact h
      simp only [ne_eq, hx, not_false_eq_true, decide_true, List.filter_cons_of_pos,
        List.length_cons]
      exact Nat.succ_lt_succ (ih this)

theorem perm_cons_filter_ne (l : List (List Int)) (a : List Int) (ha : a ∈ l) (hn : l.Nodup) :
    (a :: l.filter (fun b => decide (b ≠ a))).Perm l := by
  refine (List.perm_ext_iff_of_nodup ?_ hn).2 ?_
  · refine List.nodup_cons.2 ⟨by simp, List.Nodup.sublist List.filter_sublist hn⟩
  · intro b
    by_cases hb : b = a
    · subst hb; simp [ha]
    · simp [hb]

/-- **Main theorem.** With enough fuel the iteration is a permutation of the model's solutions. -/
theorem iterate_exact (s : Solve) (fuel : Nat) (m : Model) (hd : ∀ d ∈ m.doms, d.Nodup)
    (hf : (solutions m).length < fuel) : (iterate s fuel m).Perm (solutions m) := by
  induction fuel generalizing m with
  | zero => omega
  | succ fuel ih =>
    simp only [iterate]
    cases hr : s.run m with
    | none =>
      have : solutions m = [] := (solutions_eq_nil_iff m).2 (s.complete m hr)
      simp [this]
    | some a =>
      have hsat := s.sound m a hr
      have hmem := (mem_solutions m a).2 hsat
      have hsol : solutions (addCons m (blocking a)) =
          (solutions m).filter (fun b => decide (b ≠ a)) := by
        rw [solutions_addCons, filter_blocking m a hsat]
      have hlt := length_filter_ne_lt (solutions m) a hmem
      have hrec := ih (addCons m (blocking a)) hd (by rw [hsol]; omega)
      rw [hsol] at hrec
      exact (List.Perm.cons a hrec).trans (perm_cons_filter_ne _ a hmem (solutions_nodup m hd))

/-- Every prefix of the iteration is duplicate-free and consists of solutions. -/
theorem iterate_prefix (s : Solve) (fuel : Nat) (m : Model) (hd : ∀ d ∈ m.doms, d.Nodup)
    (hf : (solutions m).length < fuel) (k : Nat) :
    ((iterate s fuel m).take k).Nodup ∧ ∀ a ∈ (iterate s fuel m).take k, m.sat a = true := by
  have hp := iterate_exact s fuel m hd hf
  have hn : (iterate s fuel m).Nodup := hp.symm.nodup (solutions_nodup m hd)
  refine ⟨List.Nodup.sublist (List.take_sublist _ _) hn, ?_⟩
  intro a ha
  exact (mem_solutions m a).1 (hp.subset (List.mem_of_mem_take ha))

/-- What the driver accepts as the result of a complete iteration is a permutation of the solutions. -/
theorem accepted_set (m : Model) (hd : ∀ d ∈ m.doms, d.Nodup) (ls : List (List Int))
    (h : checkSolSet m (solutions m) ls = true) : ls.Perm (solutions m) :=
  checkSolSet_perm m hd ls h

theorem accepted_prefix (m : Model) (ls : List (List Int)) (h : checkSubset m ls = true) :
    ls.Nodup ∧ ∀ a ∈ ls, a ∈ solutions m := checkSubset_sound m ls h

/-- Non-vacuity: a solve oracle exists (pick the first solution of the verified enumeration). -/
def firstSolve : Solve where
  run m := (solutions m).head?
  sound m a h := (mem_solutions m a).1 (List.mem_of_mem_head? h)
  complete m h := (solutions_eq_nil_iff m).1 (by simpa using h)

example : iterate firstSolve 5 (Model.mk [[0, 1], [0, 1]] [Cons.linNe [⟨1, 0, 0⟩, ⟨-1, 0, 1⟩] 0])
    = [[0, 1], [1, 0]] := by decide

end Pumpkin.C03
