/-
C08 — cumulative means the same under every propagator variant.

The specification of `cumulative` is: at *every* integer time point the resource usages of the
tasks running at that point sum to at most the capacity. `Cons.sat` evaluates this at the start
times of the tasks only (plus `0 ≤ capacity`); `cumulative_sat_iff` proves the two equivalent for
non-negative usages, so the executable oracle decides the documented meaning. Zero-duration and
zero-usage tasks contribute nothing (`loadAt_drop_zero`). All six propagation methods × three
explanation types × the three flags are tied to this single meaning by comparing the solution
*set* of each option set with the oracle.
-/
import Pumpkin.Spec.Basic
import Pumpkin.Check.Oracle
import Pumpkin.Model.CumulativeSound

namespace Pumpkin.C08

def runs (k : Task) (a : List Int) (t : Int) : Prop := k.start.eval a ≤ t ∧ t < k.start.eval a + k.dur

instance (k : Task) (a : List Int) (t : Int) : Decidable (runs k a t) := by unfold runs; infer_instance

def contrib (k : Task) (a : List Int) (t : Int) : Int := if runs k a t then k.use else 0

theorem foldl_add (l : List Int) (z : Int) : l.foldl (· + ·) z = z + l.foldl (· + ·) 0 := by
  induction l generalizing z with
  | nil => simp
  | cons x xs ih => simp only [List.foldl_cons]; rw [ih (z + x), ih (0 + x)]; omega

theorem loadAt_cons (k : Task) (ts : List Task) (a : List Int) (t : Int) :
    loadAt (k :: ts) a t = contrib k a t + loadAt ts a t := by
  simp only [loadAt, List.map_cons, List.foldl_cons, contrib, runs]
  rw [foldl_add]; omega

theorem loadAt_nil (a : List Int) (t : Int) : loadAt [] a t = 0 := rfl

theorem loadAt_nonneg (ts : List Task) (a : List Int) (t : Int) (hu : ∀ k ∈ ts, 0 ≤ k.use) :
    0 ≤ loadAt ts a t := by
  induction ts with
  | nil => simp [loadAt_nil]
  | cons k ts ih =>
    rw [loadAt_cons]
    have := ih (fun k' hk' => hu k' (List.mem_cons_of_mem _ hk'))
    have hk := hu k (by simp)
    simp only [contrib]; split <;> omega

/-- If every task running at `t` also runs at `s`, the load at `t` is at most the load at `s`. -/
theorem loadAt_mono (ts : List Task) (a : List Int) (t s : Int) (hu : ∀ k ∈ ts, 0 ≤ k.use)
    (h : ∀ k ∈ ts, runs k a t → runs k a s) : loadAt ts a t ≤ loadAt ts a s := by
  induction ts with
  | nil => simp [loadAt_nil]
  | cons k ts ih =>
    rw [loadAt_cons, loadAt_cons]
    have h1 := ih (fun k' hk' => hu k' (List.mem_cons_of_mem _ hk'))
      (fun k' hk' => h k' (List.mem_cons_of_mem _ hk'))
    have hk := hu k (by simp)
    have hk2 := h k (by simp)
    simp only [contrib]
    split
    · rename_i hr; simp only [hk2 hr, if_true]; omega
    · split <;> omega

/-- No task runs at `t` ⇒ load 0. -/
theorem loadAt_zero (ts : List Task) (a : List Int) (t : Int) (h : ∀ k ∈ ts, ¬ runs k a t) :
    loadAt ts a t = 0 := by
  induction ts with
  | nil => rfl
  | cons k ts ih =>
    rw [loadAt_cons, ih (fun k' hk' => h k' (List.mem_cons_of_mem _ hk'))]
    simp [contrib, h k (by simp)]

/-- Among the tasks running at `t` there is one with the latest start. -/
theorem exists_latest (ts : List Task) (a : List Int) (t : Int) (h : ∃ k ∈ ts, runs k a t) :
    ∃ k ∈ ts, runs k a t ∧ ∀ k' ∈ ts, runs k' a t → k'.start.eval a ≤ k.start.eval a := by
  induction ts with
  | nil => obtain ⟨k, hk, _⟩ := h; cases hk
  | cons x xs ih =>
    by_cases hx : ∃ k ∈ xs, runs k a t
    · obtain ⟨k, hk, hr, hmax⟩ := ih hx
      by_cases hxr : runs x a t
      · by_cases hle : x.start.eval a ≤ k.start.eval a
        · refine ⟨k, List.mem_cons_of_mem _ hk, hr, ?_⟩
          intro k' hk' hr'
          cases hk' with
          | head => exact hle
          | tail _ h' => exact hmax k' h' hr'
        · refine ⟨x, by simp, hxr, ?_⟩
          intro k' hk' hr'
          cases hk' with
          | head => exact Int.le_refl _
          | tail _ h' => have := hmax k' h' hr'; omega
      · refine ⟨k, List.mem_cons_of_mem _ hk, hr, ?_⟩
        intro k' hk' hr'
        cases hk' with
        | head => exact absurd hr' hxr
        | tail _ h' => exact hmax k' h' hr'
    · obtain ⟨k, hk, hr⟩ := h
      cases hk with
      | head =>
        refine ⟨x, by simp, hr, ?_⟩
        intro k' hk' hr'
        cases hk' with
        | head => exact Int.le_refl _
        | tail _ h' => exact absurd ⟨k', h', hr'⟩ hx
      | tail _ h' => exact absurd ⟨k, h', hr⟩ hx

/-- **The executable check decides the documented meaning.** For non-negative resource usages:
the oracle's test (load at every task's start time ≤ capacity, and 0 ≤ capacity) holds iff at
every time point the total usage of the running tasks is at most the capacity. -/
theorem cumulative_sat_iff (ts : List Task) (cap : Int) (a : List Int) (hu : ∀ k ∈ ts, 0 ≤ k.use) :
    (Cons.cumulative ts cap).sat a = true ↔ ∀ t : Int, loadAt ts a t ≤ cap := by
  simp only [Cons.sat, Bool.and_eq_true, List.all_eq_true, decide_eq_true_eq]
  constructor
  · rintro ⟨hstart, hcap⟩ t
    by_cases hex : ∃ k ∈ ts, runs k a t
    · obtain ⟨k, hk, hr, hmax⟩ := exists_latest ts a t hex
      have hle : loadAt ts a t ≤ loadAt ts a (k.start.eval a) := by
        apply loadAt_mono ts a t _ hu
        intro k' hk' hr'
        have := hmax k' hk' hr'
        unfold runs at *
        omega
      exact Int.le_trans hle (hstart k hk)
    · rw [loadAt_zero ts a t (fun k hk hr => hex ⟨k, hk, hr⟩)]; exact hcap
  · intro h
    refine ⟨fun k _ => h _, ?_⟩
    -- a time point before every start: nothing runs there
    have : ∃ t : Int, ∀ k ∈ ts, t < k.start.eval a := by
      clear h hu
      induction ts with
      | nil => exact ⟨0, fun k hk => by cases hk⟩
      | cons x xs ih =>
        obtain ⟨t, ht⟩ := ih
        refine ⟨min t (x.start.eval a - 1), ?_⟩
        intro k hk
        cases hk with
        | head => omega
        | tail _ h' => have := ht k h'; omega
    obtain ⟨t, ht⟩ := this
    have hz := loadAt_zero ts a t (fun k hk hr => by have := ht k hk; unfold runs at hr; omega)
    have := h t
    omega

/-- Tasks of zero usage or non-positive duration never contribute: dropping them (as
`create_tasks` does) preserves the load at every time point. -/
theorem loadAt_drop_zero (ts : List Task) (a : List Int) (t : Int) :
    loadAt (ts.filter (fun k => decide (0 < k.use) && decide (0 < k.dur))) a t = loadAt ts a t ∨
    ∃ k ∈ ts, k.use < 0 := by
  induction ts with
  | nil => left; rfl
  | cons k ts ih =>
    rcases ih with ih | ⟨k', hk', hneg⟩
    · by_cases hneg : k.use < 0
      · right; exact ⟨k, by simp, hneg⟩
      · left
        by_cases hkeep : (decide (0 < k.use) && decide (0 < k.dur)) = true
        · simp only [List.filter_cons, hkeep, if_true]
          rw [loadAt_cons, loadAt_cons, ih]
        · simp only [List.filter_cons, hkeep, Bool.false_eq_true, if_false]
          rw [loadAt_cons, ih]
          simp only [Bool.and_eq_true, decide_eq_true_eq, not_and, Int.not_lt] at hkeep
          have : contrib k a t = 0 := by
            unfold contrib
            by_cases hr : runs k a t
            · rw [if_pos hr]
              unfold runs at hr
              by_cases hu : 0 < k.use
              · have := hkeep hu; omega
              · omega
            · rw [if_neg hr]
          omega
    · right; exact ⟨k', List.mem_cons_of_mem _ hk', hneg⟩

example : (Cons.cumulative [⟨⟨1, 0, 0⟩, 2, 2⟩, ⟨⟨1, 0, 1⟩, 3, 1⟩, ⟨⟨-1, 2, 0⟩, 0, 5⟩] 2).sat [-1, 0] = false ∧
    (Cons.cumulative [⟨⟨1, 0, 0⟩, 2, 2⟩, ⟨⟨1, 0, 1⟩, 3, 1⟩, ⟨⟨-1, 2, 0⟩, 0, 5⟩] 2).sat [-2, 0] = true := by decide

/-! ### the time-table propagators (`Model/Cumulative.lean`)

`Pg.ttPass` is time-table filtering as a function on domains (profile of mandatory parts; conflict when
a profile exceeds the capacity; a task outside a profile it would overflow is pushed off that time
point: lower bound, upper bound and, with `allow_holes_in_domain`, holes). Its fixpoint `Pg.ttFix` is
what all six propagator variants compute; the real solver's domains at every decision point of solves
over cumulative-only models are compared with it (`fix` records: equal, or — the incremental variants
occasionally miss a propagation — weaker). -/

/-- **Time-table filtering never removes the start times of a schedule which satisfies the
constraint, and reports a conflict only if there is none** — for every domain state, every list of
tasks (start times given as views, zero durations / usages, negative start times) and capacity, with
and without holes. -/
theorem timetable_never_prunes {n : Nat} (holes : Bool) (ts : List Task) (cap : Int)
    (hw : Pg.tasksWf n ts) (d : Pg.Doms) (hl : d.length = n) (a : List Int) (hin : inDoms d a = true)
    (hsat : (Cons.cumulative ts cap).sat a = true) :
    ∃ d', Pg.ttPass holes ts cap d = some d' ∧ inDoms d' a = true := by
  have hT : ∀ t, loadAt ts a t ≤ cap :=
    ((cumulative_sat_iff ts cap a (fun k hk => (hw k hk).2)).1 hsat)
  obtain ⟨d', e, h', _⟩ := Pg.ttPass_ok holes ts cap hw hT d hin hl
  exact ⟨d', e, h'⟩

/-- the same for the fixpoint over several cumulative constraints -/
theorem timetable_fixpoint_never_prunes {n : Nat} (cs : List (Bool × List Task × Int))
    (hw : Pg.ttWf n cs) (d : Pg.Doms) (hl : d.length = n) (a : List Int) (hin : inDoms d a = true)
    (hsat : ∀ c ∈ cs, (Cons.cumulative c.2.1 c.2.2).sat a = true) :
    ∃ d', Pg.ttFix cs d = some d' ∧ inDoms d' a = true := by
  have hs : Pg.ttSat cs a := fun c hc =>
    ((cumulative_sat_iff c.2.1 c.2.2 a (fun k hk => (hw c hc k hk).2)).1 (hsat c hc))
  obtain ⟨d', e, h', _⟩ := Pg.ttFix_ok cs hw hs d hin hl
  exact ⟨d', e, h'⟩

/-- so a conflict of the time-table refutes the constraint within the current domains -/
theorem timetable_conflict_sound {n : Nat} (holes : Bool) (ts : List Task) (cap : Int)
    (hw : Pg.tasksWf n ts) (d : Pg.Doms) (hl : d.length = n) (hc : Pg.ttPass holes ts cap d = none)
    (a : List Int) (hin : inDoms d a = true) : (Cons.cumulative ts cap).sat a = false := by
  cases hs : (Cons.cumulative ts cap).sat a
  · rfl
  · obtain ⟨d', e, _⟩ := timetable_never_prunes holes ts cap hw d hl a hin hs
    rw [hc] at e; cases e

-- non-vacuous: a task with a mandatory part pushes another one past it, and an overload is a conflict
example : Pg.ttPass false [⟨⟨1, 0, 0⟩, 4, 1⟩, ⟨⟨1, 0, 1⟩, 3, 1⟩] 1 [[1], [1, 2, 3, 4, 5, 6, 7, 8]]
    = some [[1], [5, 6, 7, 8]] := by decide
example : Pg.ttPass false [⟨⟨1, 0, 0⟩, 4, 1⟩, ⟨⟨1, 0, 1⟩, 4, 1⟩] 1 [[1], [1]] = none := by decide
example : Pg.ttPass true [⟨⟨1, 0, 0⟩, 2, 1⟩, ⟨⟨1, 0, 1⟩, 2, 1⟩] 1 [[3], [0, 1, 2, 3, 4, 5, 6]]
    = some [[3], [0, 1, 5, 6]] := by decide

end Pumpkin.C08
