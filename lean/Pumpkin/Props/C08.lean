/-
C08 — cumulative means the same under every propagator variant.

The specification of `cumulative` is: at *every* integer time point the resource usages of the
tasks running at that point sum to at most the capacity. `Cons.sat` evaluates this at the start
times of the tasks only (plus `0 ≤ capacity`); `cumulative_sat_iff` proves the two equivalent for
non-negative usages, so the executable oracle decides the documented meaning. Zero-duration and
zero-usage tasks contribute nothing (`loadAt_drop_zero`). All six propagation methods × three
explanation types × the three flags are tied to this single meaning by comparing the solution
*set* of each option set with the oracle.
-/
import Pumpkin.Spec.Basic
import Pumpkin.Check.Oracle
import Pumpkin.Spec.CumSem
import Pumpkin.Model.CumulativeSound

namespace Pumpkin.C08



/-- **The executable check decides the documented meaning.** For non-negative resource usages:
the oracle's test (load at every task's start time ≤ capacity, and 0 ≤ capacity) holds iff at
every time point the total usage of the running tasks is at most the capacity. -/
theorem cumulative_sat_iff (ts : List Task) (cap : Int) (a : List Int) (hu : ∀ k ∈ ts, 0 ≤ k.use) :
    (Cons.cumulative ts cap).sat a = true ↔ ∀ t : Int, loadAt ts a t ≤ cap :=
  CumSem.cumulative_sat_iff ts cap a hu

/-- Tasks of zero usage or non-positive duration never contribute: dropping them (as
`create_tasks` does) preserves the load at every time point. -/
theorem loadAt_drop_zero (ts : List Task) (a : List Int) (t : Int) :
    loadAt (ts.filter (fun k => decide (0 < k.use) && decide (0 < k.dur))) a t = loadAt ts a t ∨
    ∃ k ∈ ts, k.use < 0 :=
  CumSem.loadAt_drop_zero ts a t

example : (Cons.cumulative [⟨⟨1, 0, 0⟩, 2, 2⟩, ⟨⟨1, 0, 1⟩, 3, 1⟩, ⟨⟨-1, 2, 0⟩, 0, 5⟩] 2).sat [-1, 0] = false ∧
    (Cons.cumulative [⟨⟨1, 0, 0⟩, 2, 2⟩, ⟨⟨1, 0, 1⟩, 3, 1⟩, ⟨⟨-1, 2, 0⟩, 0, 5⟩] 2).sat [-2, 0] = true := by decide

/-! ### the time-table propagators (`Model/Cumulative.lean`)

`Pg.ttPass` is time-table filtering as a function on domains (profile of mandatory parts; conflict when
a profile exceeds the capacity; a task outside a profile it would overflow is pushed off that time
point: lower bound, upper bound and, with `allow_holes_in_domain`, holes). Its fixpoint `Pg.ttFix` is
what all six propagator variants compute; the real solver's domains at every decision point of solves
over cumulative-only models are compared with it (`fix` records: equal, or — the incremental variants
occasionally miss a propagation — weaker). -/

/-- **Time-table filtering never removes the start times of a schedule which satisfies the
constraint, and reports a conflict only if there is none** — for every domain state, every list of
tasks (start times given as views, zero durations / usages, negative start times) and capacity, with
and without holes. -/
theorem timetable_never_prunes {n : Nat} (holes : Bool) (ts : List Task) (cap : Int)
    (hw : Pg.tasksWf n ts) (d : Pg.Doms) (hl : d.length = n) (a : List Int) (hin : inDoms d a = true)
    (hsat : (Cons.cumulative ts cap).sat a = true) :
    ∃ d', Pg.ttPass holes ts cap d = some d' ∧ inDoms d' a = true := by
  have hT : ∀ t, loadAt ts a t ≤ cap :=
    ((cumulative_sat_iff ts cap a (fun k hk => (hw k hk).2)).1 hsat)
  obtain ⟨d', e, h', _⟩ := Pg.ttPass_ok holes ts cap hw hT d hin hl
  exact ⟨d', e, h'⟩

/-- the same for the fixpoint over several cumulative constraints -/
theorem timetable_fixpoint_never_prunes {n : Nat} (cs : List (Bool × List Task × Int))
    (hw : Pg.ttWf n cs) (d : Pg.Doms) (hl : d.length = n) (a : List Int) (hin : inDoms d a = true)
    (hsat : ∀ c ∈ cs, (Cons.cumulative c.2.1 c.2.2).sat a = true) :
    ∃ d', Pg.ttFix cs d = some d' ∧ inDoms d' a = true := by
  have hs : Pg.ttSat cs a := fun c hc =>
    ((cumulative_sat_iff c.2.1 c.2.2 a (fun k hk => (hw c hc k hk).2)).1 (hsat c hc))
  obtain ⟨d', e, h', _⟩ := Pg.ttFix_ok cs hw hs d hin hl
  exact ⟨d', e, h'⟩

/-- so a conflict of the time-table refutes the constraint within the current domains -/
theorem timetable_conflict_sound {n : Nat} (holes : Bool) (ts : List Task) (cap : Int)
    (hw : Pg.tasksWf n ts) (d : Pg.Doms) (hl : d.length = n) (hc : Pg.ttPass holes ts cap d = none)
    (a : List Int) (hin : inDoms d a = true) : (Cons.cumulative ts cap).sat a = false := by
  cases hs : (Cons.cumulative ts cap).sat a
  · rfl
  · obtain ⟨d', e, _⟩ := timetable_never_prunes holes ts cap hw d hl a hin hs
    rw [hc] at e; cases e

-- non-vacuous: a task with a mandatory part pushes another one past it, and an overload is a conflict
example : Pg.ttPass false [⟨⟨1, 0, 0⟩, 4, 1⟩, ⟨⟨1, 0, 1⟩, 3, 1⟩] 1 [[1], [1, 2, 3, 4, 5, 6, 7, 8]]
    = some [[1], [5, 6, 7, 8]] := by decide
example : Pg.ttPass false [⟨⟨1, 0, 0⟩, 4, 1⟩, ⟨⟨1, 0, 1⟩, 4, 1⟩] 1 [[1], [1]] = none := by decide
example : Pg.ttPass true [⟨⟨1, 0, 0⟩, 2, 1⟩, ⟨⟨1, 0, 1⟩, 2, 1⟩] 1 [[3], [0, 1, 2, 3, 4, 5, 6]]
    = some [[3], [0, 1, 5, 6]] := by decide

end Pumpkin.C08
