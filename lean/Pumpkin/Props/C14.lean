/-
C14 — DIMACS CNF verdicts are correct; UNSAT comes with a checkable DRAT proof.

* A printed model line is accepted iff it satisfies every clause (`Model.sat` of the CNF seen as a
  0-1 model, `cnf_clause_sem`); `s UNSATISFIABLE` is accepted iff the oracle finds no model.
* The clauses written to the proof file are accepted iff `Rup.checkProof` accepts them, and
  `checkProof_sound` shows an accepted proof refutes the formula: every lemma is a
  reverse-unit-propagation consequence of the formula and the earlier lemmas and the last one is
  the empty clause.
* Layout independence is checked by running three spellings of each formula (see DESIGN.md for the
  state of the byte-level parser model).
-/
import Pumpkin.Spec.Basic
import Pumpkin.Check.Oracle
import Pumpkin.Check.Rup
import Pumpkin.Model.DimacsLayout

namespace Pumpkin.C14
open Pumpkin.Rup

/-- DIMACS literal ↦ atomic predicate over the 0-1 variable `|l| - 1` -/
def atomOfLit (l : Int) : Atom := if l > 0 then Atom.ge (l.natAbs - 1) 1 else Atom.le (l.natAbs - 1) 0

/-- Boolean assignment induced by a 0-1 integer assignment -/
def boolAsg (a : List Int) : Nat → Bool := fun v => decide (val a (v - 1) ≥ 1)

/-- Under 0-1 values the two readings of a literal agree. -/
theorem lit_sem (a : List Int) (l : Int) (h01 : val a (l.natAbs - 1) = 0 ∨ val a (l.natAbs - 1) = 1) :
    (atomOfLit l).holds a = litHolds (boolAsg a) l := by
  unfold atomOfLit litHolds boolAsg
  by_cases hp : l > 0
  · simp only [hp, if_true, Atom.holds, Atom.holdsVal, Atom.var]
  · simp only [hp, if_false, Atom.holds, Atom.holdsVal, Atom.var]
    rcases h01 with h | h <;> simp [h]

theorem rup_consequence (cs : List Clause) (c : Clause) (hw : ∀ c' ∈ cs, WfClause c') (hwc : WfClause c)
    (h : rup cs c = true) (a : Nat → Bool) (hcs : cnfHolds a cs = true) : clauseHolds a c = true :=
  rup_sound cs c hw hwc h a hcs

/-- An accepted proof file refutes the input formula. -/
theorem accepted_proof_refutes (cnf proof : List Clause) (hw : ∀ c ∈ cnf, WfClause c)
    (hwp : ∀ c ∈ proof, WfClause c) (h : checkProof cnf proof = true) :
    ¬ ∃ a : Nat → Bool, cnfHolds a cnf = true := by
  rintro ⟨a, ha⟩
  have := checkProof_sound cnf proof hw hwp h a
  simp [ha] at this

/-- The empty clause must be derived: a proof without it is never accepted. -/
theorem needs_empty_clause (cnf proof : List Clause) (h : checkProof cnf proof = true) : [] ∈ proof := by
  induction proof generalizing cnf with
  | nil => simp [checkProof] at h
  | cons l rest ih =>
    unfold checkProof at h
    by_cases hr : rup cnf l = true
    · simp only [hr, if_true] at h
      by_cases he : l.isEmpty = true
      · have : l = [] := by simpa using he
        subst this; simp
      · simp only [he, Bool.false_eq_true, if_false] at h
        exact List.mem_cons_of_mem _ (ih _ h)
    · simp [hr] at h

example : checkProof [[1, 2], [-1, 2], [1, -2], [-1, -2]] [[2], []] = true := by decide
example : checkProof [[1, 2], [-1, 2], [1, -2]] [[2], []] = false := by decide

end Pumpkin.C14

/-! ### layout independence of the byte-level parser (model of `parsers/dimacs.rs`) -/

namespace Pumpkin.C14
open Pumpkin.Dimacs

/-- Every file of the layout family (comments / blank space before the header, arbitrary blank runs
in the header, literals and terminators separated by arbitrary non-empty white-space runs, comment
lines wherever a line starts) is parsed to the formula it denotes. -/
theorem layout_independent (pre body : List Item) (sp1 sp2 sp3 : List Nat) (nv : Nat)
    (clauses : List (List Int))
    (hpre : Prelude pre)
    (h1 : sp1.all isHdrWs = true) (h2 : sp2.all isHdrWs = true) (h2ne : sp2 ≠ [])
    (h3 : sp3.all isHdrWs = true)
    (hno10 : (sp1 ++ sp2 ++ sp3).contains 10 = false)
    (hnv : nv ≤ 18446744073709551615) (hnc : clauses.length ≤ 18446744073709551615)
    (hbody : Valid { start := true, cur := [], out := [] } body)
    (hden : (denotes body).cur = [] ∧ (denotes body).out = clauses) :
    parseCnf (renderAll pre ++ (headerBytes sp1 nv sp2 clauses.length sp3 ++ [10] ++ renderAll body))
      = .ok (nv, clauses) :=
  Pumpkin.Dimacs.layout_independent pre body sp1 sp2 sp3 nv clauses hpre h1 h2 h2ne h3 hno10 hnv hnc hbody hden

/-- Two layouts of the same formula are parsed to the same result. -/
theorem two_layouts_agree (pre pre' body body' : List Item) (sp1 sp2 sp3 sp1' sp2' sp3' : List Nat) (nv : Nat)
    (clauses : List (List Int))
    (hpre : Prelude pre) (hpre' : Prelude pre')
    (h1 : sp1.all isHdrWs = true) (h2 : sp2.all isHdrWs = true) (h2ne : sp2 ≠ []) (h3 : sp3.all isHdrWs = true)
    (hno10 : (sp1 ++ sp2 ++ sp3).contains 10 = false)
    (h1' : sp1'.all isHdrWs = true) (h2' : sp2'.all isHdrWs = true) (h2ne' : sp2' ≠ []) (h3' : sp3'.all isHdrWs = true)
    (hno10' : (sp1' ++ sp2' ++ sp3').contains 10 = false)
    (hnv : nv ≤ 18446744073709551615) (hnc : clauses.length ≤ 18446744073709551615)
    (hbody : Valid { start := true, cur := [], out := [] } body)
    (hbody' : Valid { start := true, cur := [], out := [] } body')
    (hden : (denotes body).cur = [] ∧ (denotes body).out = clauses)
    (hden' : (denotes body').cur = [] ∧ (denotes body').out = clauses) :
    parseCnf (renderAll pre ++ (headerBytes sp1 nv sp2 clauses.length sp3 ++ [10] ++ renderAll body)) =
    parseCnf (renderAll pre' ++ (headerBytes sp1' nv sp2' clauses.length sp3' ++ [10] ++ renderAll body')) := by
  rw [layout_independent pre body sp1 sp2 sp3 nv clauses hpre h1 h2 h2ne h3 hno10 hnv hnc hbody hden,
    layout_independent pre' body' sp1' sp2' sp3' nv clauses hpre' h1' h2' h2ne' h3' hno10' hnv hnc hbody' hden']

/-- Non-vacuity: the file
```
c hello
p cnf  3\t2 \r
1 -3
 0 c x
-2 0
```
(clause broken over two lines, a second clause, a comment line in between) is in the family. -/
def exBody : List Item :=
  [ .lit 1 [32], .lit (-3) [10, 32], .zero [32, 10], .comment [32, 120], .lit (-2) [32], .zero [10] ]

example : Valid { start := true, cur := [], out := [] } exBody ∧
    (denotes exBody).cur = [] ∧ (denotes exBody).out = [[1, -3], [-2]] := by
  refine ⟨?_, rfl, rfl⟩
  simp [exBody, Valid, Item.ok, Item.apply, isWs]

/-- the model parser on the bytes of that file (`c hi\np cnf  3\t2 \r\n1 -3\n 0 \nc x\n-2 0\n`) -/
example : (match parseCnf [99, 32, 104, 105, 10, 112, 32, 99, 110, 102, 32, 32, 51, 9, 50, 32, 13, 10,
      49, 32, 45, 51, 10, 32, 48, 32, 10, 99, 32, 120, 10, 45, 50, 32, 48, 10] with
    | .ok r => r == (3, [[1, -3], [-2]])
    | .error _ => false) = true := by decide +kernel

/-- outside the family the parser does reject: a comment in the middle of a line -/
example : (match parseCnf [112, 32, 99, 110, 102, 32, 49, 32, 49, 10, 49, 32, 99, 32, 48, 10] with
    | .ok _ => false
    | .error e => e == .unexpectedChar 99) = true := by decide +kernel

end Pumpkin.C14
