/-
C14 — DIMACS CNF verdicts are correct; UNSAT comes with a checkable DRAT proof.

* A printed model line is accepted iff it satisfies every clause (`Model.sat` of the CNF seen as a
  0-1 model, `cnf_clause_sem`); `s UNSATISFIABLE` is accepted iff the oracle finds no model.
* The clauses written to the proof file are accepted iff `Rup.checkProof` accepts them, and
  `checkProof_sound` shows an accepted proof refutes the formula: every lemma is a
  reverse-unit-propagation consequence of the formula and the earlier lemmas and the last one is
  the empty clause.
* Layout independence is checked by running three spellings of each formula (see DESIGN.md for the
  state of the byte-level parser model).
-/
import Pumpkin.Spec.Basic
import Pumpkin.Check.Oracle
import Pumpkin.Check.Rup

namespace Pumpkin.C14
open Pumpkin.Rup

/-- DIMACS literal ↦ atomic predicate over the 0-1 variable `|l| - 1` -/
def atomOfLit (l : Int) : Atom := if l > 0 then Atom.ge (l.natAbs - 1) 1 else Atom.le (l.natAbs - 1) 0

/-- Boolean assignment induced by a 0-1 integer assignment -/
def boolAsg (a : List Int) : Nat → Bool := fun v => decide (val a (v - 1) ≥ 1)

/-- Under 0-1 values the two readings of a literal agree. -/
theorem lit_sem (a : List Int) (l : Int) (h01 : val a (l.natAbs - 1) = 0 ∨ val a (l.natAbs - 1) = 1) :
    (atomOfLit l).holds a = litHolds (boolAsg a) l := by
  unfold atomOfLit litHolds boolAsg
  by_cases hp : l > 0
  · simp only [hp, if_true, Atom.holds, Atom.holdsVal, Atom.var]
  · simp only [hp, if_false, Atom.holds, Atom.holdsVal, Atom.var]
    rcases h01 with h | h <;> simp [h]

theorem rup_consequence (cs : List Clause) (c : Clause) (hw : ∀ c' ∈ cs, WfClause c') (hwc : WfClause c)
    (h : rup cs c = true) (a : Nat → Bool) (hcs : cnfHolds a cs = true) : clauseHolds a c = true :=
  rup_sound cs c hw hwc h a hcs

/-- An accepted proof file refutes the input formula. -/
theorem accepted_proof_refutes (cnf proof : List Clause) (hw : ∀ c ∈ cnf, WfClause c)
    (hwp : ∀ c ∈ proof, WfClause c) (h : checkProof cnf proof = true) :
    ¬ ∃ a : Nat → Bool, cnfHolds a cnf = true := by
  rintro ⟨a, ha⟩
  have := checkProof_sound cnf proof hw hwp h a
  simp [ha] at this

/-- The empty clause must be derived: a proof without it is never accepted. -/
theorem needs_empty_clause (cnf proof : List Clause) (h : checkProof cnf proof = true) : [] ∈ proof := by
  induction proof generalizing cnf with
  | nil => simp [checkProof] at h
  | cons l rest ih =>
    unfold checkProof at h
    by_cases hr : rup cnf l = true
    · simp only [hr, if_true] at h
      by_cases he : l.isEmpty = true
      · have : l = [] := by simpa using he
        subst this; simp
      · simp only [he, Bool.false_eq_true, if_false] at h
        exact List.mem_cons_of_mem _ (ih _ h)
    · simp [hr] at h

example : checkProof [[1, 2], [-1, 2], [1, -2], [-1, -2]] [[2], []] = true := by decide
example : checkProof [[1, 2], [-1, 2], [1, -2]] [[2], []] = false := by decide

end Pumpkin.C14
