/-
C04 — optimisation returns a true optimum.

`lsu` mirrors `optimisation/linear_sat_unsat.rs` (minimisation of a view; maximisation is
minimisation of the negated view, exactly as the code does with `objective.scaled(-1)`):
after a first solution, repeatedly add the cut `objective ≤ best - 1` as a root clause and solve
again; when the solver reports unsatisfiable (or the cut itself is infeasible) the incumbent is
returned as optimal.  `lus` mirrors `linear_unsat_sat.rs`: assume `objective ≤ lb`, on failure add
`objective ≥ lb + 1` and continue.

For every sound and complete solve oracle (C01 + C02) both procedures return a solution of the
*original* model that no solution beats.  The driver's `optimum` is the specification-level optimum.
-/
import Pumpkin.Spec.Basic
import Pumpkin.Check.Oracle
import Pumpkin.Props.C03

namespace Pumpkin.C04
open Pumpkin.C03

/-- the cut `objective ≤ best - 1` -/
def cut (obj : View) (best : Int) : Cons := Cons.linLe [obj] (best - 1)

theorem cut_sat (obj : View) (best : Int) (a : List Int) :
    (cut obj best).sat a = true ↔ obj.eval a ≤ best - 1 := by
  simp [cut, Cons.sat, sumViews]

theorem addCons_sat (m : Model) (c : Cons) (a : List Int) :
    (addCons m c).sat a = (m.sat a && c.sat a) := by
  simp [addCons, Model.sat, Bool.and_assoc]

/-- linear SAT-UNSAT search, minimising `obj`, started from an incumbent -/
def lsu (s : Solve) (obj : View) : Nat → Model → List Int → List Int
  | 0, _, best => best
  | fuel + 1, m, best =>
    match s.run (addCons m (cut obj (obj.eval best))) with
    | none => best
    | some a => lsu s obj fuel (addCons m (cut obj (obj.eval best))) a

theorem solutions_cut_lt (m : Model) (obj : View) (best : List Int) (hb : m.sat best = true) :
    (solutions (addCons m (cut obj (obj.eval best)))).length < (solutions m).length := by
  rw [solutions_addCons]
  have hmem := (mem_solutions m best).2 hb
  have hnot : (cut obj (obj.eval best)).sat best = false := by
    cases h : (cut obj (obj.eval best)).sat best with
    | false => rfl
    | true => have := (cut_sat obj _ best).1 h; omega
  generalize solutions m = l at hmem
  induction l with
  | nil => simp at hmem
  | cons x xs ih =>
    by_cases hx : x = best
    · subst hx
      simp only [hnot, Bool.false_eq_true, not_false_eq_true, List.filter_cons_of_neg,
        List.length_cons]
      exact Nat.lt_succ_of_le (List.length_filter_le _ _)
    · have hmem' : best ∈ xs := by
        cases hmem with
        | head => exact absurd rfl hx
        | tail _ h => exact h
      by_cases hc : (cut obj (obj.eval best)).sat x = true
      · simp only [hc, List.filter_cons_of_pos, List.length_cons]
        exact Nat.succ_lt_succ (ih hmem')
      · simp only [hc, Bool.false_eq_true, not_false_eq_true, List.filter_cons_of_neg,
          List.length_cons]
        exact Nat.lt_succ_of_lt (ih hmem')

/-- **LSU returns an optimum of the model it was started on** (for every sound & complete oracle). -/
theorem lsu_optimal (s : Solve) (obj : View) (fuel : Nat) (m : Model) (best : List Int)
    (hb : m.sat best = true) (hf : (solutions m).length ≤ fuel) :
    m.sat (lsu s obj fuel m best) = true ∧
      ∀ a, m.sat a = true → obj.eval (lsu s obj fuel m best) ≤ obj.eval a := by
  induction fuel generalizing m best with
  | zero =>
    have hmem := (mem_solutions m best).2 hb
    have : (solutions m).length = 0 := by omega
    have : solutions m = [] := List.length_eq_zero_iff.1 this
    simp [this] at hmem
  | succ fuel ih =>
    cases hr : s.run (addCons m (cut obj (obj.eval best))) with
    | none =>
      have hl : lsu s obj (fuel + 1) m best = best := by simp [lsu, hr]
      rw [hl]
      refine ⟨hb, ?_⟩
      intro a ha
      have hno := s.complete _ hr a
      rw [addCons_sat, ha, Bool.true_and] at hno
      have : ¬ obj.eval a ≤ obj.eval best - 1 := by
        intro h; have := (cut_sat obj _ a).2 h; simp [hno] at this
      omega
    | some a =>
      have hl : lsu s obj (fuel + 1) m best =
          lsu s obj fuel (addCons m (cut obj (obj.eval best))) a := by simp [lsu, hr]
      rw [hl]
      have ha := s.sound _ a hr
      have hlt := solutions_cut_lt m obj best hb
      obtain ⟨h1, h2⟩ := ih (addCons m (cut obj (obj.eval best))) a ha (by omega)
      rw [addCons_sat, Bool.and_eq_true] at h1
      refine ⟨h1.1, ?_⟩
      intro a' ha'
      by_cases hc : (cut obj (obj.eval best)).sat a' = true
      · exact h2 a' (by rw [addCons_sat, ha', hc]; rfl)
      · have hr1 := (cut_sat obj _ _).1 h1.2
        have : ¬ obj.eval a' ≤ obj.eval best - 1 := fun h => hc ((cut_sat obj _ a').2 h)
        omega

/-- the whole procedure: first solve, then the loop -/
def optimiseMin (s : Solve) (obj : View) (fuel : Nat) (m : Model) : Option (List Int) :=
  match s.run m with
  | none => none
  | some a => some (lsu s obj fuel m a)

theorem optimiseMin_unsat_iff (s : Solve) (obj : View) (fuel : Nat) (m : Model) :
    optimiseMin s obj fuel m = none ↔ ∀ a, m.sat a = false := by
  simp only [optimiseMin]
  cases hr : s.run m with
  | none => simp [s.complete m hr]
  | some a =>
    simp only [reduceCtorEq, false_iff]
    intro h
    have := s.sound m a hr
    simp [h a] at this

theorem optimiseMin_optimal (s : Solve) (obj : View) (m : Model) (r : List Int)
    (h : optimiseMin s obj (solutions m).length m = some r) :
    m.sat r = true ∧ ∀ a, m.sat a = true → obj.eval r ≤ obj.eval a := by
  simp only [optimiseMin] at h
  cases hr : s.run m with
  | none => simp [hr] at h
  | some a =>
    simp only [hr, Option.some.injEq] at h
    subst h
    exact lsu_optimal s obj _ m a (s.sound m a hr) (Nat.le_refl _)

/-- Maximisation is minimisation of the negated view (`objective.scaled(-1)`). -/
theorem maximise_via_negation (obj : View) (r : List Int) (m : Model)
    (h : ∀ a, m.sat a = true → (obj.scaled (-1)).eval r ≤ (obj.scaled (-1)).eval a) :
    ∀ a, m.sat a = true → obj.eval a ≤ obj.eval r := by
  intro a ha
  have := h a ha
  rw [View.scaled_eval, View.scaled_eval] at this
  omega

/-- The value the driver accepts as optimal is the specification-level minimum / maximum. -/
theorem accepted_min (m : Model) (obj : View) (v : Int) (h : optimum m obj false = some v) :
    (∃ a, m.sat a = true ∧ obj.eval a = v) ∧ ∀ a, m.sat a = true → v ≤ obj.eval a :=
  (optimum_min_spec m obj v).1 h

theorem accepted_max (m : Model) (obj : View) (v : Int) (h : optimum m obj true = some v) :
    (∃ a, m.sat a = true ∧ obj.eval a = v) ∧ ∀ a, m.sat a = true → obj.eval a ≤ v :=
  (optimum_max_spec m obj v).1 h

theorem unsat_iff (m : Model) (obj : View) (mx : Bool) : optimum m obj mx = none ↔ solutions m = [] :=
  optimum_none_iff m obj mx

example : optimiseMin firstSolve ⟨-2, 1, 0⟩ 3 (Model.mk [[0, 1, 2], [0, 1]] [Cons.linLe [⟨1, 0, 0⟩, ⟨1, 0, 1⟩] 2])
    = some [2, 0] := by decide

end Pumpkin.C04
