/-
C04 — optimisation returns a true optimum.

`lsu` mirrors `optimisation/linear_sat_unsat.rs` (minimisation of a view; maximisation is
minimisation of the negated view, exactly as the code does with `objective.scaled(-1)`):
after a first solution, repeatedly add the cut `objective ≤ best - 1` as a root clause and solve
again; when the solver reports unsatisfiable (or the cut itself is infeasible) the incumbent is
returned as optimal.  `lus` mirrors `linear_unsat_sat.rs`: assume `objective ≤ lb`, on failure add
`objective ≥ lb + 1` and continue.

For every sound and complete solve oracle (C01 + C02) both procedures return a solution of the
*original* model that no solution beats.  The driver's `optimum` is the specification-level optimum.
-/
import Pumpkin.Spec.Basic
import Pumpkin.Check.Oracle
import Pumpkin.Props.C03

namespace Pumpkin.C04
open Pumpkin.C03

/-- the cut `objective ≤ best - 1` -/
def cut (obj : View) (best : Int) : Cons := Cons.linLe [obj] (best - 1)

theorem cut_sat (obj : View) (best : Int) (a : List Int) :
    (cut obj best).sat a = true ↔ obj.eval a ≤ best - 1 := by
  simp [cut, Cons.sat, sumViews]

theorem addCons_sat (m : Model) (c : Cons) (a : List Int) :
    (addCons m c).sat a = (m.sat a && c.sat a) := by
  simp [addCons, Model.sat, Bool.and_assoc]

/-- linear SAT-UNSAT search, minimising `obj`, started from an incumbent -/
def lsu (s : Solve) (obj : View) : Nat → Model → List Int → List Int
  | 0, _, best => best
  | fuel + 1, m, best =>
    match s.run (addCons m (cut obj (obj.eval best))) with
    | none => best
    | some a => lsu s obj fuel (addCons m (cut obj (obj.eval best))) a

theorem solutions_cut_lt (m : Model) (obj : View) (best : List Int) (hb : m.sat best = true) :
    (solutions (addCons m (cut obj (obj.eval best)))).length < (solutions m).length := by
  rw [solutions_addCons]
  have hmem := (mem_solutions m best).2 hb
  have hnot : (cut obj (obj.eval best)).sat best = false := by
    cases h : (cut obj (obj.eval best)).sat best with
    | false => rfl
    | true => have := (cut_sat obj _ best).1 h; omega
  generalize solutions m = l at hmem
  induction l with
  | nil => simp at hmem
  | cons x xs ih =>
    by_cases hx : x = best
    · subst hx
      simp only [hnot, Bool.false_eq_true, not_false_eq_true, List.filter_cons_of_neg,
        List.length_cons]
      exact Nat.lt_succ_of_le (List.length_filter_le _ _)
    · have hmem' : best ∈ xs := by
        cases hmem with
        | head => exact absurd rfl hx
        | tail _ h => exact h
      by_cases hc : (cut obj (obj.eval best)).sat x = true
      · simp only [hc, List.filter_cons_of_pos, List.length_cons]
        exact Nat.succ_lt_succ (ih hmem')
      · simp only [hc, Bool.false_eq_true, not_false_eq_true, List.filter_cons_of_neg,
          List.length_cons]
        exact Nat.lt_succ_of_lt (ih hmem')

/-- **LSU returns an optimum of the model it was started on** (for every sound & complete oracle). -/
theorem lsu_optimal (s : Solve) (obj : View) (fuel : Nat) (m : Model) (best : List Int)
    (hb : m.sat best = true) (hf : (solutions m).length ≤ fuel) :
    m.sat (lsu s obj fuel m best) = true ∧
      ∀ a, m.sat a = true → obj.eval (lsu s obj fuel m best) ≤ obj.eval a := by
  induction fuel generalizing m best with
  | zero =>
    have hmem := (mem_solutions m best).2 hb
    have : (solutions m).length = 0 := by omega
    have : solutions m = [] := List.length_eq_zero_iff.1 this
    simp [this] at hmem
  | succ fuel ih =>
    cases hr : s.run (addCons m (cut obj (obj.eval best))) with
    | none =>
      have hl : lsu s obj (fuel + 1) m best = best := by simp [lsu, hr]
      rw [hl]
      refine ⟨hb, ?_⟩
      intro a ha
      have hno := s.complete _ hr a
      rw [addCons_sat, ha, Bool.true_and] at hno
      have : ¬ obj.eval a ≤ obj.eval best - 1 := by
        intro h; have := (cut_sat obj _ a).2 h; simp [hno] at this
      omega
    | some a =>
      have hl : lsu s obj (fuel + 1) m best =
          lsu s obj fuel (addCons m (cut obj (obj.eval best))) a := by simp [lsu, hr]
      rw [hl]
      have ha := s.sound _ a hr
      have hlt := solutions_cut_lt m obj best hb
      obtain ⟨h1, h2⟩ := ih (addCons m (cut obj (obj.eval best))) a ha (by omega)
      rw [addCons_sat, Bool.and_eq_true] at h1
      refine ⟨h1.1, ?_⟩
      intro a' ha'
      by_cases hc : (cut obj (obj.eval best)).sat a' = true
      · exact h2 a' (by rw [addCons_sat, ha', hc]; rfl)
      · have hr1 := (cut_sat obj _ _).1 h1.2
        have : ¬ obj.eval a' ≤ obj.eval best - 1 := fun h => hc ((cut_sat obj _ a').2 h)
        omega

/-- the whole procedure: first solve, then the loop -/
def optimiseMin (s : Solve) (obj : View) (fuel : Nat) (m : Model) : Option (List Int) :=
  match s.run m with
  | none => none
  | some a => some (lsu s obj fuel m a)

theorem optimiseMin_unsat_iff (s : Solve) (obj : View) (fuel : Nat) (m : Model) :
    optimiseMin s obj fuel m = none ↔ ∀ a, m.sat a = false := by
  simp only [optimiseMin]
  cases hr : s.run m with
  | none => simp [s.complete m hr]
  | some a =>
    simp only [reduceCtorEq, false_iff]
    intro h
    have := s.sound m a hr
    simp [h a] at this

theorem optimiseMin_optimal (s : Solve) (obj : View) (m : Model) (r : List Int)
    (h : optimiseMin s obj (solutions m).length m = some r) :
    m.sat r = true ∧ ∀ a, m.sat a = true → obj.eval r ≤ obj.eval a := by
  simp only [optimiseMin] at h
  cases hr : s.run m with
  | none => simp [hr] at h
  | some a =>
    simp only [hr, Option.some.injEq] at h
    subst h
    exact lsu_optimal s obj _ m a (s.sound m a hr) (Nat.le_refl _)

/-- Maximisation is minimisation of the negated view (`objective.scaled(-1)`). -/
theorem maximise_via_negation (obj : View) (r : List Int) (m : Model)
    (h : ∀ a, m.sat a = true → (obj.scaled (-1)).eval r ≤ (obj.scaled (-1)).eval a) :
    ∀ a, m.sat a = true → obj.eval a ≤ obj.eval r := by
  intro a ha
  have := h a ha
  rw [View.scaled_eval, View.scaled_eval] at this
  omega

/-- The value the driver accepts as optimal is the specification-level minimum / maximum. -/
theorem accepted_min (m : Model) (obj : View) (v : Int) (h : optimum m obj false = some v) :
    (∃ a, m.sat a = true ∧ obj.eval a = v) ∧ ∀ a, m.sat a = true → v ≤ obj.eval a :=
  (optimum_min_spec m obj v).1 h

theorem accepted_max (m : Model) (obj : View) (v : Int) (h : optimum m obj true = some v) :
    (∃ a, m.sat a = true ∧ obj.eval a = v) ∧ ∀ a, m.sat a = true → obj.eval a ≤ v :=
  (optimum_max_spec m obj v).1 h

theorem unsat_iff (m : Model) (obj : View) (mx : Bool) : optimum m obj mx = none ↔ solutions m = [] :=
  optimum_none_iff m obj mx

/-! ### linear UNSAT-SAT (`optimisation/linear_unsat_sat.rs`) -/

/-- the assumption `objective ≤ l` (posted as an assumption; for the oracle an extra constraint) -/
def leCons (obj : View) (l : Int) : Cons := Cons.linLe [obj] l
/-- the hard clause `objective ≥ k` added after a failed assumption -/
def geCons (obj : View) (k : Int) : Cons := Cons.linLe [obj.scaled (-1)] (-k)

theorem leCons_sat (obj : View) (l : Int) (a : List Int) : (leCons obj l).sat a = true ↔ obj.eval a ≤ l := by
  simp [leCons, Cons.sat, sumViews]

theorem geCons_sat (obj : View) (k : Int) (a : List Int) : (geCons obj k).sat a = true ↔ k ≤ obj.eval a := by
  simp only [geCons, Cons.sat, sumViews, List.map_cons, List.map_nil, List.foldl_cons, List.foldl_nil,
    View.scaled_eval, decide_eq_true_eq]
  omega

/-- the root lower bound of the objective (`solver.lower_bound(&objective)` after root propagation):
any function that never exceeds the objective of a solution and that reflects a posted bound -/
structure RootLb (obj : View) where
  lb : Model → Int
  sound : ∀ m a, m.sat a = true → lb m ≤ obj.eval a
  reflects : ∀ m k a, (addCons m (geCons obj k)).sat a = true → k ≤ lb (addCons m (geCons obj k))

/-- the lower-bounding loop: assume `obj ≤ lb`; satisfiable ⇒ done, otherwise `obj ≥ lb + 1` becomes a
hard constraint and the loop continues with the new root bound -/
def lus (s : Solve) {obj : View} (r : RootLb obj) : Nat → Model → Option (List Int)
  | 0, _ => none
  | fuel + 1, m =>
    match s.run (addCons m (leCons obj (r.lb m))) with
    | some a => some a
    | none => lus s r fuel (addCons m (geCons obj (r.lb m + 1)))

/-- **LUS returns an optimum** (for every sound & complete oracle and every sound root bound), and it
does so within `objective(w) - lb + 1` rounds where `w` is the solution of the feasibility check. -/
theorem lus_optimal (s : Solve) {obj : View} (r : RootLb obj) (fuel : Nat) (m : Model) (w : List Int)
    (hw : m.sat w = true) (hf : (obj.eval w - r.lb m).toNat < fuel) :
    ∃ a, lus s r fuel m = some a ∧ m.sat a = true ∧ ∀ b, m.sat b = true → obj.eval a ≤ obj.eval b := by
  induction fuel generalizing m with
  | zero => omega
  | succ fuel ih =>
    simp only [lus]
    cases hr : s.run (addCons m (leCons obj (r.lb m))) with
    | some a =>
      have hs := s.sound _ a hr
      rw [addCons_sat, Bool.and_eq_true] at hs
      refine ⟨a, rfl, hs.1, ?_⟩
      intro b hb
      have h1 := (leCons_sat obj _ a).1 hs.2
      have h2 := r.sound m b hb
      omega
    | none =>
      have hc := s.complete _ hr
      -- every solution lies strictly above the refuted bound
      have habove : ∀ b, m.sat b = true → r.lb m + 1 ≤ obj.eval b := by
        intro b hb
        have := hc b
        rw [addCons_sat, hb, Bool.true_and] at this
        have : ¬ obj.eval b ≤ r.lb m := fun h => by
          have h' := (leCons_sat obj _ b).2 h
          simp [h'] at this
        omega
      let m' := addCons m (geCons obj (r.lb m + 1))
      have hsat' : ∀ b, m.sat b = true → m'.sat b = true := by
        intro b hb
        show (addCons m (geCons obj (r.lb m + 1))).sat b = true
        rw [addCons_sat, hb, Bool.true_and]
        exact (geCons_sat obj _ b).2 (habove b hb)
      have hsat'' : ∀ b, m'.sat b = true → m.sat b = true := by
        intro b hb
        have : (addCons m (geCons obj (r.lb m + 1))).sat b = true := hb
        rw [addCons_sat, Bool.and_eq_true] at this
        exact this.1
      have hlb : r.lb m + 1 ≤ r.lb m' := r.reflects m (r.lb m + 1) w (hsat' w hw)
      have hwu := r.sound m' w (hsat' w hw)
      obtain ⟨a, ha, hsa, hopt⟩ := ih m' (hsat' w hw) (by omega)
      exact ⟨a, ha, hsat'' a hsa, fun b hb => hopt b (hsat' b hb)⟩

/-- the whole LUS procedure: feasibility check, then the lower-bounding loop -/
def optimiseMinLus (s : Solve) {obj : View} (r : RootLb obj) (m : Model) : Option (List Int) :=
  match s.run m with
  | none => none
  | some w => lus s r ((obj.eval w - r.lb m).toNat + 1) m

theorem optimiseMinLus_spec (s : Solve) {obj : View} (r : RootLb obj) (m : Model) :
    (optimiseMinLus s r m = none ↔ ∀ a, m.sat a = false) ∧
    (∀ a, optimiseMinLus s r m = some a → m.sat a = true ∧ ∀ b, m.sat b = true → obj.eval a ≤ obj.eval b) := by
  simp only [optimiseMinLus]
  cases hr : s.run m with
  | none =>
    exact ⟨by simp [s.complete m hr], by intro a h; cases h⟩
  | some w =>
    have hw := s.sound m w hr
    obtain ⟨a, ha, hsa, hopt⟩ := lus_optimal s r _ m w hw (Nat.lt_succ_self _)
    refine ⟨?_, ?_⟩
    · simp only [ha, reduceCtorEq, false_iff]
      intro h
      simp [h w] at hw
    · intro a' h
      have ha' : lus s r ((obj.eval w - r.lb m).toNat + 1) m = some a := ha
      simp only [ha', Option.some.injEq] at h
      subst h
      exact ⟨hsa, hopt⟩

/-- `RootLb` is inhabited: the exact minimum is a root bound (the weakest a solver may compute is any
value below it that still reflects posted bounds). -/
def RootLb.exact (obj : View) : RootLb obj where
  lb m := match optimum m obj false with | some v => v | none => 0
  sound m a ha := by
    cases h : optimum m obj false with
    | none =>
      have := (optimum_none_iff m obj false).1 h
      have hm := (mem_solutions m a).2 ha
      rw [this] at hm; cases hm
    | some v => exact ((optimum_min_spec m obj v).1 h).2 a ha
  reflects m k a ha := by
    cases h : optimum (addCons m (geCons obj k)) obj false with
    | none =>
      have := (optimum_none_iff _ obj false).1 h
      have hm := (mem_solutions _ a).2 ha
      rw [this] at hm; cases hm
    | some v =>
      obtain ⟨⟨b, hb, hbv⟩, _⟩ := (optimum_min_spec _ obj v).1 h
      rw [addCons_sat, Bool.and_eq_true] at hb
      have := (geCons_sat obj k b).1 hb.2
      simp only; omega

example : optimiseMinLus firstSolve (RootLb.exact ⟨-2, 1, 0⟩)
    (Model.mk [[0, 1, 2], [0, 1]] [Cons.linLe [⟨1, 0, 0⟩, ⟨1, 0, 1⟩] 2]) = some [2, 0] := by decide +kernel

example : optimiseMin firstSolve ⟨-2, 1, 0⟩ 3 (Model.mk [[0, 1, 2], [0, 1]] [Cons.linLe [⟨1, 0, 0⟩, ⟨1, 0, 1⟩] 2])
    = some [2, 0] := by decide

end Pumpkin.C04
