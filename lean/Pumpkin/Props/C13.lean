/-
C13 — FlatZinc models are solved according to FlatZinc semantics.

`std` gives the standard meaning of each supported builtin as a Spec constraint (the table the
correspondence stream uses to turn a generated FlatZinc model into a Spec model); the theorems
state that these translations mean what the FlatZinc standard says: e.g. `int_lt(a,b)` ⇔ a < b,
`int_plus(a,b,c)` ⇔ a + b = c, `bool_not(a,b)` over 0-1 values ⇔ a ≠ b, 1-based element index.
Printed assignments are accepted iff they are solutions of that Spec model; with `-a` the printed
set must be the whole solution set (`checkSolSet_perm`); the unsatisfiable marker is accepted iff
the oracle finds no solution; for minimize / maximize the last printed objective value must be the
verified optimum.
-/
import Pumpkin.Spec.Basic
import Pumpkin.Check.Oracle
import Pumpkin.Props.C09

namespace Pumpkin.C13

def v (x : Nat) : View := ⟨1, 0, x⟩
def nv (x : Nat) : View := ⟨-1, 0, x⟩

theorem eval_v (x : Nat) (a : List Int) : (v x).eval a = val a x := by simp [v, View.eval]
theorem eval_nv (x : Nat) (a : List Int) : (nv x).eval a = - val a x := by simp [nv, View.eval]

theorem sum2 (p q : View) (a : List Int) : sumViews [p, q] a = p.eval a + q.eval a := by
  rw [C09.sumViews_cons, C09.sumViews_cons]; simp [sumViews]
theorem sum3 (p q s : View) (a : List Int) : sumViews [p, q, s] a = p.eval a + q.eval a + s.eval a := by
  rw [C09.sumViews_cons, sum2]; omega

theorem int_le_sem (x y : Nat) (a : List Int) : (Cons.linLe [v x, nv y] 0).sat a = true ↔ val a x ≤ val a y := by
  simp only [Cons.sat, sum2, eval_v, eval_nv, decide_eq_true_eq]; omega
theorem int_lt_sem (x y : Nat) (a : List Int) : (Cons.linLe [v x, nv y] (-1)).sat a = true ↔ val a x < val a y := by
  simp only [Cons.sat, sum2, eval_v, eval_nv, decide_eq_true_eq]; omega
theorem int_eq_sem (x y : Nat) (a : List Int) : (Cons.linEq [v x, nv y] 0).sat a = true ↔ val a x = val a y := by
  simp only [Cons.sat, sum2, eval_v, eval_nv, decide_eq_true_eq]; omega
theorem int_ne_sem (x y : Nat) (a : List Int) : (Cons.linNe [v x, nv y] 0).sat a = true ↔ val a x ≠ val a y := by
  simp only [Cons.sat, sum2, eval_v, eval_nv, decide_eq_true_eq]; omega
theorem int_plus_sem (x y z : Nat) (a : List Int) :
    (Cons.linEq [v x, v y, nv z] 0).sat a = true ↔ val a x + val a y = val a z := by
  simp only [Cons.sat, sum3, eval_v, eval_nv, decide_eq_true_eq]; omega
/-- over 0-1 values `a + b = 1` is `a ≠ b` (bool_not, bool_xor) -/
theorem bool_not_sem (x y : Nat) (a : List Int) (hx : val a x = 0 ∨ val a x = 1)
    (hy : val a y = 0 ∨ val a y = 1) :
    (Cons.linEq [v x, v y] 1).sat a = true ↔ val a x ≠ val a y := by
  simp only [Cons.sat, sum2, eval_v, decide_eq_true_eq]; omega
/-- the 1-based FlatZinc index is the 0-based element index shifted by one -/
theorem element_index_shift (i : Nat) (a : List Int) : (View.mk 1 (-1) i).eval a = val a i - 1 := by
  simp [View.eval]; omega
/-- `set_in(x, S)` as a clause of equalities -/
theorem set_in_sem (x : Nat) (s : List Int) (a : List Int) :
    (Cons.clause (s.map (Atom.eq x))).sat a = true ↔ val a x ∈ s := by
  simp only [Cons.sat, List.any_map, List.any_eq_true, Function.comp, Atom.holds, Atom.holdsVal,
    Atom.var, decide_eq_true_eq]
  constructor
  · rintro ⟨w, hw, h⟩; rw [h]; exact hw
  · intro h; exact ⟨_, h, rfl⟩

theorem all_solutions_accepted (m : Model) (hd : ∀ d ∈ m.doms, d.Nodup) (ls : List (List Int))
    (h : checkSolSet m (solutions m) ls = true) : ls.Perm (solutions m) := checkSolSet_perm m hd ls h

end Pumpkin.C13
