/-
C02 — Unsatisfiable is only reported for models without solutions.

The driver accepts an `unsat` verdict (from `satisfy`, or an error returned while posting a
constraint) iff the oracle's solution list is empty; by `solutions_eq_nil_iff` that is the
statement that no assignment satisfies the model. A learned nogood is accepted iff no solution
satisfies all of its predicates (`checkNogood_sound`).
-/
import Pumpkin.Spec.Basic
import Pumpkin.Check.Oracle
import Pumpkin.Model.SemMin

namespace Pumpkin.C02

theorem unsat_verdict_sound (m : Model) (h : (solutions m).isEmpty = true) :
    ∀ a, m.sat a = false := by
  have : solutions m = [] := by simpa using h
  exact (solutions_eq_nil_iff m).1 this

theorem sat_verdict_sound (m : Model) (h : (solutions m).isEmpty = false) :
    ∃ a, m.sat a = true := by
  cases hs : solutions m with
  | nil => simp [hs] at h
  | cons a _ => exact ⟨a, (mem_solutions m a).1 (by simp [hs])⟩

/-- The verdict is exact: accepted `unsat` iff no solution; accepted `sat` iff some solution. -/
theorem verdict_exact (m : Model) : (solutions m).isEmpty = true ↔ ¬ ∃ a, m.sat a = true := by
  constructor
  · intro h ⟨a, ha⟩
    have := unsat_verdict_sound m h a
    simp [ha] at this
  · intro h
    cases hs : solutions m with
    | nil => rfl
    | cons a _ => exact absurd ⟨a, (mem_solutions m a).1 (by simp [hs])⟩ h

/-- A posting error on constraint `i` is accepted iff the prefix model is unsatisfiable; a model
whose prefix is unsatisfiable is unsatisfiable. -/
theorem prefix_unsat (doms : List (List Int)) (cs1 cs2 : List Cons)
    (h : ∀ a, (Model.mk doms cs1).sat a = false) :
    ∀ a, (Model.mk doms (cs1 ++ cs2)).sat a = false := by
  intro a
  have := h a
  simp only [Model.sat, Bool.and_eq_false_iff, List.all_append] at *
  rcases this with h | h
  · exact Or.inl h
  · exact Or.inr (Or.inl h)

theorem learned_nogood_sound (m : Model) (ng : List Atom)
    (h : checkNogood (solutions m) ng = true) (a : List Int) (ha : m.sat a = true) :
    ¬ ∀ p ∈ ng, p.holds a = true := checkNogood_sound m ng h a ha

/-- The semantic minimiser (`Model/SemMin.lean` mirrors `semantic_minimiser.rs`), through which every
learned nogood and every posted clause passes, preserves meaning: for every assignment within the
original domains the predicates of the input all hold iff the predicates of the output all hold, and
"trivially false" is answered only when no such assignment satisfies the input. A nogood that was
implied by the model therefore stays implied, and no new nogood is invented. -/
theorem semantic_minimiser_preserves_meaning (orig : Nat → Pumpkin.SemMin.SD) (ng : List Atom) (merge : Bool)
    (a : List Int) (ha : ∀ x, (orig x).Sem (val a x)) :
    (∀ p ∈ ng, p.holds a = true) ↔
      (match Pumpkin.SemMin.minimise orig ng merge with
       | none => False
       | some out => ∀ q ∈ out, q.holds a = true) :=
  Pumpkin.SemMin.minimise_sem orig ng merge a ha

example : (solutions (Model.mk [[0, 1], [0, 1]]
    [Cons.linNe [⟨1, 0, 0⟩, ⟨-1, 0, 1⟩] 0, Cons.linEq [⟨1, 0, 0⟩, ⟨1, 0, 1⟩] 2])).isEmpty = true := by
  decide

end Pumpkin.C02
