/-
C02 — Unsatisfiable is only reported for models without solutions.

The driver accepts an `unsat` verdict (from `satisfy`, or an error returned while posting a
constraint) iff the oracle's solution list is empty; by `solutions_eq_nil_iff` that is the
statement that no assignment satisfies the model. A learned nogood is accepted iff no solution
satisfies all of its predicates (`checkNogood_sound`).
-/
import Pumpkin.Spec.Basic
import Pumpkin.Check.Oracle
import Pumpkin.Model.SemMin
import Pumpkin.Model.RecMin
import Pumpkin.Model.PropagationCompile
import Pumpkin.Model.Search
import Pumpkin.Model.Narrow
import Pumpkin.Check.Derive

namespace Pumpkin.C02

theorem unsat_verdict_sound (m : Model) (h : (solutions m).isEmpty = true) :
    ∀ a, m.sat a = false := by
  have : solutions m = [] := by simpa using h
  exact (solutions_eq_nil_iff m).1 this

theorem sat_verdict_sound (m : Model) (h : (solutions m).isEmpty = false) :
    ∃ a, m.sat a = true := by
  cases hs : solutions m with
  | nil => simp [hs] at h
  | cons a _ => exact ⟨a, (mem_solutions m a).1 (by simp [hs])⟩

/-- The verdict is exact: accepted `unsat` iff no solution; accepted `sat` iff some solution. -/
theorem verdict_exact (m : Model) : (solutions m).isEmpty = true ↔ ¬ ∃ a, m.sat a = true := by
  constructor
  · intro h ⟨a, ha⟩
    have := unsat_verdict_sound m h a
    simp [ha] at this
  · intro h
    cases hs : solutions m with
    | nil => rfl
    | cons a _ => exact absurd ⟨a, (mem_solutions m a).1 (by simp [hs])⟩ h

/-- A posting error on constraint `i` is accepted iff the prefix model is unsatisfiable; a model
whose prefix is unsatisfiable is unsatisfiable. -/
theorem prefix_unsat (doms : List (List Int)) (cs1 cs2 : List Cons)
    (h : ∀ a, (Model.mk doms cs1).sat a = false) :
    ∀ a, (Model.mk doms (cs1 ++ cs2)).sat a = false := by
  intro a
  have := h a
  simp only [Model.sat, Bool.and_eq_false_iff, List.all_append] at *
  rcases this with h | h
  · exact Or.inl h
  · exact Or.inr (Or.inl h)

theorem learned_nogood_sound (m : Model) (ng : List Atom)
    (h : checkNogood (solutions m) ng = true) (a : List Int) (ha : m.sat a = true) :
    ¬ ∀ p ∈ ng, p.holds a = true := checkNogood_sound m ng h a ha

/-- The semantic minimiser (`Model/SemMin.lean` mirrors `semantic_minimiser.rs`), through which every
learned nogood and every posted clause passes, preserves meaning: for every assignment within the
original domains the predicates of the input all hold iff the predicates of the output all hold, and
"trivially false" is answered only when no such assignment satisfies the input. A nogood that was
implied by the model therefore stays implied, and no new nogood is invented. -/
theorem semantic_minimiser_preserves_meaning (orig : Nat → Pumpkin.SemMin.SD) (ng : List Atom) (merge : Bool)
    (a : List Int) (ha : ∀ x, (orig x).Sem (val a x)) :
    (∀ p ∈ ng, p.holds a = true) ↔
      (match Pumpkin.SemMin.minimise orig ng merge with
       | none => False
       | some out => ∀ q ∈ out, q.holds a = true) :=
  Pumpkin.SemMin.minimise_sem orig ng merge a ha

/-- The recursive minimiser (`Model/RecMin.lean` mirrors `recursive_minimiser.rs`) only removes
predicates which follow from the ones it keeps: if every reason is an implication and the reason
graph is acyclic, then in every assignment in which the minimised nogood's predicates all hold,
the original nogood's predicates all hold — for every recursion-depth limit. A learned nogood which
was implied by the model therefore stays implied after minimisation. -/
theorem recursive_minimiser_preserves_meaning (ctx : Pumpkin.RecMin.Ctx) (ng : List Nat) (rank : Nat → Nat)
    (v : Nat → Prop) (hlimit : 0 < ctx.limit)
    (hrank : ∀ p, ∀ a ∈ (ctx.info p).reason, rank a < rank p)
    (hreason : ∀ p, (ctx.info p).isDecision = false → (∀ a ∈ (ctx.info p).reason, v a) → v p)
    (hkept : ∀ q ∈ (Pumpkin.RecMin.removeDominated ctx ng).2, v q) : ∀ p ∈ ng, v p :=
  Pumpkin.RecMin.removeDominated_sound ctx ng rank v hlimit hrank hreason hkept

/-- … and it never invents predicates. -/
theorem recursive_minimiser_subset (ctx : Pumpkin.RecMin.Ctx) (ng : List Nat) :
    ∀ q ∈ (Pumpkin.RecMin.removeDominated ctx ng).2, q ∈ ng :=
  Pumpkin.RecMin.removeDominated_sub ctx ng

/-- non-vacuity: decision 0 (level 1) implies 1 (level 1); 1 and 0 imply 2 (level 2), 2 implies 3
(level 2, the current level). From the nogood {3, 1, 0} the predicate 1 is removed; with depth limit 1
nothing is removed. -/
def exCtx (limit : Nat) : Pumpkin.RecMin.Ctx :=
  { info := fun p => match p with
      | 0 => ⟨1, true, []⟩ | 1 => ⟨1, false, [0]⟩ | 2 => ⟨2, false, [1, 0]⟩ | 3 => ⟨2, false, [2]⟩
      | _ => ⟨0, false, []⟩,
    limit := limit, curLevel := 2 }

example : (Pumpkin.RecMin.removeDominated (exCtx 500) [3, 1, 0]).2 = [3, 0] := by decide +kernel
example : (Pumpkin.RecMin.removeDominated (exCtx 1) [3, 1, 0]).2 = [3, 1, 0] := by decide +kernel
example : ∀ p, ∀ a ∈ ((exCtx 500).info p).reason, a < p := by
  intro p a ha
  match p with
  | 0 => simp [exCtx] at ha
  | 1 => simp [exCtx] at ha; omega
  | 2 => simp [exCtx] at ha; omega
  | 3 => simp [exCtx] at ha; omega
  | _ + 4 => simp [exCtx] at ha

example : (solutions (Model.mk [[0, 1], [0, 1]]
    [Cons.linNe [⟨1, 0, 0⟩, ⟨-1, 0, 1⟩] 0, Cons.linEq [⟨1, 0, 0⟩, ⟨1, 0, 1⟩] 2])).isEmpty = true := by
  decide


/-- **An infeasibility reported while posting** (modelled by `Pg.rootFix = some none`: some
propagator pass, or the fixpoint after a posting, ends in a conflict or an empty domain) **is only
reported for models without solutions.** -/
theorem root_conflict_unsat (m : Model) (hw : ∀ c ∈ m.cons, Pg.consWf m.doms.length c)
    (hr : Pg.rootFix m.doms m.cons = some none) : solutions m = [] :=
  Pg.rootFix_conflict_unsat m hw hr

/-- … and a conflict found by propagation after any decision refutes the current domains. -/
theorem search_conflict_sound (n : Nat) (ps : List Pg.PropInst) (hw : ∀ p ∈ ps, p.Wf n) (d : Pg.Doms)
    (hl : d.length = n) (hf : Pg.fixpoint ps d = none) (a : List Int) (hin : inDoms d a = true) :
    ¬ ∀ p ∈ ps, p.cons.sat a = true :=
  Pg.fixpoint_conflict_sound ps hw d hl hf a hin

example : Pg.rootFix [[0, 1], [0, 1]] [Cons.linLe [⟨-1, 0, 0⟩, ⟨-1, 0, 1⟩] (-2), Cons.linNe [⟨1, 0, 0⟩, ⟨-1, 0, 1⟩] 0]
    = some none := by decide


/-! ### the search loop (`Model/Search.lean`: no learning, no restarts)

Tied to the real solver by the `nlsearch` records: the decisions of a real
`ConflictResolver::NoLearning` solve are replayed through the model, which must be in exactly the same
domains at every decision point (also after every backtrack) and end with the same answer. -/

/-- Whatever the decision strategy does, the model of the search loop answers `unsat` only if no
assignment within the domains it started from satisfies the constraints of all propagators. -/
theorem nolearning_search_unsat_sound {σ : Type} (ps : List Pg.PropInst) (strat : σ → Pg.Doms → Pg.Choice σ)
    (fuel : Nat) (s : σ) (d0 : Pg.Doms) (h : Pg.search ps strat fuel s d0 [] = .unsat) (a : List Int)
    (hw : ∀ p ∈ ps, p.Wf a.length) (hsw : Pg.StratWf a.length strat) (hin : inDoms d0 a = true) :
    ¬ ∀ p ∈ ps, p.cons.sat a = true := by
  intro hsat
  exact Pg.search_unsat_sound ps strat a hw hsw hsat fuel s d0 [] (fun _ hf => by cases hf)
    (Or.inl ⟨d0, rfl, hin⟩) h

/-- … and `sat a` only for an assignment satisfying all of them. -/
theorem nolearning_search_sat_sound {σ : Type} (ps : List Pg.PropInst) (strat : σ → Pg.Doms → Pg.Choice σ)
    (fuel : Nat) (s : σ) (d0 : Pg.Doms) (a : List Int) (h : Pg.search ps strat fuel s d0 [] = .sat a)
    (hw : ∀ p ∈ ps, p.Wf a.length) (hpre : ∀ p ∈ ps, p.Pre a) : ∀ p ∈ ps, p.cons.sat a = true :=
  Pg.search_sat_sound ps strat a fuel s d0 [] h hw hpre

/-- **End to end**: the modelled solver (`Pg.solveNL`: post the `Spec` model at the root — decomposition
into propagators, fixpoint after each posting — then the search loop) answers `unsat` only for models
without solutions, whatever the strategy and the fuel … -/
theorem modelled_solver_unsat_sound {σ : Type} (m : Model) (hw : ∀ c ∈ m.cons, Pg.consWf m.doms.length c)
    (strat : σ → Pg.Doms → Pg.Choice σ) (hsw : Pg.StratWf m.doms.length strat) (fuel : Nat) (s0 : σ)
    (h : Pg.solveNL m strat fuel s0 = some .unsat) : solutions m = [] :=
  Pg.solveNL_unsat_sound m hw strat hsw fuel s0 h

/-- … and `sat a` only for a solution of the model (C01 for the modelled solver). -/
theorem modelled_solver_sat_sound {σ : Type} (m : Model) (hw : ∀ c ∈ m.cons, Pg.consWf m.doms.length c)
    (strat : σ → Pg.Doms → Pg.Choice σ) (fuel : Nat) (s0 : σ) (a : List Int)
    (h : Pg.solveNL m strat fuel s0 = some (.sat a))
    (hpre : ∀ ps, Pg.compileAll m.doms m.cons = some ps → ∀ p ∈ ps, p.Pre a) : m.sat a = true :=
  Pg.solveNL_sat_sound m hw strat fuel s0 a h hpre

example : Pg.solveNL { doms := [[0, 1, 2], [0, 1, 2]], cons := [Cons.allDiff [⟨1, 0, 0⟩, ⟨1, 0, 1⟩], Cons.linEq [⟨1, 0, 0⟩, ⟨1, 0, 1⟩] 3] }
    (fun (s : List Atom) _ => match s with | p :: r => .decide p r | [] => .done) 5 [Atom.le 0 1] = some (.sat [1, 2]) := by decide

-- x0 + x1 ≤ 1, x0 ≠ x1 over {0,1}²: deciding x0 = 1 first needs no backtrack, deciding x0 ≤ 0 and x1 ≤ 0 does
example : Pg.search [.linLe [⟨1, 0, 0⟩, ⟨1, 0, 1⟩] 1, .linNe [⟨1, 0, 0⟩, ⟨-1, 0, 1⟩] 0]
    (fun (s : List Atom) _ => match s with | p :: r => .decide p r | [] => .done) 5 [Atom.le 0 0] [[0, 1], [0, 1]] []
    = .sat [0, 1] := by decide
example : Pg.search [.linLe [⟨1, 0, 0⟩, ⟨1, 0, 1⟩] 1, .linNe [⟨1, 0, 0⟩, ⟨-1, 0, 1⟩] 0, .linLe [⟨-1, 0, 0⟩, ⟨-1, 0, 1⟩] (-2)]
    (fun (s : List Atom) _ => match s with | p :: r => .decide p r | [] => .done) 5 [Atom.le 0 0] [[0, 1], [0, 1]] []
    = .unsat := by decide

/-! ### learned nogoods are consequences (the state `learned nogood database` of this property)

Conflict analysis is not modelled step by step; instead every learned nogood of the recorded real
solves comes with the implications it was resolved from (the conflict, every reason handed to the
analysis — explicit, lazy or implicit —, the root facts, earlier nogoods) and must be accepted by the
verified derivation check `Derive.derivable` (domain-aware unit propagation). -/

/-- **An accepted learned nogood is a consequence of what it was derived from**: under any assignment
within the declared domains which respects every recorded implication, the predicates of the nogood
do not all hold. Since every implication is judged on its own (an explicit reason against the
constraint of its propagator — C17 —, an implicit one against `Model/ImplicitReason`, an earlier
nogood by this very theorem, a reason of the nogood propagator by the stored nogood it comes from),
each learned nogood is implied by the model and the clauses added so far, whatever heuristics,
restarts, minimisation and database clean-ups the solver went through. -/
theorem learned_nogood_is_consequence (m : Model) (g : List Derive.Impl) (ng : List Atom)
    (h : Derive.derivable m.doms g ng = true) (a : List Int) (ha : m.sat a = true)
    (hg : ∀ c ∈ g, c.respected a) : ¬ ∀ p ∈ ng, p.holds a = true := by
  simp only [Model.sat, Bool.and_eq_true] at ha
  exact Derive.derivable_sound m.doms g ng h a ha.1 hg

-- non-vacuous: x ≥ 2 → y ≤ 0, y ≤ 0 → z ≠ 1, and the conflict [z ≥ 1] ∧ [x ≥ 1] over 0..2 / 0..1 / 0..1
example : Derive.derivable [[0, 1, 2], [0, 1], [0, 1]]
    [([Atom.ge 0 2], some (Atom.le 1 0)), ([Atom.le 1 0], some (Atom.ne 2 1)), ([Atom.ge 2 1, Atom.ge 0 1], none)]
    [Atom.ge 0 2, Atom.eq 2 1] = true := by decide

end Pumpkin.C02
