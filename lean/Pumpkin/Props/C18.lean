/-
C18 — built-in branchers propose only undecided decisions.

For each of the 14 value selectors (`Model/Branching.lean` mirrors `branching/value_selection/*.rs`
with the random draws as arguments) and every domain with at least two values — any shape: holes,
negative values, exactly two values — the proposed decision is undecided: some value of the domain
satisfies it and some value falsifies it. The correspondence check compares the decision the real
selector makes during real solves with the model's support on the observed domain.
-/
import Pumpkin.Model.Branching
import Pumpkin.Model.AssignmentsEval

namespace Pumpkin.C18
open Pumpkin.Branching

/-- One statement covering all 14 selectors and all outcomes of their random draws. -/
theorem value_selectors_undecided (x : Nat) (vs : List Int) (hs : Sorted vs) (h2 : 2 ≤ vs.length)
    (coin : Bool) (i : Nat) (hi : i < vs.length) (r : Int) (hr : lbOf vs ≤ r ∧ r ≤ ubOf vs) :
    Undecided vs (inDomainMin x vs) ∧ Undecided vs (inDomainMax x vs) ∧
    Undecided vs (outDomainMin x vs) ∧ Undecided vs (outDomainMax x vs) ∧
    Undecided vs (inDomainSplit x vs) ∧ Undecided vs (reverseInDomainSplit x vs) ∧
    Undecided vs (inDomainSplitRandom x vs coin) ∧ Undecided vs (randomSplitter x vs r coin) ∧
    Undecided vs (inDomainInterval x vs) ∧ Undecided vs (inDomainMedian x vs) ∧
    Undecided vs (outDomainMedian x vs) ∧ Undecided vs (inDomainRandom x vs i) ∧
    Undecided vs (outDomainRandom x vs i) ∧ Undecided vs (inDomainMiddle x vs) :=
  ⟨inDomainMin_undecided x hs h2, inDomainMax_undecided x hs h2, outDomainMin_undecided x hs h2,
   outDomainMax_undecided x hs h2, inDomainSplit_undecided x hs h2,
   reverseInDomainSplit_undecided x hs h2, inDomainSplitRandom_undecided x coin hs h2,
   randomSplitter_undecided x r coin hs h2 hr, inDomainInterval_undecided x hs h2,
   inDomainMedian_undecided x hs h2, outDomainMedian_undecided x hs h2,
   inDomainRandom_undecided x i hi hs h2, outDomainRandom_undecided x i hi hs h2,
   inDomainMiddle_undecided x hs h2⟩

/-- The decision is always over the variable the selector was asked about. -/
theorem decision_var (x : Nat) (vs : List Int) (coin : Bool) (i : Nat) (r : Int) :
    (inDomainMin x vs).var = x ∧ (inDomainMax x vs).var = x ∧ (outDomainMin x vs).var = x ∧
    (outDomainMax x vs).var = x ∧ (inDomainSplit x vs).var = x ∧
    (reverseInDomainSplit x vs).var = x ∧ (inDomainSplitRandom x vs coin).var = x ∧
    (randomSplitter x vs r coin).var = x ∧ (inDomainMedian x vs).var = x ∧
    (outDomainMedian x vs).var = x ∧ (inDomainRandom x vs i).var = x ∧
    (outDomainRandom x vs i).var = x ∧ (inDomainMiddle x vs).var = x := by
  refine ⟨rfl, rfl, rfl, rfl, rfl, rfl, ?_, ?_, rfl, rfl, rfl, rfl, rfl⟩
  · cases coin <;> rfl
  · simp only [randomSplitter]
    split
    · rfl
    · split
      · rfl
      · cases coin <;> rfl

/-- The defect that was repaired (`fix: InDomainSplitRandom …`): on a two-value domain the old
`>=` branch proposed an already true predicate. -/
theorem split_random_old_code_decided (x : Nat) (lb : Int) :
    ¬ Undecided [lb, lb + 1] (Atom.ge x (splitPoint [lb, lb + 1])) :=
  inDomainSplitRandom_unfixed_decided x lb

/-- Non-vacuity: a sparse domain with negative values and holes at the bounds. -/
example : Sorted [-5, -2, -1, 3] := ⟨by decide, by decide, by decide, trivial⟩
example : 2 ≤ [-5, -2, -1, 3].length ∧
    inDomainMiddle 0 [-5, -2, -1, 3] = Atom.eq 0 (-1) ∧
    inDomainInterval 0 [-5, -2, -1, 3] = Atom.le 0 (-5) ∧
    inDomainMedian 0 [-5, -2, -1, 3] = Atom.eq 0 (-1) := by decide

/-- What "currently neither true nor false" means in the solver: `evaluate_predicate` of the domain
store (`Model/Assignments.lean`, tied to the real `Assignments` by the `asg` correspondence) answers
`None` for a predicate over a non-empty domain **iff** some value of the domain satisfies it and some
value does not — in every state reachable by any sequence of store operations. -/
theorem undecided_iff_evaluate_none (ops : List Asg.St.Op) (p : Atom)
    (hx : p.var < (Asg.St.run Asg.St.empty ops).doms.length)
    (hne : (Asg.St.run Asg.St.empty ops).lb p.var ≤ (Asg.St.run Asg.St.empty ops).ub p.var) :
    (Asg.St.run Asg.St.empty ops).evaluate p = none ↔
      (∃ v, (Asg.St.run Asg.St.empty ops).contains p.var v = true ∧ p.holdsVal v = true) ∧
      (∃ v, (Asg.St.run Asg.St.empty ops).contains p.var v = true ∧ p.holdsVal v = false) :=
  Asg.evaluate_none_iff ops p hx hne

end Pumpkin.C18
