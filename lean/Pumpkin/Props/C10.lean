/-
C10 — the solver stays usable and correct across any sequence of API calls.

`Api` is the life-cycle automaton of `ConstraintSatisfactionSolver` (`CSPSolverState`) as far as the
public operations drive it: which state each operation requires (`declare_solving` asserts
Ready or Conflict), which state it leaves, and what `restore_state_at_root` does. With the repaired
`restore_state_at_root` (fix: "make the solver ready again after a solve that ends at the root
level") every operation sequence keeps the automaton out of `panic`, and after each returning
operation the state is Ready or Infeasible; on the unrepaired transition table the sequence
`[solveRoot, solve]` panics (`old_code_panics`).
The answers themselves are judged, per history, by the acceptors against the accumulated model.
-/
import Pumpkin.Spec.Basic
import Pumpkin.Check.Oracle
import Pumpkin.Props.C03

namespace Pumpkin.C10

inductive St | ready | solving | hasSolution | timeout | infeasible | infeasibleAssump | panic
deriving DecidableEq, Repr

/-- outcome of one run of the search loop -/
inductive Outcome
  | solution (atRoot : Bool)      -- Feasible; `atRoot`: the search never left decision level 0
  | unsat                          -- conflict at level 0
  | unsatAssump                    -- an assumption could not be posted
  | timeout (atRoot : Bool)
deriving DecidableEq, Repr

/-- `solve_under_assumptions` followed by what `Solver::satisfy` / `…_under_assumptions` + drop of
the result do (`restore_state_at_root`). `fixed = false` is the transition table before the repair. -/
def solveOp (fixed : Bool) (s : St) (o : Outcome) : St :=
  match s with
  | .infeasible => .infeasible            -- `is_inconsistent` ⇒ returns Infeasible immediately
  | .infeasibleAssump => .panic           -- `initialise` asserts this cannot be
  | .ready =>
    match o with
    | .unsat => .infeasible
    | .unsatAssump => .ready               -- level ≥ 1 at the failed assumption; restore ⇒ Ready
    | .solution atRoot => if atRoot && !fixed then .hasSolution else .ready
    | .timeout atRoot => if atRoot && !fixed then .timeout else .ready
  | _ => .panic                            -- `declare_solving` asserts Ready (or Conflict)

/-- posting a constraint / clause at the root -/
def postOp (s : St) (rootConflict : Bool) : St :=
  match s with
  | .ready => if rootConflict then .infeasible else .ready
  | .infeasible => .infeasible            -- returns Err without touching anything
  | other => other

inductive Op | solve (o : Outcome) | post (rootConflict : Bool)
deriving Repr

def step (fixed : Bool) (s : St) : Op → St
  | .solve o => solveOp fixed s o
  | .post c => postOp s c

def run (fixed : Bool) (ops : List Op) : St := ops.foldl (step fixed) .ready

/-- With the repaired code no sequence of operations reaches `panic`, and the solver is always
left Ready or Infeasible. -/
theorem api_no_panic (ops : List Op) : run true ops = .ready ∨ run true ops = .infeasible := by
  suffices h : ∀ s, (s = .ready ∨ s = .infeasible) →
      (ops.foldl (step true) s = .ready ∨ ops.foldl (step true) s = .infeasible) from
    h .ready (Or.inl rfl)
  induction ops with
  | nil => intro s hs; simpa using hs
  | cons op ops ih =>
    intro s hs
    simp only [List.foldl_cons]
    apply ih
    rcases hs with rfl | rfl
    · cases op with
      | solve o => cases o <;> simp [step, solveOp]
      | post c => cases c <;> simp [step, postOp]
    · cases op with
      | solve o => simp [step, solveOp]
      | post c => simp [step, postOp]

/-- Before the repair: a solve that ends at the root followed by another solve panics. -/
theorem old_code_panics : run false [.solve (.solution true), .solve (.solution false)] = .panic := by
  decide

theorem old_code_panics_after_timeout :
    run false [.solve (.timeout true), .solve (.solution false)] = .panic := by decide

/-- Every later solve answers for the model accumulated so far: adding constraints only filters the
solution list (used by the acceptors for the accumulated model). -/
theorem accumulated (m : Model) (c : Cons) :
    solutions (C03.addCons m c) = (solutions m).filter (fun a => c.sat a) := C03.solutions_addCons m c

end Pumpkin.C10
