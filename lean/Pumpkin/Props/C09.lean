/-
C09 — reified and half-reified constraints have implication / equivalence semantics.

`Spec` gives `implied r c` and `reif r c` their documented meaning directly; here the way the
library *builds* them (`constraints/mod.rs`, `arithmetic/*.rs`, `clause.rs`) is modelled and
proved equal to that meaning: `reify = implied_by r ∧ negation.implied_by ¬r`, and the
`negation()` of each negatable constraint is the complement.
-/
import Pumpkin.Spec.Basic
import Pumpkin.Check.Oracle

namespace Pumpkin.C09

theorem sumViews_cons (t : View) (ts : List View) (a : List Int) :
    sumViews (t :: ts) a = t.eval a + sumViews ts a := by
  have key : ∀ (l : List Int) (z : Int), l.foldl (· + ·) z = z + l.foldl (· + ·) 0 := by
    intro l
    induction l with
    | nil => intro z; simp
    | cons x xs ih => intro z; simp only [List.foldl_cons]; rw [ih (z + x), ih (0 + x)]; omega
  simp only [sumViews, List.map_cons, List.foldl_cons]
  rw [key]; omega

theorem sumViews_neg (ts : List View) (a : List Int) :
    sumViews (ts.map (·.scaled (-1))) a = - sumViews ts a := by
  induction ts with
  | nil => simp [sumViews]
  | cons t ts ih =>
    rw [List.map_cons, sumViews_cons, sumViews_cons, ih, View.scaled_eval]; omega

/-- `Inequality::negation`: terms scaled by -1, rhs `-rhs - 1` -/
def negLinLe (ts : List View) (c : Int) : Cons := Cons.linLe (ts.map (·.scaled (-1))) (-c - 1)

theorem negLinLe_sat (ts : List View) (c : Int) (a : List Int) :
    (negLinLe ts c).sat a = !(Cons.linLe ts c).sat a := by
  simp only [negLinLe, Cons.sat, sumViews_neg]
  rw [Bool.eq_iff_iff]; simp; omega

/-- `EqualConstraint::post`: two inequalities -/
def equalsAsInequalities (ts : List View) (c : Int) : List Cons :=
  [Cons.linLe ts c, Cons.linLe (ts.map (·.scaled (-1))) (-c)]

theorem equals_decomposition (ts : List View) (c : Int) (a : List Int) :
    (equalsAsInequalities ts c).all (·.sat a) = (Cons.linEq ts c).sat a := by
  simp only [equalsAsInequalities, List.all_cons, List.all_nil, Bool.and_true, Cons.sat, sumViews_neg]
  rw [Bool.eq_iff_iff]; simp; omega

/-- negation of equality is disequality and vice versa; clause ↔ conjunction of negated literals -/
theorem neg_eq_ne (ts : List View) (c : Int) (a : List Int) :
    (Cons.linNe ts c).sat a = !(Cons.linEq ts c).sat a := by
  simp [Cons.sat]

theorem neg_clause_conj (ls : List Atom) (a : List Int) :
    (Cons.conj (ls.map Atom.neg)).sat a = !(Cons.clause ls).sat a := by
  simp only [Cons.sat, List.all_map]
  induction ls with
  | nil => simp
  | cons l ls ih =>
    simp only [List.all_cons, List.any_cons, Function.comp, Atom.neg_holds, Bool.not_or] at *
    rw [ih]

/-- `Clause::implied_by`: the clause extended with the negated reification literal -/
theorem clause_implied_by (r : Atom) (ls : List Atom) (a : List Int) :
    (Cons.clause (ls ++ [r.neg])).sat a = (Cons.implied r (Cons.clause ls)).sat a := by
  simp only [Cons.sat, List.any_append, List.any_cons, List.any_nil, Bool.or_false, Atom.neg_holds]
  cases r.holds a <;> simp

/-- `NegatableConstraint::reify`: `self.implied_by(r)` and `self.negation().implied_by(!r)` -/
theorem reify_decomposition (r : Atom) (c cneg : Cons) (a : List Int)
    (hneg : cneg.sat a = !c.sat a) :
    ((Cons.implied r c).sat a && (Cons.implied r.neg cneg).sat a) = (Cons.reif r c).sat a := by
  simp only [Cons.sat, Atom.neg_holds, hneg]
  cases r.holds a <;> cases c.sat a <;> rfl

theorem neg_neg_sat (c : Cons) (a : List Int) : (Cons.neg (Cons.neg c)).sat a = c.sat a := by
  simp [Cons.sat]

/-- The meaning does not depend on the reification literal's status: it is a statement about
assignments, so it holds whether `r` is free, true or false when the constraint is posted. -/
theorem implied_cases (r : Atom) (c : Cons) (a : List Int) :
    (r.holds a = false → (Cons.implied r c).sat a = true) ∧
    (r.holds a = true → (Cons.implied r c).sat a = c.sat a) := by
  simp only [Cons.sat]
  constructor <;> intro h <;> simp [h]

end Pumpkin.C09
