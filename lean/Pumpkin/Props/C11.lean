/-
C11 — interrupting a solve never produces a wrong definitive answer.

The result mapping of `api/solver.rs` and `optimisation/*.rs` (`CSPSolverExecutionFlag` ↦ result):
a Timeout flag is never mapped to Unsatisfiable or Optimal, and when optimising it is mapped to
the best solution found so far, which (by `lsu_optimal`'s invariant) is a solution of the original
model. After the interrupted solve the life-cycle automaton of C10 is Ready again.
-/
import Pumpkin.Spec.Basic
import Pumpkin.Check.Oracle
import Pumpkin.Props.C04
import Pumpkin.Props.C10

namespace Pumpkin.C11

inductive Flag | feasible | infeasible | timeout deriving DecidableEq, Repr
inductive SatResult | satisfiable | unsatisfiable | unknown deriving DecidableEq, Repr
inductive OptResult | optimal | satisfiable | unsatisfiable | unknown deriving DecidableEq, Repr

/-- `Solver::satisfy`: `match self.satisfaction_solver.solve(..)` -/
def mapSatisfy : Flag → SatResult
  | .feasible => .satisfiable
  | .infeasible => .unsatisfiable
  | .timeout => .unknown

/-- `LinearSatUnsat::optimise` / `LinearUnsatSat::optimise`: first solve -/
def mapFirstSolve : Flag → Option OptResult
  | .feasible => none              -- continue with the loop
  | .infeasible => some .unsatisfiable
  | .timeout => some .unknown

/-- … and a solve inside the loop (an incumbent exists) -/
def mapLoopSolveLsu : Flag → Option OptResult
  | .feasible => none
  | .infeasible => some .optimal
  | .timeout => some .satisfiable

theorem timeout_never_definitive :
    mapSatisfy .timeout = .unknown ∧ mapFirstSolve .timeout = some .unknown ∧
    mapLoopSolveLsu .timeout = some .satisfiable := ⟨rfl, rfl, rfl⟩

theorem definitive_only_from_definitive (f : Flag) :
    (mapSatisfy f = .unsatisfiable → f = .infeasible) ∧
    (mapLoopSolveLsu f = some .optimal → f = .infeasible) ∧
    (mapFirstSolve f = some .unsatisfiable → f = .infeasible) := by
  cases f <;> simp [mapSatisfy, mapLoopSolveLsu, mapFirstSolve]

/-- The incumbent of linear SAT-UNSAT is a solution of the original model at every moment, so the
best-so-far solution reported after an interruption satisfies the model: interrupting = running
with less fuel. -/
theorem best_so_far_is_solution (s : C03.Solve) (obj : View) (fuel : Nat) (m : Model) (best : List Int)
    (hb : m.sat best = true) : m.sat (C04.lsu s obj fuel m best) = true := by
  induction fuel generalizing m best with
  | zero => simpa [C04.lsu] using hb
  | succ fuel ih =>
    cases hr : s.run (C03.addCons m (C04.cut obj (obj.eval best))) with
    | none => simpa [C04.lsu, hr] using hb
    | some a =>
      have ha := s.sound _ a hr
      have := ih (C03.addCons m (C04.cut obj (obj.eval best))) a ha
      have hl : C04.lsu s obj (fuel + 1) m best =
          C04.lsu s obj fuel (C03.addCons m (C04.cut obj (obj.eval best))) a := by simp [C04.lsu, hr]
      rw [hl]
      rw [C04.addCons_sat, Bool.and_eq_true] at this
      exact this.1

/-- After an interrupted solve the solver is Ready (repaired code), whatever the level at which the
interruption happened. -/
theorem ready_after_timeout (atRoot : Bool) : C10.run true [.solve (.timeout atRoot)] = .ready := by
  cases atRoot <;> rfl

end Pumpkin.C11
