/-
C05 — assumption solving and extracted cores are sound.

* a solution under assumptions is accepted iff it satisfies the model and every assumption
  (`withAtoms_sat`);
* "unsatisfiable under assumptions" is accepted iff model ∧ assumptions has no solution;
* a core is accepted iff `IsCore` holds (`checkCore_iff`): every core predicate is implied by the
  assumptions (relative to the declared domains) and model ∧ core is inconsistent;
* a "conflicting assumptions" report is accepted iff the assumption list contains a pair the
  code's own test `is_mutually_exclusive_with` (modelled by `Atom.mutex`) calls exclusive, and by
  `Atom.mutex_iff` that test is exact;
* assumptions are not retained: the solve after the assumption solves is judged against the
  original model.
-/
import Pumpkin.Spec.Basic
import Pumpkin.Check.Oracle
import Pumpkin.Model.Predicate

namespace Pumpkin.C05

theorem assumed_solution (m : Model) (as : List Atom) (a : List Int)
    (h : (m.withAtoms as).sat a = true) : m.sat a = true ∧ ∀ p ∈ as, p.holds a = true := by
  rw [withAtoms_sat, Bool.and_eq_true, List.all_eq_true] at h
  exact h

theorem unsat_under_assumptions (m : Model) (as : List Atom)
    (h : (solutions m).filter (fun a => as.all (·.holds a)) = []) :
    ∀ a, m.sat a = true → ¬ ∀ p ∈ as, p.holds a = true := by
  intro a ha hall
  have hm := (mem_solutions m a).2 ha
  have : a ∈ (solutions m).filter (fun a => as.all (·.holds a)) := by
    simp only [List.mem_filter, List.all_eq_true]
    exact ⟨hm, hall⟩
  simp [h] at this

theorem core_accepted_iff (m : Model) (as core : List Atom) :
    checkCore m as core = true ↔ IsCore m as core := checkCore_iff m as core

/-- A core really refutes model ∧ assumptions. -/
theorem core_refutes (m : Model) (as core : List Atom) (h : IsCore m as core) :
    ∀ a, m.sat a = true → ¬ ∀ p ∈ as, p.holds a = true := by
  intro a ha hall
  have hd : inDoms m.doms a = true := by
    simp only [Model.sat, Bool.and_eq_true] at ha; exact ha.1
  exact h.2 a ha (fun c hc => h.1 c hc a hd hall)

/-- The code's conflicting-pair test is exact. -/
theorem mutex_exact (p q : Atom) :
    p.mutex q = true ↔ p.var = q.var ∧ ∀ z : Int, ¬ (p.holdsVal z = true ∧ q.holdsVal z = true) :=
  Atom.mutex_iff p q

/-- A predicate and its negation are always mutually exclusive. -/
theorem mutex_neg (p : Atom) : p.mutex p.neg = true := by
  cases p <;> simp [Atom.mutex, Atom.neg] <;> omega

example : checkCore (Model.mk [[0, 1, 2], [0, 1, 2], [0, 1, 2]] [Cons.allDiff [⟨1, 0, 0⟩, ⟨1, 0, 1⟩, ⟨1, 0, 2⟩]])
    [Atom.eq 0 1, Atom.le 1 1, Atom.ne 1 0, Atom.ge 2 0] [Atom.eq 0 1, Atom.eq 1 1] = true := by decide

end Pumpkin.C05
