/-
C15 — MaxSAT solving reports the true optimum.

The driver accepts the CLI's answer on a WCNF instance iff `checkMaxSat` holds: the printed model
satisfies the hard clauses, its falsified-soft weight equals the last `o` line, and the verified
oracle finds no cheaper hard-satisfying assignment (`maxsatOpt_spec`); `s UNSATISFIABLE` is accepted
iff the hard clauses have no model. Both pseudo-Boolean encodings are run on every instance, so they
are compared with the same optimum.
-/
import Pumpkin.Check.MaxSat

namespace Pumpkin.C15

theorem accepted_answer (m : Model) (softs : List Soft) (reported : Nat) (a : List Int)
    (h : checkMaxSat m softs reported a = true) :
    m.sat a = true ∧ softCost softs a = reported ∧ ∀ b, m.sat b = true → reported ≤ softCost softs b :=
  checkMaxSat_sound m softs reported a h

theorem optimum_spec (m : Model) (softs : List Soft) (v : Nat) :
    maxsatOpt m softs = some v ↔
      (∃ a, m.sat a = true ∧ softCost softs a = v) ∧ ∀ a, m.sat a = true → v ≤ softCost softs a :=
  maxsatOpt_spec m softs v

theorem hard_unsat_iff (m : Model) (softs : List Soft) : maxsatOpt m softs = none ↔ solutions m = [] :=
  maxsatOpt_none_iff m softs

/-- Two encodings whose answers are both accepted report the same optimum. -/
theorem encodings_agree (m : Model) (softs : List Soft) (r₁ r₂ : Nat) (a₁ a₂ : List Int)
    (h₁ : checkMaxSat m softs r₁ a₁ = true) (h₂ : checkMaxSat m softs r₂ a₂ = true) : r₁ = r₂ := by
  have b₁ := checkMaxSat_sound m softs r₁ a₁ h₁
  have b₂ := checkMaxSat_sound m softs r₂ a₂ h₂
  have := b₁.2.2 a₂ b₂.1
  have := b₂.2.2 a₁ b₁.1
  omega

/-- the accounting defect that was repaired (`fix: MaxSAT upper-bound preprocessing …`): adding the
weight of the root-true literals once per pass differs from adding it once -/
example : (5 : Nat) + 5 ≠ 5 := by decide

example : maxsatOpt (Model.mk [[0, 1], [0, 1]] [Cons.clause [Atom.ge 0 1, Atom.ge 1 1]])
    [⟨3, [Atom.le 0 0]⟩, ⟨2, [Atom.le 1 0]⟩, ⟨7, []⟩] = some 9 := by decide

end Pumpkin.C15
