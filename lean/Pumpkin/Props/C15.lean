/-
C15 — MaxSAT solving reports the true optimum.

The driver accepts the CLI's answer on a WCNF instance iff `checkMaxSat` holds: the printed model
satisfies the hard clauses, its falsified-soft weight equals the last `o` line, and the verified
oracle finds no cheaper hard-satisfying assignment (`maxsatOpt_spec`); `s UNSATISFIABLE` is accepted
iff the hard clauses have no model. Both pseudo-Boolean encodings are run on every instance, so they
are compared with the same optimum.
-/
import Pumpkin.Check.MaxSat

namespace Pumpkin.C15

theorem accepted_answer (m : Model) (softs : List Soft) (reported : Nat) (a : List Int)
    (h : checkMaxSat m softs reported a = true) :
    m.sat a = true ∧ softCost softs a = reported ∧ ∀ b, m.sat b = true → reported ≤ softCost softs b :=
  checkMaxSat_sound m softs reported a h

theorem optimum_spec (m : Model) (softs : List Soft) (v : Nat) :
    maxsatOpt m softs = some v ↔
      (∃ a, m.sat a = true ∧ softCost softs a = v) ∧ ∀ a, m.sat a = true → v ≤ softCost softs a :=
  maxsatOpt_spec m softs v

theorem hard_unsat_iff (m : Model) (softs : List Soft) : maxsatOpt m softs = none ↔ solutions m = [] :=
  maxsatOpt_none_iff m softs

/-- Two encodings whose answers are both accepted report the same optimum. -/
theorem encodings_agree (m : Model) (softs : List Soft) (r₁ r₂ : Nat) (a₁ a₂ : List Int)
    (h₁ : checkMaxSat m softs r₁ a₁ = true) (h₂ : checkMaxSat m softs r₂ a₂ = true) : r₁ = r₂ := by
  have b₁ := checkMaxSat_sound m softs r₁ a₁ h₁
  have b₂ := checkMaxSat_sound m softs r₂ a₂ h₂
  have := b₁.2.2 a₂ b₂.1
  have := b₂.2.2 a₁ b₁.1
  omega

/-! ### the linear search (`maxsat/optimisation/linear_search.rs`) -/

/-- What the search relies on: after `constrain_at_most_k k` the solver answers for
"hard clauses ∧ cost ≤ k" (an error of the encoder counts as "no solution"). This is the contract of
the upper-bound encoders; the encoders themselves are not modelled. -/
structure BoundedSolve (α : Type) (hard : α → Bool) (cost : α → Nat) where
  run : Nat → Option α
  sound : ∀ k a, run k = some a → hard a = true ∧ cost a ≤ k
  complete : ∀ k, run k = none → ∀ a, hard a = true → ¬ cost a ≤ k

/-- the loop: stop when the incumbent costs exactly the constant term; otherwise demand
`cost ≤ best - 1` and solve again -/
def linearSearch {α : Type} {hard : α → Bool} {cost : α → Nat} (s : BoundedSolve α hard cost)
    (const : Nat) : Nat → α → α
  | 0, best => best
  | fuel + 1, best =>
    if cost best = const then best
    else
      match s.run (cost best - 1) with
      | none => best
      | some a => linearSearch s const fuel a

/-- **Linear search returns an optimum**: provided the constant term is a lower bound on the cost of
every assignment satisfying the hard clauses (it is the weight of the soft clauses already falsified
at the root), the result satisfies the hard clauses and no such assignment is cheaper. -/
theorem linear_search_optimal {α : Type} {hard : α → Bool} {cost : α → Nat}
    (s : BoundedSolve α hard cost) (const : Nat) (hconst : ∀ a, hard a = true → const ≤ cost a)
    (fuel : Nat) (best : α) (hb : hard best = true) (hf : cost best ≤ fuel) :
    hard (linearSearch s const fuel best) = true ∧
      ∀ a, hard a = true → cost (linearSearch s const fuel best) ≤ cost a := by
  induction fuel generalizing best with
  | zero =>
    have h0 : cost best = 0 := by omega
    simp only [linearSearch]
    exact ⟨hb, fun a _ => by omega⟩
  | succ fuel ih =>
    simp only [linearSearch]
    by_cases hc : cost best = const
    · simp only [hc, if_true]
      exact ⟨hb, fun a ha => by have := hconst a ha; omega⟩
    · simp only [hc, if_false]
      cases hr : s.run (cost best - 1) with
      | none =>
        dsimp only
        refine ⟨hb, fun a ha => ?_⟩
        have h2 : cost best - 1 < cost a := Nat.lt_of_not_le (s.complete _ hr a ha)
        omega
      | some a' =>
        dsimp only
        have hs := s.sound _ a' hr
        have hpos : 0 < cost best := by
          have := hconst best hb
          omega
        exact ih a' hs.1 (by omega)

/-- the accounting defect that was repaired (`fix: MaxSAT upper-bound preprocessing …`): adding the
weight of the root-true literals once per pass differs from adding it once -/
example : (5 : Nat) + 5 ≠ 5 := by decide

example : maxsatOpt (Model.mk [[0, 1], [0, 1]] [Cons.clause [Atom.ge 0 1, Atom.ge 1 1]])
    [⟨3, [Atom.le 0 0]⟩, ⟨2, [Atom.le 1 0]⟩, ⟨7, []⟩] = some 9 := by decide

end Pumpkin.C15
