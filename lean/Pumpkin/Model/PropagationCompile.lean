/-
The decomposition of constraints into propagators (`Pg.compile`, mirroring
`pumpkin_solver::constraints`) preserves the meaning, and therefore the model of posting a whole
model at the root (`Pg.rootFix`) never loses a solution of the `Spec` model and reports infeasibility
only for models without solutions.
-/
import Pumpkin.Model.PropagationArith
import Pumpkin.Props.C09

namespace Pumpkin.Pg

open Pumpkin.AtomRup (val_mem_of_inDoms)

theorem negCons_sat {c c' : Cons} (h : negCons c = some c') (a : List Int) : c'.sat a = !c.sat a := by
  cases c <;> simp only [negCons, Option.some.injEq] at h <;> try (cases h)
  · exact C09.negLinLe_sat _ _ a
  · exact C09.neg_eq_ne _ _ a
  · simp [Cons.sat]
  · exact C09.neg_clause_conj _ a
  · rename_i ls
    simp only [Cons.sat]
    induction ls with
    | nil => rfl
    | cons l ls ih => simp only [List.map_cons, List.any_cons, List.all_cons, Atom.neg_holds, ih, Bool.not_and]
  · simp [Cons.sat]

theorem resolveNeg_sat (fuel : Nat) (c c' : Cons) (h : resolveNeg fuel c = some c') (a : List Int) :
    c'.sat a = c.sat a := by
  induction fuel generalizing c c' with
  | zero => simp [resolveNeg] at h
  | succ k ih =>
    cases c with
    | neg c0 =>
      simp only [resolveNeg, Option.bind_eq_some_iff] at h
      obtain ⟨c1, h1, h2⟩ := h
      rw [negCons_sat h2 a, ih c0 c1 h1]
      simp [Cons.sat]
    | _ => simp only [resolveNeg, Option.some.injEq] at h; subst h; rfl

def impHolds (imp : Option Atom) (a : List Int) : Prop :=
  match imp with
  | none => True
  | some r => r.holds a = true

theorem wrap_sat (imp : Option Atom) (p : PropInst) (a : List Int)
    (H : impHolds imp a → p.cons.sat a = true) : (compileWith.wrap imp p).cons.sat a = true := by
  cases imp with
  | none => exact H trivial
  | some r =>
    simp only [compileWith.wrap, PropInst.cons, Cons.sat, Bool.or_eq_true, Bool.not_eq_true']
    cases hr : r.holds a with
    | false => left; rfl
    | true => right; exact H hr

theorem sdOf_sem {vs : List Int} {z : Int} (h : z ∈ vs) : (sdOf vs).Sem z := by
  refine ⟨rfl, minL_le h, le_maxL h, ?_⟩
  simp only [sdOf, List.mem_filter, Bool.not_eq_true', not_and]
  intro _ hc
  have : vs.contains z = true := List.contains_iff_mem.2 h
  rw [this] at hc; cases hc

theorem sdOfVar_sem {orig : Doms} {a : List Int} (h : inDoms orig a = true) (x : Nat) :
    (sdOfVar orig x).Sem (val a x) := by
  unfold sdOfVar
  split
  · rename_i hx
    exact sdOf_sem (val_mem_of_inDoms h hx)
  · rename_i hx
    have hlen := inDoms_length h
    have : val a x = 0 := by
      simp only [val, List.getD_eq_getElem?_getD]
      rw [List.getElem?_eq_none (by omega)]
      rfl
    rw [this]
    exact ⟨rfl, Int.le_refl _, Int.le_refl _, by simp⟩

theorem clauseInst_fwd {orig : Doms} {a : List Int} (hin : inDoms orig a = true) (ls : List Atom)
    (hs : ∃ l ∈ ls, l.holds a = true) : ∀ p ∈ clauseInst orig ls, p.cons.sat a = true := by
  intro p hp
  unfold clauseInst minClause at hp
  have key := SemMin.minimise_sem (sdOfVar orig) (ls.map Atom.neg) true a (sdOfVar_sem hin)
  cases hm : SemMin.minimise (sdOfVar orig) (ls.map Atom.neg) true with
  | none => rw [hm] at hp; simp at hp
  | some out =>
    rw [hm] at hp key
    simp only [Option.map_some, List.mem_singleton] at hp
    subst hp
    simp only [PropInst.cons, Cons.sat, List.any_map, List.any_eq_true, Function.comp, Atom.neg_holds]
    cases hall : out.all (·.holds a) with
    | true =>
      exfalso
      have := key.2 (fun q hq => List.all_eq_true.1 hall q hq)
      obtain ⟨l, hl, hla⟩ := hs
      have := this l.neg (List.mem_map.2 ⟨l, hl, rfl⟩)
      rw [Atom.neg_holds, hla] at this
      cases this
    | false =>
      have : ∃ q ∈ out, ¬ (q.holds a = true) := by
        simpa using hall
      obtain ⟨q, hq, hqa⟩ := this
      exact ⟨q, hq, by simpa using hqa⟩

theorem mem_pairs {x y : View} {xs : List View} (h : (x, y) ∈ pairs xs) : ∃ i j : Nat, i < j ∧ xs[i]? = some x ∧ xs[j]? = some y := by
  induction xs with
  | nil => simp [pairs] at h
  | cons z zs ih =>
    simp only [pairs, List.mem_append, List.mem_map, Prod.mk.injEq] at h
    rcases h with ⟨w, hw, rfl, rfl⟩ | h
    · obtain ⟨j, hj⟩ := List.getElem?_of_mem hw
      exact ⟨0, j + 1, by omega, by simp, by simpa using hj⟩
    · obtain ⟨i, j, hij, hi, hj⟩ := ih h
      exact ⟨i + 1, j + 1, by omega, by simpa using hi, by simpa using hj⟩

theorem pairwiseNe_get {l : List Int} (h : pairwiseNe l = true) {i j : Nat} (hij : i < j) {u v : Int}
    (hi : l[i]? = some u) (hj : l[j]? = some v) : u ≠ v := by
  induction l generalizing i j with
  | nil => simp at hi
  | cons x xs ih =>
    simp only [pairwiseNe, Bool.and_eq_true, List.all_eq_true, decide_eq_true_eq] at h
    cases i with
    | zero =>
      simp at hi; subst hi
      cases j with
      | zero => omega
      | succ j =>
        simp at hj
        exact h.1 v (List.mem_of_getElem? hj)
    | succ i =>
      cases j with
      | zero => omega
      | succ j => exact ih h.2 (i := i) (j := j) (by omega) (by simpa using hi) (by simpa using hj)

/-- posting a constraint (or posting it under a reification literal) yields propagators whose
constraints all hold whenever the constraint (under the literal) holds -/
theorem compileWith_fwd (orig : Doms) (imp : Option Atom) (c : Cons) (ps : List PropInst)
    (hc : compileWith orig imp c = some ps) (a : List Int) (hin : inDoms orig a = true)
    (H : impHolds imp a → c.sat a = true) : ∀ p ∈ ps, p.cons.sat a = true := by
  intro p hp
  cases c <;> simp only [compileWith, Option.some.injEq] at hc <;> try (cases hc)
  · -- linLe
    simp only [List.mem_singleton] at hp; subst hp
    exact wrap_sat imp _ a H
  · -- linEq
    simp only [List.mem_cons, List.mem_singleton, List.not_mem_nil, or_false] at hp
    rename_i ts c
    have hdec := C09.equals_decomposition ts c a
    simp only [C09.equalsAsInequalities, List.all_cons, List.all_nil, Bool.and_true] at hdec
    rcases hp with rfl | rfl
    · apply wrap_sat imp _ a
      intro hi
      have := H hi
      rw [← hdec, Bool.and_eq_true] at this
      exact this.1
    · apply wrap_sat imp _ a
      intro hi
      have := H hi
      rw [← hdec, Bool.and_eq_true] at this
      exact this.2
  · simp only [List.mem_singleton] at hp; subst hp; exact wrap_sat imp _ a H
  · simp only [List.mem_singleton] at hp; subst hp; exact wrap_sat imp _ a H
  · simp only [List.mem_singleton] at hp; subst hp; exact wrap_sat imp _ a H
  · simp only [List.mem_singleton] at hp; subst hp; exact wrap_sat imp _ a H
  · simp only [List.mem_singleton] at hp; subst hp; exact wrap_sat imp _ a H
  · -- min
    simp only [List.mem_singleton] at hp; subst hp
    apply wrap_sat imp _ a
    intro hi
    have := H hi
    rename_i xs r
    simp only [Cons.sat, Bool.and_eq_true, List.all_eq_true, List.any_eq_true, decide_eq_true_eq] at this
    simp only [PropInst.cons, Cons.sat, Bool.and_eq_true, List.all_eq_true, List.any_eq_true, decide_eq_true_eq, negViews]
    refine ⟨?_, ?_⟩
    · intro y hy
      obtain ⟨x, hx, rfl⟩ := List.mem_map.1 hy
      have := this.1 x hx
      simp only [neg, View.scaled_eval]; omega
    · obtain ⟨x, hx, he⟩ := this.2
      exact ⟨neg x, List.mem_map.2 ⟨x, hx, rfl⟩, by simp only [neg, View.scaled_eval]; omega⟩
  · simp only [List.mem_singleton] at hp; subst hp; exact wrap_sat imp _ a H
  · -- allDiff
    rename_i xs
    simp only [List.mem_map] at hp
    obtain ⟨⟨x, y⟩, hxy, rfl⟩ := hp
    apply wrap_sat imp _ a
    intro hi
    have hs := H hi
    simp only [Cons.sat] at hs
    obtain ⟨i, j, hij, hi', hj'⟩ := mem_pairs hxy
    have := pairwiseNe_get hs hij (u := x.eval a) (v := y.eval a) (by simp [hi']) (by simp [hj'])
    simp only [PropInst.cons, Cons.sat, decide_eq_true_eq, sumViews, List.map_cons, List.map_nil, List.foldl_cons,
      List.foldl_nil, View.scaled_eval]
    omega
  · -- cumulative
    simp only [List.mem_singleton] at hp; subst hp
    exact wrap_sat imp _ a H
  · -- clause
    rename_i ls
    cases imp with
    | none =>
      exact clauseInst_fwd hin ls (by simpa [Cons.sat] using H trivial) p hp
    | some r =>
      apply clauseInst_fwd hin (ls ++ [r.neg]) _ p hp
      cases hr : r.holds a with
      | false => exact ⟨r.neg, by simp, by rw [Atom.neg_holds, hr]; rfl⟩
      | true =>
        have := H hr
        simp only [Cons.sat, List.any_eq_true] at this
        obtain ⟨l, hl, hla⟩ := this
        exact ⟨l, by simp [hl], hla⟩
  · -- conj
    rename_i ls
    simp only [List.mem_flatMap] at hp
    obtain ⟨l, hl, hp⟩ := hp
    cases imp with
    | none =>
      have := H trivial
      simp only [Cons.sat, List.all_eq_true] at this
      exact clauseInst_fwd hin [l] ⟨l, by simp, this l hl⟩ p hp
    | some r =>
      apply clauseInst_fwd hin [r.neg, l] _ p hp
      cases hr : r.holds a with
      | false => exact ⟨r.neg, by simp, by rw [Atom.neg_holds, hr]; rfl⟩
      | true =>
        have := H hr
        simp only [Cons.sat, List.all_eq_true] at this
        exact ⟨l, by simp, this l hl⟩

/-- **the decomposition preserves the meaning (forward direction)** -/
theorem compile_fwd (orig : Doms) (c : Cons) (ps : List PropInst) (hc : compile orig c = some ps)
    (a : List Int) (hin : inDoms orig a = true) (hs : c.sat a = true) : ∀ p ∈ ps, p.cons.sat a = true := by
  unfold compile at hc
  split at hc
  · -- implied
    rename_i r c'
    simp only [Option.bind_eq_some_iff] at hc
    obtain ⟨c1, h1, h2⟩ := hc
    apply compileWith_fwd orig (some r) c1 ps h2 a hin
    intro hr
    rw [resolveNeg_sat _ _ _ h1 a]
    simp only [impHolds] at hr
    simpa [Cons.sat, hr] using hs
  · -- reif
    rename_i r c'
    simp only [Option.bind_eq_some_iff, Option.map_eq_some_iff] at hc
    obtain ⟨pos, h1, ng, h2, ps1, h3, ps2, h4, rfl⟩ := hc
    have e1 := resolveNeg_sat _ _ _ h1 a
    have e2 := negCons_sat h2 a
    simp only [Cons.sat, beq_iff_eq] at hs
    intro p hp
    rcases List.mem_append.1 hp with hp | hp
    · apply compileWith_fwd orig (some r) pos ps1 h3 a hin _ p hp
      intro hr
      simp only [impHolds] at hr
      rw [e1, ← hs, hr]
    · apply compileWith_fwd orig (some r.neg) ng ps2 h4 a hin _ p hp
      intro hr
      simp only [impHolds, Atom.neg_holds, Bool.not_eq_true'] at hr
      rw [e2, e1, ← hs, hr]; rfl
  · rename_i c0 _ _
    simp only [Option.bind_eq_some_iff] at hc
    obtain ⟨c1, h1, h2⟩ := hc
    apply compileWith_fwd orig none c1 ps h2 a hin
    intro _
    rw [resolveNeg_sat _ _ _ h1 a]; exact hs


/-! ### well-formedness is preserved by the decomposition -/

def consWf (n : Nat) : Cons → Prop
  | .linLe ts _ => ∀ t ∈ ts, t.var < n
  | .linEq ts _ => ∀ t ∈ ts, t.var < n
  | .linNe ts _ => ∀ t ∈ ts, t.var < n
  | .times a b c => a.var < n ∧ b.var < n ∧ c.var < n
  | .div a b c => a.var < n ∧ b.var < n ∧ c.var < n
  | .abs s r => s.var < n ∧ r.var < n
  | .max xs r => (∀ t ∈ xs, t.var < n) ∧ r.var < n
  | .min xs r => (∀ t ∈ xs, t.var < n) ∧ r.var < n
  | .element i xs r => i.var < n ∧ (∀ t ∈ xs, t.var < n) ∧ r.var < n
  | .allDiff xs => ∀ t ∈ xs, t.var < n
  | .cumulative ts _ => tasksWf n ts
  | .clause ls => ∀ p ∈ ls, p.var < n
  | .conj ls => ∀ p ∈ ls, p.var < n
  | .implied r c => r.var < n ∧ consWf n c
  | .reif r c => r.var < n ∧ consWf n c
  | .neg c => consWf n c

theorem negCons_wf {n : Nat} {c c' : Cons} (h : negCons c = some c') (hw : consWf n c) : consWf n c' := by
  cases c <;> simp only [negCons, Option.some.injEq] at h <;> try (cases h)
  · intro t ht
    obtain ⟨t', ht', rfl⟩ := List.mem_map.1 ht
    exact hw t' ht'
  · exact hw
  · exact hw
  · intro p hp
    obtain ⟨p', hp', rfl⟩ := List.mem_map.1 hp
    rw [Atom.neg_var]; exact hw p' hp'
  · intro p hp
    obtain ⟨p', hp', rfl⟩ := List.mem_map.1 hp
    rw [Atom.neg_var]; exact hw p' hp'
  · exact hw

theorem resolveNeg_wf {n : Nat} (fuel : Nat) (c c' : Cons) (h : resolveNeg fuel c = some c') (hw : consWf n c) :
    consWf n c' := by
  induction fuel generalizing c c' with
  | zero => simp [resolveNeg] at h
  | succ k ih =>
    cases c with
    | neg c0 =>
      simp only [resolveNeg, Option.bind_eq_some_iff] at h
      obtain ⟨c1, h1, h2⟩ := h
      exact negCons_wf h2 (ih c0 c1 h1 hw)
    | _ => simp only [resolveNeg, Option.some.injEq] at h; subst h; exact hw

theorem minimiseVars_vars (orig : Nat → SemMin.SD) (ng : List Atom) (merge : Bool) (xs : List Nat) (out : List Atom)
    (h : SemMin.minimiseVars orig ng merge xs = some out) : ∀ q ∈ out, q.var ∈ xs := by
  induction xs generalizing out with
  | nil => simp only [SemMin.minimiseVars, Option.some.injEq] at h; subst h; intro q hq; cases hq
  | cons x xs ih =>
    simp only [SemMin.minimiseVars] at h
    split at h
    · cases h
    · rename_i o1 h1
      split at h
      · cases h
      · rename_i o2 h2
        cases h
        intro q hq
        rcases List.mem_append.1 hq with hq | hq
        · have := SemMin.minimiseVar_var x (orig x) _ merge o1 h1 q hq
          simp [this]
        · simp [ih o2 h2 q hq]

theorem clauseInst_wf {n : Nat} (orig : Doms) (ls : List Atom) (hw : ∀ p ∈ ls, p.var < n) :
    ∀ p ∈ clauseInst orig ls, p.Wf n := by
  intro p hp
  unfold clauseInst minClause at hp
  cases hm : SemMin.minimise (sdOfVar orig) (ls.map Atom.neg) true with
  | none => rw [hm] at hp; simp at hp
  | some out =>
    rw [hm] at hp
    simp only [Option.map_some, List.mem_singleton] at hp
    subst hp
    intro q hq
    obtain ⟨q', hq', rfl⟩ := List.mem_map.1 hq
    rw [Atom.neg_var]
    have := minimiseVars_vars _ _ _ _ _ hm q' hq'
    rw [List.mem_eraseDups] at this
    obtain ⟨l, hl, e⟩ := List.mem_map.1 this
    obtain ⟨l', hl', rfl⟩ := List.mem_map.1 hl
    rw [← e, Atom.neg_var]
    exact hw l' hl'

theorem wrap_wf {n : Nat} (imp : Option Atom) (himp : ∀ r, imp = some r → r.var < n) (p : PropInst) (hp : p.Wf n) :
    (compileWith.wrap imp p).Wf n := by
  cases imp with
  | none => exact hp
  | some r => exact ⟨himp r rfl, hp⟩

theorem mem_pairs_mem {x y : View} {xs : List View} (h : (x, y) ∈ pairs xs) : x ∈ xs ∧ y ∈ xs := by
  obtain ⟨i, j, _, hi, hj⟩ := mem_pairs h
  exact ⟨List.mem_of_getElem? hi, List.mem_of_getElem? hj⟩

theorem compileWith_wf {n : Nat} (orig : Doms) (imp : Option Atom) (himp : ∀ r, imp = some r → r.var < n)
    (c : Cons) (ps : List PropInst) (hc : compileWith orig imp c = some ps) (hw : consWf n c) :
    ∀ p ∈ ps, p.Wf n := by
  intro p hp
  cases c <;> simp only [compileWith, Option.some.injEq] at hc <;> try (cases hc)
  · simp only [List.mem_singleton] at hp; subst hp; exact wrap_wf imp himp _ hw
  · simp only [List.mem_cons, List.not_mem_nil, or_false] at hp
    rcases hp with rfl | rfl
    · exact wrap_wf imp himp _ hw
    · apply wrap_wf imp himp
      intro t ht
      obtain ⟨t', ht', rfl⟩ := List.mem_map.1 ht
      exact hw t' ht'
  · simp only [List.mem_singleton] at hp; subst hp; exact wrap_wf imp himp _ hw
  · simp only [List.mem_singleton] at hp; subst hp; exact wrap_wf imp himp _ hw
  · simp only [List.mem_singleton] at hp; subst hp; exact wrap_wf imp himp _ hw
  · simp only [List.mem_singleton] at hp; subst hp; exact wrap_wf imp himp _ hw
  · simp only [List.mem_singleton] at hp; subst hp; exact wrap_wf imp himp _ hw
  · simp only [List.mem_singleton] at hp; subst hp
    apply wrap_wf imp himp
    refine ⟨?_, hw.2⟩
    intro t ht
    obtain ⟨t', ht', rfl⟩ := List.mem_map.1 ht
    exact hw.1 t' ht'
  · simp only [List.mem_singleton] at hp; subst hp; exact wrap_wf imp himp _ hw
  · rename_i xs
    simp only [List.mem_map] at hp
    obtain ⟨⟨x, y⟩, hxy, rfl⟩ := hp
    obtain ⟨hx, hy⟩ := mem_pairs_mem hxy
    apply wrap_wf imp himp
    intro t ht
    simp only [List.mem_cons, List.not_mem_nil, or_false] at ht
    rcases ht with rfl | rfl
    · exact hw x hx
    · exact hw y hy
  · simp only [List.mem_singleton] at hp; subst hp; exact wrap_wf imp himp _ hw
  · rename_i ls
    cases imp with
    | none => exact clauseInst_wf orig ls hw p hp
    | some r =>
      apply clauseInst_wf orig (ls ++ [r.neg]) _ p hp
      intro q hq
      rcases List.mem_append.1 hq with hq | hq
      · exact hw q hq
      · simp only [List.mem_singleton] at hq; subst hq; rw [Atom.neg_var]; exact himp r rfl
  · rename_i ls
    simp only [List.mem_flatMap] at hp
    obtain ⟨l, hl, hp⟩ := hp
    cases imp with
    | none =>
      apply clauseInst_wf orig [l] _ p hp
      intro q hq; simp only [List.mem_singleton] at hq; subst hq; exact hw q hl
    | some r =>
      apply clauseInst_wf orig [r.neg, l] _ p hp
      intro q hq
      simp only [List.mem_cons, List.not_mem_nil, or_false] at hq
      rcases hq with rfl | rfl
      · rw [Atom.neg_var]; exact himp r rfl
      · exact hw q hl

theorem compile_wf {n : Nat} (orig : Doms) (c : Cons) (ps : List PropInst) (hc : compile orig c = some ps)
    (hw : consWf n c) : ∀ p ∈ ps, p.Wf n := by
  unfold compile at hc
  split at hc
  · rename_i r c'
    simp only [Option.bind_eq_some_iff] at hc
    obtain ⟨c1, h1, h2⟩ := hc
    exact compileWith_wf orig (some r) (fun r' e => by cases e; exact hw.1) c1 ps h2 (resolveNeg_wf _ _ _ h1 hw.2)
  · rename_i r c'
    simp only [Option.bind_eq_some_iff, Option.map_eq_some_iff] at hc
    obtain ⟨pos, h1, ng, h2, ps1, h3, ps2, h4, rfl⟩ := hc
    have w1 := resolveNeg_wf _ _ _ h1 hw.2
    intro p hp
    rcases List.mem_append.1 hp with hp | hp
    · exact compileWith_wf orig (some r) (fun r' e => by cases e; exact hw.1) pos ps1 h3 w1 p hp
    · exact compileWith_wf orig (some r.neg) (fun r' e => by cases e; rw [Atom.neg_var]; exact hw.1) ng ps2 h4
        (negCons_wf h2 w1) p hp
  · simp only [Option.bind_eq_some_iff] at hc
    obtain ⟨c1, h1, h2⟩ := hc
    exact compileWith_wf orig none (fun r' e => by cases e) c1 ps h2 (resolveNeg_wf _ _ _ h1 hw)

/-! ### posting a whole model at the root -/

theorem initPost_ok {n : Nat} {a : List Int} (p : PropInst) (hw : p.Wf n) (hsat : p.cons.sat a = true)
    (d : Doms) (h : inDoms d a = true) (hl : d.length = n) : Ok n a (initPost d p) := by
  cases p with
  | reified r q =>
    simp only [initPost]
    apply Ok.ite
    · intro hc
      have hq : q.cons.sat a = false := by
        cases q with
        | linLe ts c => exact inconsistent_sound (.linLe ts c) hw.2 d h hl hc
        | linNe ts c =>
          simp only [PropInst.initConflict, Bool.and_eq_true, List.all_eq_true, decide_eq_true_eq] at hc
          have hwd : ∀ t ∈ ts, t.var < d.length := by rw [hl]; exact hw.2
          have hs := sum_split ts (fixed d) a
          have hnone : ts.filter (fun t => !fixed d t) = [] := by
            apply List.filter_eq_nil_iff.2
            intro y hy
            simp [hc.1 y hy]
          rw [hnone, ← fixedSum_eq h ts hwd] at hs
          simp only [PropInst.cons, Cons.sat, decide_eq_false_iff_not, Decidable.not_not]
          simp at hs
          omega
        | cumulative ho ts cap =>
          simp only [PropInst.initConflict] at hc
          cases hs : (PropInst.cumulative ho ts cap).cons.sat a
          · rfl
          · exfalso
            exact oversize_unsat ts cap hw.2 hc
              ((CumSem.cumulative_sat_iff ts cap a (fun k hk => (hw.2 k hk).2)).1 hs)
        | _ => simp [PropInst.initConflict] at hc
      simp only [PropInst.cons, Cons.sat, hq, Bool.or_false, Bool.not_eq_true'] at hsat
      apply postAtom_ok h hl (by simpa using hw.1)
      rw [Atom.neg_holds, hsat]; rfl
    · intro _; exact Ok.some h hl
  | _ => exact Ok.some h hl

theorem initPosts_ok {n : Nat} {a : List Int} (ps : List PropInst) (hw : ∀ p ∈ ps, p.Wf n)
    (hsat : ∀ p ∈ ps, p.cons.sat a = true) (d : Doms) (h : inDoms d a = true) (hl : d.length = n) :
    Ok n a (initPosts ps d) := by
  induction ps generalizing d with
  | nil => exact Ok.some h hl
  | cons p ps ih =>
    simp only [initPosts]
    apply Ok.bind (initPost_ok p (hw p (by simp)) (hsat p (by simp)) d h hl)
    intro d' h' l'
    exact ih (fun q hq => hw q (by simp [hq])) (fun q hq => hsat q (by simp [hq])) d' h' l'

theorem postAll_ok {n : Nat} {a : List Int} (orig : Doms) (horig : inDoms orig a = true) (cs : List Cons)
    (hw : ∀ c ∈ cs, consWf n c) (hsat : ∀ c ∈ cs, c.sat a = true) (ps : List PropInst)
    (hpw : ∀ p ∈ ps, p.Wf n) (hps : ∀ p ∈ ps, p.cons.sat a = true) (d : Doms) (h : inDoms d a = true)
    (hl : d.length = n) (r : Option (List PropInst × Doms)) (hr : postAll orig cs ps d = some r) :
    ∃ ps' d', r = some (ps', d') ∧ inDoms d' a = true := by
  induction cs generalizing ps d with
  | nil =>
    simp only [postAll, Option.some.injEq] at hr
    exact ⟨ps, d, hr.symm, h⟩
  | cons c cs ih =>
    simp only [postAll] at hr
    split at hr
    · cases hr
    · rename_i qs hq
      have qw := compile_wf orig c qs hq (hw c (by simp))
      have qs' := compile_fwd orig c qs hq a horig (hsat c (by simp))
      have allw : ∀ p ∈ ps ++ qs, p.Wf n := fun p hp => by
        rcases List.mem_append.1 hp with hp | hp
        · exact hpw p hp
        · exact qw p hp
      have alls : ∀ p ∈ ps ++ qs, p.cons.sat a = true := fun p hp => by
        rcases List.mem_append.1 hp with hp | hp
        · exact hps p hp
        · exact qs' p hp
      have : Ok n a ((initPosts qs d).bind (fixpoint (ps ++ qs))) := by
        apply Ok.bind (initPosts_ok qs qw qs' d h hl)
        intro d' h' l'
        exact fixpoint_ok (ps ++ qs) allw alls d' h' l'
      obtain ⟨d', e, h', l'⟩ := this
      rw [e] at hr
      simp only at hr
      exact ih (fun c' hc' => hw c' (by simp [hc'])) (fun c' hc' => hsat c' (by simp [hc'])) (ps ++ qs) allw alls d' h' l' hr

/-- **The modelled root state never loses a solution of the model, and infeasibility is only
reported for models without solutions.** -/
theorem rootFix_sound (m : Model) (hw : ∀ c ∈ m.cons, consWf m.doms.length c) (r : Option Doms)
    (hr : rootFix m.doms m.cons = some r) (a : List Int) (ha : m.sat a = true) :
    ∃ d', r = some d' ∧ inDoms d' a = true := by
  simp only [Model.sat, Bool.and_eq_true, List.all_eq_true] at ha
  unfold rootFix at hr
  rw [not_hasEmpty_of_inDoms ha.1] at hr
  simp only [Bool.false_eq_true, if_false, Option.map_eq_some_iff] at hr
  obtain ⟨r', hr', rfl⟩ := hr
  obtain ⟨ps', d', e, h'⟩ := postAll_ok (n := m.doms.length) m.doms ha.1 m.cons hw ha.2 [] (by simp) (by simp)
    m.doms ha.1 rfl r' hr'
  subst e
  exact ⟨d', rfl, h'⟩

theorem rootFix_conflict_unsat (m : Model) (hw : ∀ c ∈ m.cons, consWf m.doms.length c)
    (hr : rootFix m.doms m.cons = some none) : solutions m = [] := by
  rw [solutions_eq_nil_iff]
  intro a
  cases hs : m.sat a with
  | false => rfl
  | true =>
    obtain ⟨d', e, _⟩ := rootFix_sound m hw none hr a hs
    cases e

theorem rootFix_encloses (m : Model) (hw : ∀ c ∈ m.cons, consWf m.doms.length c) (d' : Doms)
    (hr : rootFix m.doms m.cons = some (some d')) : ∀ a ∈ solutions m, inDoms d' a = true := by
  intro a ha
  obtain ⟨d'', e, h⟩ := rootFix_sound m hw _ hr a ((mem_solutions m a).1 ha)
  cases e; exact h

end Pumpkin.Pg
