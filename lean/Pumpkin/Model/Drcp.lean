/-
Model of the DRCP text format as written by `drcp-format/src/writer/mod.rs` and read by
`drcp-format/src/reader/mod.rs`, at token level.

A line is a sequence of tokens separated by single blanks. Numbers are *untyped* tokens: whether
a number is a literal, the `0` separator, a hint or a step id is decided by the grammar, exactly as
in the nom parser (`many0(preceded(" ", literal))` stops at the first token that is not a non-zero
integer). `c:<n>` and `l:<label>` are their own token kinds. Lexing (characters ↔ tokens) is glue
code in the driver and is tied to the real writer/reader by the correspondence check.
-/
import Pumpkin.Spec.Basic

namespace Pumpkin.Drcp

inductive Tok where
  | kw (s : String)        -- i, n, d, c, UNSAT
  | num (z : Int)
  | pnum (z : Int)         -- a number spelled with an explicit `+` (accepted by nom's signed parsers only)
  | tag (n : Nat)          -- c:<n>
  | label (s : String)     -- l:<label>
deriving DecidableEq, Repr, Inhabited

inductive Step where
  | inference (id : Nat) (premises : List Int) (propagated : Option Int) (tag : Option Nat)
      (label : Option String)
  | nogood (id : Nat) (lits : List Int) (hints : Option (List Nat))
  | deletion (id : Nat)
  | unsat
  | optimal (lit : Int)
deriving DecidableEq, Repr, Inhabited

/-- `NonZero<i32>` literal codes, `NonZero<u64>` step ids, `NonZero<u32>` constraint tags -/
def isLit (z : Int) : Prop := z ≠ 0 ∧ -2147483648 ≤ z ∧ z ≤ 2147483647
def isId (z : Int) : Prop := 0 < z ∧ z ≤ 18446744073709551615
def isTag (n : Nat) : Prop := n ≠ 0 ∧ n ≤ 4294967295

instance (z : Int) : Decidable (isLit z) := by unfold isLit; infer_instance
instance (z : Int) : Decidable (isId z) := by unfold isId; infer_instance
instance (n : Nat) : Decidable (isTag n) := by unfold isTag; infer_instance

def optToks {α : Type} (f : α → List Tok) : Option α → List Tok
  | none => []
  | some a => f a

/-- `WritableProofStep::write_string` -/
def render : Step → List Tok
  | .inference id prem prop tag label =>
      [Tok.kw "i", Tok.num id] ++ prem.map Tok.num ++ optToks (fun p => [Tok.num 0, Tok.num p]) prop
        ++ optToks (fun t => [Tok.tag t]) tag ++ optToks (fun l => [Tok.label l]) label
  | .nogood id lits hints =>
      [Tok.kw "n", Tok.num id] ++ lits.map Tok.num
        ++ optToks (fun hs => Tok.num 0 :: hs.map (fun (h : Nat) => Tok.num (h : Int))) hints
  | .deletion id => [Tok.kw "d", Tok.num id]
  | .unsat => [Tok.kw "c", Tok.kw "UNSAT"]
  | .optimal l => [Tok.kw "c", Tok.num l]

/-- `many0(preceded(tag(" "), literal))`: the longest prefix of non-zero numbers -/
def takeLits : List Tok → List Int × List Tok
  | Tok.num z :: rest =>
    if isLit z then
      let (ls, r) := takeLits rest
      (z :: ls, r)
    else ([], Tok.num z :: rest)
  | Tok.pnum z :: rest =>
    if isLit z then
      let (ls, r) := takeLits rest
      (z :: ls, r)
    else ([], Tok.pnum z :: rest)
  | ts => ([], ts)

/-- `many0(preceded(tag(" "), step_id))`: the longest prefix of positive numbers -/
def takeIds : List Tok → List Nat × List Tok
  | Tok.num z :: rest =>
    if isId z then
      let (ls, r) := takeIds rest
      (z.toNat :: ls, r)
    else ([], Tok.num z :: rest)
  | ts => ([], ts)

def parseTail (id : Nat) (prem : List Int) (prop : Option Int) : List Tok → Option Step
  | [] => some (.inference id prem prop none none)
  | [Tok.tag t] => if isTag t then some (.inference id prem prop (some t) none) else none
  | [Tok.label l] => some (.inference id prem prop none (some l))
  | [Tok.tag t, Tok.label l] => if isTag t then some (.inference id prem prop (some t) (some l)) else none
  | _ => none

/-- `proof_step` = `all_consuming(alt((inference_step, nogood_step, deletion_step, conclusion_step)))` -/
def parse : List Tok → Option Step
  | Tok.kw "i" :: Tok.num id :: rest =>
    if isId id then
      let (prem, r) := takeLits rest
      match r with
      | Tok.num 0 :: Tok.num p :: r' => if isLit p then parseTail id.toNat prem (some p) r' else none
      | Tok.num 0 :: Tok.pnum p :: r' => if isLit p then parseTail id.toNat prem (some p) r' else none
      | r' => parseTail id.toNat prem none r'
    else none
  | Tok.kw "n" :: Tok.num id :: rest =>
    if isId id then
      let (lits, r) := takeLits rest
      match r with
      | [] => some (.nogood id.toNat lits none)
      | Tok.num 0 :: r' =>
        let (hs, r'') := takeIds r'
        if r'' = [] then some (.nogood id.toNat lits (some hs)) else none
      | _ => none
    else none
  | [Tok.kw "d", Tok.num id] => if isId id then some (.deletion id.toNat) else none
  | [Tok.kw "c", Tok.kw "UNSAT"] => some .unsat
  | [Tok.kw "c", Tok.num l] => if isLit l then some (.optimal l) else none
  | [Tok.kw "c", Tok.pnum l] => if isLit l then some (.optimal l) else none
  | _ => none

/-- well-formedness: what the Rust types guarantee (`NonZero` ids, literals, hints, tags) -/
def Step.WF : Step → Prop
  | .inference id prem prop tag _ =>
      isId id ∧ (∀ p ∈ prem, isLit p) ∧ (∀ p, prop = some p → isLit p) ∧ (∀ t, tag = some t → isTag t)
  | .nogood id lits hints =>
      isId id ∧ (∀ l ∈ lits, isLit l) ∧ (∀ hs, hints = some hs → ∀ h ∈ hs, isId (h : Int))
  | .deletion id => isId id
  | .unsat => True
  | .optimal l => isLit l

theorem takeLits_map (ls : List Int) (rest : List Tok) (h : ∀ l ∈ ls, isLit l)
    (hr : ∀ z r, rest = Tok.num z :: r → z = 0) (hr2 : ∀ z r, rest ≠ Tok.pnum z :: r) :
    takeLits (ls.map Tok.num ++ rest) = (ls, rest) := by
  induction ls with
  | nil =>
    simp only [List.map_nil, List.nil_append]
    cases rest with
    | nil => rfl
    | cons t r =>
      cases t with
      | num z => have := hr z r rfl; subst this; simp [takeLits, isLit]
      | kw s => rfl
      | tag n => rfl
      | label s => rfl
      | pnum z => exact absurd rfl (hr2 z r)
  | cons l ls ih =>
    have hl : isLit l := h l (by simp)
    simp only [List.map_cons, List.cons_append, takeLits, hl, if_true]
    rw [ih (fun l' hl' => h l' (List.mem_cons_of_mem _ hl'))]

theorem takeIds_map (hs : List Nat) (h : ∀ x ∈ hs, isId (x : Int)) :
    takeIds (hs.map (fun (x : Nat) => Tok.num (x : Int))) = (hs, []) := by
  induction hs with
  | nil => rfl
  | cons x xs ih =>
    have hx : isId (x : Int) := h x (by simp)
    simp only [List.map_cons, takeIds, hx, if_true]
    rw [ih (fun y hy => h y (List.mem_cons_of_mem _ hy))]
    simp

/-- **Round trip**: every well-formed step is read back unchanged — including inferences without
premises, nogoods without literals, empty hint lists and the bare empty nogood. -/
theorem parse_render (s : Step) (h : s.WF) : parse (render s) = some s := by
  cases s with
  | deletion id =>
    simp only [Step.WF] at h
    simp [render, parse, h]
  | unsat => simp [render, parse]
  | optimal l =>
    simp only [Step.WF] at h
    simp [render, parse, h]
  | nogood id lits hints =>
    obtain ⟨hid, hl, hh⟩ := h
    cases hints with
    | none =>
      simp only [render, optToks, List.append_nil, List.cons_append, List.nil_append, parse, hid,
        if_true]
      have := takeLits_map lits [] hl (by intro z r h; cases h) (by intro z r h; cases h)
      simp only [List.append_nil] at this
      rw [this]
      simp
    | some hs =>
      simp only [render, optToks, List.cons_append, List.nil_append, parse, hid, if_true]
      rw [takeLits_map lits _ hl (by intro z r h; cases h; rfl) (by intro z r h; cases h)]
      simp only [takeIds_map hs (hh hs rfl), if_true, Int.toNat_natCast]
  | inference id prem prop tag label =>
    obtain ⟨hid, hp, hprop, htag⟩ := h
    simp only [render, List.cons_append, List.nil_append, parse, hid, if_true, List.append_assoc]
    cases prop with
    | some p =>
      have hp0 : isLit p := hprop p rfl
      rw [takeLits_map prem _ hp (by intro z r h; simp [optToks] at h; exact h.1.symm)
        (by intro z r h; simp [optToks] at h)]
      cases tag with
      | none => cases label <;> simp [optToks, parseTail, hp0]
      | some t =>
        have ht := htag t rfl
        cases label <;> simp [optToks, parseTail, hp0, ht]
    | none =>
      cases tag with
      | none =>
        cases label with
        | none =>
          have := takeLits_map prem [] hp (by intro z r h; cases h) (by intro z r h; cases h)
          simp only [List.append_nil] at this
          simp [optToks, this, parseTail]
        | some l =>
          rw [takeLits_map prem _ hp (by intro z r h; simp [optToks] at h)
            (by intro z r h; simp [optToks] at h)]
          simp [optToks, parseTail]
      | some t =>
        have ht := htag t rfl
        rw [takeLits_map prem _ hp (by intro z r h; cases label <;> simp [optToks] at h)
          (by intro z r h; cases label <;> simp [optToks] at h)]
        cases label <;> simp [optToks, parseTail, ht]

/-- sequences of steps: line by line -/
theorem parse_render_seq (ss : List Step) (h : ∀ s ∈ ss, s.WF) :
    (ss.map render).mapM parse = some ss := by
  induction ss with
  | nil => rfl
  | cons s ss ih =>
    simp only [List.map_cons, List.mapM_cons, parse_render s (h s (by simp)),
      ih (fun s' hs' => h s' (List.mem_cons_of_mem _ hs'))]
    rfl

/-! ### atomic constraints (`atomic.rs`) -/

inductive Cmp | ge | le | eq | ne deriving DecidableEq, Repr

structure IntAtomic where
  name : String
  cmp : Cmp
  value : Int
deriving DecidableEq, Repr

/-- `impl Not for IntAtomicConstraint` over unbounded integers -/
def IntAtomic.not (a : IntAtomic) : IntAtomic :=
  match a.cmp with
  | .ge => { a with cmp := .le, value := a.value - 1 }
  | .le => { a with cmp := .ge, value := a.value + 1 }
  | .eq => { a with cmp := .ne }
  | .ne => { a with cmp := .eq }

theorem IntAtomic.not_not (a : IntAtomic) : a.not.not = a := by
  obtain ⟨n, c, v⟩ := a
  cases c <;> simp [IntAtomic.not] <;> omega

def wrap64 (z : Int) : Int := (z + 9223372036854775808) % 18446744073709551616 - 9223372036854775808

/-- the same with 64-bit wrap-around (what a build without overflow checks computes) -/
def IntAtomic.not64 (a : IntAtomic) : IntAtomic :=
  match a.cmp with
  | .ge => { a with cmp := .le, value := wrap64 (a.value - 1) }
  | .le => { a with cmp := .ge, value := wrap64 (a.value + 1) }
  | .eq => { a with cmp := .ne }
  | .ne => { a with cmp := .eq }

theorem IntAtomic.not64_not64 (a : IntAtomic)
    (h : -9223372036854775808 ≤ a.value ∧ a.value ≤ 9223372036854775807) : a.not64.not64 = a := by
  obtain ⟨n, c, v⟩ := a
  cases c <;> simp [IntAtomic.not64, wrap64] <;> (simp at h; omega)

structure BoolAtomic where
  name : String
  value : Bool
deriving DecidableEq, Repr

def BoolAtomic.not (a : BoolAtomic) : BoolAtomic := { a with value := !a.value }
theorem BoolAtomic.not_not (a : BoolAtomic) : a.not.not = a := by
  obtain ⟨n, v⟩ := a; simp [BoolAtomic.not]

end Pumpkin.Drcp
