/-
Models of the built-in value selectors (`branching/value_selection/*.rs`).

A domain is the sorted list of its values (`vs`), `lb = head`, `ub = last`. Each selector is a
function from the domain (and, for the randomised ones, from the random draw, which is an
argument) to the decision it proposes on variable `x`. The obligation of C18 for value selection:
on every domain with at least two values the decision is *undecided* — some value of the domain
satisfies it and some value does not.
-/
import Pumpkin.Spec.Basic

namespace Pumpkin.Branching

/-- strictly increasing list of the values of a domain -/
def Sorted : List Int → Prop
  | [] => True
  | [_] => True
  | a :: b :: rest => a < b ∧ Sorted (b :: rest)

def lbOf (vs : List Int) : Int := vs.headD 0
def ubOf (vs : List Int) : Int := vs.getLastD 0

/-- a decision is undecided on a domain: satisfied by some value and falsified by some value -/
def Undecided (vs : List Int) (p : Atom) : Prop :=
  (∃ v ∈ vs, p.holdsVal v = true) ∧ (∃ v ∈ vs, p.holdsVal v = false)

theorem sorted_tail {a : Int} {l : List Int} (h : Sorted (a :: l)) : Sorted l := by
  cases l with
  | nil => trivial
  | cons b rest => exact h.2

theorem sorted_head_lt {a : Int} {l : List Int} (h : Sorted (a :: l)) : ∀ v ∈ l, a < v := by
  induction l generalizing a with
  | nil => intro v hv; cases hv
  | cons b rest ih =>
    intro v hv
    cases hv with
    | head => exact h.1
    | tail _ hv' =>
      have := ih h.2 v hv'
      have := h.1
      omega

theorem getLastD_mem_cons (a : Int) (l : List Int) : (a :: l).getLastD 0 ∈ a :: l := by
  induction l generalizing a with
  | nil => simp [List.getLastD]
  | cons b rest ih =>
    have := ih b
    simp only [List.getLastD_cons] at *
    exact List.mem_cons_of_mem _ this

theorem lb_mem {vs : List Int} (h : vs ≠ []) : lbOf vs ∈ vs := by
  cases vs with
  | nil => exact absurd rfl h
  | cons a l => simp [lbOf]

theorem ub_mem {vs : List Int} (h : vs ≠ []) : ubOf vs ∈ vs := by
  cases vs with
  | nil => exact absurd rfl h
  | cons a l => exact getLastD_mem_cons a l

theorem lb_le {vs : List Int} (hs : Sorted vs) : ∀ v ∈ vs, lbOf vs ≤ v := by
  cases vs with
  | nil => intro v hv; cases hv
  | cons a l =>
    intro v hv
    cases hv with
    | head => simp [lbOf]
    | tail _ h => have := sorted_head_lt hs v h; simp [lbOf]; omega

theorem le_ub {vs : List Int} (hs : Sorted vs) : ∀ v ∈ vs, v ≤ ubOf vs := by
  induction vs with
  | nil => intro v hv; cases hv
  | cons a l ih =>
    intro v hv
    cases l with
    | nil =>
      cases hv with
      | head => simp [ubOf, List.getLastD]
      | tail _ h => cases h
    | cons b rest =>
      have hub : ubOf (a :: b :: rest) = ubOf (b :: rest) := by simp [ubOf]
      rw [hub]
      cases hv with
      | head =>
        have h1 := ih hs.2 b (by simp)
        have := hs.1
        omega
      | tail _ h => exact ih hs.2 v h

/-- at least two values: the bounds are distinct members -/
theorem lb_lt_ub {vs : List Int} (hs : Sorted vs) (h2 : 2 ≤ vs.length) : lbOf vs < ubOf vs := by
  match vs, hs, h2 with
  | a :: b :: rest, hs, _ =>
    have h1 : a < b := hs.1
    have h3 := le_ub hs b (by simp)
    simp only [lbOf, List.headD_cons]
    omega

/-! ### bound based selectors -/

def inDomainMin (x : Nat) (vs : List Int) : Atom := Atom.le x (lbOf vs)
def inDomainMax (x : Nat) (vs : List Int) : Atom := Atom.ge x (ubOf vs)
def outDomainMin (x : Nat) (vs : List Int) : Atom := Atom.ge x (lbOf vs + 1)
def outDomainMax (x : Nat) (vs : List Int) : Atom := Atom.le x (ubOf vs - 1)
/-- `lb + floor((ub - lb) / 2)` -/
def splitPoint (vs : List Int) : Int := lbOf vs + (ubOf vs - lbOf vs) / 2
def inDomainSplit (x : Nat) (vs : List Int) : Atom := Atom.le x (splitPoint vs)
/-- `lb + ceil((ub - lb) / 2)` -/
def reverseInDomainSplit (x : Nat) (vs : List Int) : Atom :=
  Atom.ge x (lbOf vs + (ubOf vs - lbOf vs + 1) / 2)
/-- after the fix: the `>=` branch never proposes `[x >= lb]` -/
def inDomainSplitRandom (x : Nat) (vs : List Int) (coin : Bool) : Atom :=
  if coin then Atom.ge x (max (splitPoint vs) (lbOf vs + 1)) else Atom.le x (splitPoint vs)
/-- `r` is the random draw from `lb..=ub` -/
def randomSplitter (x : Nat) (vs : List Int) (r : Int) (coin : Bool) : Atom :=
  if r = lbOf vs then Atom.le x r
  else if r = ubOf vs then Atom.ge x r
  else if coin then Atom.ge x r else Atom.le x r

/-- first value strictly between the bounds that is not in the domain -/
def firstHole (vs : List Int) : Option Int :=
  ((List.range (ubOf vs - lbOf vs - 1).toNat).map (fun (i : Nat) => lbOf vs + 1 + (i : Int))).find?
    (fun b => !vs.contains b)

def inDomainInterval (x : Nat) (vs : List Int) : Atom :=
  match firstHole vs with
  | some h => Atom.le x (h - 1)
  | none => inDomainSplit x vs

/-! ### value based selectors -/

def inDomainMedian (x : Nat) (vs : List Int) : Atom := Atom.eq x (vs.getD (vs.length / 2) 0)
def outDomainMedian (x : Nat) (vs : List Int) : Atom := Atom.ne x (vs.getD (vs.length / 2) 0)
def inDomainRandom (x : Nat) (vs : List Int) (i : Nat) : Atom := Atom.eq x (vs.getD i 0)
def outDomainRandom (x : Nat) (vs : List Int) (i : Nat) : Atom := Atom.ne x (vs.getD i 0)

/-- `InDomainMiddle`: search outwards from the split point for a value of the domain -/
def middleSearch (vs : List Int) (bound : Int) : Nat → Nat → Int
  | 0, _ => bound
  | fuel + 1, off =>
    if vs.contains (bound - off) then bound - off
    else if vs.contains (bound + off) then bound + off
    else middleSearch vs bound fuel (off + 1)

def inDomainMiddle (x : Nat) (vs : List Int) : Atom :=
  Atom.eq x (middleSearch vs (splitPoint vs) ((ubOf vs - lbOf vs).toNat + 1) 0)

/-! ### undecidedness -/

variable {vs : List Int}

private theorem ne_nil_of_len (h2 : 2 ≤ vs.length) : vs ≠ [] := by
  intro h; simp [h] at h2

theorem inDomainMin_undecided (x : Nat) (hs : Sorted vs) (h2 : 2 ≤ vs.length) :
    Undecided vs (inDomainMin x vs) := by
  have hl := lb_lt_ub hs h2
  refine ⟨⟨lbOf vs, lb_mem (ne_nil_of_len h2), by simp [inDomainMin, Atom.holdsVal]⟩,
    ⟨ubOf vs, ub_mem (ne_nil_of_len h2), by simp [inDomainMin, Atom.holdsVal]; omega⟩⟩

theorem inDomainMax_undecided (x : Nat) (hs : Sorted vs) (h2 : 2 ≤ vs.length) :
    Undecided vs (inDomainMax x vs) := by
  have hl := lb_lt_ub hs h2
  refine ⟨⟨ubOf vs, ub_mem (ne_nil_of_len h2), by simp [inDomainMax, Atom.holdsVal]⟩,
    ⟨lbOf vs, lb_mem (ne_nil_of_len h2), by simp [inDomainMax, Atom.holdsVal]; omega⟩⟩

theorem outDomainMin_undecided (x : Nat) (hs : Sorted vs) (h2 : 2 ≤ vs.length) :
    Undecided vs (outDomainMin x vs) := by
  have hl := lb_lt_ub hs h2
  refine ⟨⟨ubOf vs, ub_mem (ne_nil_of_len h2), by simp [outDomainMin, Atom.holdsVal]; omega⟩,
    ⟨lbOf vs, lb_mem (ne_nil_of_len h2), by simp [outDomainMin, Atom.holdsVal]; omega⟩⟩

theorem outDomainMax_undecided (x : Nat) (hs : Sorted vs) (h2 : 2 ≤ vs.length) :
    Undecided vs (outDomainMax x vs) := by
  have hl := lb_lt_ub hs h2
  refine ⟨⟨lbOf vs, lb_mem (ne_nil_of_len h2), by simp [outDomainMax, Atom.holdsVal]; omega⟩,
    ⟨ubOf vs, ub_mem (ne_nil_of_len h2), by simp [outDomainMax, Atom.holdsVal]; omega⟩⟩

theorem splitPoint_bounds (hs : Sorted vs) (h2 : 2 ≤ vs.length) :
    lbOf vs ≤ splitPoint vs ∧ splitPoint vs < ubOf vs := by
  have hl := lb_lt_ub hs h2
  simp only [splitPoint]
  omega

theorem inDomainSplit_undecided (x : Nat) (hs : Sorted vs) (h2 : 2 ≤ vs.length) :
    Undecided vs (inDomainSplit x vs) := by
  have hb := splitPoint_bounds hs h2
  refine ⟨⟨lbOf vs, lb_mem (ne_nil_of_len h2), by simp [inDomainSplit, Atom.holdsVal]; omega⟩,
    ⟨ubOf vs, ub_mem (ne_nil_of_len h2), by simp [inDomainSplit, Atom.holdsVal]; omega⟩⟩

theorem reverseInDomainSplit_undecided (x : Nat) (hs : Sorted vs) (h2 : 2 ≤ vs.length) :
    Undecided vs (reverseInDomainSplit x vs) := by
  have hl := lb_lt_ub hs h2
  refine ⟨⟨ubOf vs, ub_mem (ne_nil_of_len h2), by simp [reverseInDomainSplit, Atom.holdsVal]; omega⟩,
    ⟨lbOf vs, lb_mem (ne_nil_of_len h2), by simp [reverseInDomainSplit, Atom.holdsVal]; omega⟩⟩

theorem inDomainSplitRandom_undecided (x : Nat) (coin : Bool) (hs : Sorted vs) (h2 : 2 ≤ vs.length) :
    Undecided vs (inDomainSplitRandom x vs coin) := by
  have hb := splitPoint_bounds hs h2
  have hl := lb_lt_ub hs h2
  cases coin
  · refine ⟨⟨lbOf vs, lb_mem (ne_nil_of_len h2), by simp [inDomainSplitRandom, Atom.holdsVal]; omega⟩,
      ⟨ubOf vs, ub_mem (ne_nil_of_len h2), by simp [inDomainSplitRandom, Atom.holdsVal]; omega⟩⟩
  · refine ⟨⟨ubOf vs, ub_mem (ne_nil_of_len h2), by simp [inDomainSplitRandom, Atom.holdsVal]; omega⟩,
      ⟨lbOf vs, lb_mem (ne_nil_of_len h2), by simp [inDomainSplitRandom, Atom.holdsVal]; omega⟩⟩

/-- The unfixed code proposed `[x >= lb]` on two-value domains: with `ub = lb + 1` the split point
is `lb`, and `[x >= lb]` is satisfied by every value (decided). -/
theorem inDomainSplitRandom_unfixed_decided (x : Nat) (lb : Int) :
    ¬ Undecided [lb, lb + 1] (Atom.ge x (splitPoint [lb, lb + 1])) := by
  intro h
  obtain ⟨v, hv, hf⟩ := h.2
  have hsp : splitPoint [lb, lb + 1] = lb := by
    simp only [splitPoint, lbOf, ubOf, List.headD_cons, List.getLastD_cons, List.getLastD_nil]
    omega
  rw [hsp] at hf
  simp only [Atom.holdsVal, decide_eq_false_iff_not, Int.not_le] at hf
  simp only [List.mem_cons, List.not_mem_nil, or_false] at hv
  omega

theorem randomSplitter_undecided (x : Nat) (r : Int) (coin : Bool) (hs : Sorted vs)
    (h2 : 2 ≤ vs.length) (hr : lbOf vs ≤ r ∧ r ≤ ubOf vs) :
    Undecided vs (randomSplitter x vs r coin) := by
  have hl := lb_lt_ub hs h2
  have hlm := lb_mem (ne_nil_of_len h2)
  have hum := ub_mem (ne_nil_of_len h2)
  simp only [randomSplitter]
  split
  · rename_i h; subst h
    exact ⟨⟨lbOf vs, hlm, by simp [Atom.holdsVal]⟩, ⟨ubOf vs, hum, by simp [Atom.holdsVal]; omega⟩⟩
  · split
    · rename_i _ h; subst h
      exact ⟨⟨ubOf vs, hum, by simp [Atom.holdsVal]⟩, ⟨lbOf vs, hlm, by simp [Atom.holdsVal]; omega⟩⟩
    · rename_i h1 h3
      cases coin
      · exact ⟨⟨lbOf vs, hlm, by simp [Atom.holdsVal]; omega⟩, ⟨ubOf vs, hum, by simp [Atom.holdsVal]; omega⟩⟩
      · exact ⟨⟨ubOf vs, hum, by simp [Atom.holdsVal]; omega⟩, ⟨lbOf vs, hlm, by simp [Atom.holdsVal]; omega⟩⟩

theorem firstHole_spec (h : firstHole vs = some hole) : lbOf vs < hole ∧ hole < ubOf vs := by
  simp only [firstHole] at h
  have := List.mem_of_find?_eq_some h
  simp only [List.mem_map, List.mem_range] at this
  obtain ⟨i, hi, rfl⟩ := this
  omega

theorem inDomainInterval_undecided (x : Nat) (hs : Sorted vs) (h2 : 2 ≤ vs.length) :
    Undecided vs (inDomainInterval x vs) := by
  simp only [inDomainInterval]
  split
  · rename_i hole hh
    have := firstHole_spec hh
    exact ⟨⟨lbOf vs, lb_mem (ne_nil_of_len h2), by simp [Atom.holdsVal]; omega⟩,
      ⟨ubOf vs, ub_mem (ne_nil_of_len h2), by simp [Atom.holdsVal]; omega⟩⟩
  · exact inDomainSplit_undecided x hs h2

/-- An equality / disequality with a member of a domain with two distinct members is undecided. -/
theorem eq_member_undecided (x : Nat) (w : Int) (hw : w ∈ vs) (hs : Sorted vs) (h2 : 2 ≤ vs.length) :
    Undecided vs (Atom.eq x w) ∧ Undecided vs (Atom.ne x w) := by
  have hl := lb_lt_ub hs h2
  have hlm := lb_mem (ne_nil_of_len h2)
  have hum := ub_mem (ne_nil_of_len h2)
  by_cases hwl : w = lbOf vs
  · subst hwl
    exact ⟨⟨⟨_, hlm, by simp [Atom.holdsVal]⟩, ⟨_, hum, by simp [Atom.holdsVal]; omega⟩⟩,
      ⟨⟨_, hum, by simp [Atom.holdsVal]; omega⟩, ⟨_, hlm, by simp [Atom.holdsVal]⟩⟩⟩
  · exact ⟨⟨⟨_, hw, by simp [Atom.holdsVal]⟩, ⟨_, hlm, by simp [Atom.holdsVal]; omega⟩⟩,
      ⟨⟨_, hlm, by simp [Atom.holdsVal]; omega⟩, ⟨_, hw, by simp [Atom.holdsVal]⟩⟩⟩

theorem getD_mem (i : Nat) (hi : i < vs.length) : vs.getD i 0 ∈ vs := by
  rw [List.getD_eq_getElem?_getD, List.getElem?_eq_getElem hi]
  exact List.getElem_mem hi

theorem inDomainMedian_undecided (x : Nat) (hs : Sorted vs) (h2 : 2 ≤ vs.length) :
    Undecided vs (inDomainMedian x vs) :=
  (eq_member_undecided x _ (getD_mem _ (by omega)) hs h2).1

theorem outDomainMedian_undecided (x : Nat) (hs : Sorted vs) (h2 : 2 ≤ vs.length) :
    Undecided vs (outDomainMedian x vs) :=
  (eq_member_undecided x _ (getD_mem _ (by omega)) hs h2).2

theorem inDomainRandom_undecided (x i : Nat) (hi : i < vs.length) (hs : Sorted vs) (h2 : 2 ≤ vs.length) :
    Undecided vs (inDomainRandom x vs i) :=
  (eq_member_undecided x _ (getD_mem i hi) hs h2).1

theorem outDomainRandom_undecided (x i : Nat) (hi : i < vs.length) (hs : Sorted vs) (h2 : 2 ≤ vs.length) :
    Undecided vs (outDomainRandom x vs i) :=
  (eq_member_undecided x _ (getD_mem i hi) hs h2).2

/-- the outward search returns a member as long as some member lies within `fuel` steps below -/
theorem middleSearch_mem (bound : Int) (fuel off : Nat)
    (h : ∃ k : Nat, off ≤ k ∧ k < off + fuel ∧ (bound - k) ∈ vs) :
    middleSearch vs bound fuel off ∈ vs := by
  induction fuel generalizing off with
  | zero => obtain ⟨k, h1, h2, _⟩ := h; omega
  | succ fuel ih =>
    simp only [middleSearch]
    split
    · rename_i hc; exact List.contains_iff_mem.1 hc
    · split
      · rename_i _ hc; exact List.contains_iff_mem.1 hc
      · rename_i hc1 _
        apply ih
        obtain ⟨k, h1, h2, h3⟩ := h
        by_cases hk : k = off
        · subst hk
          exact absurd (List.contains_iff_mem.2 h3) hc1
        · exact ⟨k, by omega, by omega, h3⟩

theorem inDomainMiddle_undecided (x : Nat) (hs : Sorted vs) (h2 : 2 ≤ vs.length) :
    Undecided vs (inDomainMiddle x vs) := by
  have hb := splitPoint_bounds hs h2
  have hl := lb_lt_ub hs h2
  have hmem : middleSearch vs (splitPoint vs) ((ubOf vs - lbOf vs).toNat + 1) 0 ∈ vs := by
    apply middleSearch_mem
    refine ⟨(splitPoint vs - lbOf vs).toNat, by omega, by omega, ?_⟩
    have : splitPoint vs - ((splitPoint vs - lbOf vs).toNat : Int) = lbOf vs := by omega
    rw [this]
    exact lb_mem (ne_nil_of_len h2)
  exact (eq_member_undecided x _ hmem hs h2).1

end Pumpkin.Branching

namespace Pumpkin.Branching

/-- All decisions a selector can propose on a domain (over every outcome of its random draws);
deterministic selectors have a singleton support. The correspondence check requires the decision
the real selector made to be a member. -/
def support (name : String) (x : Nat) (vs : List Int) : List Atom :=
  let idxs := List.range vs.length
  match name with
  | "InDomainMin" => [inDomainMin x vs]
  | "InDomainMax" => [inDomainMax x vs]
  | "OutDomainMin" => [outDomainMin x vs]
  | "OutDomainMax" => [outDomainMax x vs]
  | "InDomainSplit" => [inDomainSplit x vs]
  | "ReverseInDomainSplit" => [reverseInDomainSplit x vs]
  | "InDomainSplitRandom" => [inDomainSplitRandom x vs true, inDomainSplitRandom x vs false]
  | "InDomainInterval" => [inDomainInterval x vs]
  | "InDomainMedian" => [inDomainMedian x vs]
  | "OutDomainMedian" => [outDomainMedian x vs]
  | "InDomainMiddle" => [inDomainMiddle x vs]
  | "InDomainRandom" => idxs.map (inDomainRandom x vs)
  | "OutDomainRandom" => idxs.map (outDomainRandom x vs)
  | "RandomSplitter" =>
    ((List.range ((ubOf vs - lbOf vs).toNat + 1)).map (fun (i : Nat) => lbOf vs + (i : Int))).flatMap
      (fun r => [randomSplitter x vs r true, randomSplitter x vs r false])
  | _ => []

end Pumpkin.Branching
