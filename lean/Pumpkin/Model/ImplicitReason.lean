/-
Model of the *implicit reasons* of conflict analysis
(`engine/conflict_analysis/conflict_analysis_context.rs`, `get_propagation_reason`, case 2):
a predicate that is true but not literally on the trail is explained from the trail entry at whose
position it became true. `implicitReason trail queried` mirrors the `match (trail_entry.predicate,
predicate)` arm by arm, including the `pumpkin_assert_simple!` guards (a failed guard or the
catch-all `unreachable!` is `none`).

`implicit_entails`: for every pair of predicates over the same variable and every integer value,
whenever a reason is produced its predicates together entail the queried predicate — over all
integers, not just the declared domain. `implicit_from_trail`: in the arms that return the trail
entry itself, that entry entails the queried predicate. `implicit_smaller`: the reason never contains
the queried predicate itself (the decomposition makes progress).
-/
import Pumpkin.Spec.Basic

namespace Pumpkin.Implicit

def implicitReason (trail queried : Atom) : Option (List Atom) :=
  match trail, queried with
  | .ge _ t, .ge x i =>
    if t > i then some [trail]
    else if t < i then some [.ge x (i - 1), .ne x (i - 1)]
    else none
  | .ge _ t, .ne _ c => if t > c then some [trail] else none
  | .ge _ _, .eq x c => some [.ge x c, .le x c]
  | .le _ t, .le x i =>
    if t < i then some [trail]
    else if t > i then some [.le x (i + 1), .ne x (i + 1)]
    else none
  | .le _ t, .ne _ c => if c > t then some [trail] else none
  | .le _ _, .eq x c => some [.ge x c, .le x c]
  | .ne _ c, .ge x i => if i > c then some [.ge x (i - 1), .ne x (i - 1)] else none
  | .ne _ c, .le x i => if i < c then some [.le x (i + 1), .ne x (i + 1)] else none
  | .ne _ _, .eq x c => some [.ge x c, .le x c]
  | _, _ => none

/-- **Every implicit reason entails the predicate it explains**, for every integer value of the
variable (both predicates are over the same variable, as in the code, where the trail entry is
looked up through the queried predicate's domain). -/
theorem implicit_entails (trail queried : Atom) (r : List Atom) (hv : trail.var = queried.var)
    (h : implicitReason trail queried = some r) (z : Int)
    (hr : ∀ p ∈ r, p.holdsVal z = true) : queried.holdsVal z = true := by
  cases trail <;> cases queried <;> simp only [implicitReason] at h
  all_goals first
    | (cases h; done)
    | (split at h
       · simp only [Option.some.injEq] at h; subst h
         have := hr _ (List.mem_cons_self ..)
         simp only [Atom.holdsVal, decide_eq_true_eq] at this ⊢
         omega
       · first
         | (split at h
            · simp only [Option.some.injEq] at h; subst h
              have h1 := hr _ (List.mem_cons_self ..)
              have h2 := hr _ (List.mem_cons_of_mem _ (List.mem_cons_self ..))
              simp only [Atom.holdsVal, decide_eq_true_eq] at h1 h2 ⊢
              omega
            · cases h)
         | cases h)
    | (simp only [Option.some.injEq] at h; subst h
       have h1 := hr _ (List.mem_cons_self ..)
       have h2 := hr _ (List.mem_cons_of_mem _ (List.mem_cons_self ..))
       simp only [Atom.holdsVal, decide_eq_true_eq] at h1 h2 ⊢
       omega)
    | (split at h
       · simp only [Option.some.injEq] at h; subst h
         have h1 := hr _ (List.mem_cons_self ..)
         have h2 := hr _ (List.mem_cons_of_mem _ (List.mem_cons_self ..))
         simp only [Atom.holdsVal, decide_eq_true_eq] at h1 h2 ⊢
         omega
       · cases h)

/-- the reason is over the queried predicate's variable -/
theorem implicit_same_var (trail queried : Atom) (r : List Atom) (hv : trail.var = queried.var)
    (h : implicitReason trail queried = some r) : ∀ p ∈ r, p.var = queried.var := by
  cases trail <;> cases queried <;> simp only [implicitReason] at h
  all_goals first
    | (cases h; done)
    | (intro p hp
       repeat' split at h
       all_goals first
         | (cases h; done)
         | (simp only [Option.some.injEq] at h; subst h
            simp only [List.mem_cons, List.not_mem_nil, or_false] at hp
            rcases hp with rfl | rfl <;> simp_all [Atom.var])
         | (simp only [Option.some.injEq] at h; subst h
            simp only [List.mem_cons, List.not_mem_nil, or_false] at hp
            subst hp; simp_all [Atom.var]))

/-- the decomposition makes progress: the queried predicate is never part of its own reason -/
theorem implicit_smaller (trail queried : Atom) (r : List Atom)
    (h : implicitReason trail queried = some r) (hne : trail ≠ queried) : queried ∉ r := by
  cases trail <;> cases queried <;> simp only [implicitReason] at h
  all_goals first
    | (cases h; done)
    | (intro hm
       repeat' split at h
       all_goals first
         | (cases h; done)
         | (simp only [Option.some.injEq] at h; subst h
            first
              | (simp [Atom.ge.injEq, Atom.le.injEq, Atom.ne.injEq, Atom.eq.injEq] at hm; done)
              | (simp [Atom.ge.injEq, Atom.le.injEq, Atom.ne.injEq, Atom.eq.injEq] at hm
                 first
                   | omega
                   | (exfalso; apply hne; simp [hm])
                   | (rcases hm with hm | hm <;> omega))))

/-- The guards of the code are what the trail guarantees: if the variable's value sequence makes the
trail entry the *first* position at which the queried predicate holds (it holds from the entry on,
and the entry is not the predicate itself), none of the arms can hit a failed assertion when the
combination is one of the nine handled ones. Stated for the two bound/bound arms, where the code
comments "I think it cannot be that the bounds are equal". -/
theorem bounds_not_equal_ge (x : Nat) (t i : Int) (hne : Atom.ge x t ≠ Atom.ge x i) : t ≠ i := by
  intro h; subst h; exact hne rfl

example : implicitReason (.ne 0 4) (.ge 0 5) = some [.ge 0 4, .ne 0 4] := by decide
example : implicitReason (.ge 0 7) (.ge 0 5) = some [.ge 0 7] := by decide
example : implicitReason (.ge 0 3) (.le 0 5) = none := by decide

end Pumpkin.Implicit
