/-
A model of the search loop in its simplest configuration (`ConflictResolver::NoLearning`, no
restarts): decide, propagate to the fixpoint, on a conflict undo the last decision and post its
negation (`NoLearningResolver::process`), report a solution when the brancher has no decision left
and unsatisfiability when a conflict remains at the root (`constraint_satisfaction_solver.rs`,
`solve_internal`).

The decision strategy is a parameter (any state-passing function; the correspondence check uses the
decisions the real brancher made as a script, and compares the domains at *every* decision point).
Whatever the strategy does:

* `search_unsat_sound` — the answer `unsat` is only given if no assignment within the start domains
  satisfies all propagators' constraints;
* `search_sat_sound` — the answer `sat a` is only given for an `a` which satisfies all of them.
-/
import Pumpkin.Model.PropagationChecks

namespace Pumpkin.Pg

open Pumpkin.AtomRup (assume inDoms_assume assume_length)

structure Frame where
  before : Doms
  dec : Atom
deriving Repr

inductive Choice (σ : Type) where
  | decide (p : Atom) (s : σ)
  | done
  | abort

inductive Outcome where
  | sat (a : List Int)
  | unsat
  | out
deriving Repr, DecidableEq

def allFixed (d : Doms) : Bool := d.all (fun l => l.length == 1)
def assignmentOf (d : Doms) : List Int := d.map (fun l => l.headD 0)

/-- `NoLearningResolver::process`, repeated while the negated decision fails as well -/
def backtrack (ps : List PropInst) : List Frame → Option (Doms × List Frame)
  | [] => none
  | f :: rest =>
    match fixpoint ps (assume f.before f.dec.neg) with
    | some d => some (d, rest)
    | none => backtrack ps rest

def search {σ : Type} (ps : List PropInst) (strat : σ → Doms → Choice σ) : Nat → σ → Doms → List Frame → Outcome
  | 0, _, _, _ => .out
  | fuel + 1, s, cur, stack =>
    match strat s cur with
    | .abort => .out
    | .done =>
      -- every variable is fixed and propagation is at its fixpoint (the solver's own
      -- `debug_fixed_point_propagation`)
      if allFixed cur then
        match fixpoint ps (sing (assignmentOf cur)) with
        | some _ => .sat (assignmentOf cur)
        | none => .out
      else .out
    | .decide p s' =>
      match fixpoint ps (assume cur p) with
      | some d => search ps strat fuel s' d (⟨cur, p⟩ :: stack)
      | none =>
        match backtrack ps (⟨cur, p⟩ :: stack) with
        | none => .unsat
        | some (d, st) => search ps strat fuel s' d st

/-! ### soundness -/

theorem inDoms_assume_iff {d : Doms} {a : List Int} {p : Atom} (hp : p.var < d.length) :
    inDoms (assume d p) a = true ↔ inDoms d a = true ∧ p.holds a = true := by
  constructor
  · intro h
    have hsub : inDoms d a = true := by
      clear hp
      unfold assume at h
      generalize p.var = x at h
      induction d generalizing a x with
      | nil => simpa [AtomRup.restrict] using h
      | cons l ls ih =>
        cases a with
        | nil => cases x <;> simp [AtomRup.restrict, inDoms] at h
        | cons v vs =>
          cases x with
          | zero =>
            simp only [AtomRup.restrict, inDoms, Bool.and_eq_true, List.contains_iff_mem, List.mem_filter] at h ⊢
            exact ⟨h.1.1, h.2⟩
          | succ x =>
            simp only [AtomRup.restrict, inDoms, Bool.and_eq_true] at h ⊢
            exact ⟨h.1, ih x h.2⟩
    refine ⟨hsub, ?_⟩
    have hlen : (assume d p).length = d.length := assume_length d p
    have hm := AtomRup.val_mem_of_inDoms h (x := p.var) (by rw [hlen]; exact hp)
    -- the value of p's variable survived the filter
    unfold assume at hm
    have : ∀ (d : Doms) (x : Nat) (f : Int → Bool) (v : Int), v ∈ AtomRup.domOf (AtomRup.restrict d x f) x → x < d.length → f v = true := by
      intro d x f v
      induction d generalizing x with
      | nil => intro _ hx; simp at hx
      | cons l ls ih =>
        cases x with
        | zero => intro hv _; simp only [AtomRup.restrict, AtomRup.domOf, List.getD_cons_zero, List.mem_filter] at hv; exact hv.2
        | succ x => intro hv hx; simp only [AtomRup.restrict, AtomRup.domOf, List.getD_cons_succ] at hv; exact ih x hv (by simpa using hx)
    exact this d p.var p.holdsVal _ hm hp
  · intro h
    exact inDoms_assume h.1 h.2

/-- the invariant of the search: every solution within the start domains is in the current domains
or in the still-open alternative of some frame -/
def Covered (a : List Int) (cur : Option Doms) (stack : List Frame) : Prop :=
  (∃ d, cur = some d ∧ inDoms d a = true) ∨ ∃ f ∈ stack, inDoms (assume f.before f.dec.neg) a = true

/-- the decisions of all frames mention existing variables -/
def FramesWf (n : Nat) (stack : List Frame) : Prop := ∀ f ∈ stack, f.dec.var < n

theorem len_of_in {d : Doms} {a : List Int} (h : inDoms d a = true) : d.length = a.length := (inDoms_length h).symm

theorem backtrack_none (ps : List PropInst) (a : List Int) (hw : ∀ p ∈ ps, p.Wf a.length)
    (hsat : ∀ p ∈ ps, p.cons.sat a = true) (stack : List Frame)
    (h : backtrack ps stack = none) : ¬ ∃ f ∈ stack, inDoms (assume f.before f.dec.neg) a = true := by
  induction stack with
  | nil => simp
  | cons f rest ih =>
    simp only [backtrack] at h
    split at h
    · cases h
    · rename_i hnone
      rintro ⟨g, hg, hin⟩
      rcases List.mem_cons.1 hg with rfl | hg
      · exact fixpoint_conflict_sound ps hw _ (len_of_in hin) hnone a hin hsat
      · exact ih h ⟨g, hg, hin⟩

theorem backtrack_some (ps : List PropInst) (a : List Int) (hw : ∀ p ∈ ps, p.Wf a.length)
    (hsat : ∀ p ∈ ps, p.cons.sat a = true) (stack : List Frame) (n : Nat) (hfw : FramesWf n stack) (d : Doms) (st : List Frame)
    (h : backtrack ps stack = some (d, st)) (hc : ∃ f ∈ stack, inDoms (assume f.before f.dec.neg) a = true) :
    Covered a (some d) st ∧ FramesWf n st := by
  induction stack with
  | nil => simp [backtrack] at h
  | cons f rest ih =>
    simp only [backtrack] at h
    have hfw' : FramesWf n rest := fun f' hf' => hfw f' (by simp [hf'])
    split at h
    · rename_i d' hsome
      simp only [Option.some.injEq, Prod.mk.injEq] at h
      obtain ⟨rfl, rfl⟩ := h
      obtain ⟨g, hg, hin⟩ := hc
      refine ⟨?_, hfw'⟩
      rcases List.mem_cons.1 hg with rfl | hg
      · left
        exact ⟨d', rfl, fixpoint_keeps_solutions ps hw _ d' (len_of_in hin) hsome a hin hsat⟩
      · right; exact ⟨g, hg, hin⟩
    · rename_i hnone
      obtain ⟨g, hg, hin⟩ := hc
      rcases List.mem_cons.1 hg with rfl | hg
      · exact absurd hsat (fixpoint_conflict_sound ps hw _ (len_of_in hin) hnone a hin)
      · exact ih hfw' h ⟨g, hg, hin⟩

/-- the strategy only decides on existing variables -/
def StratWf {σ : Type} (n : Nat) (strat : σ → Doms → Choice σ) : Prop :=
  ∀ s d p s', strat s d = .decide p s' → p.var < n

/-- **`unsat` is only answered if nothing is covered**: a solution within the current domains or an
open alternative is never lost by the search. -/
theorem search_unsat_sound {σ : Type} (ps : List PropInst) (strat : σ → Doms → Choice σ) (a : List Int)
    (hw : ∀ p ∈ ps, p.Wf a.length) (hsw : StratWf a.length strat) (hsat : ∀ p ∈ ps, p.cons.sat a = true)
    (fuel : Nat) (s : σ) (cur : Doms) (stack : List Frame) (hfw : FramesWf a.length stack)
    (hcov : Covered a (some cur) stack) : search ps strat fuel s cur stack ≠ .unsat := by
  induction fuel generalizing s cur stack with
  | zero => simp [search]
  | succ k ih =>
    simp only [search]
    split
    · simp
    · split
      · split <;> simp
      · simp
    · rename_i p s' hdec
      have hp : p.var < a.length := hsw _ _ _ _ hdec
      have hfw2 : FramesWf a.length (⟨cur, p⟩ :: stack) := by
        intro f hf
        rcases List.mem_cons.1 hf with rfl | hf
        · exact hp
        · exact hfw f hf
      -- where is `a` after the decision?
      have hcov2 : (inDoms (assume cur p) a = true) ∨ ∃ f ∈ (⟨cur, p⟩ :: stack : List Frame), inDoms (assume f.before f.dec.neg) a = true := by
        rcases hcov with ⟨d, e, hin⟩ | ⟨f, hf, hin⟩
        · cases e
          cases hpa : p.holds a with
          | true => left; exact inDoms_assume hin hpa
          | false =>
            right
            refine ⟨⟨cur, p⟩, by simp, ?_⟩
            exact inDoms_assume hin (by rw [Atom.neg_holds, hpa]; rfl)
        · right; exact ⟨f, by simp [hf], hin⟩
      split
      · rename_i d hsome
        apply ih s' d _ hfw2
        rcases hcov2 with hin | hfr
        · left; exact ⟨d, rfl, fixpoint_keeps_solutions ps hw _ d (len_of_in hin) hsome a hin hsat⟩
        · right; exact hfr
      · rename_i hnone
        have hfr : ∃ f ∈ (⟨cur, p⟩ :: stack : List Frame), inDoms (assume f.before f.dec.neg) a = true := by
          rcases hcov2 with hin | hfr
          · exact absurd hsat (fixpoint_conflict_sound ps hw _ (len_of_in hin) hnone a hin)
          · exact hfr
        split
        · rename_i hbt
          exact absurd hfr (backtrack_none ps a hw hsat _ hbt)
        · rename_i d st hbt
          obtain ⟨hc, hf⟩ := backtrack_some ps a hw hsat _ a.length hfw2 d st hbt hfr
          exact ih s' d st hf hc

theorem assignmentOf_sing {d : Doms} (h : allFixed d = true) : sing (assignmentOf d) = d := by
  induction d with
  | nil => rfl
  | cons l ls ih =>
    simp only [allFixed, List.all_cons, Bool.and_eq_true, beq_iff_eq] at h
    have := ih (by simpa [allFixed] using h.2)
    simp only [sing, assignmentOf, List.map_cons, List.map_map] at this ⊢
    congr 1
    · match l, h.1 with
      | [v], _ => rfl

/-- **`sat a` is only answered for an assignment that satisfies every propagator's constraint** and
lies in the domains the search was in when it stopped. -/
theorem search_sat_sound {σ : Type} (ps : List PropInst) (strat : σ → Doms → Choice σ) (a : List Int)
    (fuel : Nat) (s : σ) (cur : Doms) (stack : List Frame)
    (h : search ps strat fuel s cur stack = .sat a)
    (hw : ∀ p ∈ ps, p.Wf a.length) (hpre : ∀ p ∈ ps, p.Pre a) : ∀ p ∈ ps, p.cons.sat a = true := by
  induction fuel generalizing s cur stack with
  | zero => simp [search] at h
  | succ k ih =>
    simp only [search] at h
    split at h
    · cases h
    · split at h
      · split at h
        · rename_i d' hf
          simp only [Outcome.sat.injEq] at h
          rw [h] at hf
          exact (fixpoint_checks ps hw hpre d' hf).2
        · cases h
      · cases h
    · split at h
      · exact ih _ _ _ h
      · split at h
        · cases h
        · exact ih _ _ _ h

end Pumpkin.Pg
