/-
`evaluate_predicate` decides a predicate exactly when all values of the (non-empty) domain agree on it.
-/
import Pumpkin.Model.AssignmentsState

namespace Pumpkin.Asg

open IDom

theorem eval_ge (s : St) (x : Nat) (k : Int) (b : Bool) (hne : s.lb x ≤ s.ub x) :
    s.evaluate (.ge x k) = some b ↔ (if b then s.lb x ≥ k else s.ub x < k) := by
  unfold St.evaluate
  by_cases h1 : s.lb x ≥ k <;> by_cases h2 : s.ub x < k <;> cases b <;> simp [h1, h2] <;> omega

theorem eval_le (s : St) (x : Nat) (k : Int) (b : Bool) (hne : s.lb x ≤ s.ub x) :
    s.evaluate (.le x k) = some b ↔ (if b then s.ub x ≤ k else s.lb x > k) := by
  unfold St.evaluate
  by_cases h1 : s.ub x ≤ k <;> by_cases h2 : s.lb x > k <;> cases b <;> simp [h1, h2] <;> omega

theorem eval_ne (s : St) (x : Nat) (k : Int) (b : Bool) :
    s.evaluate (.ne x k) = some b ↔
      (if b then s.contains x k = false else s.contains x k = true ∧ s.lb x = s.ub x) := by
  unfold St.evaluate
  cases h1 : s.contains x k <;> by_cases h2 : s.lb x = s.ub x <;> cases b <;> simp [h1, h2]

theorem eval_eq (s : St) (x : Nat) (k : Int) (b : Bool) :
    s.evaluate (.eq x k) = some b ↔
      (if b then s.contains x k = true ∧ s.lb x = s.ub x else s.contains x k = false) := by
  unfold St.evaluate
  cases h1 : s.contains x k <;> by_cases h2 : s.lb x = s.ub x <;> cases b <;> simp [h1, h2]

theorem evaluate_iff (s : St) (p : Atom) (b : Bool) (ht : (s.dom p.var).Tight) (hne : s.lb p.var ≤ s.ub p.var) :
    s.evaluate p = some b ↔ ∀ v, s.contains p.var v = true → p.holdsVal v = b := by
  have hb := tight_bounds_mem _ ht hne
  have hl : s.contains p.var (s.lb p.var) = true := (contains_iff _ _).2 hb.1
  have hu : s.contains p.var (s.ub p.var) = true := (contains_iff _ _).2 hb.2
  have hin : ∀ v, s.contains p.var v = true → s.lb p.var ≤ v ∧ v ≤ s.ub p.var := by
    intro v hv; have := (contains_iff _ _).1 hv; exact ⟨this.1, this.2.1⟩
  cases p with
  | ge x k =>
    simp only [Atom.var] at *
    rw [eval_ge s x k b hne]
    cases b
    · simp only [Bool.false_eq_true, if_false, Atom.holdsVal, decide_eq_false_iff_not]
      constructor
      · intro h v hv; have := hin v hv; omega
      · intro h; have := h _ hu; omega
    · simp only [if_true, Atom.holdsVal, decide_eq_true_eq]
      constructor
      · intro h v hv; have := hin v hv; omega
      · intro h; have := h _ hl; omega
  | le x k =>
    simp only [Atom.var] at *
    rw [eval_le s x k b hne]
    cases b
    · simp only [Bool.false_eq_true, if_false, Atom.holdsVal, decide_eq_false_iff_not]
      constructor
      · intro h v hv; have := hin v hv; omega
      · intro h; have := h _ hl; omega
    · simp only [if_true, Atom.holdsVal, decide_eq_true_eq]
      constructor
      · intro h v hv; have := hin v hv; omega
      · intro h; have := h _ hu; omega
  | ne x k =>
    simp only [Atom.var] at *
    rw [eval_ne s x k b]
    cases b
    · simp only [Bool.false_eq_true, if_false, Atom.holdsVal, decide_eq_false_iff_not, Decidable.not_not]
      constructor
      · rintro ⟨h1, h2⟩ v hv
        have := hin v hv; have := hin k h1; omega
      · intro h
        have h1 := h _ hl; have h2 := h _ hu
        refine ⟨by rw [← h1]; exact hl, by omega⟩
    · simp only [if_true, Atom.holdsVal, decide_eq_true_eq]
      constructor
      · intro h v hv hvk; subst hvk; rw [hv] at h; cases h
      · intro h
        cases hc : s.contains x k
        · rfl
        · exact absurd rfl (h k hc)
  | eq x k =>
    simp only [Atom.var] at *
    rw [eval_eq s x k b]
    cases b
    · simp only [Bool.false_eq_true, if_false, Atom.holdsVal, decide_eq_false_iff_not]
      constructor
      · intro h v hv hvk; subst hvk; rw [hv] at h; cases h
      · intro h
        cases hc : s.contains x k
        · rfl
        · exact absurd rfl (h k hc)
    · simp only [if_true, Atom.holdsVal, decide_eq_true_eq]
      constructor
      · rintro ⟨h1, h2⟩ v hv
        have := hin v hv; have := hin k h1; omega
      · intro h
        have h1 := h _ hl; have h2 := h _ hu
        refine ⟨by rw [← h1]; exact hl, by omega⟩

theorem evaluate_true_iff (s : St) (p : Atom) (ht : (s.dom p.var).Tight) (hne : s.lb p.var ≤ s.ub p.var) :
    s.evaluate p = some true ↔ ∀ v, s.contains p.var v = true → p.holdsVal v = true :=
  evaluate_iff s p true ht hne

theorem evaluate_false_iff (s : St) (p : Atom) (ht : (s.dom p.var).Tight) (hne : s.lb p.var ≤ s.ub p.var) :
    s.evaluate p = some false ↔ ∀ v, s.contains p.var v = true → p.holdsVal v = false :=
  evaluate_iff s p false ht hne

/-- In every reachable state with a non-empty domain: `evaluate_predicate` answers `None` exactly for
the predicates which are neither true nor false for the domain (what C18 calls undecided). -/
theorem evaluate_none_iff (ops : List St.Op) (p : Atom)
    (hx : p.var < (St.run St.empty ops).doms.length)
    (hne : (St.run St.empty ops).lb p.var ≤ (St.run St.empty ops).ub p.var) :
    (St.run St.empty ops).evaluate p = none ↔
      (∃ v, (St.run St.empty ops).contains p.var v = true ∧ p.holdsVal v = true) ∧
      (∃ v, (St.run St.empty ops).contains p.var v = true ∧ p.holdsVal v = false) := by
  have h := inv_run ops _ inv_empty
  have ht : ((St.run St.empty ops).dom p.var).Tight := by
    rw [St.dom, h.doms]; rw [h.doms] at hx; exact build_tight _ h.wf _ hx
  have h1 := evaluate_true_iff _ p ht hne
  have h2 := evaluate_false_iff _ p ht hne
  constructor
  · intro hn
    constructor
    · apply Classical.byContradiction
      intro hc
      have : (St.run St.empty ops).evaluate p = some false := h2.2 (by
        intro v hv
        cases hh : p.holdsVal v
        · rfl
        · exact absurd ⟨v, hv, hh⟩ hc)
      rw [hn] at this; cases this
    · apply Classical.byContradiction
      intro hc
      have : (St.run St.empty ops).evaluate p = some true := h1.2 (by
        intro v hv
        cases hh : p.holdsVal v
        · exact absurd ⟨v, hv, hh⟩ hc
        · rfl)
      rw [hn] at this; cases this
  · rintro ⟨⟨v, hv, hvt⟩, ⟨w, hw, hwf⟩⟩
    cases he : (St.run St.empty ops).evaluate p with
    | none => rfl
    | some b =>
      cases b
      · have := h2.1 he v hv; rw [hvt] at this; cases this
      · have := h1.1 he w hw; rw [hwf] at this; cases this

end Pumpkin.Asg
