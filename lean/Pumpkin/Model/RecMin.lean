/-
Model of the recursive nogood minimiser
(`pumpkin-solver/src/engine/conflict_analysis/minimisers/recursive_minimiser.rs`:
`remove_dominated_predicates`, `initialise_minimisation_data_structures`, `compute_label`).

Predicates are opaque (natural numbers). What the solver knows about a predicate is `Info`: its
decision level, whether it is a decision, and the antecedents of its reason which are not
root-level (root-level antecedents are skipped by `compute_label`). The label table is a function
`Nat → Option Label` (the Rust `HashMap<Predicate, Option<Label>>`), `allowed` the set of allowed
decision levels. `limit` is the recursion depth at which `compute_label` gives up (500 in the
solver); `computeLabel` recurses structurally on `limit - depth + 1`.

The state also carries the trace of `compute_label` calls (predicate, outcome), which the
correspondence run compares call by call with the trace recorded from the real minimiser.

`removeDominated_sound`: when every reason is an implication and the reason graph is acyclic, the
conjunction of the predicates that are kept implies every predicate of the original nogood — for
every depth limit, every nogood and every reason graph.
-/
namespace Pumpkin.RecMin

inductive Label | seen | poison | removable | keep
deriving DecidableEq, Repr

structure Info where
  level : Nat
  isDecision : Bool
  /-- antecedents of the reason which are not root-level, in the order of the reason -/
  reason : List Nat
deriving Repr

structure Ctx where
  info : Nat → Info
  /-- recursion depth at which a predicate is given up (labelled Poison) -/
  limit : Nat
  /-- the current decision level -/
  curLevel : Nat

abbrev Tbl := Nat → Option Label

def Tbl.set (t : Tbl) (p : Nat) (l : Label) : Tbl := fun q => if q = p then some l else t q

structure St where
  tbl : Tbl := fun _ => none
  /-- calls of `compute_label`, most recent first: predicate and outcome (0 label already computed,
  1 depth limit, 2 decision, 3 decision level not allowed, 4 reason requested) -/
  trace : List (Nat × Nat) := []

def St.assign (st : St) (p : Nat) (l : Label) : St := { st with tbl := st.tbl.set p l }
def St.visit (st : St) (p code : Nat) : St := { st with trace := (p, code) :: st.trace }

/-- `is_predicate_label_already_computed` -/
def computed (t : Tbl) (p : Nat) : Bool :=
  match t p with
  | some .seen => false
  | some _ => true
  | none => false

/-- the loop over the antecedents in `compute_label`; `rec` is `compute_label` one level deeper -/
def loop (rec : St → Nat → St) (p : Nat) : St → List Nat → St
  | st, [] => st.assign p .removable
  | st, a :: rest =>
    let st' := rec st a
    if st'.tbl a = some .poison then
      -- `is_predicate_assigned_seen(input_predicate)`: part of the original nogood → Keep
      if st'.tbl p = some .seen then st'.assign p .keep else st'.assign p .poison
    else loop rec p st' rest

/-- `compute_label` at depth `limit - fuel + 1` (after the increment of `current_depth`) -/
def computeLabel (ctx : Ctx) (allowed : List Nat) : Nat → St → Nat → St
  | 0 => fun st _ => st
  | fuel + 1 => fun st p =>
    if computed st.tbl p then st.visit p 0
    else if fuel = 0 then (st.visit p 1).assign p .poison
    else if (ctx.info p).isDecision then (st.visit p 2).assign p .poison
    else if !allowed.contains (ctx.info p).level then (st.visit p 3).assign p .poison
    else loop (computeLabel ctx allowed fuel) p (st.visit p 4) (ctx.info p).reason

/-- `initialise_minimisation_data_structures` -/
def initOne (ctx : Ctx) (acc : St × List Nat) (p : Nat) : St × List Nat :=
  if (ctx.info p).level = ctx.curLevel then (acc.1.assign p .keep, acc.2)
  else
    ((if (ctx.info p).isDecision then acc.1.assign p .keep else acc.1.assign p .seen),
     (ctx.info p).level :: acc.2)

def init (ctx : Ctx) (nogood : List Nat) : St × List Nat := nogood.foldl (initOne ctx) ({}, [])

/-- the main loop of `remove_dominated_predicates`: the kept predicates, in order -/
def sweep (ctx : Ctx) (allowed : List Nat) : St → List Nat → St × List Nat
  | st, [] => (st, [])
  | st, p :: rest =>
    let st' := computeLabel ctx allowed ctx.limit st p
    let r := sweep ctx allowed st' rest
    if st'.tbl p = some .poison ∨ st'.tbl p = some .keep then (r.1, p :: r.2) else r

/-- `remove_dominated_predicates`: final state (for the trace) and the minimised nogood -/
def removeDominated (ctx : Ctx) (nogood : List Nat) : St × List Nat :=
  let i := init ctx nogood
  sweep ctx i.2 i.1 nogood

/-! ### soundness -/

@[simp] theorem set_same (t : Tbl) (p : Nat) (l : Label) : (t.set p l) p = some l := by simp [Tbl.set]
theorem set_other (t : Tbl) (p q : Nat) (l : Label) (h : q ≠ p) : (t.set p l) q = t q := by simp [Tbl.set, h]

@[simp] theorem visit_tbl (st : St) (p c : Nat) : (st.visit p c).tbl = st.tbl := rfl
@[simp] theorem assign_tbl (st : St) (p : Nat) (l : Label) : (st.assign p l).tbl = st.tbl.set p l := rfl

/-- a label is final once it is Poison, Removable or Keep -/
def Final (l : Label) : Prop := l ≠ .seen

theorem computed_iff (t : Tbl) (p : Nat) : computed t p = true ↔ ∃ l, t p = some l ∧ Final l := by
  unfold computed Final
  cases h : t p with
  | none => simp
  | some l => cases l <;> simp

/-- The table invariant with respect to the original nogood `ng`:
a Removable predicate is not a decision and all antecedents of its reason are Removable or Keep;
Seen and Keep predicates belong to the nogood. -/
structure Good (ctx : Ctx) (ng : List Nat) (t : Tbl) : Prop where
  rem : ∀ p, t p = some .removable → (ctx.info p).isDecision = false ∧
    ∀ a ∈ (ctx.info p).reason, t a = some .removable ∨ t a = some .keep
  mem : ∀ p, (t p = some .seen ∨ t p = some .keep) → p ∈ ng

/-- `t'` extends `t`: final labels stay, nothing becomes Seen, and only predicates of rank at most
`r` are touched -/
structure Ext (rank : Nat → Nat) (r : Nat) (t t' : Tbl) : Prop where
  keep : ∀ p l, t p = some l → Final l → t' p = some l
  seen : ∀ p, t' p = some .seen → t p = some .seen
  frame : ∀ p, r < rank p → t' p = t p

theorem Ext.refl (rank : Nat → Nat) (r : Nat) (t : Tbl) : Ext rank r t t :=
  ⟨fun _ _ h _ => h, fun _ h => h, fun _ _ => rfl⟩

theorem Ext.trans {rank : Nat → Nat} {r : Nat} {t1 t2 t3 : Tbl} (h12 : Ext rank r t1 t2) (h23 : Ext rank r t2 t3) :
    Ext rank r t1 t3 :=
  ⟨fun p l h hl => h23.keep p l (h12.keep p l h hl) hl,
   fun p h => h12.seen p (h23.seen p h),
   fun p hp => by rw [h23.frame p hp, h12.frame p hp]⟩

theorem Ext.mono {rank : Nat → Nat} {r r' : Nat} {t t' : Tbl} (h : Ext rank r t t') (hr : r ≤ r') : Ext rank r' t t' :=
  ⟨h.keep, h.seen, fun p hp => h.frame p (by omega)⟩

/-- assigning a final label to a predicate which has none yet -/
theorem ext_set {rank : Nat → Nat} (t : Tbl) (p : Nat) (l : Label) (hl : Final l)
    (hnot : computed t p = false) : Ext rank (rank p) t (t.set p l) := by
  refine ⟨?_, ?_, ?_⟩
  · intro q l' hq hl'
    by_cases hqp : q = p
    · subst hqp
      have : computed t q = true := (computed_iff t q).2 ⟨l', hq, hl'⟩
      rw [this] at hnot; cases hnot
    · rw [set_other _ _ _ _ hqp]; exact hq
  · intro q hq
    by_cases hqp : q = p
    · subst hqp
      rw [set_same] at hq
      simp only [Option.some.injEq] at hq
      exact absurd hq hl
    · rwa [set_other _ _ _ _ hqp] at hq
  · intro q hq
    have : q ≠ p := by intro h; subst h; omega
    exact set_other _ _ _ _ this

/-- what `compute_label` (at some depth) guarantees -/
def Spec (ctx : Ctx) (ng : List Nat) (rank : Nat → Nat) (f : St → Nat → St) : Prop :=
  ∀ st p, Good ctx ng st.tbl →
    Good ctx ng (f st p).tbl ∧ Ext rank (rank p) st.tbl (f st p).tbl ∧ computed (f st p).tbl p = true

theorem good_set_poison {ctx : Ctx} {ng : List Nat} {t : Tbl} (h : Good ctx ng t) (p : Nat)
    (hnot : computed t p = false) : Good ctx ng (t.set p .poison) := by
  refine ⟨?_, ?_⟩
  · intro q hq
    by_cases hqp : q = p
    · subst hqp; simp at hq
    · rw [set_other _ _ _ _ hqp] at hq
      refine ⟨(h.rem q hq).1, fun a ha => ?_⟩
      have := (h.rem q hq).2 a ha
      by_cases hap : a = p
      · subst hap
        rcases this with h1 | h1 <;>
          (have : computed t a = true := (computed_iff t a).2 ⟨_, h1, by simp [Final]⟩
           rw [this] at hnot; cases hnot)
      · rw [set_other _ _ _ _ hap]; exact this
  · intro q hq
    by_cases hqp : q = p
    · subst hqp; simp at hq
    · rw [set_other _ _ _ _ hqp] at hq; exact h.mem q hq

theorem good_set_keep {ctx : Ctx} {ng : List Nat} {t : Tbl} (h : Good ctx ng t) (p : Nat)
    (hseen : t p = some .seen) : Good ctx ng (t.set p .keep) := by
  refine ⟨?_, ?_⟩
  · intro q hq
    by_cases hqp : q = p
    · subst hqp; simp at hq
    · rw [set_other _ _ _ _ hqp] at hq
      refine ⟨(h.rem q hq).1, fun a ha => ?_⟩
      have := (h.rem q hq).2 a ha
      by_cases hap : a = p
      · subst hap; right; simp
      · rw [set_other _ _ _ _ hap]; exact this
  · intro q hq
    by_cases hqp : q = p
    · subst hqp; exact h.mem q (Or.inl hseen)
    · rw [set_other _ _ _ _ hqp] at hq; exact h.mem q hq

theorem not_computed_cases {t : Tbl} {p : Nat} (h : computed t p = false) : t p = none ∨ t p = some .seen := by
  unfold computed at h
  cases ht : t p with
  | none => left; rfl
  | some l => cases l <;> simp_all

/-- the loop over the antecedents, given that the recursive call meets `Spec` -/
theorem loop_spec (ctx : Ctx) (ng : List Nat) (rank : Nat → Nat) (f : St → Nat → St)
    (hf : Spec ctx ng rank f) (p : Nat) (hdec : (ctx.info p).isDecision = false)
    (hrank : ∀ a ∈ (ctx.info p).reason, rank a < rank p) :
    ∀ (rest : List Nat) (st : St), Good ctx ng st.tbl → computed st.tbl p = false →
      (∀ a ∈ rest, a ∈ (ctx.info p).reason) →
      (∀ a ∈ (ctx.info p).reason, a ∈ rest ∨ st.tbl a = some .removable ∨ st.tbl a = some .keep) →
      Good ctx ng (loop f p st rest).tbl ∧ Ext rank (rank p) st.tbl (loop f p st rest).tbl ∧
        computed (loop f p st rest).tbl p = true := by
  intro rest
  induction rest with
  | nil =>
    intro st hg hnot _ hdone
    simp only [loop, assign_tbl]
    refine ⟨⟨?_, ?_⟩, ext_set _ _ _ (by simp [Final]) hnot, ?_⟩
    · intro q hq
      by_cases hqp : q = p
      · subst hqp
        refine ⟨hdec, fun a ha => ?_⟩
        have hap : a ≠ q := by intro h; subst h; have := hrank a ha; omega
        rw [set_other _ _ _ _ hap]
        rcases hdone a ha with h | h
        · cases h
        · exact h
      · rw [set_other _ _ _ _ hqp] at hq
        refine ⟨(hg.rem q hq).1, fun a ha => ?_⟩
        have := (hg.rem q hq).2 a ha
        by_cases hap : a = p
        · subst hap
          rcases this with h1 | h1
          · left; simp
          · have : computed st.tbl a = true := (computed_iff _ a).2 ⟨_, h1, by simp [Final]⟩
            rw [this] at hnot; cases hnot
        · rw [set_other _ _ _ _ hap]; exact this
    · intro q hq
      by_cases hqp : q = p
      · subst hqp; simp at hq
      · rw [set_other _ _ _ _ hqp] at hq; exact hg.mem q hq
    · exact (computed_iff _ p).2 ⟨.removable, by simp, by simp [Final]⟩
  | cons a rest ih =>
    intro st hg hnot hsub hdone
    have ha_mem : a ∈ (ctx.info p).reason := hsub a (by simp)
    have ha_rank : rank a < rank p := hrank a ha_mem
    obtain ⟨hg', hext', hcomp'⟩ := hf st a hg
    -- `p` is not touched by the recursive call
    have hp_same : (f st a).tbl p = st.tbl p := hext'.frame p ha_rank
    have hnot' : computed (f st a).tbl p = false := by unfold computed; rw [hp_same]; exact hnot
    have hext'' : Ext rank (rank p) st.tbl (f st a).tbl := hext'.mono (by omega)
    simp only [loop]
    split
    · -- the antecedent is Poison
      split
      · rename_i hseen
        simp only [assign_tbl]
        refine ⟨good_set_keep hg' p hseen, hext''.trans (ext_set _ _ _ (by simp [Final]) hnot'), ?_⟩
        exact (computed_iff _ p).2 ⟨.keep, by simp, by simp [Final]⟩
      · simp only [assign_tbl]
        refine ⟨good_set_poison hg' p hnot', hext''.trans (ext_set _ _ _ (by simp [Final]) hnot'), ?_⟩
        exact (computed_iff _ p).2 ⟨.poison, by simp, by simp [Final]⟩
    · rename_i hnp
      -- the antecedent is Removable or Keep
      have ha_lab : (f st a).tbl a = some .removable ∨ (f st a).tbl a = some .keep := by
        obtain ⟨l, hl, hfin⟩ := (computed_iff _ a).1 hcomp'
        cases l with
        | seen => exact absurd rfl hfin
        | poison => exact absurd hl hnp
        | removable => exact Or.inl hl
        | keep => exact Or.inr hl
      have hdone' : ∀ b ∈ (ctx.info p).reason, b ∈ rest ∨ (f st a).tbl b = some .removable ∨ (f st a).tbl b = some .keep := by
        intro b hb
        rcases hdone b hb with h | h
        · rcases List.mem_cons.1 h with h | h
          · subst h; exact Or.inr ha_lab
          · exact Or.inl h
        · right
          rcases h with h | h
          · exact Or.inl (hext'.keep b _ h (by simp [Final]))
          · exact Or.inr (hext'.keep b _ h (by simp [Final]))
      obtain ⟨g, e, c⟩ := ih (f st a) hg' hnot' (fun b hb => hsub b (List.mem_cons_of_mem _ hb)) hdone'
      exact ⟨g, hext''.trans e, c⟩

/-- `compute_label` meets `Spec` at every depth at which it does anything -/
theorem computeLabel_spec (ctx : Ctx) (ng allowed : List Nat) (rank : Nat → Nat)
    (hrank : ∀ p, ∀ a ∈ (ctx.info p).reason, rank a < rank p) :
    ∀ fuel, Spec ctx ng rank (computeLabel ctx allowed (fuel + 1)) := by
  intro fuel
  induction fuel with
  | zero =>
    intro st p hg
    simp only [computeLabel]
    split
    · rename_i hc
      exact ⟨hg, Ext.refl _ _ _, hc⟩
    · rename_i hc
      have hnot : computed st.tbl p = false := by simpa using hc
      simp only [if_true, assign_tbl, visit_tbl]
      exact ⟨good_set_poison hg p hnot, ext_set _ _ _ (by simp [Final]) hnot,
        (computed_iff _ p).2 ⟨.poison, by simp, by simp [Final]⟩⟩
  | succ k ih =>
    intro st p hg
    simp only [computeLabel]
    split
    · rename_i hc
      exact ⟨hg, Ext.refl _ _ _, hc⟩
    · rename_i hc
      have hnot : computed st.tbl p = false := by simpa using hc
      have hk : ¬ (k + 1 = 0) := by omega
      simp only [hk, if_false]
      split
      · simp only [assign_tbl, visit_tbl]
        exact ⟨good_set_poison hg p hnot, ext_set _ _ _ (by simp [Final]) hnot,
          (computed_iff _ p).2 ⟨.poison, by simp, by simp [Final]⟩⟩
      · rename_i hdec
        split
        · simp only [assign_tbl, visit_tbl]
          exact ⟨good_set_poison hg p hnot, ext_set _ _ _ (by simp [Final]) hnot,
            (computed_iff _ p).2 ⟨.poison, by simp, by simp [Final]⟩⟩
        · have hdec' : (ctx.info p).isDecision = false := by simpa using hdec
          exact loop_spec ctx ng rank _ ih p hdec' (hrank p) (ctx.info p).reason (st.visit p 4) hg hnot
            (fun a ha => ha) (fun a ha => Or.inl ha)

/-- after initialisation the table is good and every predicate of the nogood has a label -/
theorem init_good (ctx : Ctx) (ng : List Nat) :
    Good ctx ng (init ctx ng).1.tbl ∧ ∀ p ∈ ng, (init ctx ng).1.tbl p = some .seen ∨ (init ctx ng).1.tbl p = some .keep := by
  -- generalise over the processed prefix
  have key : ∀ (todo : List Nat) (acc : St × List Nat),
      (∀ q, acc.1.tbl q = none ∨ acc.1.tbl q = some .seen ∨ acc.1.tbl q = some .keep) →
      (∀ q, acc.1.tbl q ≠ none → q ∈ ng) → (∀ q ∈ todo, q ∈ ng) →
      (∀ q, (todo.foldl (initOne ctx) acc).1.tbl q = none ∨ (todo.foldl (initOne ctx) acc).1.tbl q = some .seen ∨
            (todo.foldl (initOne ctx) acc).1.tbl q = some .keep) ∧
      (∀ q, (todo.foldl (initOne ctx) acc).1.tbl q ≠ none → q ∈ ng) ∧
      (∀ q, (acc.1.tbl q ≠ none ∨ q ∈ todo) → (todo.foldl (initOne ctx) acc).1.tbl q ≠ none) := by
    intro todo
    induction todo with
    | nil => intro acc h1 h2 _; exact ⟨h1, h2, fun q hq => by rcases hq with h | h; exact h; cases h⟩
    | cons p rest ih =>
      intro acc h1 h2 h3
      simp only [List.foldl_cons]
      have hstep1 : ∀ q, (initOne ctx acc p).1.tbl q = none ∨ (initOne ctx acc p).1.tbl q = some .seen ∨
          (initOne ctx acc p).1.tbl q = some .keep := by
        intro q
        unfold initOne
        split
        · simp only [assign_tbl]
          by_cases hqp : q = p
          · subst hqp; simp
          · rw [set_other _ _ _ _ hqp]; exact h1 q
        · split
          · simp only [assign_tbl]
            by_cases hqp : q = p
            · subst hqp; simp
            · rw [set_other _ _ _ _ hqp]; exact h1 q
          · simp only [assign_tbl]
            by_cases hqp : q = p
            · subst hqp; simp
            · rw [set_other _ _ _ _ hqp]; exact h1 q
      have hstep2 : ∀ q, (initOne ctx acc p).1.tbl q ≠ none → q ∈ ng := by
        intro q hq
        by_cases hqp : q = p
        · subst hqp; exact h3 q (by simp)
        · apply h2 q
          unfold initOne at hq
          split at hq
          · simpa [set_other _ _ _ _ hqp] using hq
          · split at hq <;> simpa [set_other _ _ _ _ hqp] using hq
      have hstep3 : ∀ q, (acc.1.tbl q ≠ none ∨ q = p) → (initOne ctx acc p).1.tbl q ≠ none := by
        intro q hq
        unfold initOne
        by_cases hqp : q = p
        · subst hqp
          split
          · simp
          · split <;> simp
        · rcases hq with hq | hq
          · split
            · simpa [set_other _ _ _ _ hqp] using hq
            · split <;> simpa [set_other _ _ _ _ hqp] using hq
          · exact absurd hq hqp
      obtain ⟨r1, r2, r3⟩ := ih (initOne ctx acc p) hstep1 hstep2 (fun q hq => h3 q (List.mem_cons_of_mem _ hq))
      refine ⟨r1, r2, fun q hq => r3 q ?_⟩
      rcases hq with hq | hq
      · exact Or.inl (hstep3 q (Or.inl hq))
      · rcases List.mem_cons.1 hq with hq | hq
        · exact Or.inl (hstep3 q (Or.inr hq))
        · exact Or.inr hq
  obtain ⟨r1, r2, r3⟩ := key ng ({}, []) (fun q => Or.inl rfl) (fun q hq => absurd rfl hq) (fun q hq => hq)
  refine ⟨⟨?_, ?_⟩, ?_⟩
  · intro p hp
    rcases r1 p with h | h | h <;> (unfold init at hp; rw [h] at hp; cases hp)
  · intro p hp
    apply r2 p
    unfold init at hp
    rcases hp with hp | hp <;> (rw [hp]; simp)
  · intro p hp
    have := r3 p (Or.inr hp)
    rcases r1 p with h | h | h
    · exact absurd h this
    · exact Or.inl h
    · exact Or.inr h

/-- the sweep: every predicate of `todo` ends with a final label, those with Poison or Keep are in
the result, and the table stays good -/
theorem sweep_spec (ctx : Ctx) (ng allowed : List Nat) (rank : Nat → Nat)
    (hrank : ∀ p, ∀ a ∈ (ctx.info p).reason, rank a < rank p) (hlimit : 0 < ctx.limit) :
    ∀ (todo : List Nat) (st : St), Good ctx ng st.tbl →
      Good ctx ng (sweep ctx allowed st todo).1.tbl ∧
      (∀ p l, st.tbl p = some l → Final l → (sweep ctx allowed st todo).1.tbl p = some l) ∧
      (∀ p ∈ todo, ∃ l, (sweep ctx allowed st todo).1.tbl p = some l ∧ Final l ∧
        ((l = .poison ∨ l = .keep) → p ∈ (sweep ctx allowed st todo).2)) := by
  intro todo
  induction todo with
  | nil => intro st hg; exact ⟨hg, fun _ _ h _ => h, fun p hp => by cases hp⟩
  | cons p rest ih =>
    intro st hg
    obtain ⟨k, hk⟩ : ∃ k, ctx.limit = k + 1 := ⟨ctx.limit - 1, by omega⟩
    have hspec := computeLabel_spec ctx ng allowed rank hrank k st p hg
    rw [← hk] at hspec
    obtain ⟨hg', hext', hcomp'⟩ := hspec
    obtain ⟨g, keepf, all⟩ := ih (computeLabel ctx allowed ctx.limit st p) hg'
    simp only [sweep]
    obtain ⟨l, hl, hfin⟩ := (computed_iff _ p).1 hcomp'
    have hfinal_p := keepf p l hl hfin
    split
    · rename_i hkeep
      refine ⟨g, fun q l' h hl' => keepf q l' (hext'.keep q l' h hl') hl', ?_⟩
      intro q hq
      rcases List.mem_cons.1 hq with hq | hq
      · subst hq
        exact ⟨l, hfinal_p, hfin, fun _ => by simp⟩
      · obtain ⟨l', h1, h2, h3⟩ := all q hq
        exact ⟨l', h1, h2, fun h => List.mem_cons_of_mem _ (h3 h)⟩
    · rename_i hkeep
      refine ⟨g, fun q l' h hl' => keepf q l' (hext'.keep q l' h hl') hl', ?_⟩
      intro q hq
      rcases List.mem_cons.1 hq with hq | hq
      · subst hq
        refine ⟨l, hfinal_p, hfin, fun h => ?_⟩
        exfalso
        apply hkeep
        rcases h with h | h <;> (subst h; simp [hl])
      · exact all q hq

/-- **Soundness of the recursive minimiser.** Let every reason be an implication (`hreason`: a
predicate which is not a decision holds whenever the non-root antecedents of its reason hold — the
root-level ones hold anyway) and the reason graph be acyclic (`hrank`). Then, for every depth limit
`≥ 1`, whenever all predicates of the minimised nogood hold, all predicates of the original nogood
hold: the minimised nogood is implied by the original one. -/
theorem removeDominated_sound (ctx : Ctx) (ng : List Nat) (rank : Nat → Nat) (v : Nat → Prop)
    (hlimit : 0 < ctx.limit)
    (hrank : ∀ p, ∀ a ∈ (ctx.info p).reason, rank a < rank p)
    (hreason : ∀ p, (ctx.info p).isDecision = false → (∀ a ∈ (ctx.info p).reason, v a) → v p)
    (hkept : ∀ q ∈ (removeDominated ctx ng).2, v q) : ∀ p ∈ ng, v p := by
  obtain ⟨hg0, _⟩ := init_good ctx ng
  obtain ⟨hg, _, hall⟩ := sweep_spec ctx ng (init ctx ng).2 rank hrank hlimit ng (init ctx ng).1 hg0
  -- abbreviations
  have hkeep_in : ∀ q, (sweep ctx (init ctx ng).2 (init ctx ng).1 ng).1.tbl q = some .keep → v q := by
    intro q hq
    have hmem := hg.mem q (Or.inr hq)
    obtain ⟨l, h1, _, h3⟩ := hall q hmem
    rw [hq] at h1
    simp only [Option.some.injEq] at h1
    exact hkept q (h3 (Or.inr h1.symm))
  -- every Removable predicate holds: induction on the rank
  have hrem : ∀ n, ∀ q, rank q < n → (sweep ctx (init ctx ng).2 (init ctx ng).1 ng).1.tbl q = some .removable → v q := by
    intro n
    induction n with
    | zero => intro q hq; omega
    | succ n ih =>
      intro q hq hlab
      obtain ⟨hdec, hants⟩ := hg.rem q hlab
      apply hreason q hdec
      intro a ha
      have hra := hrank q a ha
      rcases hants a ha with h | h
      · exact ih a (by omega) h
      · exact hkeep_in a h
  intro p hp
  obtain ⟨l, h1, h2, h3⟩ := hall p hp
  cases l with
  | seen => exact absurd rfl h2
  | poison => exact hkept p (h3 (Or.inl rfl))
  | keep => exact hkept p (h3 (Or.inr rfl))
  | removable => exact hrem (rank p + 1) p (by omega) h1

/-- the minimised nogood is a sub-list of the original one -/
theorem sweep_sub (ctx : Ctx) (allowed : List Nat) : ∀ (todo : List Nat) (st : St),
    ∀ q ∈ (sweep ctx allowed st todo).2, q ∈ todo := by
  intro todo
  induction todo with
  | nil => intro st q hq; simp [sweep] at hq
  | cons p rest ih =>
    intro st q hq
    simp only [sweep] at hq
    split at hq
    · rcases List.mem_cons.1 hq with h | h
      · subst h; simp
      · exact List.mem_cons_of_mem _ (ih _ q h)
    · exact List.mem_cons_of_mem _ (ih _ q hq)

theorem removeDominated_sub (ctx : Ctx) (ng : List Nat) : ∀ q ∈ (removeDominated ctx ng).2, q ∈ ng :=
  sweep_sub ctx _ ng _

end Pumpkin.RecMin
