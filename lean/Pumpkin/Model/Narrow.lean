/-
Propagation only narrows: every pass, the fixpoint and the posting at the root return domains whose
values were all present before (`Sub`) over the same variables. With the soundness theorems this
closes the loop from the `Spec` model to the answer of the modelled search (`solveNL`).
-/
import Pumpkin.Model.Search

namespace Pumpkin.Pg

open Pumpkin.AtomRup (restrict restrict_length assume assume_length)

/-- a step which can only narrow the domains -/
def Nar (d : Doms) (r : Option Doms) : Prop := ∀ d', r = some d' → Sub d' d ∧ d'.length = d.length

theorem Nar.some (d : Doms) : Nar d (some d) := by
  intro d' h; cases h; exact ⟨Sub.refl d, rfl⟩

theorem Nar.none (d : Doms) : Nar d none := by intro d' h; cases h

theorem Nar.bind {d : Doms} {r : Option Doms} {g : Doms → Option Doms} (hr : Nar d r) (hg : ∀ d1, Nar d1 (g d1)) :
    Nar d (r.bind g) := by
  intro d' h
  cases r with
  | none => cases h
  | some d1 =>
    obtain ⟨s1, l1⟩ := hr d1 rfl
    obtain ⟨s2, l2⟩ := hg d1 d' h
    exact ⟨s2.trans s1, by omega⟩

theorem Nar.bind' {d : Doms} {r : Option Doms} {g : Doms → Option Doms} (hr : Nar d r) (hg : ∀ d1, Nar d1 (g d1)) :
    Nar d (r >>= g) := Nar.bind hr hg

theorem Nar.ite {d : Doms} {c : Prop} [Decidable c] {r s : Option Doms} (hr : Nar d r) (hs : Nar d s) :
    Nar d (if c then r else s) := by split <;> assumption

theorem Nar.keep (d : Doms) (w : View) (f : Int → Bool) : Nar d (keep d w f) := by
  intro d' h
  refine ⟨keep_sub h, ?_⟩
  unfold Pumpkin.Pg.keep at h
  simp only at h
  split at h
  · cases h
  · cases h; exact restrict_length ..

theorem Nar.setLb (d : Doms) (w : View) (v : Int) : Nar d (setLb d w v) := Nar.keep _ _ _
theorem Nar.setUb (d : Doms) (w : View) (v : Int) : Nar d (setUb d w v) := Nar.keep _ _ _
theorem Nar.remove (d : Doms) (w : View) (v : Int) : Nar d (remove d w v) := Nar.keep _ _ _
theorem Nar.postAtom (d : Doms) (p : Atom) : Nar d (postAtom d p) := Nar.keep _ _ _

theorem Nar.guard {d : Doms} {b : Bool} {f : Doms → Option Doms} (hf : Nar d (f d)) : Nar d (guard b f d) := by
  unfold Pumpkin.Pg.guard; cases b
  · exact Nar.some d
  · exact hf

theorem linLeLoop_nar (all : List View) (c : Int) (rest : List View) (d : Doms) : Nar d (linLeLoop all c rest d) := by
  induction rest generalizing d with
  | nil => exact Nar.some d
  | cons t rest ih =>
    simp only [linLeLoop]
    exact Nar.bind (Nar.ite (Nar.setUb _ _ _) (Nar.some d)) (fun d1 => ih d1)

theorem linLePass_nar (ts : List View) (c : Int) (d : Doms) : Nar d (linLePass ts c d) := by
  unfold linLePass; exact Nar.ite (Nar.none d) (linLeLoop_nar _ _ _ _)

theorem linNePass_nar (ts : List View) (c : Int) (d : Doms) : Nar d (linNePass ts c d) := by
  unfold linNePass
  simp only
  refine Nar.ite (Nar.some d) (Nar.ite ?_ (Nar.ite (Nar.none d) (Nar.some d)))
  split
  · exact Nar.remove _ _ _
  · exact Nar.some d

theorem absPass_nar (s r : View) (d : Doms) : Nar d (absPass s r d) := by
  unfold absPass
  refine Nar.bind (Nar.setLb _ _ _) (fun d1 => ?_)
  dsimp only
  refine Nar.bind (Nar.setUb _ _ _) (fun d2 => ?_)
  refine Nar.bind (Nar.ite (Nar.setLb _ _ _) (Nar.ite (Nar.setLb _ _ _) (Nar.some d2))) (fun d3 => ?_)
  refine Nar.bind (Nar.setLb _ _ _) (fun d4 => ?_)
  refine Nar.bind (Nar.setUb _ _ _) (fun d5 => ?_)
  exact Nar.ite (Nar.setUb _ _ _) (Nar.ite (Nar.setLb _ _ _) (Nar.some d5))

theorem maxLoop1_nar (R : Int) (rest : List View) (mLb mUb : Int) (d : Doms) :
    ∀ M M' d', maxLoop1 R rest mLb mUb d = Option.some (M, M', d') → Sub d' d ∧ d'.length = d.length := by
  induction rest generalizing mLb mUb d with
  | nil => intro M M' d' h; simp only [maxLoop1, Option.some.injEq, Prod.mk.injEq] at h; obtain ⟨_, _, rfl⟩ := h; exact ⟨Sub.refl _, rfl⟩
  | cons x rest ih =>
    intro M M' d' h
    simp only [maxLoop1] at h
    cases hs : setUb d x R with
    | none => rw [hs] at h; cases h
    | some d1 =>
      rw [hs] at h
      simp only [Option.bind_some] at h
      obtain ⟨s1, l1⟩ := Nar.setUb d x R d1 hs
      obtain ⟨s2, l2⟩ := ih _ _ d1 M M' d' h
      exact ⟨s2.trans s1, by omega⟩

theorem maxPass_nar (xs : List View) (r : View) (d : Doms) : Nar d (maxPass xs r d) := by
  unfold maxPass
  cases xs with
  | nil => exact Nar.some d
  | cons x0 xs' =>
    dsimp only
    intro d' h
    cases hl : maxLoop1 (ub d r) (x0 :: xs') (lb d x0) (ub d x0) d with
    | none => rw [hl] at h; cases h
    | some t =>
      obtain ⟨M, M', d1⟩ := t
      rw [hl] at h
      simp only [Option.bind_some] at h
      obtain ⟨s1, l1⟩ := maxLoop1_nar _ _ _ _ _ M M' d1 hl
      have : Nar d1 ((setLb d1 r M).bind fun d2 =>
          (if ub d r > M' then setUb d2 r M' else Option.some d2).bind fun d3 =>
            match maxSupport d3 (x0 :: xs') (lb d3 r) with
            | [x] => if lb d3 x < lb d3 r then setLb d3 x (lb d3 r) else Option.some d3
            | _ => Option.some d3) := by
        refine Nar.bind (Nar.setLb _ _ _) (fun d2 => ?_)
        refine Nar.bind (Nar.ite (Nar.setUb _ _ _) (Nar.some d2)) (fun d3 => ?_)
        split
        · exact Nar.ite (Nar.setLb _ _ _) (Nar.some d3)
        · exact Nar.some d3
      obtain ⟨s2, l2⟩ := this d' h
      exact ⟨s2.trans s1, by omega⟩

theorem timesSigns_nar (a b c : View) (d : Doms) : Nar d (timesSigns a b c d) := by
  unfold timesSigns
  dsimp only
  refine Nar.bind' (Nar.guard (Nar.setLb _ _ _)) (fun d1 => ?_)
  refine Nar.bind' (Nar.guard (Nar.setLb _ _ _)) (fun d2 => ?_)
  refine Nar.bind' (Nar.guard (Nar.setLb _ _ _)) (fun d3 => ?_)
  refine Nar.bind' (Nar.guard (Nar.setLb _ _ _)) (fun d4 => ?_)
  refine Nar.bind' (Nar.guard (Nar.setLb _ _ _)) (fun d5 => ?_)
  refine Nar.bind' (Nar.guard (Nar.setLb _ _ _)) (fun d6 => ?_)
  refine Nar.bind' (Nar.guard (Nar.setUb _ _ _)) (fun d7 => ?_)
  refine Nar.bind' (Nar.guard (Nar.setUb _ _ _)) (fun d8 => ?_)
  refine Nar.bind' (Nar.guard (Nar.setUb _ _ _)) (fun d9 => ?_)
  refine Nar.bind' (Nar.guard (Nar.setUb _ _ _)) (fun d10 => ?_)
  refine Nar.bind' (Nar.guard (Nar.setUb _ _ _)) (fun d11 => ?_)
  exact Nar.guard (Nar.setUb _ _ _)

theorem timesPass_nar (a b c : View) (d : Doms) : Nar d (timesPass a b c d) := by
  unfold timesPass
  refine Nar.bind' (timesSigns_nar _ _ _ _) (fun d1 => ?_)
  dsimp only
  refine Nar.bind' (Nar.guard (Nar.bind (Nar.setUb _ _ _) (fun d' => Nar.setLb _ _ _))) (fun d2 => ?_)
  refine Nar.bind' (Nar.guard (Nar.setLb _ _ _)) (fun d3 => ?_)
  refine Nar.bind' (Nar.guard (Nar.setUb _ _ _)) (fun d4 => ?_)
  refine Nar.bind' (Nar.guard (Nar.setUb _ _ _)) (fun d5 => ?_)
  refine Nar.bind' (Nar.guard (Nar.setLb _ _ _)) (fun d6 => ?_)
  unfold timesCheck
  exact Nar.ite (Nar.none d6) (Nar.some d6)

theorem divSigns_nar (n dn r : View) (d : Doms) : Nar d (divSigns n dn r d) := by
  unfold divSigns
  dsimp only
  refine Nar.bind' (Nar.guard (Nar.setLb _ _ _)) (fun d1 => ?_)
  refine Nar.bind' (Nar.guard (Nar.setLb _ _ _)) (fun d2 => ?_)
  refine Nar.bind' (Nar.guard (Nar.setUb _ _ _)) (fun d3 => ?_)
  exact Nar.guard (Nar.setUb _ _ _)

theorem divUpper_nar (n dn r : View) (d : Doms) : Nar d (divUpper n dn r d) := by
  unfold divUpper
  dsimp only
  refine Nar.bind' (Nar.guard (Nar.setUb _ _ _)) (fun d1 => ?_)
  exact Nar.guard (Nar.setUb _ _ _)

theorem divPositive_nar (n dn r : View) (d : Doms) : Nar d (divPositive n dn r d) := by
  unfold divPositive
  dsimp only
  refine Nar.bind' (Nar.guard (Nar.setLb _ _ _)) (fun d1 => ?_)
  refine Nar.bind' (Nar.guard (Nar.setLb _ _ _)) (fun d2 => ?_)
  refine Nar.bind' (Nar.guard (Nar.setUb _ _ _)) (fun d3 => ?_)
  exact Nar.guard (Nar.setLb _ _ _)

theorem divPass_nar (n dn r : View) (d : Doms) : Nar d (divPass n dn r d) := by
  unfold divPass
  refine Nar.ite (Nar.some d) (Nar.ite (Nar.some d) ?_)
  dsimp only
  refine Nar.bind' (divSigns_nar _ _ _ _) (fun d1 => ?_)
  refine Nar.bind' (Nar.guard (divUpper_nar _ _ _ _)) (fun d2 => ?_)
  refine Nar.bind' (Nar.guard (divUpper_nar _ _ _ _)) (fun d3 => ?_)
  refine Nar.bind' (Nar.guard (divPositive_nar _ _ _ _)) (fun d4 => ?_)
  exact Nar.guard (divPositive_nar _ _ _ _)

theorem elementRemoveLoop_nar (iv : View) (rLb rUb : Int) (d0 : Doms) (l : List (Int × View)) (d : Doms) :
    Nar d (elementRemoveLoop iv rLb rUb d0 l d) := by
  induction l generalizing d with
  | nil => exact Nar.some d
  | cons p rest ih =>
    obtain ⟨k, x⟩ := p
    simp only [elementRemoveLoop]
    exact Nar.bind (Nar.ite (Nar.remove _ _ _) (Nar.some d)) (fun d1 => ih d1)

theorem elementPass_nar (iv : View) (xs : List View) (r : View) (d : Doms) : Nar d (elementPass iv xs r d) := by
  unfold elementPass
  refine Nar.bind (Nar.setLb _ _ _) (fun d1 => ?_)
  refine Nar.bind (Nar.setUb _ _ _) (fun d2 => ?_)
  dsimp only
  refine Nar.bind (Nar.setLb _ _ _) (fun d3 => ?_)
  refine Nar.bind (Nar.setUb _ _ _) (fun d4 => ?_)
  refine Nar.bind (elementRemoveLoop_nar _ _ _ _ _ _) (fun d5 => ?_)
  refine Nar.ite ?_ (Nar.some d5)
  split
  · exact Nar.bind (Nar.setLb _ _ _) (fun d6 => Nar.setUb _ _ _)
  · exact Nar.some d5

theorem clausePass_nar (ls : List Atom) (d : Doms) : Nar d (clausePass ls d) := by
  unfold clausePass
  refine Nar.ite (Nar.some d) ?_
  split
  · exact Nar.none d
  · exact Nar.ite (Nar.postAtom _ _) (Nar.some d)

theorem ttTaskAt_nar (holes : Bool) (cap : Int) (ts : List Task) (t : Int) (k : Task) (d : Doms) :
    Nar d (ttTaskAt holes cap ts t k d) := by
  unfold ttTaskAt
  refine Nar.ite ?_ (Nar.some d)
  refine Nar.bind (Nar.ite (Nar.setLb _ _ _) (Nar.some d)) (fun d1 => ?_)
  refine Nar.bind (Nar.ite (Nar.setUb _ _ _) (Nar.some d1)) (fun d2 => ?_)
  exact Nar.ite (Nar.keep _ _ _) (Nar.some d2)

theorem ttTasksAt_nar (holes : Bool) (cap : Int) (ts : List Task) (t : Int) (sub : List Task) (d : Doms) :
    Nar d (ttTasksAt holes cap ts t sub d) := by
  induction sub generalizing d with
  | nil => exact Nar.some d
  | cons k r ih => simp only [ttTasksAt]; exact Nar.bind (ttTaskAt_nar _ _ _ _ _ _) (fun d1 => ih d1)

theorem ttPoints_nar (holes : Bool) (cap : Int) (ts : List Task) (times : List Int) (d : Doms) :
    Nar d (ttPoints holes cap ts times d) := by
  induction times generalizing d with
  | nil => exact Nar.some d
  | cons t r ih =>
    simp only [ttPoints]
    refine Nar.ite (Nar.none d) (Nar.ite ?_ (ih d))
    exact Nar.bind (ttTasksAt_nar _ _ _ _ _ _) (fun d1 => ih d1)

theorem ttPass_nar (holes : Bool) (ts : List Task) (cap : Int) (d : Doms) : Nar d (ttPass holes ts cap d) := by
  unfold ttPass
  simp only []
  exact Nar.ite (Nar.none d) (ttPoints_nar _ _ _ _ _)

theorem pass_nar (p : PropInst) (d : Doms) : Nar d (p.pass d) := by
  induction p generalizing d with
  | linLe ts c => exact linLePass_nar _ _ _
  | linNe ts c => exact linNePass_nar _ _ _
  | abs s r => exact absPass_nar _ _ _
  | max xs r => exact maxPass_nar _ _ _
  | times a b c => exact timesPass_nar _ _ _ _
  | div a b c => exact divPass_nar _ _ _ _
  | element i xs r => exact elementPass_nar _ _ _ _
  | clause ls => exact clausePass_nar _ _
  | cumulative holes ts cap => exact ttPass_nar _ _ _ _
  | reified r q ih =>
    simp only [PropInst.pass]
    exact Nar.bind (Nar.ite (Nar.postAtom _ _) (Nar.some d)) (fun d1 => Nar.ite (ih d1) (Nar.some d1))

theorem round_nar (ps : List PropInst) (d : Doms) : Nar d (round ps d) := by
  induction ps generalizing d with
  | nil => exact Nar.some d
  | cons p ps ih => simp only [round]; exact Nar.bind (pass_nar p d) (fun d1 => ih d1)

theorem iterate_nar (ps : List PropInst) (fuel : Nat) (d : Doms) : Nar d (iterate ps fuel d) := by
  induction fuel generalizing d with
  | zero => exact Nar.some d
  | succ k ih =>
    simp only [iterate]
    cases hr : round ps d with
    | none => exact Nar.none d
    | some d1 =>
      obtain ⟨s1, l1⟩ := round_nar ps d d1 hr
      simp only
      split
      · intro d' h; cases h; exact ⟨s1, l1⟩
      · intro d' h
        obtain ⟨s2, l2⟩ := ih d1 d' h
        exact ⟨s2.trans s1, by omega⟩

theorem fixpoint_nar (ps : List PropInst) (d : Doms) : Nar d (fixpoint ps d) := by
  unfold fixpoint; exact Nar.ite (Nar.none d) (iterate_nar _ _ _)

theorem assume_sub (d : Doms) (p : Atom) : Sub (assume d p) d := dom_restrict_sub _ _ _

theorem inDoms_of_sub {d' d : Doms} (hs : Sub d' d) (hl : d'.length = d.length) {a : List Int}
    (h : inDoms d' a = true) : inDoms d a = true := by
  induction d generalizing d' a with
  | nil =>
    cases d' with
    | nil => exact h
    | cons _ _ => simp at hl
  | cons l ls ih =>
    cases d' with
    | nil => simp at hl
    | cons l' ls' =>
      cases a with
      | nil => simp [inDoms] at h
      | cons v vs =>
        simp only [inDoms, Bool.and_eq_true, List.contains_iff_mem] at h ⊢
        refine ⟨?_, ?_⟩
        · have := hs 0 v (by simpa [dom] using h.1)
          simpa [dom] using this
        · apply ih (d' := ls') _ (by simpa using hl) h.2
          intro x w hw
          have := hs (x + 1) w (by simpa [dom] using hw)
          simpa [dom] using this


/-! ### from the `Spec` model to the answer of the modelled solver -/

def Below (d0 d : Doms) : Prop := Sub d d0 ∧ d.length = d0.length

theorem Below.refl (d : Doms) : Below d d := ⟨Sub.refl d, rfl⟩

theorem Below.step {d0 d : Doms} (h : Below d0 d) {r : Option Doms} (hn : Nar d r) {d' : Doms} (e : r = some d') : Below d0 d' := by
  obtain ⟨s, l⟩ := hn d' e
  exact ⟨s.trans h.1, by rw [l, h.2]⟩

theorem Below.assume {d0 d : Doms} (h : Below d0 d) (p : Atom) : Below d0 (assume d p) :=
  ⟨(assume_sub d p).trans h.1, by rw [assume_length, h.2]⟩

theorem initPosts_nar (ps : List PropInst) (d : Doms) : Nar d (initPosts ps d) := by
  induction ps generalizing d with
  | nil => exact Nar.some d
  | cons p ps ih =>
    simp only [initPosts]
    refine Nar.bind ?_ (fun d1 => ih d1)
    cases p with
    | reified r q => simp only [initPost]; exact Nar.ite (Nar.postAtom _ _) (Nar.some d)
    | _ => exact Nar.some d

theorem postAll_below (orig : Doms) (d0 : Doms) (cs : List Cons) (ps : List PropInst) (d : Doms) (hb : Below d0 d)
    (ps' : List PropInst) (d' : Doms) (h : postAll orig cs ps d = some (some (ps', d'))) : Below d0 d' := by
  induction cs generalizing ps d with
  | nil => simp only [postAll, Option.some.injEq, Prod.mk.injEq] at h; obtain ⟨_, rfl⟩ := h; exact hb
  | cons c cs ih =>
    simp only [postAll] at h
    split at h
    · cases h
    · rename_i qs _
      cases hq : (initPosts qs d).bind (fixpoint (ps ++ qs)) with
      | none => rw [hq] at h; simp at h
      | some d1 =>
        rw [hq] at h
        simp only at h
        have : Nar d ((initPosts qs d).bind (fixpoint (ps ++ qs))) := Nar.bind (initPosts_nar qs d) (fun d2 => fixpoint_nar _ d2)
        exact ih (ps ++ qs) d1 (hb.step this hq) h

theorem rootFix_below (orig : Doms) (cs : List Cons) (d0 : Doms) (h : rootFix orig cs = some (some d0)) : Below orig d0 := by
  unfold rootFix at h
  split at h
  · cases h
  · cases hr : postAll orig cs [] orig with
    | none => rw [hr] at h; cases h
    | some r =>
      rw [hr] at h
      cases r with
      | none => simp at h
      | some pd =>
        obtain ⟨ps', d'⟩ := pd
        simp only [Option.map_some, Option.some.injEq] at h
        subst h
        exact postAll_below orig orig cs [] orig (Below.refl orig) ps' d' hr

theorem backtrack_below (ps : List PropInst) (d0 : Doms) (stack : List Frame) (hs : ∀ f ∈ stack, Below d0 f.before)
    (d : Doms) (st : List Frame) (h : backtrack ps stack = some (d, st)) : Below d0 d ∧ ∀ f ∈ st, Below d0 f.before := by
  induction stack with
  | nil => simp [backtrack] at h
  | cons f rest ih =>
    simp only [backtrack] at h
    split at h
    · rename_i d1 hf
      simp only [Option.some.injEq, Prod.mk.injEq] at h
      obtain ⟨rfl, rfl⟩ := h
      exact ⟨((hs f (by simp)).assume f.dec.neg).step (fixpoint_nar ps _) hf, fun g hg => hs g (by simp [hg])⟩
    · exact ih (fun g hg => hs g (by simp [hg])) h

theorem inDoms_sing (a : List Int) : inDoms (sing a) a = true := by
  induction a with
  | nil => rfl
  | cons v vs ih => simp [sing, inDoms] at ih ⊢; exact ih

theorem search_sat_below {σ : Type} (ps : List PropInst) (strat : σ → Doms → Choice σ) (d0 : Doms) (a : List Int)
    (fuel : Nat) (s : σ) (cur : Doms) (stack : List Frame) (hc : Below d0 cur) (hs : ∀ f ∈ stack, Below d0 f.before)
    (h : search ps strat fuel s cur stack = .sat a) : inDoms d0 a = true := by
  induction fuel generalizing s cur stack with
  | zero => simp [search] at h
  | succ k ih =>
    simp only [search] at h
    split at h
    · cases h
    · split at h
      · rename_i hfix
        split at h
        · simp only [Outcome.sat.injEq] at h
          subst h
          have := assignmentOf_sing hfix
          have hin : inDoms cur (assignmentOf cur) = true := by
            have h2 := inDoms_sing (assignmentOf cur)
            rw [this] at h2; exact h2
          exact inDoms_of_sub hc.1 hc.2 hin
        · cases h
      · cases h
    · rename_i p s' _
      have hs2 : ∀ f ∈ (⟨cur, p⟩ :: stack : List Frame), Below d0 f.before := by
        intro f hf
        rcases List.mem_cons.1 hf with rfl | hf
        · exact hc
        · exact hs f hf
      split at h
      · rename_i d hf
        exact ih s' d _ ((hc.assume p).step (fixpoint_nar ps _) hf) hs2 h
      · split at h
        · cases h
        · rename_i d st hbt
          obtain ⟨b1, b2⟩ := backtrack_below ps d0 _ hs2 d st hbt
          exact ih s' d st b1 b2 h

theorem compileAll_fwd (orig : Doms) (cs : List Cons) (ps : List PropInst) (hc : compileAll orig cs = some ps)
    (a : List Int) (hin : inDoms orig a = true) (hs : ∀ c ∈ cs, c.sat a = true) : ∀ p ∈ ps, p.cons.sat a = true := by
  induction cs generalizing ps with
  | nil => simp only [compileAll, Option.some.injEq] at hc; subst hc; simp
  | cons c cs ih =>
    simp only [compileAll, Option.bind_eq_some_iff, Option.map_eq_some_iff] at hc
    obtain ⟨qs, hq, rs, hr, rfl⟩ := hc
    intro p hp
    rcases List.mem_append.1 hp with hp | hp
    · exact compile_fwd orig c qs hq a hin (hs c (by simp)) p hp
    · exact ih rs hr (fun c' hc' => hs c' (by simp [hc'])) p hp

/-- the modelled solver: post everything at the root, then search -/
def solveNL {σ : Type} (m : Model) (strat : σ → Doms → Choice σ) (fuel : Nat) (s0 : σ) : Option Outcome :=
  match compileAll m.doms m.cons, rootFix m.doms m.cons with
  | some ps, some (some d0) => some (search ps strat fuel s0 d0 [])
  | some _, some none => some .unsat
  | _, _ => none

/-- **The modelled solver answers `unsat` only for models without solutions** — for every model of the
modelled constraint kinds, every decision strategy and every fuel. -/
theorem solveNL_unsat_sound {σ : Type} (m : Model) (hw : ∀ c ∈ m.cons, consWf m.doms.length c)
    (strat : σ → Doms → Choice σ) (hsw : StratWf m.doms.length strat) (fuel : Nat) (s0 : σ)
    (h : solveNL m strat fuel s0 = some .unsat) : solutions m = [] := by
  unfold solveNL at h
  split at h
  · rename_i ps d0 hc hr
    simp only [Option.some.injEq] at h
    rw [solutions_eq_nil_iff]
    intro a
    cases hs : m.sat a with
    | false => rfl
    | true =>
      exfalso
      have hin0 := rootFix_encloses m hw d0 hr a ((mem_solutions m a).2 hs)
      simp only [Model.sat, Bool.and_eq_true, List.all_eq_true] at hs
      have hlen := inDoms_length hs.1
      obtain ⟨w, _⟩ := compileAll_spec (n := m.doms.length) m.doms m.cons ps hc hw
      have hsat := compileAll_fwd m.doms m.cons ps hc a hs.1 hs.2
      exact search_unsat_sound ps strat a (by rw [hlen]; exact w) (by rw [hlen]; exact hsw) hsat fuel s0 d0 []
        (fun _ hf => by cases hf) (Or.inl ⟨d0, rfl, hin0⟩) h
  · rename_i hr
    exact rootFix_conflict_unsat m hw hr
  · cases h

/-- **… and `sat a` only for a solution of the model.** -/
theorem solveNL_sat_sound {σ : Type} (m : Model) (hw : ∀ c ∈ m.cons, consWf m.doms.length c)
    (strat : σ → Doms → Choice σ) (fuel : Nat) (s0 : σ) (a : List Int)
    (h : solveNL m strat fuel s0 = some (.sat a))
    (hpre : ∀ ps, compileAll m.doms m.cons = some ps → ∀ p ∈ ps, p.Pre a) : m.sat a = true := by
  unfold solveNL at h
  split at h
  · rename_i ps d0 hc hr
    simp only [Option.some.injEq] at h
    have hb := rootFix_below m.doms m.cons d0 hr
    have hin0 := search_sat_below ps strat d0 a fuel s0 d0 [] (Below.refl d0) (fun _ hf => by cases hf) h
    have hin : inDoms m.doms a = true := inDoms_of_sub hb.1 hb.2 hin0
    have hlen := inDoms_length hin
    obtain ⟨w, bwd⟩ := compileAll_spec (n := m.doms.length) m.doms m.cons ps hc hw
    have hs := search_sat_sound ps strat a fuel s0 d0 [] h (by rw [hlen]; exact w) (hpre ps hc)
    simp only [Model.sat, Bool.and_eq_true, List.all_eq_true]
    exact ⟨hin, bwd a hin hs⟩
  · cases h
  · cases h

end Pumpkin.Pg
