/-
The store as a whole (`Assignments`): for every sequence of operations
* `inv_run`        — the domains are the replay of the trail (`build`), every domain is `Tight`;
* `mem_iff_trail`  — a value is in the domain of `x` iff every trail predicate over `x` allows it;
* `sync_restores`  — backtracking gives back exactly the state in which the level was left.
-/
import Pumpkin.Model.AssignmentsSound

namespace Pumpkin.Asg

open IDom St

/-! list helpers -/

theorem getD_set_self {α} (l : List α) (i : Nat) (a d : α) (h : i < l.length) :
    (l.set i a).getD i d = a := by
  simp [List.getD, h]

theorem getD_set_ne {α} (l : List α) (i j : Nat) (a d : α) (h : i ≠ j) :
    (l.set i a).getD j d = l.getD j d := by
  simp [List.getD, List.getElem?_set_ne h]

theorem set_getD_self {α} (l : List α) (i : Nat) (d : α) (h : i < l.length) :
    l.set i (l.getD i d) = l := by
  apply List.ext_getElem?
  intro j
  by_cases hij : i = j
  · subst hij; simp [List.getD, h]
  · simp [List.getElem?_set_ne hij]

theorem getD_append_lt {α} (l1 l2 : List α) (i : Nat) (d : α) (h : i < l1.length) :
    (l1 ++ l2).getD i d = l1.getD i d := by
  simp [List.getD, List.getElem?_append_left h]

theorem getD_append_len {α} (l1 : List α) (a d : α) : (l1 ++ [a]).getD l1.length d = a := by
  simp [List.getD]

/-! replay of the trail -/

def applyEntry (ds : List IDom) (e : Entry) (pos : Nat) : List IDom :=
  if e.grow then
    match e.atom with
    | .ge _ _ => ds ++ [IDom.new e.oldLb e.oldUb]
    | _ => ds
  else ds.set e.atom.var (applyAtom (ds.getD e.atom.var default) e.atom e.level pos)

def build : List Entry → List IDom
  | [] => []
  | e :: r => applyEntry (build r) e r.length

/-- well-formed trails: a creation entry `[x >= lo]` is at level 0 and names the next variable, its
partner `[x <= hi]` sits right above it; every other entry is a real change of an existing variable -/
def WF : List Entry → Prop
  | [] => True
  | e :: r => WF r ∧
    (if e.grow then
      e.level = 0 ∧
      (e.atom = .ge (build r).length e.oldLb ∨
       (∃ r', r = ⟨.ge (build r').length e.oldLb, e.oldLb, e.oldUb, 0, true⟩ :: r' ∧
          e.atom = .le (build r').length e.oldUb))
     else
      e.atom.var < (build r).length ∧ changes ((build r).getD e.atom.var default) e.atom = true)

/-- what a trail entry says about the value of its variable -/
def Entry.allows (e : Entry) (v : Int) : Prop :=
  if e.grow then e.oldLb ≤ v ∧ v ≤ e.oldUb else e.atom.holdsVal v = true

theorem applyAtom_mem (d : IDom) (p : Atom) (l pos : Nat) (v : Int) (h : changes d p = true) :
    (applyAtom d p l pos).mem v ↔ d.mem v ∧ p.holdsVal v = true := by
  cases p with
  | ge x k => simp [applyAtom, setLb_mem, Atom.holdsVal]
  | le x k => simp [applyAtom, setUb_mem, Atom.holdsVal]
  | ne x k => simp [applyAtom, removeValue_mem, Atom.holdsVal]
  | eq x k => simp [changes] at h

theorem undo_applyAtom (d : IDom) (p : Atom) (l pos : Nat) (h : changes d p = true) :
    (applyAtom d p l pos).undo p = d := by
  cases p with
  | ge x k => exact undo_setLb d x k l pos (by simpa [changes] using h)
  | le x k => exact undo_setUb d x k l pos (by simpa [changes] using h)
  | ne x k => exact undo_removeValue d x k l pos (by simpa [changes] using h)
  | eq x k => simp [changes] at h

theorem applyAtom_tight (d : IDom) (p : Atom) (l pos : Nat) (h : d.Tight) : (applyAtom d p l pos).Tight := by
  cases p with
  | ge x k => exact setLb_tight d k l pos h
  | le x k => exact setUb_tight d k l pos h
  | ne x k =>
    -- via the value-level characterisation: the new bounds are members or the domain is empty
    simp only [applyAtom]
    unfold removeValue
    split
    · exact h
    · rename_i hg
      have hg' : d.lb ≤ k ∧ k ≤ d.ub ∧ d.hole k = false := by
        refine ⟨by omega, by omega, ?_⟩
        cases hh : d.hole k
        · rfl
        · exact absurd (Or.inr (Or.inr hh)) hg
      -- the domain with the hole recorded is tight unless k is one of its bounds
      generalize hd1 : ({ d with hus := ⟨k, l, pos, false, false⟩ :: d.hus } : IDom) = d1
      have hlb1 : d1.lb = d.lb := by subst hd1; rfl
      have hub1 : d1.ub = d.ub := by subst hd1; rfl
      have hh1 : ∀ u, d1.hole u = (k == u || d.hole u) := by
        intro u; subst hd1; simp [hole]
      have t1 : d1.lb ≤ d1.ub → (d1.lb ≠ k → d1.hole d1.lb = false) ∧ (d1.ub ≠ k → d1.hole d1.ub = false) := by
        intro hne
        rw [hlb1, hub1] at hne
        have := h hne
        refine ⟨?_, ?_⟩
        · intro hk; rw [hh1, hlb1]; simp [this.1]; rw [hlb1] at hk; exact fun e => hk e.symm
        · intro hk; rw [hh1, hub1]; simp [this.2]; rw [hub1] at hk; exact fun e => hk e.symm
      simp only []
      -- lower-bound move
      have t2 : ∀ d2, d2 = (if d1.lb = k then (d1.setLb (k + 1) l pos).setTrigLb else d1) →
          d2.lb ≤ d2.ub → d2.hole d2.lb = false ∧ (d2.ub ≠ k → d2.hole d2.ub = false) ∧ d2.ub = d1.ub ∧
            (∀ u, d2.hole u = d1.hole u) := by
        intro d2 hd2 hne
        by_cases he : d1.lb = k
        · rw [if_pos he] at hd2
          have hs := skipUp_spec d1 d1.ub (d1.ub + 1 - (k + 1)).toNat (k + 1) (Nat.le_refl _)
          have hk1 : ¬ (k + 1 ≤ d1.lb) := by omega
          have hlb2 : d2.lb = d1.skipUp d1.ub (d1.ub + 1 - (k + 1)).toNat (k + 1) := by
            subst hd2; rw [setTrigLb_lb]; unfold setLb; rw [if_neg hk1]; rfl
          have hub2 : d2.ub = d1.ub := by subst hd2; simp
          have hh2 : ∀ u, d2.hole u = d1.hole u := by intro u; subst hd2; simp
          refine ⟨?_, ?_, hub2, hh2⟩
          · rw [hh2, hlb2]
            rcases hs.2.2 with h' | h'
            · rw [hlb2, hub2] at hne; omega
            · exact h'
          · intro hk; rw [hh2, hub2]
            rw [hub2] at hk
            exact (t1 (by rw [hlb2, hub2] at hne; omega)).2 hk
        · rw [if_neg he] at hd2
          subst hd2
          exact ⟨(t1 hne).1 he, (t1 hne).2, rfl, fun _ => rfl⟩
      generalize hd2 : (if d1.lb = k then (d1.setLb (k + 1) l pos).setTrigLb else d1) = d2
      have t2' := t2 d2 hd2.symm
      split
      · rename_i he
        intro hne
        simp only [setTrigUb_lb, setTrigUb_ub, setTrigUb_hole, setUb_lb, setUb_hole] at hne ⊢
        have hs := skipDown_spec d2 d2.lb (k - 1 + 1 - d2.lb).toNat (k - 1) (Nat.le_refl _)
        have hk1 : ¬ (d2.ub ≤ k - 1) := by omega
        have hub3 : (d2.setUb (k - 1) l pos).ub = d2.skipDown d2.lb (k - 1 + 1 - d2.lb).toNat (k - 1) := by
          unfold setUb; rw [if_neg hk1]; rfl
        rw [hub3] at hne ⊢
        have := t2' (by omega)
        refine ⟨this.1, ?_⟩
        rcases hs.2.2 with h' | h'
        · omega
        · exact h'
      · rename_i he
        intro hne
        have := t2' hne
        exact ⟨this.1, this.2.1 he⟩
  | eq x k => exact h

theorem build_cons_length (e : Entry) (r : List Entry) :
    (build (e :: r)).length = (build r).length ∨ (build (e :: r)).length = (build r).length + 1 := by
  simp only [build, applyEntry]
  split
  · split <;> simp
  · simp

theorem wf_var_lt : ∀ (t : List Entry), WF t → ∀ e ∈ t, e.atom.var < (build t).length := by
  intro t
  induction t with
  | nil => intro _ e he; cases he
  | cons a r ih =>
    intro hwf e he
    obtain ⟨hr, ha⟩ := hwf
    rcases List.mem_cons.1 he with rfl | her
    · by_cases hg : e.grow = true
      · simp only [hg, if_true] at ha
        rcases ha.2 with h1 | ⟨r', h1, h2⟩
        · have : (build (e :: r)).length = (build r).length + 1 := by
            simp [build, applyEntry, hg, h1]
          rw [this, h1]; simp [Atom.var]
        · have h3 : (build r).length = (build r').length + 1 := by
            rw [h1]; simp [build, applyEntry]
          have : (build (e :: r)).length = (build r).length := by
            simp [build, applyEntry, hg, h2]
          rw [this, h2, h3]; simp [Atom.var]
      · simp only [hg] at ha
        rcases build_cons_length e r with h | h <;> simp at ha <;> omega
    · have := ih hr e her
      rcases build_cons_length a r with h | h <;> omega

/-- all domains of a replayed well-formed trail are tight -/
theorem build_tight : ∀ (t : List Entry), WF t → ∀ x, x < (build t).length → ((build t).getD x default).Tight := by
  intro t
  induction t with
  | nil => intro _ x hx; simp [build] at hx
  | cons e r ih =>
    intro hwf x hx
    obtain ⟨hr, he⟩ := hwf
    simp only [build, applyEntry] at hx ⊢
    by_cases hg : e.grow = true
    · simp only [hg, if_true] at hx ⊢
      split
      · rename_i y k hk
        simp only [hk, List.length_append, List.length_singleton] at hx
        by_cases hxl : x < (build r).length
        · rw [getD_append_lt _ _ _ _ hxl]; exact ih hr x hxl
        · have : x = (build r).length := by omega
          subst this
          rw [getD_append_len]
          exact tight_new _ _
      · rename_i hk
        have : x < (build r).length := by
          revert hx; split <;> simp_all
        exact ih hr x this
    · simp only [hg] at hx ⊢
      simp only [Bool.false_eq_true, if_false, List.length_set] at hx ⊢
      by_cases hxe : e.atom.var = x
      · subst hxe
        rw [getD_set_self _ _ _ _ hx]
        exact applyAtom_tight _ _ _ _ (ih hr _ hx)
      · rw [getD_set_ne _ _ _ _ _ hxe]; exact ih hr x hx

/-- **the domain is the set of values allowed by every trail entry over the variable** -/
theorem build_mem_iff : ∀ (t : List Entry), WF t → ∀ x, x < (build t).length → ∀ v,
    ((build t).getD x default).mem v ↔ ∀ e ∈ t, e.atom.var = x → e.allows v := by
  intro t
  induction t with
  | nil => intro _ x hx; simp [build] at hx
  | cons e r ih =>
    intro hwf x hx v
    obtain ⟨hr, he⟩ := hwf
    simp only [List.forall_mem_cons]
    by_cases hg : e.grow = true
    · simp only [hg, if_true] at he
      rcases he.2 with h1 | ⟨r', h1, h2⟩
      · -- creation of variable `(build r).length`
        have hb : build (e :: r) = build r ++ [IDom.new e.oldLb e.oldUb] := by
          simp [build, applyEntry, hg, h1]
        rw [hb] at hx ⊢
        simp only [List.length_append, List.length_singleton] at hx
        by_cases hxl : x < (build r).length
        · rw [getD_append_lt _ _ _ _ hxl, ih hr x hxl v]
          have : e.atom.var ≠ x := by rw [h1]; simp [Atom.var]; omega
          simp [this]
        · have hxe : x = (build r).length := by omega
          subst hxe
          rw [getD_append_len]
          have hnone : ∀ e' ∈ r, e'.atom.var = (build r).length → e'.allows v := by
            intro e' he' hv
            have := wf_var_lt r hr e' he'; omega
          have hv : e.atom.var = (build r).length := by rw [h1]; rfl
          simp only [hv, true_imp_iff]
          simp only [Entry.allows, hg, if_true]
          constructor
          · intro h
            refine ⟨?_, hnone⟩
            simpa [mem, new, IDom.lb, IDom.ub, hole] using h
          · intro h
            simpa [mem, new, IDom.lb, IDom.ub, hole] using h.1
      · -- the partner entry: nothing changes, and it says what the creation entry says
        have hb : build (e :: r) = build r := by
          simp [build, applyEntry, hg, h2]
        rw [hb] at hx ⊢
        rw [ih hr x hx v]
        constructor
        · intro h
          refine ⟨?_, h⟩
          intro hv
          have hp := h ⟨.ge (build r').length e.oldLb, e.oldLb, e.oldUb, 0, true⟩ (by rw [h1]; simp)
            (by rw [← hv, h2]; rfl)
          simpa [Entry.allows, hg] using hp
        · intro h; exact h.2
    · simp only [hg] at he
      simp only [Bool.false_eq_true, if_false] at he
      have hb : build (e :: r) = (build r).set e.atom.var
          (applyAtom ((build r).getD e.atom.var default) e.atom e.level r.length) := by
        simp [build, applyEntry, hg]
      rw [hb] at hx ⊢
      simp only [List.length_set] at hx
      by_cases hxe : e.atom.var = x
      · subst hxe
        rw [getD_set_self _ _ _ _ hx, applyAtom_mem _ _ _ _ _ he.2, ih hr _ hx v]
        simp [Entry.allows, hg, and_comm]
      · rw [getD_set_ne _ _ _ _ _ hxe, ih hr x hx v]
        simp [hxe]

/-! the invariant of the store and its preservation by every operation -/

structure Inv (s : St) : Prop where
  wf : WF s.trail
  doms : s.doms = build s.trail
  lvl : ∀ e ∈ s.trail, e.level ≤ s.level
  sorted : s.trail.Pairwise (fun a b => b.level ≤ a.level)

theorem inv_empty : Inv St.empty := ⟨trivial, rfl, (by intro e he; cases he), List.Pairwise.nil⟩

theorem inv_grow (s : St) (h : Inv s) (lo hi : Int) (hl : s.level = 0) : Inv (s.grow lo hi) := by
  obtain ⟨hw, hd, hv, hso⟩ := h
  refine ⟨?_, ?_, ?_, ?_⟩
  · simp only [St.grow, WF, hl, if_true, true_and]
    refine ⟨⟨hw, ?_⟩, ?_⟩
    · left; rw [hd]
    · right; exact ⟨s.trail, by rw [hd], by rw [hd]⟩
  · simp [St.grow, build, applyEntry, hd]
  · intro e he
    simp only [St.grow, List.mem_cons] at he
    rcases he with rfl | rfl | he
    · simp [St.grow]
    · simp [St.grow]
    · exact hv e he
  · simp only [St.grow, List.pairwise_cons, List.mem_cons]
    refine ⟨?_, ?_, hso⟩
    · intro e he; rcases he with rfl | he
      · simp
      · exact hv e he
    · intro e he; exact hv e he

theorem postSimple_cases (s : St) (p : Atom) :
    s.postSimple p = s ∨
    (changes (s.dom p.var) p = true ∧
      s.postSimple p = ⟨s.doms.set p.var (applyAtom (s.dom p.var) p s.level s.trail.length),
        s.entryFor p :: s.trail, s.level⟩) := by
  unfold St.postSimple
  by_cases h : changes (s.dom p.var) p = true
  · right; simp [h, St.setDom]
  · left; simp [h]

theorem inv_postSimple (s : St) (h : Inv s) (p : Atom) (hp : p.var < s.doms.length) :
    Inv (s.postSimple p) := by
  rcases postSimple_cases s p with h1 | ⟨hc, h1⟩
  · rw [h1]; exact h
  · rw [h1]
    obtain ⟨hw, hd, hv, hso⟩ := h
    refine ⟨?_, ?_, ?_, ?_⟩
    · simp only [WF, St.entryFor, Bool.false_eq_true, if_false]
      refine ⟨hw, by rw [← hd]; exact hp, ?_⟩
      rw [← hd]; exact hc
    · simp only [build, applyEntry, St.entryFor, Bool.false_eq_true, if_false, ← hd]; rfl
    · intro e he
      rcases List.mem_cons.1 he with rfl | he
      · simp [St.entryFor]
      · exact hv e he
    · exact List.pairwise_cons.2 ⟨fun e he => hv e he, hso⟩

@[simp] theorem postSimple_level (s : St) (p : Atom) : (s.postSimple p).level = s.level := by
  rcases postSimple_cases s p with h1 | ⟨_, h1⟩ <;> rw [h1]

theorem postSimple_length (s : St) (p : Atom) : (s.postSimple p).doms.length = s.doms.length := by
  rcases postSimple_cases s p with h1 | ⟨_, h1⟩ <;> rw [h1]; simp

theorem inv_ite_fst (c : Prop) [Decidable c] (a b : St × Bool) (ha : Inv a.1) (hb : Inv b.1) :
    Inv (if c then a else b).1 := by split <;> assumption

theorem inv_ite (c : Prop) [Decidable c] (a b : St) (ha : Inv a) (hb : Inv b) :
    Inv (if c then a else b) := by split <;> assumption

theorem ite_length (c : Prop) [Decidable c] (a b : St) (n : Nat) (ha : a.doms.length = n)
    (hb : b.doms.length = n) : (if c then a else b).doms.length = n := by split <;> assumption

theorem inv_post (s : St) (h : Inv s) (p : Atom) (hp : p.var < s.doms.length) : Inv (s.post p).1 := by
  cases p with
  | eq x v =>
    have h1 : Inv (if s.lb x < v then s.postSimple (.ge x v) else s) :=
      inv_ite _ _ _ (inv_postSimple s h _ hp) h
    have hl : (if s.lb x < v then s.postSimple (.ge x v) else s).doms.length = s.doms.length :=
      ite_length _ _ _ _ (postSimple_length _ _) rfl
    unfold St.post
    apply inv_ite_fst
    · exact h1
    · exact inv_ite _ _ _ (inv_postSimple _ h1 _ (by rw [hl]; exact hp)) h1
  | ge x v => exact inv_postSimple s h _ hp
  | le x v => exact inv_postSimple s h _ hp
  | ne x v => exact inv_postSimple s h _ hp

theorem inv_newLevel (s : St) (h : Inv s) : Inv s.newLevel :=
  ⟨h.wf, h.doms, fun e he => Nat.le_succ_of_le (h.lvl e he), h.sorted⟩

theorem wf_tail {e : Entry} {r : List Entry} (h : WF (e :: r)) : WF r := h.1

/-- popping the entries above level `k` from a replayed trail gives the replay of what is left -/
theorem unwind_build (k : Nat) : ∀ (t : List Entry), WF t →
    unwind k t (build t) = (t.dropWhile (fun e => decide (k < e.level)),
      build (t.dropWhile (fun e => decide (k < e.level)))) := by
  intro t
  induction t with
  | nil => intro _; rfl
  | cons e r ih =>
    intro hwf
    obtain ⟨hr, he⟩ := hwf
    by_cases hk : k < e.level
    · have hg : e.grow = false := by
        cases hgg : e.grow
        · rfl
        · simp only [hgg, if_true] at he; omega
      simp only [hg, Bool.false_eq_true, if_false] at he
      have hb : build (e :: r) = (build r).set e.atom.var
          (applyAtom ((build r).getD e.atom.var default) e.atom e.level r.length) := by
        simp [build, applyEntry, hg]
      simp only [unwind, hk, if_true, List.dropWhile_cons, decide_true]
      rw [hb, getD_set_self _ _ _ _ he.1, undo_applyAtom _ _ _ _ he.2, List.set_set,
        set_getD_self _ _ _ he.1]
      exact ih hr
    · simp [unwind, hk]

theorem wf_dropWhile (P : Entry → Bool) : ∀ (t : List Entry), WF t → WF (t.dropWhile P) := by
  intro t
  induction t with
  | nil => intro h; exact h
  | cons e r ih =>
    intro h
    simp only [List.dropWhile_cons]
    split
    · exact ih h.1
    · exact h

theorem mem_dropWhile {α} (P : α → Bool) (l : List α) (a : α) (h : a ∈ l.dropWhile P) : a ∈ l := by
  induction l with
  | nil => exact h
  | cons b r ih =>
    simp only [List.dropWhile_cons] at h
    split at h
    · exact List.mem_cons_of_mem _ (ih h)
    · exact h

theorem sync_eq (s : St) (h : Inv s) (k : Nat) :
    s.sync k = ⟨build (s.trail.dropWhile (fun e => decide (k < e.level))),
      s.trail.dropWhile (fun e => decide (k < e.level)), k⟩ := by
  simp only [St.sync, h.doms, unwind_build k s.trail h.wf]

theorem dropWhile_head_not {α} (P : α → Bool) (l : List α) (a : α) (r : List α)
    (h : l.dropWhile P = a :: r) : P a = false := by
  induction l with
  | nil => simp at h
  | cons b t ih =>
    simp only [List.dropWhile_cons] at h
    split at h
    · exact ih h
    · rename_i hb; injection h with h1 h2; subst h1; simpa using hb

theorem inv_sync (s : St) (h : Inv s) (k : Nat) : Inv (s.sync k) := by
  rw [sync_eq s h k]
  have hsub : (s.trail.dropWhile (fun e => decide (k < e.level))).Sublist s.trail :=
    List.dropWhile_sublist _
  have hso := h.sorted.sublist hsub
  refine ⟨wf_dropWhile _ _ h.wf, rfl, ?_, hso⟩
  intro e he
  simp only at he ⊢
  generalize hl : s.trail.dropWhile (fun e => decide (k < e.level)) = l at he hso
  cases l with
  | nil => cases he
  | cons a r =>
    have ha := dropWhile_head_not _ _ _ _ hl
    simp only [decide_eq_false_iff_not, Nat.not_lt] at ha
    rcases List.mem_cons.1 he with rfl | her
    · exact ha
    · exact Nat.le_trans ((List.pairwise_cons.1 hso).1 e her) ha

theorem inv_step (s : St) (h : Inv s) (o : Op) (ho : o.ok s = true) : Inv (step s o) := by
  cases o with
  | grow lo hi =>
    simp only [Op.ok, Bool.and_eq_true, beq_iff_eq, decide_eq_true_eq] at ho
    exact inv_grow s h lo hi ho.1
  | post p =>
    simp only [Op.ok, decide_eq_true_eq] at ho
    exact inv_post s h p ho
  | newLevel => exact inv_newLevel s h
  | sync k => exact inv_sync s h k

/-- the invariant holds after every sequence of operations -/
theorem inv_run : ∀ (ops : List Op) (s : St), Inv s → Inv (run s ops) := by
  intro ops
  induction ops with
  | nil => intro s h; exact h
  | cons o r ih =>
    intro s h
    simp only [run]
    split
    · rename_i ho; exact ih _ (inv_step s h o ho)
    · exact ih _ h

/-- **Refinement**: in every reachable state a value is in the domain of `x` exactly if every
predicate on the trail over `x` (the creation entries stand for the declared interval) allows it. -/
theorem mem_iff_trail (ops : List Op) (x : Nat) (v : Int)
    (hx : x < (run St.empty ops).doms.length) :
    (run St.empty ops).contains x v = true ↔
      ∀ e ∈ (run St.empty ops).trail, e.atom.var = x → e.allows v := by
  have h := inv_run ops _ inv_empty
  rw [St.contains, contains_iff, St.dom, h.doms]
  rw [h.doms] at hx
  exact build_mem_iff _ h.wf x hx v

/-- In every reachable state the reported bounds of a non-empty domain are values of the domain, and
every value of the domain lies between them. -/
theorem bounds_tight (ops : List Op) (x : Nat) (hx : x < (run St.empty ops).doms.length)
    (hne : (run St.empty ops).lb x ≤ (run St.empty ops).ub x) :
    (run St.empty ops).contains x ((run St.empty ops).lb x) = true ∧
    (run St.empty ops).contains x ((run St.empty ops).ub x) = true ∧
    ∀ v, (run St.empty ops).contains x v = true →
      (run St.empty ops).lb x ≤ v ∧ v ≤ (run St.empty ops).ub x := by
  have h := inv_run ops _ inv_empty
  have ht : ((run St.empty ops).dom x).Tight := by
    rw [St.dom, h.doms]; rw [h.doms] at hx; exact build_tight _ h.wf x hx
  have := tight_bounds_mem _ ht hne
  refine ⟨(contains_iff _ _).2 this.1, (contains_iff _ _).2 this.2, ?_⟩
  intro v hv
  have := (contains_iff _ _).1 hv
  exact ⟨this.1, this.2.1⟩

/-! backtracking restores the state -/

theorem dropWhile_append_keep {α} (P : α → Bool) (a b : List α) (hb : ∀ e ∈ b, P e = false) :
    (a ++ b).dropWhile P = a.dropWhile P ++ b := by
  induction a with
  | nil =>
    cases b with
    | nil => rfl
    | cons e r => simp [List.dropWhile_cons, hb e (List.mem_cons_self ..)]
  | cons e r ih =>
    simp only [List.cons_append, List.dropWhile_cons]
    split
    · exact ih
    · rfl

theorem dropWhile_all {α} (P : α → Bool) (a : List α) (ha : ∀ e ∈ a, P e = true) :
    a.dropWhile P = [] := by
  induction a with
  | nil => rfl
  | cons e r ih =>
    simp only [List.dropWhile_cons, ha e (List.mem_cons_self ..), if_true]
    exact ih (fun e' he' => ha e' (List.mem_cons_of_mem _ he'))

/-- `t` is `s` plus some work above `s`'s level -/
structure Above (s t : St) : Prop where
  inv : Inv t
  lvl : s.level < t.level
  ext : ∃ suf, t.trail = suf ++ s.trail ∧ ∀ e ∈ suf, s.level < e.level

theorem above_postSimple (s t : St) (h : Above s t) (p : Atom) (hp : p.var < t.doms.length) :
    Above s (t.postSimple p) := by
  refine ⟨inv_postSimple t h.inv p hp, by simpa using h.lvl, ?_⟩
  obtain ⟨suf, h1, h2⟩ := h.ext
  rcases postSimple_cases t p with e1 | ⟨_, e1⟩
  · rw [e1]; exact ⟨suf, h1, h2⟩
  · rw [e1]
    refine ⟨t.entryFor p :: suf, by simp [h1], ?_⟩
    intro e he
    rcases List.mem_cons.1 he with rfl | he
    · simpa [St.entryFor] using h.lvl
    · exact h2 e he

theorem above_ite (s : St) (c : Prop) [Decidable c] (a b : St) (ha : Above s a) (hb : Above s b) :
    Above s (if c then a else b) := by split <;> assumption

theorem above_ite_fst (s : St) (c : Prop) [Decidable c] (a b : St × Bool) (ha : Above s a.1)
    (hb : Above s b.1) : Above s (if c then a else b).1 := by split <;> assumption

theorem above_post (s t : St) (h : Above s t) (p : Atom) (hp : p.var < t.doms.length) :
    Above s (t.post p).1 := by
  cases p with
  | eq x v =>
    have h1 : Above s (if t.lb x < v then t.postSimple (.ge x v) else t) :=
      above_ite _ _ _ _ (above_postSimple s t h _ hp) h
    have hl : (if t.lb x < v then t.postSimple (.ge x v) else t).doms.length = t.doms.length :=
      ite_length _ _ _ _ (postSimple_length _ _) rfl
    unfold St.post
    apply above_ite_fst
    · exact h1
    · exact above_ite _ _ _ _ (above_postSimple _ _ h1 _ (by rw [hl]; exact hp)) h1
  | ge x v => exact above_postSimple s t h _ hp
  | le x v => exact above_postSimple s t h _ hp
  | ne x v => exact above_postSimple s t h _ hp

theorem above_sync (s t : St) (hs : Inv s) (h : Above s t) (k : Nat) (hk : s.level < k) :
    Above s (t.sync k) := by
  refine ⟨inv_sync t h.inv k, ?_, ?_⟩
  · rw [sync_eq t h.inv k]; exact hk
  · obtain ⟨suf, h1, h2⟩ := h.ext
    rw [sync_eq t h.inv k]
    refine ⟨suf.dropWhile (fun e => decide (k < e.level)), ?_, ?_⟩
    · simp only [h1]
      apply dropWhile_append_keep
      intro e he
      have := hs.lvl e he
      simp; omega
    · intro e he; exact h2 e (mem_dropWhile _ _ _ he)

/-- **Backtracking restores the state exactly**: open a new decision level in any reachable state
`s`, perform any operations (posting predicates — also ones which empty a domain —, opening further
levels, backtracking to levels above `s`'s), then synchronise to `s`'s level: the result is `s`,
update lists, trail and all. -/
theorem sync_restores (s : St) (hs : Inv s) (ops : List Op)
    (hops : ∀ k, Op.sync k ∈ ops → s.level < k) :
    (run s.newLevel ops).sync s.level = s := by
  have key : ∀ (ops : List Op) (t : St), Above s t → (∀ k, Op.sync k ∈ ops → s.level < k) →
      Above s (run t ops) := by
    intro ops
    induction ops with
    | nil => intro t h _; exact h
    | cons o r ih =>
      intro t h hops
      have hr : ∀ k, Op.sync k ∈ r → s.level < k := fun k hk => hops k (List.mem_cons_of_mem _ hk)
      simp only [run]
      split
      · rename_i ho
        apply ih _ _ hr
        cases o with
        | grow lo hi =>
          simp only [Op.ok, Bool.and_eq_true, beq_iff_eq] at ho
          have := h.lvl; omega
        | post p =>
          simp only [Op.ok, decide_eq_true_eq] at ho
          exact above_post s t h p ho
        | newLevel =>
          exact ⟨inv_newLevel t h.inv, Nat.lt_succ_of_lt h.lvl, h.ext⟩
        | sync k => exact above_sync s t hs h k (hops k (List.mem_cons_self ..))
      · exact ih _ h hr
  have h0 : Above s s.newLevel :=
    ⟨inv_newLevel s hs, Nat.lt_succ_self _, [], rfl, by intro e he; cases he⟩
  have h := key ops _ h0 hops
  obtain ⟨suf, h1, h2⟩ := h.ext
  rw [sync_eq _ h.inv]
  have hd : (run s.newLevel ops).trail.dropWhile (fun e => decide (s.level < e.level)) = s.trail := by
    rw [h1, dropWhile_append_keep _ _ _ (by
      intro e he; have := hs.lvl e he; simp; omega)]
    rw [dropWhile_all _ _ (by intro e he; simpa using h2 e he)]
    rfl
  rw [hd, ← hs.doms]

/-! what posting a predicate means for the values -/

theorem postSimple_contains (s : St) (p : Atom) (hp : p.var < s.doms.length) (hne : ∀ y k, p ≠ .eq y k)
    (x : Nat) (v : Int) :
    (s.postSimple p).contains x v = true ↔
      s.contains x v = true ∧ (x = p.var → p.holdsVal v = true) := by
  rcases postSimple_cases s p with e1 | ⟨hc, e1⟩
  · -- nothing to do: the predicate already holds for every value of the domain
    rw [e1]
    constructor
    · intro h; refine ⟨h, ?_⟩
      rintro rfl
      have hm := (contains_iff _ _).1 h
      have hnc : changes (s.dom p.var) p = false := by
        unfold St.postSimple at e1
        cases hcc : changes (s.dom p.var) p
        · rfl
        · simp only [hcc, if_true] at e1
          have := congrArg (fun t => t.trail.length) e1
          simp at this
      cases p with
      | ge y k =>
        simp only [Atom.var] at hm hnc
        simp [changes] at hnc; simp [Atom.holdsVal]; have := hm.1; omega
      | le y k =>
        simp only [Atom.var] at hm hnc
        simp [changes] at hnc; simp [Atom.holdsVal]; have := hm.2.1; omega
      | ne y k =>
        simp only [changes] at hnc
        simp only [Atom.holdsVal, decide_eq_true_eq]
        rintro rfl
        simp only [Atom.var, St.contains] at h hnc
        rw [h] at hnc; cases hnc
      | eq y k => exact absurd rfl (hne y k)
    · intro h; exact h.1
  · rw [e1]
    simp only [St.contains, St.dom] at hc ⊢
    by_cases hx : p.var = x
    · subst hx
      rw [getD_set_self _ _ _ _ hp, contains_iff, applyAtom_mem _ _ _ _ _ hc, ← contains_iff]
      simp
    · rw [getD_set_ne _ _ _ _ _ hx]
      constructor
      · intro h; exact ⟨h, fun h' => absurd h'.symm hx⟩
      · intro h; exact h.1

/-- **`post_predicate` removes exactly the values the predicate excludes** (for `[x == v]` also when
the lower-bound half already empties the domain and the upper-bound half is skipped). -/
theorem post_contains (s : St) (p : Atom) (hp : p.var < s.doms.length) (x : Nat) (v : Int) :
    (s.post p).1.contains x v = true ↔
      s.contains x v = true ∧ (x = p.var → p.holdsVal v = true) := by
  cases p with
  | ge y k => exact postSimple_contains s _ hp (by intro _ _ h; cases h) x v
  | le y k => exact postSimple_contains s _ hp (by intro _ _ h; cases h) x v
  | ne y k => exact postSimple_contains s _ hp (by intro _ _ h; cases h) x v
  | eq y k =>
    have hge := postSimple_contains s (.ge y k) hp (by intro _ _ h; cases h)
    simp only [Atom.var, Atom.holdsVal, decide_eq_true_eq] at hge hp ⊢
    unfold St.post
    simp only []
    by_cases hlt : s.lb y < k
    · simp only [hlt, if_true, true_and]
      have hl : (s.postSimple (.ge y k)).doms.length = s.doms.length := postSimple_length _ _
      have hle := postSimple_contains (s.postSimple (.ge y k)) (.le y k) (by simpa [Atom.var, hl] using hp)
        (by intro _ _ h; cases h)
      simp only [Atom.var, Atom.holdsVal, decide_eq_true_eq] at hle
      split
      · -- the domain is empty after the lower-bound half
        rename_i hinc
        simp only [Bool.not_eq_true', consistent, decide_eq_false_iff_not, Int.not_le] at hinc
        constructor
        · intro h
          have h1 := (hge x v).1 h
          refine ⟨h1.1, ?_⟩
          rintro rfl
          have hm := (contains_iff _ _).1 h
          simp only [St.dom] at hinc
          have := hm.1; have := hm.2.1
          simp only [St.dom] at *
          omega
        · intro h
          by_cases hx : x = y
          · subst hx
            have := h.2 rfl; subst this
            have hm := (contains_iff _ _).1 ((hge x v).2 ⟨h.1, fun _ => Int.le_refl _⟩)
            have := hm.1; have := hm.2.1
            simp only [St.dom] at *
            omega
          · exact (hge x v).2 ⟨h.1, fun h' => absurd h' hx⟩
      · simp only []
        by_cases hub : (s.postSimple (.ge y k)).ub y > k
        · simp only [hub, if_true]
          rw [hle, hge]
          constructor
          · rintro ⟨⟨h1, h2⟩, h3⟩; exact ⟨h1, fun h' => by have := h2 h'; have := h3 h'; omega⟩
          · rintro ⟨h1, h2⟩; exact ⟨⟨h1, fun h' => by rw [h2 h']; exact Int.le_refl _⟩, fun h' => by rw [h2 h']; exact Int.le_refl _⟩
        · simp only [hub, if_false]
          rw [hge]
          constructor
          · rintro ⟨h1, h2⟩
            refine ⟨h1, ?_⟩
            rintro rfl
            have hm := (contains_iff _ _).1 ((hge x v).2 ⟨h1, h2⟩)
            have := hm.2.1; have := h2 rfl
            simp only [St.ub, St.dom] at *
            omega
          · rintro ⟨h1, h2⟩; exact ⟨h1, fun h' => by rw [h2 h']; exact Int.le_refl _⟩
    · have hle := postSimple_contains s (.le y k) hp (by intro _ _ h; cases h)
      simp only [Atom.var, Atom.holdsVal, decide_eq_true_eq] at hle
      simp only [hlt, if_false, false_and]
      by_cases hub : s.ub y > k
      · simp only [hub, if_true]
        rw [hle]
        constructor
        · rintro ⟨h1, h2⟩
          refine ⟨h1, ?_⟩
          rintro rfl
          have hm := (contains_iff _ _).1 h1
          have := hm.1; have := h2 rfl
          simp only [St.lb, St.dom] at *
          omega
        · rintro ⟨h1, h2⟩; exact ⟨h1, fun h' => by rw [h2 h']; exact Int.le_refl _⟩
      · simp only [hub, if_false]
        constructor
        · intro h1
          refine ⟨h1, ?_⟩
          rintro rfl
          have hm := (contains_iff _ _).1 h1
          have := hm.1; have := hm.2.1
          simp only [St.lb, St.ub, St.dom] at *
          omega
        · intro h; exact h.1

end Pumpkin.Asg
