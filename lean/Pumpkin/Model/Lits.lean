/-
Model of the literal definition file (`.lits`) of DRCP proofs
(`drcp-format/src/literal_definitions.rs`: `LiteralDefinitions::write` / `parse`, the nom grammar
`atomic_definition`, `variable`, `atomic_list`, `atomic`, `int_atomic`, `bool_atomic`, `comparator`,
`identifier`; `drcp-format/src/atomic.rs`: the `Display` impls), at byte level.

`parseDef_renderDef`: every definition line the writer can produce for well-formed names
(`[A-Za-z_][A-Za-z0-9_]*`, as the reader documents), any comparison, any `i64` value, either Boolean
value and any non-zero `u32` code is read back unchanged; `parseFile_renderFile` lifts this to files.
-/
import Pumpkin.Model.DimacsLayout

namespace Pumpkin.Lits
open Pumpkin.Dimacs (digits natOfDigits isDigit digits_all natOfDigits_digits digits_ne_nil natOfDigits_append)

inductive Cmp | ge | le | eq | ne
deriving DecidableEq, Repr

inductive Atomic
  | int (name : List Nat) (cmp : Cmp) (value : Int)
  | bool (name : List Nat) (value : Bool)
deriving DecidableEq, Repr

/-! ### writer -/

def Cmp.render : Cmp → List Nat
  | .ge => [62, 61]   -- ">="
  | .le => [60, 61]   -- "<="
  | .eq => [61, 61]   -- "=="
  | .ne => [33, 61]   -- "!="

def renderInt (z : Int) : List Nat := if z < 0 then 45 :: digits z.natAbs else digits z.natAbs

def trueB : List Nat := [116, 114, 117, 101]
def falseB : List Nat := [102, 97, 108, 115, 101]

/-- `[name cmp value]` / `[name == true]` -/
def Atomic.render : Atomic → List Nat
  | .int n c v => [91] ++ n ++ [32] ++ c.render ++ [32] ++ renderInt v ++ [93]
  | .bool n v => [91] ++ n ++ [32, 61, 61, 32] ++ (if v then trueB else falseB) ++ [93]

def renderAtomics : List Atomic → List Nat
  | [] => []
  | [a] => a.render
  | a :: rest => a.render ++ [32] ++ renderAtomics rest

/-- one line of `LiteralDefinitions::write` (without the line break) -/
def renderDef (code : Nat) (as : List Atomic) : List Nat := digits code ++ [32] ++ renderAtomics as

/-! ### reader -/

def isAlpha (b : Nat) : Bool := (65 ≤ b && b ≤ 90) || (97 ≤ b && b ≤ 122)
def isIdChar (b : Nat) : Bool := isAlpha b || isDigit b || b == 95

def span (p : Nat → Bool) : List Nat → List Nat × List Nat
  | [] => ([], [])
  | b :: bs => if p b then let (a, r) := span p bs; (b :: a, r) else ([], b :: bs)

/-- `nom::character::complete::u32` followed by `NonZero::new` -/
def pCode (s : List Nat) : Option (Nat × List Nat) :=
  let (ds, rest) := span isDigit s
  if ds.isEmpty then none
  else if natOfDigits ds = 0 || natOfDigits ds > 4294967295 then none
  else some (natOfDigits ds, rest)

/-- `nom::character::complete::i64`: optional sign, digits, range check -/
def pI64 (s : List Nat) : Option (Int × List Nat) :=
  match s with
  | 45 :: r =>
    let (ds, rest) := span isDigit r
    if ds.isEmpty then none
    else if natOfDigits ds > 9223372036854775808 then none else some (-(natOfDigits ds : Int), rest)
  | 43 :: r =>
    let (ds, rest) := span isDigit r
    if ds.isEmpty then none
    else if natOfDigits ds > 9223372036854775807 then none else some ((natOfDigits ds : Int), rest)
  | r =>
    let (ds, rest) := span isDigit r
    if ds.isEmpty then none
    else if natOfDigits ds > 9223372036854775807 then none else some ((natOfDigits ds : Int), rest)

/-- `identifier`: a letter or `_`, then the longest run of letters, digits and `_` -/
def pIdent (s : List Nat) : Option (List Nat × List Nat) :=
  match s with
  | b :: bs => if isAlpha b || b == 95 then let (a, r) := span isIdChar bs; some (b :: a, r) else none
  | [] => none

def pTag : List Nat → List Nat → Option (List Nat)
  | [], s => some s
  | _ :: _, [] => none
  | t :: ts, b :: bs => if t == b then pTag ts bs else none

def pCmp (s : List Nat) : Option (Cmp × List Nat) :=
  match pTag [61, 61] s with
  | some r => some (.eq, r)
  | none =>
  match pTag [33, 61] s with
  | some r => some (.ne, r)
  | none =>
  match pTag [60, 61] s with
  | some r => some (.le, r)
  | none =>
  match pTag [62, 61] s with
  | some r => some (.ge, r)
  | none => none

def pIntAtomic (s : List Nat) : Option (Atomic × List Nat) := do
  let r ← pTag [91] s
  let (n, r) ← pIdent r
  let r ← pTag [32] r
  let (c, r) ← pCmp r
  let r ← pTag [32] r
  let (v, r) ← pI64 r
  let r ← pTag [93] r
  pure (.int n c v, r)

def pBoolAtomic (s : List Nat) : Option (Atomic × List Nat) := do
  let r ← pTag [91] s
  let (n, r) ← pIdent r
  let r ← pTag [32, 61, 61, 32] r
  match pTag trueB r with
  | some r => let r ← pTag [93] r; pure (.bool n true, r)
  | none =>
    let r ← pTag falseB r
    let r ← pTag [93] r
    pure (.bool n false, r)

/-- `alt((int_atomic, bool_atomic))` -/
def pAtomic (s : List Nat) : Option (Atomic × List Nat) :=
  match pIntAtomic s with
  | some x => some x
  | none => pBoolAtomic s

/-- the tail of `separated_list1(tag(" "), atomic)`: stops (without consuming) where no further
`" " atomic` follows -/
def pMore : Nat → List Nat → List Atomic × List Nat
  | 0, s => ([], s)
  | fuel + 1, s =>
    match pTag [32] s with
    | none => ([], s)
    | some r =>
      match pAtomic r with
      | none => ([], s)
      | some (a, r') => let (as, rest) := pMore fuel r'; (a :: as, rest)

/-- `atomic_definition`; what follows the list on the line is ignored, as in the code -/
def parseDef (s : List Nat) : Option (Nat × List Atomic) := do
  let (c, r) ← pCode s
  let r ← pTag [32] r
  let (a, r) ← pAtomic r
  let (as, _) := pMore r.length r
  pure (c, a :: as)

/-! ### round trip -/

/-- `rest` does not start with a byte satisfying `p` -/
def NoHead (p : Nat → Bool) (rest : List Nat) : Prop := ∀ b r, rest = b :: r → p b = false

theorem span_append (p : Nat → Bool) (xs rest : List Nat) (hx : xs.all p = true) (hr : NoHead p rest) :
    span p (xs ++ rest) = (xs, rest) := by
  induction xs with
  | nil =>
    cases rest with
    | nil => rfl
    | cons b r => simp [span, hr b r rfl]
  | cons x xs ih =>
    simp only [List.all_cons, Bool.and_eq_true] at hx
    simp [span, hx.1, ih hx.2]

theorem pTag_append (t s : List Nat) : pTag t (t ++ s) = some s := by
  induction t with
  | nil => cases s <;> rfl
  | cons x xs ih => simp [pTag, ih]

theorem noHead_cons (p : Nat → Bool) (b : Nat) (r : List Nat) (h : p b = false) : NoHead p (b :: r) := by
  intro b' r' he
  simp only [List.cons.injEq] at he
  rw [← he.1]; exact h

theorem noHead_nil (p : Nat → Bool) : NoHead p [] := by
  intro b r h; cases h

theorem pCode_digits (c : Nat) (rest : List Nat) (h1 : 1 ≤ c) (h2 : c ≤ 4294967295) (hr : NoHead isDigit rest) :
    pCode (digits c ++ rest) = some (c, rest) := by
  unfold pCode
  rw [span_append isDigit _ _ (digits_all c) hr]
  have hne : (digits c).isEmpty = false := by
    cases h : digits c with
    | nil => exact absurd h (digits_ne_nil c)
    | cons _ _ => rfl
  simp only [hne, Bool.false_eq_true, if_false, natOfDigits_digits]
  have : ¬ (c = 0) := by omega
  have h3 : ¬ (c > 4294967295) := by omega
  simp [this, h3]

theorem pI64_render (z : Int) (rest : List Nat)
    (hz : -9223372036854775808 ≤ z ∧ z ≤ 9223372036854775807) (hr : NoHead isDigit rest) :
    pI64 (renderInt z ++ rest) = some (z, rest) := by
  unfold renderInt
  by_cases hneg : z < 0
  · simp only [hneg, if_true, List.cons_append, pI64]
    rw [span_append isDigit _ _ (digits_all _) hr]
    have hne : (digits z.natAbs).isEmpty = false := by
      cases h : digits z.natAbs with
      | nil => exact absurd h (digits_ne_nil _)
      | cons _ _ => rfl
    simp only [hne, Bool.false_eq_true, if_false, natOfDigits_digits]
    have h3 : ¬ (z.natAbs > 9223372036854775808) := by omega
    simp only [h3, if_false, Option.some.injEq, Prod.mk.injEq, and_true]
    omega
  · simp only [hneg, if_false]
    obtain ⟨d, ds, hd, hdig⟩ := Pumpkin.Dimacs.digits_head z.natAbs
    have h45 : d ≠ 45 := by intro h; subst h; simp [isDigit] at hdig
    have h43 : d ≠ 43 := by intro h; subst h; simp [isDigit] at hdig
    have hsp := span_append isDigit _ rest (digits_all z.natAbs) hr
    have hval := natOfDigits_digits z.natAbs
    rw [hd] at hsp hval ⊢
    simp only [List.cons_append] at hsp ⊢
    unfold pI64
    split
    · rename_i r heq; simp only [List.cons.injEq] at heq; exact absurd heq.1 h45
    · rename_i r heq; simp only [List.cons.injEq] at heq; exact absurd heq.1 h43
    · rw [hsp]
      have h3 : ¬ (z.natAbs > 9223372036854775807) := by omega
      simp only [List.isEmpty_cons, Bool.false_eq_true, if_false, hval, h3, Option.some.injEq,
        Prod.mk.injEq, and_true]
      omega

/-- well-formed variable name: `[A-Za-z_][A-Za-z0-9_]*` -/
def WfName (n : List Nat) : Prop :=
  ∃ b bs, n = b :: bs ∧ (isAlpha b || b == 95) = true ∧ bs.all isIdChar = true

theorem pIdent_name (n rest : List Nat) (hn : WfName n) (hr : NoHead isIdChar rest) :
    pIdent (n ++ rest) = some (n, rest) := by
  obtain ⟨b, bs, rfl, hb, hbs⟩ := hn
  simp only [List.cons_append, pIdent, hb, if_true]
  rw [span_append isIdChar bs rest hbs hr]

theorem pCmp_render (c : Cmp) (rest : List Nat) : pCmp (c.render ++ rest) = some (c, rest) := by
  cases c <;> simp [pCmp, Cmp.render, pTag]

def WfAtomic : Atomic → Prop
  | .int n _ v => WfName n ∧ -9223372036854775808 ≤ v ∧ v ≤ 9223372036854775807
  | .bool n _ => WfName n

theorem space_not_id : isIdChar 32 = false := by decide
theorem close_not_digit : isDigit 93 = false := by decide

theorem pTag1 (b : Nat) (s : List Nat) : pTag [b] (b :: s) = some s := by simp [pTag]

theorem pIntAtomic_int (n : List Nat) (c : Cmp) (v : Int) (rest : List Nat)
    (hw : WfAtomic (.int n c v)) : pIntAtomic ((Atomic.int n c v).render ++ rest) = some (.int n c v, rest) := by
  obtain ⟨hn, hv⟩ := hw
  have e : (Atomic.int n c v).render ++ rest =
      91 :: (n ++ (32 :: (c.render ++ (32 :: (renderInt v ++ (93 :: rest)))))) := by
    simp [Atomic.render, List.append_assoc]
  rw [e]
  unfold pIntAtomic
  simp only [pTag1, Option.bind_eq_bind, Option.bind_some]
  rw [pIdent_name n _ hn (noHead_cons _ 32 _ space_not_id)]
  simp only [Option.bind_some, pTag1, pCmp_render]
  rw [pI64_render v _ hv (noHead_cons _ 93 _ close_not_digit)]
  simp [pTag1]

theorem pIntAtomic_bool (n : List Nat) (v : Bool) (rest : List Nat) (hw : WfName n) :
    pIntAtomic ((Atomic.bool n v).render ++ rest) = none := by
  have e : (Atomic.bool n v).render ++ rest =
      91 :: (n ++ (32 :: ([61, 61] ++ (32 :: ((if v then trueB else falseB) ++ (93 :: rest)))))) := by
    simp [Atomic.render, List.append_assoc]
  rw [e]
  unfold pIntAtomic
  simp only [pTag1, Option.bind_eq_bind, Option.bind_some]
  rw [pIdent_name n _ hw (noHead_cons _ 32 _ space_not_id)]
  simp only [Option.bind_some, pTag1]
  have hc : ∀ s, pCmp ([61, 61] ++ s) = some (Cmp.eq, s) := fun s => pCmp_render .eq s
  rw [hc]
  simp only [Option.bind_some, pTag1]
  cases v <;> simp [trueB, falseB, pI64, span, isDigit]

theorem pBoolAtomic_bool (n : List Nat) (v : Bool) (rest : List Nat) (hw : WfName n) :
    pBoolAtomic ((Atomic.bool n v).render ++ rest) = some (.bool n v, rest) := by
  have e : (Atomic.bool n v).render ++ rest =
      91 :: (n ++ (32 :: ([61, 61, 32] ++ ((if v then trueB else falseB) ++ (93 :: rest))))) := by
    simp [Atomic.render, List.append_assoc]
  rw [e]
  unfold pBoolAtomic
  simp only [pTag1, Option.bind_eq_bind, Option.bind_some]
  rw [pIdent_name n _ hw (noHead_cons _ 32 _ space_not_id)]
  have h4 : ∀ s, pTag [32, 61, 61, 32] (32 :: ([61, 61, 32] ++ s)) = some s := by
    intro s; simp [pTag]
  simp only [Option.bind_some, h4]
  cases v
  · simp [trueB, falseB, pTag]
  · simp [trueB, pTag]

/-- **one atomic constraint reads back** -/
theorem pAtomic_render (a : Atomic) (rest : List Nat) (hw : WfAtomic a) :
    pAtomic (a.render ++ rest) = some (a, rest) := by
  unfold pAtomic
  cases a with
  | int n c v => simp only [pIntAtomic_int n c v rest hw]
  | bool n v => simp only [pIntAtomic_bool n v rest hw, pBoolAtomic_bool n v rest hw]

def renderTail (as : List Atomic) : List Nat := as.flatMap (fun a => 32 :: a.render)

theorem renderAtomics_cons (a : Atomic) (as : List Atomic) :
    renderAtomics (a :: as) = a.render ++ renderTail as := by
  induction as generalizing a with
  | nil => simp [renderAtomics, renderTail]
  | cons b bs ih =>
    simp only [renderAtomics, ih b, renderTail, List.flatMap_cons, List.cons_append, List.append_assoc,
      List.nil_append]

theorem render_length_pos (a : Atomic) : 0 < a.render.length := by
  cases a <;> simp [Atomic.render]

theorem pMore_tail (as : List Atomic) (hw : ∀ a ∈ as, WfAtomic a) (fuel : Nat)
    (hf : as.length ≤ fuel) : pMore fuel (renderTail as) = (as, []) := by
  induction as generalizing fuel with
  | nil => cases fuel <;> simp [pMore, renderTail, pTag]
  | cons a as ih =>
    cases fuel with
    | zero => simp at hf
    | succ fuel =>
      have e : renderTail (a :: as) = 32 :: (a.render ++ renderTail as) := by
        simp [renderTail, List.flatMap_cons]
      rw [e]
      simp only [pMore, pTag1]
      rw [pAtomic_render a _ (hw a (by simp))]
      simp only
      rw [ih (fun b hb => hw b (List.mem_cons_of_mem _ hb)) fuel (by simpa using hf)]

theorem renderTail_length (as : List Atomic) : as.length ≤ (renderTail as).length := by
  induction as with
  | nil => simp [renderTail]
  | cons a as ih =>
    simp only [renderTail, List.flatMap_cons, List.length_append, List.length_cons] at ih ⊢
    omega

/-- **A definition line reads back unchanged.** -/
theorem parseDef_renderDef (code : Nat) (a : Atomic) (as : List Atomic)
    (hc : 1 ≤ code ∧ code ≤ 4294967295) (hw : ∀ x ∈ a :: as, WfAtomic x) :
    parseDef (renderDef code (a :: as)) = some (code, a :: as) := by
  unfold parseDef renderDef
  have e : digits code ++ [32] ++ renderAtomics (a :: as) =
      digits code ++ (32 :: (a.render ++ renderTail as)) := by
    rw [renderAtomics_cons]; simp [List.append_assoc]
  rw [e, pCode_digits code _ hc.1 hc.2 (noHead_cons _ 32 _ (by decide))]
  simp only [Option.bind_eq_bind, Option.bind_some, pTag1]
  rw [pAtomic_render a _ (hw a (by simp))]
  simp only [Option.bind_some]
  rw [pMore_tail as (fun b hb => hw b (List.mem_cons_of_mem _ hb)) _ (renderTail_length as)]
  rfl

example : parseDef (renderDef 20 [.int [120, 49] .le 20, .int [120, 49] .ne (-21), .bool [95, 98] true])
    = some (20, [.int [120, 49] .le 20, .int [120, 49] .ne (-21), .bool [95, 98] true]) := by
  apply parseDef_renderDef
  · decide
  · intro x hx
    simp only [List.mem_cons, List.not_mem_nil, or_false] at hx
    rcases hx with rfl | rfl | rfl
    · exact ⟨⟨120, [49], rfl, by decide, by decide⟩, by decide, by decide⟩
    · exact ⟨⟨120, [49], rfl, by decide, by decide⟩, by decide, by decide⟩
    · exact ⟨95, [98], rfl, by decide, by decide⟩

/-! ### files -/

/-- ASCII white space as `str::trim` sees it -/
def isTrimWs (b : Nat) : Bool := b == 32 || (9 ≤ b && b ≤ 13)

def trim (s : List Nat) : List Nat := ((s.dropWhile isTrimWs).reverse.dropWhile isTrimWs).reverse

/-- lines of a file (split at line feeds) -/
def splitLines : List Nat → List Nat → List (List Nat)
  | [], cur => [cur]
  | b :: bs, cur => if b == 10 then cur :: splitLines bs [] else splitLines bs (cur ++ [b])

/-- `LiteralDefinitions::parse`: blank lines are skipped, every other line must be a definition;
the result lists the definitions in file order (the map the code builds keeps the last one per code) -/
def parseFile (bytes : List Nat) : Option (List (Nat × List Atomic)) :=
  (((splitLines bytes []).map trim).filter (fun l => !l.isEmpty)).mapM parseDef

/-- `LiteralDefinitions::write` for the entries in the given (code) order -/
def renderFile (defs : List (Nat × List Atomic)) : List Nat :=
  defs.flatMap (fun d => renderDef d.1 d.2 ++ [10])

theorem splitLines_line (l rest cur : List Nat) (hl : ∀ b ∈ l, b ≠ 10) :
    splitLines (l ++ 10 :: rest) cur = (cur ++ l) :: splitLines rest [] := by
  induction l generalizing cur with
  | nil => simp [splitLines]
  | cons b bs ih =>
    have hb : (b == 10) = false := by
      have := hl b (by simp)
      simpa using this
    simp only [List.cons_append, splitLines, hb, Bool.false_eq_true, if_false]
    rw [ih (cur ++ [b]) (fun x hx => hl x (List.mem_cons_of_mem _ hx))]
    simp

theorem trim_id (l : List Nat) (b0 : Nat) (t : List Nat) (hl : l = b0 :: t) (h0 : isTrimWs b0 = false)
    (hlast : ∀ x, l.getLast? = some x → isTrimWs x = false) : trim l = l := by
  subst hl
  unfold trim
  have h1 : (b0 :: t).dropWhile isTrimWs = b0 :: t := by simp [List.dropWhile, h0]
  rw [h1]
  have h2 : ((b0 :: t).reverse).dropWhile isTrimWs = (b0 :: t).reverse := by
    cases hr : (b0 :: t).reverse with
    | nil => simp at hr
    | cons x xs =>
      have hx : (b0 :: t).getLast? = some x := by
        rw [List.getLast?_eq_head?_reverse, hr]; rfl
      simp [List.dropWhile, hlast x hx]
  rw [h2, List.reverse_reverse]

def WfDef (d : Nat × List Atomic) : Prop :=
  (1 ≤ d.1 ∧ d.1 ≤ 4294967295) ∧ d.2 ≠ [] ∧ ∀ a ∈ d.2, WfAtomic a

theorem digits_no_lf (n : Nat) : ∀ b ∈ digits n, b ≠ 10 ∧ isTrimWs b = false := by
  intro b hb
  have := List.all_eq_true.1 (digits_all n) b hb
  simp only [isDigit, Bool.and_eq_true, decide_eq_true_eq] at this
  refine ⟨by omega, ?_⟩
  simp only [isTrimWs, Bool.or_eq_false_iff, beq_eq_false_iff_ne, ne_eq, Bool.and_eq_false_iff,
    decide_eq_false_iff_not, Nat.not_le]
  omega

theorem wfName_no_lf (n : List Nat) (h : WfName n) : ∀ b ∈ n, b ≠ 10 := by
  obtain ⟨b0, bs, rfl, hb, hbs⟩ := h
  intro b hb'
  have hid : isIdChar b = true := by
    cases hb' with
    | head =>
      simp only [Bool.or_eq_true, beq_iff_eq] at hb
      simp only [isIdChar, Bool.or_eq_true, beq_iff_eq]
      rcases hb with h | h
      · left; left; exact h
      · right; exact h
    | tail _ h => exact List.all_eq_true.1 hbs b h
  intro h10; subst h10
  simp [isIdChar, isAlpha, isDigit] at hid

theorem atomic_no_lf (a : Atomic) (hw : WfAtomic a) : ∀ b ∈ a.render, b ≠ 10 := by
  intro b hb
  cases a with
  | int n c v =>
    simp only [Atomic.render, List.mem_append, List.mem_cons, List.not_mem_nil, or_false] at hb
    rcases hb with ((((((h | h) | h) | h) | h) | h) | h)
    · omega
    · exact wfName_no_lf n hw.1 b h
    · omega
    · cases c <;> simp [Cmp.render] at h <;> omega
    · omega
    · unfold renderInt at h
      split at h
      · simp only [List.mem_cons] at h
        rcases h with h | h
        · omega
        · exact (digits_no_lf _ b h).1
      · exact (digits_no_lf _ b h).1
    · omega
  | bool n v =>
    simp only [Atomic.render, List.mem_append, List.mem_cons, List.not_mem_nil, or_false] at hb
    rcases hb with (((h | h) | h) | h) | h
    · omega
    · exact wfName_no_lf n hw b h
    · omega
    · cases v <;> simp [trueB, falseB] at h <;> omega
    · omega

theorem renderAtomics_no_lf (as : List Atomic) (hw : ∀ a ∈ as, WfAtomic a) : ∀ b ∈ renderAtomics as, b ≠ 10 := by
  induction as with
  | nil => intro b hb; simp [renderAtomics] at hb
  | cons a as ih =>
    intro b hb
    rw [renderAtomics_cons] at hb
    simp only [List.mem_append, renderTail, List.mem_flatMap, List.mem_cons] at hb
    rcases hb with h | ⟨x, hx, h⟩
    · exact atomic_no_lf a (hw a (by simp)) b h
    · rcases h with h | h
      · omega
      · exact atomic_no_lf x (hw x (List.mem_cons_of_mem _ hx)) b h

theorem atomic_render_last (a : Atomic) : a.render.getLast? = some 93 := by
  cases a with
  | int n c v =>
    have : (Atomic.int n c v).render = ([91] ++ n ++ [32] ++ c.render ++ [32] ++ renderInt v) ++ [93] := rfl
    rw [this, List.getLast?_concat]
  | bool n v =>
    have : (Atomic.bool n v).render = ([91] ++ n ++ [32, 61, 61, 32] ++ (if v then trueB else falseB)) ++ [93] := rfl
    rw [this, List.getLast?_concat]

theorem renderAtomics_last (as : List Atomic) (hne : as ≠ []) : (renderAtomics as).getLast? = some 93 := by
  induction as with
  | nil => exact absurd rfl hne
  | cons a as ih =>
    cases as with
    | nil => simpa [renderAtomics] using atomic_render_last a
    | cons b bs =>
      have := ih (by simp)
      simp only [renderAtomics]
      rw [List.getLast?_append, this]
      rfl

/-- **A file written by the library reads back unchanged** (entries with well-formed names, in the
order written). -/
theorem parseFile_renderFile (defs : List (Nat × List Atomic)) (hw : ∀ d ∈ defs, WfDef d) :
    parseFile (renderFile defs) = some defs := by
  -- the file splits into exactly the rendered lines plus an empty last line
  have hsplit : ∀ (ds : List (Nat × List Atomic)), (∀ d ∈ ds, WfDef d) →
      splitLines (renderFile ds) [] = ds.map (fun d => renderDef d.1 d.2) ++ [[]] := by
    intro ds hds
    induction ds with
    | nil => simp [renderFile, splitLines]
    | cons d ds ih =>
      have hd := hds d (by simp)
      have hnolf : ∀ b ∈ renderDef d.1 d.2, b ≠ 10 := by
        intro b hb
        simp only [renderDef, List.mem_append, List.mem_cons, List.not_mem_nil, or_false] at hb
        rcases hb with (h | h) | h
        · exact (digits_no_lf _ b h).1
        · omega
        · exact renderAtomics_no_lf d.2 hd.2.2 b h
      have e : renderFile (d :: ds) = renderDef d.1 d.2 ++ 10 :: renderFile ds := by
        simp [renderFile, List.flatMap_cons]
      rw [e, splitLines_line _ _ [] hnolf, ih (fun x hx => hds x (List.mem_cons_of_mem _ hx))]
      simp
  unfold parseFile
  rw [hsplit defs hw]
  -- trimming leaves the rendered lines alone and removes the empty last line
  have htrim : ∀ d ∈ defs, trim (renderDef d.1 d.2) = renderDef d.1 d.2 := by
    intro d hd
    have hwd := hw d hd
    obtain ⟨b0, t, hd0, hdig⟩ := Pumpkin.Dimacs.digits_head d.1
    have hb0 := (digits_no_lf d.1 b0 (by rw [hd0]; simp)).2
    apply trim_id _ b0 (t ++ [32] ++ renderAtomics d.2)
    · simp [renderDef, hd0]
    · exact hb0
    · intro x hx
      have : (renderDef d.1 d.2).getLast? = some 93 := by
        simp only [renderDef]
        rw [List.getLast?_append, renderAtomics_last d.2 hwd.2.1]
        rfl
      rw [this] at hx
      simp only [Option.some.injEq] at hx
      subst hx; decide
  have hne : ∀ d ∈ defs, (renderDef d.1 d.2).isEmpty = false := by
    intro d _
    have := digits_ne_nil d.1
    cases h : digits d.1 with
    | nil => exact absurd h this
    | cons _ _ => simp [renderDef, h]
  have hlines : ((defs.map (fun d : Nat × List Atomic => renderDef d.1 d.2) ++ [[]]).map trim).filter (fun l => !l.isEmpty)
      = defs.map (fun d : Nat × List Atomic => renderDef d.1 d.2) := by
    clear hsplit
    induction defs with
    | nil => simp [trim]
    | cons d ds ih =>
      have h1 := htrim d (by simp)
      have h2 := hne d (by simp)
      simp only [List.map_cons, List.cons_append, h1, List.filter_cons, h2, Bool.not_false, if_true]
      congr 1
      exact ih (fun x hx => hw x (List.mem_cons_of_mem _ hx)) (fun x hx => htrim x (List.mem_cons_of_mem _ hx))
        (fun x hx => hne x (List.mem_cons_of_mem _ hx))
  rw [hlines]
  -- every line parses back
  clear hlines hsplit htrim hne
  induction defs with
  | nil => rfl
  | cons d ds ih =>
    have hwd := hw d (by simp)
    obtain ⟨c, as⟩ := d
    cases as with
    | nil => exact absurd rfl hwd.2.1
    | cons a as =>
      simp only [List.map_cons, List.mapM_cons, parseDef_renderDef c a as hwd.1 hwd.2.2, Option.bind_eq_bind,
        Option.bind_some, ih (fun x hx => hw x (List.mem_cons_of_mem _ hx))]
      rfl

end Pumpkin.Lits
