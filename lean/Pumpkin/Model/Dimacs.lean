/-
Model of the byte-level DIMACS CNF parser
(`pumpkin-solver/src/bin/pumpkin-solver/parsers/dimacs.rs`: `DimacsParser::parse_chunk`,
`start_literal`, `finish_literal`, `finish_clause`, `init_formula`, `complete`, `CNFHeader::from_str`).

Bytes are natural numbers. The parser state mirrors the Rust struct: `st` = `ParseState`,
`buf` = `buffer`, `cur` = `clause`, `hdr` = `header`/`sink` (present together), `out` = the clauses
handed to the sink (so `parsed_clauses = out.length`).

Differences in formulation (validated by the exact correspondence run, not proved):
* the header text is handled as bytes `< 128` (the Rust code turns each byte into a `char`, so bytes
  `≥ 128` become Latin-1 characters, of which U+0085 and U+00A0 are Unicode white space);
* `buffer.trim()` is not modelled separately: the buffer always starts with `p`, and whenever
  trimming the end would destroy the prefix `"p cnf "` everything after `p cnf` is white space, in
  which case both formulations answer `InvalidHeader` (too few components).
-/
namespace Pumpkin.Dimacs

inductive PS | startLine | header | comment | literal | negLiteral | clause
deriving DecidableEq, Repr

inductive Err
  | missingHeader | invalidHeader | duplicateHeader | unexpectedChar (b : Nat) | invalidLiteral
  | unterminated | clauseCount (expected parsed : Nat)
  /-- WCNF only: the clause callback indexes `clause[0]` and converts it to a `NonZeroU32` weight -/
  | panicked
deriving DecidableEq, Repr

structure P where
  st : PS := .startLine
  buf : List Nat := []
  cur : List Int := []
  hdr : Option (Nat × Nat) := none
  out : List (List Int) := []
  /-- `parse_wcnf` instead of `parse_cnf`: header `p wcnf <vars> <clauses> <top>`, first number of
  every clause is its weight -/
  wcnf : Bool := false
  top : Nat := 0
deriving DecidableEq, Repr

/-- `u8::is_ascii_whitespace`: space, tab, LF, FF, CR (not VT) -/
def isWs (b : Nat) : Bool := b == 32 || b == 9 || b == 10 || b == 12 || b == 13
/-- `char::is_whitespace` restricted to ASCII: additionally VT -/
def isHdrWs (b : Nat) : Bool := b == 32 || (9 ≤ b && b ≤ 13)
def isDigit (b : Nat) : Bool := 48 ≤ b && b ≤ 57
def isDigit19 (b : Nat) : Bool := 49 ≤ b && b ≤ 57

def natOfDigits (ds : List Nat) : Nat := ds.foldl (fun acc d => acc * 10 + (d - 48)) 0

/-- `str::parse::<i32>` on a buffer of the shape the parser builds: optional `-`, then digits -/
def parseI32 (buf : List Nat) : Option Int :=
  match buf with
  | 45 :: ds =>
    if ds.isEmpty || !ds.all isDigit then none
    else if natOfDigits ds ≤ 2147483648 then some (-(natOfDigits ds : Int)) else none
  | ds =>
    if ds.isEmpty || !ds.all isDigit then none
    else if natOfDigits ds ≤ 2147483647 then some (natOfDigits ds : Int) else none

/-- `str::parse::<usize>` (64-bit): optional `+`, then at least one digit, value `< 2^64` -/
def stripPlus : List Nat → List Nat
  | 43 :: r => r
  | r => r

def parseUsize (tok : List Nat) : Option Nat :=
  let ds := stripPlus tok
  if ds.isEmpty || !ds.all isDigit then none
  else if natOfDigits ds ≤ 18446744073709551615 then some (natOfDigits ds) else none

/-- `str::split_whitespace` on ASCII -/
def tokensAux : List Nat → List Nat → List (List Nat)
  | [], acc => if acc.isEmpty then [] else [acc]
  | b :: rest, acc =>
    if isHdrWs b then (if acc.isEmpty then tokensAux rest [] else acc :: tokensAux rest [])
    else tokensAux rest (acc ++ [b])

def tokens (s : List Nat) : List (List Nat) := tokensAux s []

/-- "p cnf " -/
def cnfPrefix : List Nat := [112, 32, 99, 110, 102, 32]

def startsWith : List Nat → List Nat → Bool
  | [], _ => true
  | _ :: _, [] => false
  | a :: as, b :: bs => a == b && startsWith as bs

/-- `CNFHeader::from_str` -/
def parseHeader (buf : List Nat) : Option (Nat × Nat) :=
  if !startsWith cnfPrefix buf then none
  else
    match (tokens buf).drop 2 with
    | [a, b] =>
      match parseUsize a, parseUsize b with
      | some nv, some nc => some (nv, nc)
      | _, _ => none
    | _ => none

/-- "p wcnf " -/
def wcnfPrefix : List Nat := [112, 32, 119, 99, 110, 102, 32]

/-- `WCNFHeader::from_str` (the top weight is a `u64`, parsed like a `usize` here: 64 bit) -/
def parseHeaderW (buf : List Nat) : Option (Nat × Nat × Nat) :=
  if !startsWith wcnfPrefix buf then none
  else
    match (tokens buf).drop 2 with
    | [a, b, c] =>
      match parseUsize a, parseUsize b, parseUsize c with
      | some nv, some nc, some top => some (nv, nc, top)
      | _, _, _ => none
    | _ => none

def initFormula (p : P) : Except Err P :=
  if p.wcnf then
    match parseHeaderW p.buf with
    | none => .error .invalidHeader
    | some (nv, nc, top) =>
      match p.hdr with
      | some _ => .error .duplicateHeader
      | none => .ok { p with hdr := some (nv, nc), top := top }
  else
    match parseHeader p.buf with
    | none => .error .invalidHeader
    | some h =>
      match p.hdr with
      | some _ => .error .duplicateHeader
      | none => .ok { p with hdr := some h }

def finishClause (p : P) : Except Err P :=
  match p.hdr with
  | none => .error .missingHeader
  | some _ =>
    if p.wcnf then
      -- the callback of `parse_wcnf`: `clause[0].try_into::<NonZeroU32>().unwrap()`
      match p.cur with
      | [] => .error .panicked
      | w :: _ => if w ≤ 0 then .error .panicked else .ok { p with out := p.out ++ [p.cur], cur := [] }
    else .ok { p with out := p.out ++ [p.cur], cur := [] }

def finishLiteral (p : P) : Except Err P :=
  match parseI32 p.buf with
  | none => .error .invalidLiteral
  | some z => .ok { p with cur := p.cur ++ [z], st := .clause }

def startLiteral (p : P) (b : Nat) (positive : Bool) : P :=
  { p with st := if positive then .literal else .negLiteral, buf := [b] }

/-- one byte of `parse_chunk` -/
def step (p : P) (b : Nat) : Except Err P :=
  match p.st with
  | .startLine =>
    if isWs b then .ok p
    else if b == 112 then .ok { p with st := .header, buf := [112] }
    else if b == 99 then .ok { p with st := .comment }
    else if isDigit19 b then .ok (startLiteral p b true)
    else if b == 48 then finishClause p
    else if b == 45 then .ok (startLiteral p 45 false)
    else .error (.unexpectedChar b)
  | .header =>
    if b == 10 then
      match initFormula p with
      | .ok p' => .ok { p' with st := .startLine }
      | .error e => .error e
    else .ok { p with buf := p.buf ++ [b] }
  | .comment => if b == 10 then .ok { p with st := .startLine } else .ok p
  | .literal =>
    if isWs b then
      match finishLiteral p with
      | .ok p' => .ok (if b == 10 then { p' with st := .startLine } else p')
      | .error e => .error e
    else if isDigit b then .ok { p with buf := p.buf ++ [b] }
    else .error (.unexpectedChar b)
  | .negLiteral =>
    if isDigit19 b then .ok { p with buf := p.buf ++ [b], st := .literal }
    else .error (.unexpectedChar b)
  | .clause =>
    if b == 48 then finishClause p
    else if b == 10 then .ok { p with st := .startLine }
    else if isWs b then .ok p
    else if isDigit19 b then .ok (startLiteral p b true)
    else if b == 45 then .ok (startLiteral p 45 false)
    else .error (.unexpectedChar b)

def run : P → List Nat → Except Err P
  | p, [] => .ok p
  | p, b :: bs =>
    match step p b with
    | .ok p' => run p' bs
    | .error e => .error e

/-- `DimacsParser::complete` -/
def complete (p : P) : Except Err (Nat × List (List Int)) :=
  match (if p.st == .header then initFormula p else .ok p) with
  | .error e => .error e
  | .ok p =>
    match p.hdr with
    | none => .error .missingHeader
    | some (nv, nc) =>
      if !p.cur.isEmpty then .error .unterminated
      else if nc ≠ p.out.length then .error (.clauseCount nc p.out.length)
      else .ok (nv, p.out)

/-- `parse_cnf` on a whole file (chunk boundaries do not matter: `parse_chunk` is a fold) -/
def parseCnf (bytes : List Nat) : Except Err (Nat × List (List Int)) :=
  match run {} bytes with
  | .error e => .error e
  | .ok p => complete p

/-- `parse_wcnf`: hard clauses (weight = top) and weighted soft clauses, in file order -/
def parseWcnf (bytes : List Nat) : Except Err (Nat × List (Option Nat × List Int)) :=
  match run { wcnf := true } bytes with
  | .error e => .error e
  | .ok p =>
    match (if p.st == .header then initFormula p else .ok p) with
    | .error e => .error e
    | .ok p =>
      match p.hdr with
      | none => .error .missingHeader
      | some (nv, nc) =>
        if !p.cur.isEmpty then .error .unterminated
        else if nc ≠ p.out.length then .error (.clauseCount nc p.out.length)
        else .ok (nv, p.out.map (fun c =>
          match c with
          | w :: rest => if w.toNat == p.top then (none, rest) else (some w.toNat, rest)
          | [] => (none, [])))

theorem run_append (p : P) (xs ys : List Nat) :
    run p (xs ++ ys) = (match run p xs with | .ok p' => run p' ys | .error e => .error e) := by
  induction xs generalizing p with
  | nil => rfl
  | cons b bs ih =>
    simp only [List.cons_append, run]
    cases step p b with
    | ok p' => exact ih p'
    | error e => rfl

end Pumpkin.Dimacs
