/-
Soundness of the time-table filtering model (`Model/Cumulative.lean`), for all tasks, capacities,
views and domain states: an assignment within the domains under which the load never exceeds the
capacity (the documented meaning of `cumulative`, see `Props/C08.lean: cumulative_sat_iff`) is still
within the domains after `ttPass` / `ttFix`, and neither reports a conflict.
-/
import Pumpkin.Model.Cumulative
import Pumpkin.Model.PropagationSound
import Pumpkin.Spec.CumSem

namespace Pumpkin.Pg

open Pumpkin.AtomRup

theorem loadAt_eq_sumL (ts : List Task) (a : List Int) (t : Int) :
    loadAt ts a t = sumL (ts.map (fun k => if k.start.eval a ≤ t ∧ t < k.start.eval a + k.dur then k.use else 0)) := rfl

theorem heightAt_eq_sumL (d : Doms) (ts : List Task) (t : Int) :
    heightAt d ts t = sumL (ts.map (fun k => if mandatoryAt d k t then k.use else 0)) := rfl

theorem sumL_map_le (ts : List Task) (f g : Task → Int) (h : ∀ j ∈ ts, f j ≤ g j) :
    sumL (ts.map f) ≤ sumL (ts.map g) := by
  induction ts with
  | nil => simp
  | cons j r ih =>
    simp only [List.map_cons, sumL_cons]
    have := h j (by simp)
    have := ih (fun x hx => h x (by simp [hx]))
    omega

theorem sumL_map_add_le (ts : List Task) (f g : Task → Int) (k : Task) (hk : k ∈ ts) (c : Int)
    (h : ∀ j ∈ ts, f j ≤ g j) (hkc : f k + c ≤ g k) : sumL (ts.map f) + c ≤ sumL (ts.map g) := by
  induction ts with
  | nil => cases hk
  | cons j r ih =>
    simp only [List.map_cons, sumL_cons]
    rcases List.mem_cons.1 hk with rfl | hr
    · have := sumL_map_le r f g (fun x hx => h x (by simp [hx]))
      omega
    · have := ih hr (fun x hx => h x (by simp [hx]))
      have := h j (by simp)
      omega

theorem sumL_map_zero (ts : List Task) : sumL (ts.map (fun _ => (0 : Int))) = 0 := by
  induction ts with
  | nil => rfl
  | cons j r ih => simp only [List.map_cons, sumL_cons, ih]; omega

theorem sumL_filter_le (ts : List Task) (p : Task → Bool) (g : Task → Int) (h : ∀ j ∈ ts, 0 ≤ g j) :
    sumL ((ts.filter p).map g) ≤ sumL (ts.map g) := by
  induction ts with
  | nil => simp
  | cons j r ih =>
    have hr := ih (fun x hx => h x (by simp [hx]))
    have hj := h j (by simp)
    simp only [List.filter_cons]
    split
    · simp only [List.map_cons, sumL_cons]; omega
    · simp only [List.map_cons, sumL_cons]; omega

theorem mandatory_runs {d : Doms} {a : List Int} (h : inDoms d a = true) (k : Task)
    (hw : k.start.var < d.length) (t : Int) (hm : mandatoryAt d k t = true) :
    k.start.eval a ≤ t ∧ t < k.start.eval a + k.dur := by
  simp only [mandatoryAt, Bool.and_eq_true, decide_eq_true_eq] at hm
  have h1 := lb_le h hw
  have h2 := le_ub h hw
  omega

/-- the profile never exceeds the real load -/
theorem heightAt_le_loadAt {n : Nat} {d : Doms} {a : List Int} (h : inDoms d a = true) (hl : d.length = n)
    (ts : List Task) (hw : tasksWf n ts) (t : Int) : heightAt d (ttTasks ts) t ≤ loadAt ts a t := by
  rw [heightAt_eq_sumL, loadAt_eq_sumL]
  have h1 : sumL ((ttTasks ts).map (fun k => if mandatoryAt d k t then k.use else 0)) ≤
      sumL ((ttTasks ts).map (fun k => if k.start.eval a ≤ t ∧ t < k.start.eval a + k.dur then k.use else 0)) := by
    apply sumL_map_le
    intro j hj
    have hjt : j ∈ ts := (List.mem_filter.1 hj).1
    have := hw j hjt
    by_cases hm : mandatoryAt d j t = true
    · have := mandatory_runs h j (by omega) t hm
      simp [hm, this]
    · have hm' : mandatoryAt d j t = false := by simpa using hm
      simp only [hm', Bool.false_eq_true, if_false]
      split <;> omega
  have h2 := sumL_filter_le ts (fun k => decide (0 < k.dur) && decide (0 < k.use))
    (fun k => if k.start.eval a ≤ t ∧ t < k.start.eval a + k.dur then k.use else 0)
    (by intro j hj; have := hw j hj; split <;> omega)
  exact Int.le_trans h1 h2

/-- a task outside the profile which runs at `t` adds its usage -/
theorem heightAt_add_le_loadAt {n : Nat} {d : Doms} {a : List Int} (h : inDoms d a = true) (hl : d.length = n)
    (ts : List Task) (hw : tasksWf n ts) (t : Int) (k : Task) (hk : k ∈ ttTasks ts)
    (hnm : mandatoryAt d k t = false) (hr : k.start.eval a ≤ t ∧ t < k.start.eval a + k.dur) :
    heightAt d (ttTasks ts) t + k.use ≤ loadAt ts a t := by
  rw [heightAt_eq_sumL, loadAt_eq_sumL]
  have h1 : sumL ((ttTasks ts).map (fun k => if mandatoryAt d k t then k.use else 0)) + k.use ≤
      sumL ((ttTasks ts).map (fun k => if k.start.eval a ≤ t ∧ t < k.start.eval a + k.dur then k.use else 0)) := by
    apply sumL_map_add_le _ _ _ k hk
    · intro j hj
      have hjt : j ∈ ts := (List.mem_filter.1 hj).1
      have := hw j hjt
      by_cases hm : mandatoryAt d j t = true
      · have := mandatory_runs h j (by omega) t hm
        simp [hm, this]
      · have hm' : mandatoryAt d j t = false := by simpa using hm
        simp only [hm', Bool.false_eq_true, if_false]
        split <;> omega
    · simp [hnm, hr]
  have h2 := sumL_filter_le ts (fun k => decide (0 < k.dur) && decide (0 < k.use))
    (fun k => if k.start.eval a ≤ t ∧ t < k.start.eval a + k.dur then k.use else 0)
    (by intro j hj; have := hw j hj; split <;> omega)
  exact Int.le_trans h1 h2

theorem ttTaskAt_ok {n : Nat} {a : List Int} (holes : Bool) (cap : Int) (ts : List Task) (hw : tasksWf n ts)
    (hT : ∀ t, loadAt ts a t ≤ cap) (t : Int) (k : Task) (hk : k ∈ ttTasks ts) (d : Doms)
    (h : inDoms d a = true) (hl : d.length = n) : Ok n a (ttTaskAt holes cap (ttTasks ts) t k d) := by
  have hkw := hw k (List.mem_filter.1 hk).1
  unfold ttTaskAt
  split
  · rename_i hc
    obtain ⟨hov, hnm, hlo, hhi⟩ := hc
    -- the task does not run at `t`
    have hnr : ¬ (k.start.eval a ≤ t ∧ t < k.start.eval a + k.dur) := by
      intro hr
      have := heightAt_add_le_loadAt h hl ts hw t k hk hnm hr
      have := hT t
      omega
    apply Ok.bind
    · split
      · rename_i hlb
        apply setLb_ok h hl hkw.1
        have := lb_le h (w := k.start) (by omega)
        omega
      · exact Ok.some h hl
    · intro d1 h1 l1
      apply Ok.bind
      · split
        · rename_i hub
          apply setUb_ok h1 l1 hkw.1
          have := le_ub h1 (w := k.start) (by omega)
          omega
        · exact Ok.some h1 l1
      · intro d2 h2 l2
        split
        · apply keep_ok h2 l2 hkw.1
          simp only [Bool.not_eq_true', Bool.and_eq_false_iff, decide_eq_false_iff_not]
          omega
        · exact Ok.some h2 l2
  · exact Ok.some h hl

theorem ttTasksAt_ok {n : Nat} {a : List Int} (holes : Bool) (cap : Int) (ts : List Task) (hw : tasksWf n ts)
    (hT : ∀ t, loadAt ts a t ≤ cap) (t : Int) (sub : List Task) (hsub : ∀ k ∈ sub, k ∈ ttTasks ts) (d : Doms)
    (h : inDoms d a = true) (hl : d.length = n) : Ok n a (ttTasksAt holes cap (ttTasks ts) t sub d) := by
  induction sub generalizing d with
  | nil => exact Ok.some h hl
  | cons k r ih =>
    simp only [ttTasksAt]
    apply Ok.bind (ttTaskAt_ok holes cap ts hw hT t k (hsub k (by simp)) d h hl)
    intro d' h' l'
    exact ih (fun j hj => hsub j (by simp [hj])) d' h' l'

theorem ttPoints_ok {n : Nat} {a : List Int} (holes : Bool) (cap : Int) (ts : List Task) (hw : tasksWf n ts)
    (hT : ∀ t, loadAt ts a t ≤ cap) (times : List Int) (d : Doms)
    (h : inDoms d a = true) (hl : d.length = n) : Ok n a (ttPoints holes cap (ttTasks ts) times d) := by
  induction times generalizing d with
  | nil => exact Ok.some h hl
  | cons t r ih =>
    simp only [ttPoints]
    have hh := heightAt_le_loadAt h hl ts hw t
    have := hT t
    rw [if_neg (by omega)]
    split
    · apply Ok.bind (ttTasksAt_ok holes cap ts hw hT t _ (fun k hk => hk) d h hl)
      intro d' h' l'
      exact ih d' h' l'
    · exact ih d h hl

/-- a task which on its own exceeds the capacity makes the constraint unsatisfiable -/
theorem oversize_unsat {n : Nat} {a : List Int} (ts : List Task) (cap : Int) (hw : tasksWf n ts)
    (hany : (ttTasks ts).any (fun k => decide (k.use > cap)) = true) : ¬ ∀ t, loadAt ts a t ≤ cap := by
  intro hT
  obtain ⟨k, hk, hku⟩ := List.any_eq_true.1 hany
  simp only [decide_eq_true_eq] at hku
  have hkf := List.mem_filter.1 hk
  simp only [Bool.and_eq_true, decide_eq_true_eq] at hkf
  have hload : k.use ≤ loadAt ts a (k.start.eval a) := by
    rw [loadAt_eq_sumL]
    have := sumL_map_add_le ts (fun _ => 0)
      (fun j => if j.start.eval a ≤ k.start.eval a ∧ k.start.eval a < j.start.eval a + j.dur then j.use else 0)
      k hkf.1 k.use (by intro j hj; have := hw j hj; split <;> omega)
      (by have : k.start.eval a ≤ k.start.eval a ∧ k.start.eval a < k.start.eval a + k.dur := by omega
          simp [this])
    have hz := sumL_map_zero ts
    omega
  have := hT (k.start.eval a)
  omega

/-- **One evaluation of the time-table never removes the start times of a feasible schedule and
reports no conflict when there is one** — for every domain state, every list of tasks (views, zero
durations and usages included) and capacity. -/
theorem ttPass_ok {n : Nat} {a : List Int} (holes : Bool) (ts : List Task) (cap : Int) (hw : tasksWf n ts)
    (hT : ∀ t, loadAt ts a t ≤ cap) (d : Doms) (h : inDoms d a = true) (hl : d.length = n) :
    Ok n a (ttPass holes ts cap d) := by
  unfold ttPass
  simp only []
  split
  · rename_i hany
    exfalso
    obtain ⟨k, hk, hku⟩ := List.any_eq_true.1 hany
    simp only [decide_eq_true_eq] at hku
    have hkf := List.mem_filter.1 hk
    simp only [Bool.and_eq_true, decide_eq_true_eq] at hkf
    -- the task runs at its own start
    have hload : k.use ≤ loadAt ts a (k.start.eval a) := by
      rw [loadAt_eq_sumL]
      have := sumL_map_add_le ts (fun _ => 0)
        (fun j => if j.start.eval a ≤ k.start.eval a ∧ k.start.eval a < j.start.eval a + j.dur then j.use else 0)
        k hkf.1 k.use (by intro j hj; have := hw j hj; split <;> omega)
        (by have : k.start.eval a ≤ k.start.eval a ∧ k.start.eval a < k.start.eval a + k.dur := by omega
            simp [this])
      have hz := sumL_map_zero ts
      omega
    have := hT (k.start.eval a)
    omega
  · exact ttPoints_ok holes cap ts hw hT _ d h hl

/-- a list of cumulative constraints: (allow_holes, tasks, capacity) -/
def ttWf (n : Nat) (cs : List (Bool × List Task × Int)) : Prop := ∀ c ∈ cs, tasksWf n c.2.1

def ttSat (cs : List (Bool × List Task × Int)) (a : List Int) : Prop :=
  ∀ c ∈ cs, ∀ t, loadAt c.2.1 a t ≤ c.2.2

theorem ttRound_ok {n : Nat} {a : List Int} (cs : List (Bool × List Task × Int)) (hw : ttWf n cs)
    (hs : ttSat cs a) (d : Doms) (h : inDoms d a = true) (hl : d.length = n) : Ok n a (ttRound cs d) := by
  induction cs generalizing d with
  | nil => exact Ok.some h hl
  | cons c r ih =>
    obtain ⟨ho, ts, cap⟩ := c
    simp only [ttRound]
    apply Ok.bind (ttPass_ok ho ts cap (hw (ho, ts, cap) (by simp)) (hs (ho, ts, cap) (by simp)) d h hl)
    intro d' h' l'
    exact ih (fun x hx => hw x (by simp [hx])) (fun x hx => hs x (by simp [hx])) d' h' l'

theorem ttIterate_ok {n : Nat} {a : List Int} (cs : List (Bool × List Task × Int)) (hw : ttWf n cs)
    (hs : ttSat cs a) (fuel : Nat) (d : Doms) (h : inDoms d a = true) (hl : d.length = n) :
    Ok n a (ttIterate cs fuel d) := by
  induction fuel generalizing d with
  | zero => exact Ok.some h hl
  | succ k ih =>
    simp only [ttIterate]
    obtain ⟨d', e, h', l'⟩ := ttRound_ok cs hw hs d h hl
    rw [e]
    simp only []
    split
    · exact Ok.some h' l'
    · exact ih d' h' l'

/-- **The time-table fixpoint keeps every feasible schedule and reports no conflict when one exists.** -/
theorem ttFix_ok {n : Nat} {a : List Int} (cs : List (Bool × List Task × Int)) (hw : ttWf n cs)
    (hs : ttSat cs a) (d : Doms) (h : inDoms d a = true) (hl : d.length = n) : Ok n a (ttFix cs d) := by
  unfold ttFix
  have := not_hasEmpty_of_inDoms h
  unfold hasEmpty at this
  rw [this]
  exact ttIterate_ok cs hw hs _ d h hl

end Pumpkin.Pg
