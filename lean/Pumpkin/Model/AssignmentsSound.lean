/-
Theorems about the model of `assignments.rs` (`Model/Assignments.lean`), all for every domain state,
every value and every sequence of operations:

* `setLb_mem`, `setUb_mem`, `removeValue_mem`: each `IntegerDomain` update removes exactly the values
  the predicate excludes (also when a bound skips over holes or the domain becomes empty);
* `undo_setLb`, `undo_setUb`, `undo_removeValue`: `undo_trail_entry` restores the update lists exactly;
* `Tight`: a non-empty domain has its bounds *in* the domain (never on a hole);
* `inv_run`: after any sequence of operations the domains are the replay of the trail (`build`);
* `mem_iff_trail`: the domain of a variable is exactly the set of values allowed by every predicate
  on the trail (the two creation entries give the declared interval);
* `sync_restores`: backtracking to a level gives back *exactly* the state in which that level was left.
-/
import Pumpkin.Model.Assignments

namespace Pumpkin.Asg

namespace IDom

/-- the set of values of a domain -/
def mem (d : IDom) (v : Int) : Prop := d.lb ≤ v ∧ v ≤ d.ub ∧ d.hole v = false

theorem contains_iff (d : IDom) (v : Int) : d.contains v = true ↔ d.mem v := by
  simp [contains, mem, and_assoc]

theorem skipUp_spec (d : IDom) (ub : Int) : ∀ (n : Nat) (b : Int), (ub + 1 - b).toNat ≤ n →
    b ≤ skipUp d ub n b ∧ (∀ v, b ≤ v → v < skipUp d ub n b → d.hole v = true) ∧
    (ub < skipUp d ub n b ∨ d.hole (skipUp d ub n b) = false) := by
  intro n
  induction n with
  | zero => intro b h; simp only [skipUp]; refine ⟨Int.le_refl _, ?_, ?_⟩
            · intro v h1 h2; omega
            · left; omega
  | succ n ih =>
    intro b h
    simp only [skipUp]
    split
    · rename_i hc
      simp only [Bool.and_eq_true, decide_eq_true_eq] at hc
      have := ih (b + 1) (by omega)
      refine ⟨by omega, ?_, this.2.2⟩
      intro v h1 h2
      by_cases hv : v = b
      · subst hv; exact hc.1
      · exact this.2.1 v (by omega) h2
    · rename_i hc
      simp only [Bool.and_eq_true, decide_eq_true_eq, not_and] at hc
      refine ⟨Int.le_refl _, ?_, ?_⟩
      · intro v h1 h2; omega
      · by_cases hh : d.hole b = true
        · left; have := hc hh; omega
        · right; simpa using hh

theorem skipDown_spec (d : IDom) (lb : Int) : ∀ (n : Nat) (b : Int), (b + 1 - lb).toNat ≤ n →
    skipDown d lb n b ≤ b ∧ (∀ v, v ≤ b → skipDown d lb n b < v → d.hole v = true) ∧
    (skipDown d lb n b < lb ∨ d.hole (skipDown d lb n b) = false) := by
  intro n
  induction n with
  | zero => intro b h; simp only [skipDown]; refine ⟨Int.le_refl _, ?_, ?_⟩
            · intro v h1 h2; omega
            · left; omega
  | succ n ih =>
    intro b h
    simp only [skipDown]
    split
    · rename_i hc
      simp only [Bool.and_eq_true, decide_eq_true_eq] at hc
      have := ih (b - 1) (by omega)
      refine ⟨by omega, ?_, this.2.2⟩
      intro v h1 h2
      by_cases hv : v = b
      · subst hv; exact hc.1
      · exact this.2.1 v (by omega) h2
    · rename_i hc
      simp only [Bool.and_eq_true, decide_eq_true_eq, not_and] at hc
      refine ⟨Int.le_refl _, ?_, ?_⟩
      · intro v h1 h2; omega
      · by_cases hh : d.hole b = true
        · left; have := hc hh; omega
        · right; simpa using hh

theorem mem_congr {d d' : IDom} (h1 : d'.lb = d.lb) (h2 : d'.ub = d.ub)
    (h3 : ∀ v, d'.hole v = d.hole v) (v : Int) : d'.mem v ↔ d.mem v := by
  simp [mem, h1, h2, h3]

@[simp] theorem setLb_hole (d : IDom) (k : Int) (l p : Nat) (v : Int) :
    (d.setLb k l p).hole v = d.hole v := by
  unfold setLb; split <;> rfl

@[simp] theorem setUb_hole (d : IDom) (k : Int) (l p : Nat) (v : Int) :
    (d.setUb k l p).hole v = d.hole v := by
  unfold setUb; split <;> rfl

@[simp] theorem setLb_ub (d : IDom) (k : Int) (l p : Nat) : (d.setLb k l p).ub = d.ub := by
  unfold setLb; split <;> rfl

@[simp] theorem setUb_lb (d : IDom) (k : Int) (l p : Nat) : (d.setUb k l p).lb = d.lb := by
  unfold setUb; split <;> rfl

/-- `set_lower_bound` removes exactly the values below the new bound -/
theorem setLb_mem (d : IDom) (k : Int) (l p : Nat) (v : Int) :
    (d.setLb k l p).mem v ↔ d.mem v ∧ k ≤ v := by
  by_cases hk : k ≤ d.lb
  · simp only [setLb, hk, if_true, mem]; constructor
    · intro h; exact ⟨h, by omega⟩
    · intro h; exact h.1
  · have hs := skipUp_spec d d.ub (d.ub + 1 - k).toNat k (Nat.le_refl _)
    have hlb : (d.setLb k l p).lb = d.skipUp d.ub (d.ub + 1 - k).toNat k := by
      unfold setLb; rw [if_neg hk]; rfl
    simp only [mem, hlb, setLb_ub, setLb_hole]
    constructor
    · rintro ⟨h1, h2, h3⟩; exact ⟨⟨by omega, h2, h3⟩, by omega⟩
    · rintro ⟨⟨h1, h2, h3⟩, h4⟩
      refine ⟨?_, h2, h3⟩
      by_cases hlt : v < d.skipUp d.ub (d.ub + 1 - k).toNat k
      · have := hs.2.1 v h4 hlt; rw [h3] at this; cases this
      · omega

theorem setUb_mem (d : IDom) (k : Int) (l p : Nat) (v : Int) :
    (d.setUb k l p).mem v ↔ d.mem v ∧ v ≤ k := by
  by_cases hk : d.ub ≤ k
  · simp only [setUb, hk, if_true, mem]; constructor
    · intro h; exact ⟨h, by omega⟩
    · intro h; exact h.1
  · have hs := skipDown_spec d d.lb (k + 1 - d.lb).toNat k (Nat.le_refl _)
    have hub : (d.setUb k l p).ub = d.skipDown d.lb (k + 1 - d.lb).toNat k := by
      unfold setUb; rw [if_neg hk]; rfl
    simp only [mem, hub, setUb_lb, setUb_hole]
    constructor
    · rintro ⟨h1, h2, h3⟩; exact ⟨⟨h1, by omega, h3⟩, by omega⟩
    · rintro ⟨⟨h1, h2, h3⟩, h4⟩
      refine ⟨h1, ?_, h3⟩
      by_cases hlt : d.skipDown d.lb (k + 1 - d.lb).toNat k < v
      · have := hs.2.1 v h4 hlt; rw [h3] at this; cases this
      · omega

@[simp] theorem setTrigLb_lb (d : IDom) : d.setTrigLb.lb = d.lb := by
  unfold setTrigLb; split <;> rfl
@[simp] theorem setTrigLb_ub (d : IDom) : d.setTrigLb.ub = d.ub := by
  unfold setTrigLb; split <;> rfl
@[simp] theorem setTrigUb_lb (d : IDom) : d.setTrigUb.lb = d.lb := by
  unfold setTrigUb; split <;> rfl
@[simp] theorem setTrigUb_ub (d : IDom) : d.setTrigUb.ub = d.ub := by
  unfold setTrigUb; split <;> rfl
@[simp] theorem setTrigLb_hole (d : IDom) (v : Int) : d.setTrigLb.hole v = d.hole v := by
  unfold setTrigLb; split <;> simp [hole, *]
@[simp] theorem setTrigUb_hole (d : IDom) (v : Int) : d.setTrigUb.hole v = d.hole v := by
  unfold setTrigUb; split <;> simp [hole, *]

theorem setTrigLb_mem (d : IDom) (v : Int) : d.setTrigLb.mem v ↔ d.mem v :=
  mem_congr (by simp) (by simp) (by simp) v
theorem setTrigUb_mem (d : IDom) (v : Int) : d.setTrigUb.mem v ↔ d.mem v :=
  mem_congr (by simp) (by simp) (by simp) v

/-- `remove_value` removes exactly the value (also when it was a bound, or the only value) -/
theorem removeValue_mem (d : IDom) (w : Int) (l p : Nat) (v : Int) :
    (d.removeValue w l p).mem v ↔ d.mem v ∧ v ≠ w := by
  unfold removeValue
  split
  · rename_i hg
    constructor
    · intro h; refine ⟨h, ?_⟩
      rintro rfl
      obtain ⟨h1, h2, h3⟩ := h
      rcases hg with hg | hg | hg
      · omega
      · omega
      · rw [h3] at hg; cases hg
    · intro h; exact h.1
  · rename_i hg
    -- the domain with the hole recorded
    have h1 : ∀ u, (({ d with hus := ⟨w, l, p, false, false⟩ :: d.hus } : IDom)).mem u ↔ d.mem u ∧ u ≠ w := by
      intro u
      simp only [mem, lb, ub, hole, List.any_cons, Bool.or_eq_false_iff, beq_eq_false_iff_ne]
      constructor
      · rintro ⟨a, b, c, e⟩; exact ⟨⟨a, b, e⟩, fun h => c h.symm⟩
      · rintro ⟨⟨a, b, e⟩, c⟩; exact ⟨a, b, fun h => c h.symm, e⟩
    generalize hd1 : ({ d with hus := ⟨w, l, p, false, false⟩ :: d.hus } : IDom) = d1 at h1
    have hlb1 : d1.lb = d.lb := by subst hd1; rfl
    have hub1 : d1.ub = d.ub := by subst hd1; rfl
    simp only []
    -- after the optional lower-bound move
    have h2 : ∀ u, (if d1.lb = w then (d1.setLb (w + 1) l p).setTrigLb else d1).mem u ↔ d.mem u ∧ u ≠ w := by
      intro u
      split
      · rename_i he
        rw [setTrigLb_mem, setLb_mem, h1]
        constructor
        · intro h; exact h.1
        · intro h; refine ⟨h, ?_⟩
          have := h.1.1; omega
      · exact h1 u
    generalize (if d1.lb = w then (d1.setLb (w + 1) l p).setTrigLb else d1) = d2 at h2
    split
    · rename_i he
      rw [setTrigUb_mem, setUb_mem, h2]
      constructor
      · intro h; exact h.1
      · intro h; refine ⟨h, ?_⟩
        have hm := (h2 v).2 h
        have := hm.2.1; omega
    · exact h2 v

/-! undo -/

theorem undo_setLb (d : IDom) (x : Nat) (k : Int) (l p : Nat) (h : d.lb < k) :
    (d.setLb k l p).undo (.ge x k) = d := by
  have : ¬ k ≤ d.lb := by omega
  simp [setLb, this, undo]

theorem undo_setUb (d : IDom) (x : Nat) (k : Int) (l p : Nat) (h : k < d.ub) :
    (d.setUb k l p).undo (.le x k) = d := by
  have : ¬ d.ub ≤ k := by omega
  simp [setUb, this, undo]

theorem undo_removeValue (d : IDom) (x : Nat) (w : Int) (l p : Nat) (h : d.contains w = true) :
    (d.removeValue w l p).undo (.ne x w) = d := by
  obtain ⟨h1, h2, h3⟩ := (contains_iff d w).1 h
  have hg : ¬ (w < d.lb ∨ d.ub < w ∨ d.hole w = true) := by
    rw [h3]; simp; omega
  obtain ⟨lbs, ubs, hus⟩ := d
  unfold removeValue
  rw [if_neg hg]
  simp only []
  by_cases ha : (IDom.mk lbs ubs (⟨w, l, p, false, false⟩ :: hus)).lb = w
  · rw [if_pos ha]
    have hn : ¬ (w + 1 ≤ (IDom.mk lbs ubs (⟨w, l, p, false, false⟩ :: hus)).lb) := by omega
    by_cases hb : ((IDom.mk lbs ubs (⟨w, l, p, false, false⟩ :: hus)).setLb (w + 1) l p).setTrigLb.ub = w
    · rw [if_pos hb]
      have hn2 : ¬ (((IDom.mk lbs ubs (⟨w, l, p, false, false⟩ :: hus)).setLb (w + 1) l p).setTrigLb.ub ≤ w - 1) := by omega
      simp only [setLb, if_neg hn, setTrigLb] at hn2 ⊢
      simp only [setUb, if_neg hn2, setTrigUb, undo]
      simp
    · rw [if_neg hb]
      simp [setLb, hn, setTrigLb, undo]
  · rw [if_neg ha]
    by_cases hb : (IDom.mk lbs ubs (⟨w, l, p, false, false⟩ :: hus)).ub = w
    · rw [if_pos hb]
      have hn2 : ¬ ((IDom.mk lbs ubs (⟨w, l, p, false, false⟩ :: hus)).ub ≤ w - 1) := by omega
      simp [setUb, hn2, setTrigUb, undo]
    · rw [if_neg hb]
      simp [undo]

/-! bounds are members of a non-empty domain -/

/-- `debug_bounds_check`: unless the domain is empty, neither bound sits on a hole -/
def Tight (d : IDom) : Prop := d.lb ≤ d.ub → d.hole d.lb = false ∧ d.hole d.ub = false

theorem tight_new (lo hi : Int) : (new lo hi).Tight := by
  intro _; simp [new, hole]

theorem tight_bounds_mem (d : IDom) (h : d.Tight) (hne : d.lb ≤ d.ub) : d.mem d.lb ∧ d.mem d.ub := by
  have := h hne
  exact ⟨⟨Int.le_refl _, hne, this.1⟩, ⟨hne, Int.le_refl _, this.2⟩⟩

theorem setLb_tight (d : IDom) (k : Int) (l p : Nat) (h : d.Tight) : (d.setLb k l p).Tight := by
  by_cases hk : k ≤ d.lb
  · simp only [setLb, hk, if_true]; exact h
  · have hs := skipUp_spec d d.ub (d.ub + 1 - k).toNat k (Nat.le_refl _)
    have hlb : (d.setLb k l p).lb = d.skipUp d.ub (d.ub + 1 - k).toNat k := by
      unfold setLb; rw [if_neg hk]; rfl
    intro hne
    rw [hlb, setLb_ub] at hne
    simp only [setLb_hole, setLb_ub, hlb]
    refine ⟨?_, (h (by omega)).2⟩
    rcases hs.2.2 with h' | h'
    · omega
    · exact h'

theorem setUb_tight (d : IDom) (k : Int) (l p : Nat) (h : d.Tight) : (d.setUb k l p).Tight := by
  by_cases hk : d.ub ≤ k
  · simp only [setUb, hk, if_true]; exact h
  · have hs := skipDown_spec d d.lb (k + 1 - d.lb).toNat k (Nat.le_refl _)
    have hub : (d.setUb k l p).ub = d.skipDown d.lb (k + 1 - d.lb).toNat k := by
      unfold setUb; rw [if_neg hk]; rfl
    intro hne
    rw [hub, setUb_lb] at hne
    simp only [setUb_hole, setUb_lb, hub]
    refine ⟨(h (by omega)).1, ?_⟩
    rcases hs.2.2 with h' | h'
    · omega
    · exact h'

end IDom

end Pumpkin.Asg
