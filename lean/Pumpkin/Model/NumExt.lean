/-
Models of `math/num_ext.rs` (`div_ceil`, `div_floor` on `i32`, written with truncating `/` and `%`)
and of the predicate / bound translation of `engine/variables/affine_view.rs`
(`invert` with rounding, `map`, `lower_bound_predicate`, `upper_bound_predicate`).

Unbounded `Int` here; the 32-bit instantiation is in `Model/Wrap.lean`.
-/
import Pumpkin.Spec.Basic

namespace Pumpkin

/-- `<i32 as NumExt>::div_ceil`: `d = self / other; r = self % other;
if (r > 0 && other > 0) || (r < 0 && other < 0) { d + 1 } else { d }` -/
def divCeil (a b : Int) : Int :=
  if (a.tmod b > 0 ∧ b > 0) ∨ (a.tmod b < 0 ∧ b < 0) then a.tdiv b + 1 else a.tdiv b

/-- `<i32 as NumExt>::div_floor` -/
def divFloor (a b : Int) : Int :=
  if (a.tmod b > 0 ∧ b < 0) ∨ (a.tmod b < 0 ∧ b > 0) then a.tdiv b - 1 else a.tdiv b

theorem tmod_bounds_pos (a : Int) {b : Int} (hb : 0 < b) :
    -b < a.tmod b ∧ a.tmod b < b ∧ (0 ≤ a → 0 ≤ a.tmod b) ∧ (a ≤ 0 → a.tmod b ≤ 0) := by
  refine ⟨Int.lt_tmod_of_pos a hb, Int.tmod_lt_of_pos a hb, Int.tmod_nonneg b, ?_⟩
  intro ha
  have h1 : 0 ≤ (-a).tmod b := Int.tmod_nonneg b (by omega)
  rw [Int.neg_tmod] at h1
  omega

/-- floor division by a positive number: `b·q ≤ a < b·q + b` -/
theorem divFloor_pos (a : Int) {b : Int} (hb : 0 < b) :
    b * divFloor a b ≤ a ∧ a < b * divFloor a b + b := by
  have hm := Int.mul_tdiv_add_tmod a b
  obtain ⟨h1, h2, h3, h4⟩ := tmod_bounds_pos a hb
  unfold divFloor
  split
  · rename_i hc
    rw [Int.mul_sub, Int.mul_one]
    rcases hc with ⟨_, hneg⟩ | ⟨hr, _⟩
    · omega
    · constructor <;> omega
  · rename_i hc
    have : ¬ a.tmod b < 0 := fun h => hc (Or.inr ⟨h, hb⟩)
    constructor <;> omega

/-- ceiling division by a positive number: `b·q - b < a ≤ b·q` -/
theorem divCeil_pos (a : Int) {b : Int} (hb : 0 < b) :
    b * divCeil a b - b < a ∧ a ≤ b * divCeil a b := by
  have hm := Int.mul_tdiv_add_tmod a b
  obtain ⟨h1, h2, h3, h4⟩ := tmod_bounds_pos a hb
  unfold divCeil
  split
  · rename_i hc
    rw [Int.mul_add, Int.mul_one]
    rcases hc with ⟨hr, _⟩ | ⟨_, hneg⟩
    · constructor <;> omega
    · omega
  · rename_i hc
    have : ¬ a.tmod b > 0 := fun h => hc (Or.inl ⟨h, hb⟩)
    constructor <;> omega

theorem tdiv_tmod_neg_divisor (a b : Int) :
    a.tdiv (-b) = -(a.tdiv b) ∧ a.tmod (-b) = a.tmod b := ⟨Int.tdiv_neg a b, Int.tmod_neg a b⟩

/-- dividing by a negative number: floor/ceil swap with the positive divisor -/
theorem divFloor_neg_divisor (a b : Int) : divFloor a (-b) = -(divCeil a b) := by
  unfold divFloor divCeil
  rw [Int.tdiv_neg, Int.tmod_neg]
  split <;> split <;> omega

theorem divCeil_neg_divisor (a b : Int) : divCeil a (-b) = -(divFloor a b) := by
  unfold divFloor divCeil
  rw [Int.tdiv_neg, Int.tmod_neg]
  split <;> split <;> omega

/-- linear inequalities through a positive scale -/
theorem scale_pos_ge (s x a : Int) (hs : 0 < s) : a ≤ s * x ↔ divCeil a s ≤ x := by
  obtain ⟨h1, h2⟩ := divCeil_pos a hs
  constructor
  · intro h
    -- s*(q-1) < a ≤ s*x  ⇒ q - 1 < x
    have : s * (divCeil a s - 1) < s * x := by rw [Int.mul_sub, Int.mul_one]; omega
    have := Int.lt_of_mul_lt_mul_left this (Int.le_of_lt hs)
    omega
  · intro h
    have := Int.mul_le_mul_of_nonneg_left h (Int.le_of_lt hs)
    omega

theorem scale_pos_le (s x a : Int) (hs : 0 < s) : s * x ≤ a ↔ x ≤ divFloor a s := by
  obtain ⟨h1, h2⟩ := divFloor_pos a hs
  constructor
  · intro h
    have : s * x < s * (divFloor a s + 1) := by rw [Int.mul_add, Int.mul_one]; omega
    have := Int.lt_of_mul_lt_mul_left this (Int.le_of_lt hs)
    omega
  · intro h
    have := Int.mul_le_mul_of_nonneg_left h (Int.le_of_lt hs)
    omega

/-! ### `AffineView` predicate translation -/

/-- `AffineView::lower_bound_predicate(v)`: for `scale ≥ 0` the inner `[x ≥ ⌈(v-off)/scale⌉]`,
for `scale < 0` the inner `[x ≤ ⌊(v-off)/scale⌋]`. -/
def View.gePred (w : View) (v : Int) : Atom :=
  if 0 ≤ w.scale then Atom.ge w.var (divCeil (v - w.offset) w.scale)
  else Atom.le w.var (divFloor (v - w.offset) w.scale)

/-- `AffineView::upper_bound_predicate(v)` -/
def View.lePred (w : View) (v : Int) : Atom :=
  if 0 ≤ w.scale then Atom.le w.var (divFloor (v - w.offset) w.scale)
  else Atom.ge w.var (divCeil (v - w.offset) w.scale)

theorem View.gePred_sem (w : View) (v : Int) (a : List Int) (hs : w.scale ≠ 0) :
    (w.gePred v).holds a = true ↔ v ≤ w.eval a := by
  unfold View.gePred View.eval
  by_cases hp : 0 ≤ w.scale
  · have hs' : 0 < w.scale := by omega
    simp only [hp, if_true, Atom.holds, Atom.holdsVal, Atom.var, decide_eq_true_eq]
    rw [← scale_pos_ge _ _ _ hs']
    omega
  · have hn : 0 < -w.scale := by omega
    simp only [hp, if_false, Atom.holds, Atom.holdsVal, Atom.var, decide_eq_true_eq]
    -- ⌊(v-off)/scale⌋ with scale = -(−scale):  = −⌈(v-off)/(−scale)⌉
    have hd : divFloor (v - w.offset) w.scale = -(divCeil (v - w.offset) (-w.scale)) := by
      have := divFloor_neg_divisor (v - w.offset) (-w.scale)
      simpa using this
    rw [hd]
    have key := scale_pos_ge (-w.scale) (-(val a w.var)) (v - w.offset) hn
    have e : -w.scale * -(val a w.var) = w.scale * val a w.var := by
      rw [Int.neg_mul_neg]
    rw [e] at key
    constructor
    · intro h; have := key.2 (by omega); omega
    · intro h; have := key.1 (by omega); omega

theorem View.lePred_sem (w : View) (v : Int) (a : List Int) (hs : w.scale ≠ 0) :
    (w.lePred v).holds a = true ↔ w.eval a ≤ v := by
  unfold View.lePred View.eval
  by_cases hp : 0 ≤ w.scale
  · have hs' : 0 < w.scale := by omega
    simp only [hp, if_true, Atom.holds, Atom.holdsVal, Atom.var, decide_eq_true_eq]
    rw [← scale_pos_le _ _ _ hs']
    omega
  · have hn : 0 < -w.scale := by omega
    simp only [hp, if_false, Atom.holds, Atom.holdsVal, Atom.var, decide_eq_true_eq]
    have hd : divCeil (v - w.offset) w.scale = -(divFloor (v - w.offset) (-w.scale)) := by
      have := divCeil_neg_divisor (v - w.offset) (-w.scale)
      simpa using this
    rw [hd]
    have key := scale_pos_le (-w.scale) (-(val a w.var)) (v - w.offset) hn
    have e : -w.scale * -(val a w.var) = w.scale * val a w.var := by
      rw [Int.neg_mul_neg]
    rw [e] at key
    constructor
    · intro h; have := key.2 (by omega); omega
    · intro h; have := key.1 (by omega); omega

end Pumpkin
