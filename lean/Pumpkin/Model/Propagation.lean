/-
Models of the propagators, as functions on domains.

A domain state is the list of the current value lists of the variables (`Doms`, as in
`Check/AtomRup.lean`). Every propagator of `pumpkin-solver/src/propagators` that is modelled here is
a function `Doms → Option Doms` (`none` = conflict, including an emptied domain), written statement
by statement after its `debug_propagate_from_scratch` (which is what `propagate` computes too: the
incremental propagators — `LinearLeq` with its trailed sums, `LinearNe` with its counters — are
specified by their from-scratch version; the correspondence check is what ties the incremental code
to it):

* `linLePass`     — `arithmetic/linear_less_or_equal.rs`
* `linNePass`     — `arithmetic/linear_not_equal.rs`
* `absPass`       — `arithmetic/absolute_value.rs`
* `maxPass`       — `arithmetic/maximum.rs`
* `timesPass`     — `arithmetic/integer_multiplication.rs` (`propagate_signs`, `perform_propagation`)
* `divPass`       — `arithmetic/division.rs` (sign normalisation, `propagate_signs`,
                    `propagate_upper_bounds`, `propagate_positive_domains`)
* `elementPass`   — `element.rs` (four phases)
* `clausePass`    — the unit rule of the nogood propagator on a permanent clause
* `reifiedPass`   — `reified_propagator.rs` (`propagate_reification` through `detect_inconsistency`,
                    inner propagation when the literal is true)

Reads go through `lb`/`ub`/`fixed`/`contains` of a *view* (`scale * x + offset`), writes through
`setLb`/`setUb`/`remove`, which keep the values of the underlying variable whose image satisfies the
bound (what `AffineView::set_lower_bound` etc. compute by inverting the view with rounding,
`Model/NumExt.lean`). Arithmetic is over `Int`; `/` of the Rust code is `Int.tdiv`.

`Cons.compile` mirrors how `pumpkin_solver::constraints` decomposes a constraint into propagators
(`equals` = two inequalities, `not_equals`, `all_different` = pairwise binary not-equals, `minimum` =
maximum over negated views, negation, half and full reification); `fixpoint` runs all propagators
until nothing changes. Core Lean only.
-/
import Pumpkin.Spec.Basic
import Pumpkin.Check.AtomRup
import Pumpkin.Model.SemMin

namespace Pumpkin.Pg

abbrev Doms := AtomRup.Doms

def dom (d : Doms) (x : Nat) : List Int := d.getD x []

def minL : List Int → Int
  | [] => 0
  | x :: xs => xs.foldl min x

def maxL : List Int → Int
  | [] => 0
  | x :: xs => xs.foldl max x

/-- value of a view for a value of its variable -/
def vapp (w : View) (x : Int) : Int := w.scale * x + w.offset

/-- current values of a view -/
def vals (d : Doms) (w : View) : List Int := (dom d w.var).map (vapp w)

def lb (d : Doms) (w : View) : Int := minL (vals d w)
def ub (d : Doms) (w : View) : Int := maxL (vals d w)
def fixed (d : Doms) (w : View) : Bool := lb d w == ub d w
def contains (d : Doms) (w : View) (v : Int) : Bool := (vals d w).contains v

/-- keep the values of `w`'s variable whose image satisfies `f`; an emptied domain is a conflict -/
def keep (d : Doms) (w : View) (f : Int → Bool) : Option Doms :=
  let d' := AtomRup.restrict d w.var (fun x => f (vapp w x))
  if (dom d' w.var).isEmpty then none else some d'

def setLb (d : Doms) (w : View) (v : Int) : Option Doms := keep d w (fun z => decide (v ≤ z))
def setUb (d : Doms) (w : View) (v : Int) : Option Doms := keep d w (fun z => decide (z ≤ v))
def remove (d : Doms) (w : View) (v : Int) : Option Doms := keep d w (fun z => decide (z ≠ v))
def postAtom (d : Doms) (p : Atom) : Option Doms := keep d (View.ofVar p.var) p.holdsVal

def atomTrue (d : Doms) (p : Atom) : Bool := (dom d p.var).all p.holdsVal
def atomFalse (d : Doms) (p : Atom) : Bool := (dom d p.var).all (fun v => !p.holdsVal v)

def neg (w : View) : View := w.scaled (-1)

/-! ### LinearLeq -/

def sumLb (d : Doms) (ts : List View) : Int := (ts.map (lb d)).foldl (· + ·) 0

/-- `for (i, x_i)`: `bound = c - (lb_lhs - lb(x_i))`; `if ub(x_i) > bound { set_upper_bound }` -/
def linLeLoop (all : List View) (c : Int) : List View → Doms → Option Doms
  | [], d => some d
  | t :: rest, d =>
    let bound := c - (sumLb d all - lb d t)
    (if ub d t > bound then setUb d t bound else some d).bind (linLeLoop all c rest)

def linLeInconsistent (ts : List View) (c : Int) (d : Doms) : Bool := decide (c < sumLb d ts)

def linLePass (ts : List View) (c : Int) (d : Doms) : Option Doms :=
  if linLeInconsistent ts c d then none else linLeLoop ts c ts d

/-! ### LinearNe -/

def fixedSum (d : Doms) (ts : List View) : Int :=
  ((ts.filter (fixed d)).map (lb d)).foldl (· + ·) 0

def linNePass (ts : List View) (c : Int) (d : Doms) : Option Doms :=
  let nFixed := (ts.filter (fixed d)).length
  if nFixed + 1 < ts.length then some d
  else if nFixed + 1 = ts.length then
    match ts.find? (fun t => !fixed d t) with
    | some t => remove d t (c - fixedSum d ts)
    | none => some d
  else if fixedSum d ts = c then none
  else some d

/-! ### IntAbs -/

def iabs (x : Int) : Int := if x < 0 then -x else x

def absPass (s r : View) (d0 : Doms) : Option Doms :=
  (setLb d0 r 0).bind fun d1 =>
  let sLb := lb d1 s
  let sUb := ub d1 s
  (setUb d1 r (max (iabs sLb) (iabs sUb))).bind fun d2 =>
  (if sLb > 0 then setLb d2 r sLb else if sUb < 0 then setLb d2 r (iabs sUb) else some d2).bind fun d3 =>
  let rUb := ub d3 r
  let rLb := lb d3 r
  (setLb d3 s (-rUb)).bind fun d4 =>
  (setUb d4 s rUb).bind fun d5 =>
  if sUb ≤ 0 then setUb d5 s (-rLb) else if sLb ≥ 0 then setLb d5 s rLb else some d5

/-! ### Maximum -/

/-- first loop: every element is at most `ub(rhs)`; collects the largest lower / upper bound -/
def maxLoop1 (rhsUb : Int) : List View → Int → Int → Doms → Option (Int × Int × Doms)
  | [], mLb, mUb, d => some (mLb, mUb, d)
  | x :: rest, mLb, mUb, d =>
    (setUb d x rhsUb).bind fun d' =>
      maxLoop1 rhsUb rest (if lb d' x > mLb then lb d' x else mLb) (if ub d' x > mUb then ub d' x else mUb) d'

/-- the elements which can still reach `rhsLb` -/
def maxSupport (d : Doms) (xs : List View) (rhsLb : Int) : List View :=
  xs.filter (fun x => decide (ub d x ≥ rhsLb))

def maxPass (xs : List View) (r : View) (d0 : Doms) : Option Doms :=
  match xs with
  | [] => some d0
  | x0 :: _ =>
    let rhsUb := ub d0 r
    (maxLoop1 rhsUb xs (lb d0 x0) (ub d0 x0) d0).bind fun (mLb, mUb, d1) =>
    (setLb d1 r mLb).bind fun d2 =>
    (if rhsUb > mUb then setUb d2 r mUb else some d2).bind fun d3 =>
    let rhsLb := lb d3 r
    match maxSupport d3 xs rhsLb with
    | [x] => if lb d3 x < rhsLb then setLb d3 x rhsLb else some d3
    | _ => some d3

/-! ### IntTimes -/

def divCeilPos (n m : Int) : Int := Int.tdiv n m + (if Int.tmod n m > 0 then 1 else if Int.tmod n m < 0 then -1 else 0)

def guard (b : Bool) (f : Doms → Option Doms) (d : Doms) : Option Doms := if b then f d else some d

def timesSigns (a b c : View) (d0 : Doms) : Option Doms := do
  let aMin := lb d0 a; let aMax := ub d0 a
  let bMin := lb d0 b; let bMax := ub d0 b
  let cMin := lb d0 c; let cMax := ub d0 c
  let d ← guard (aMin ≥ 0 && bMin ≥ 0) (fun d => setLb d c 0) d0
  let d ← guard (aMin ≥ 1 && cMin ≥ 1) (fun d => setLb d b 1) d
  let d ← guard (bMin ≥ 1 && cMin ≥ 1) (fun d => setLb d a 1) d
  let d ← guard (aMax ≤ 0 && bMax ≤ 0) (fun d => setLb d c 0) d
  let d ← guard (aMax ≤ -1 && cMax ≤ -1) (fun d => setLb d b 1) d
  let d ← guard (bMax ≤ -1 && cMax ≤ -1) (fun d => setLb d a 1) d
  let d ← guard (aMax ≤ 0 && bMin ≥ 0) (fun d => setUb d c 0) d
  let d ← guard (aMin ≥ 0 && bMax ≤ 0) (fun d => setUb d c 0) d
  let d ← guard (aMax ≤ -1 && cMin ≥ 1) (fun d => setUb d b (-1)) d
  let d ← guard (aMin ≥ 1 && cMax ≤ -1) (fun d => setUb d b (-1)) d
  let d ← guard (bMax ≤ -1 && cMin ≥ 1) (fun d => setUb d a (-1)) d
  guard (bMin ≥ 1 && cMax ≤ -1) (fun d => setUb d a (-1)) d

def timesCheck (a b c : View) (d : Doms) : Option Doms :=
  if fixed d a && fixed d b && fixed d c && lb d a * lb d b != lb d c then none else some d

def timesPass (a b c : View) (d0 : Doms) : Option Doms := do
  let d1 ← timesSigns a b c d0
  let aMin := lb d1 a; let aMax := ub d1 a
  let bMin := lb d1 b; let bMax := ub d1 b
  let cMin := lb d1 c; let cMax := ub d1 c
  let d ← guard (aMin ≥ 0 && bMin ≥ 0) (fun d => (setUb d c (aMax * bMax)).bind (fun d => setLb d c (aMin * bMin))) d1
  let d ← guard (bMin ≥ 0 && bMax ≥ 1 && cMin ≥ 1) (fun d => setLb d a (divCeilPos cMin bMax)) d
  let d ← guard (bMin ≥ 1 && cMin ≥ 0 && cMax ≥ 1) (fun d => setUb d a (Int.tdiv cMax bMin)) d
  let d ← guard (aMin ≥ 1 && cMin ≥ 0 && cMax ≥ 1) (fun d => setUb d b (Int.tdiv cMax aMin)) d
  let d ← guard (aMin ≥ 0 && aMax ≥ 1 && cMin ≥ 1) (fun d => setLb d b (divCeilPos cMin aMax)) d
  timesCheck a b c d

/-! ### Division -/

def divSigns (n dn r : View) (d0 : Doms) : Option Doms := do
  let rMin := lb d0 r; let rMax := ub d0 r
  let nMin := lb d0 n; let nMax := ub d0 n
  let _ := dn
  let d ← guard (nMin ≥ 0 && rMin < 0) (fun d => setLb d r 0) d0
  let d ← guard (nMin ≤ 0 && rMin > 0) (fun d => setLb d n 1) d
  let d ← guard (nMax ≤ 0 && rMax > 0) (fun d => setUb d r 0) d
  guard (nMax ≥ 0 && rMax < 0) (fun d => setUb d n (-1)) d

def divUpper (n dn r : View) (d0 : Doms) : Option Doms := do
  let rMax := ub d0 r
  let nMax := ub d0 n
  let dMin := lb d0 dn
  let dMax := ub d0 dn
  let newMaxR := Int.tdiv nMax dMin
  let d ← guard (rMax > newMaxR) (fun d => setUb d r newMaxR) d0
  let newMaxN := (rMax + 1) * dMax - 1
  guard (nMax > newMaxN) (fun d => setUb d n newMaxN) d

def divPositive (n dn r : View) (d0 : Doms) : Option Doms := do
  let rMin := lb d0 r; let rMax := ub d0 r
  let nMin := lb d0 n; let nMax := ub d0 n
  let dMin := lb d0 dn; let dMax := ub d0 dn
  let newMinR := Int.tdiv nMin dMax
  let d ← guard (rMin < newMinR) (fun d => setLb d r newMinR) d0
  let newMinN := dMin * rMin
  let d ← guard (nMin < newMinN) (fun d => setLb d n newMinN) d
  let d ← guard (rMin > 0 && dMax > Int.tdiv nMax rMin) (fun d => setUb d dn (Int.tdiv nMax rMin)) d
  let dividend := nMin + 1
  let divisor := rMax + 1
  let res := Int.tdiv dividend divisor
  let newMinD := res + (if res * divisor < dividend then 1 else 0)
  guard (dMin < newMinD) (fun d => setLb d dn newMinD) d

def divPass (n dn r : View) (d0 : Doms) : Option Doms :=
  -- `initialise_at_root` asserts that the denominator's domain does not contain 0; the model does
  -- nothing when it does (the generators keep 0 out of denominators)
  if contains d0 dn 0 then some d0
  else if lb d0 dn < 0 && ub d0 dn > 0 then some d0
  else
    let swap := ub d0 (dn.scaled 1) < 0
    let num := if swap then n.scaled (-1) else n.scaled 1
    let nnum := if swap then n.scaled 1 else n.scaled (-1)
    let den := if swap then dn.scaled (-1) else dn.scaled 1
    let nr := r.scaled (-1)
    do
      let d ← divSigns num den r d0
      let d ← guard (ub d num ≥ 0 && ub d r ≥ 0) (divUpper num den r) d
      let d ← guard (ub d nnum ≥ 0 && ub d nr ≥ 0) (divUpper nnum den nr) d
      let d ← guard (lb d num ≥ 0 && lb d r ≥ 0) (divPositive num den r) d
      guard (lb d nnum ≥ 0 && lb d nr ≥ 0) (divPositive nnum den nr) d

/-! ### Element -/

/-- (index value, element view) pairs -/
def indexedFrom (k : Int) : List View → List (Int × View)
  | [] => []
  | x :: xs => (k, x) :: indexedFrom (k + 1) xs

def indexed (xs : List View) : List (Int × View) := indexedFrom 0 xs

def elementRemoveLoop (iv : View) (rLb rUb : Int) (d0 : Doms) : List (Int × View) → Doms → Option Doms
  | [], d => some d
  | (k, x) :: rest, d =>
    -- the removals are decided on the state before the loop (`to_remove` is collected first)
    (if contains d0 iv k && (rLb > ub d0 x || rUb < lb d0 x) then remove d iv k else some d).bind
      (elementRemoveLoop iv rLb rUb d0 rest)

def elementPass (iv : View) (xs : List View) (r : View) (d0 : Doms) : Option Doms :=
  (setLb d0 iv 0).bind fun d1 =>
  (setUb d1 iv ((xs.length : Int) - 1)).bind fun d2 =>
  let support := (indexed xs).filter (fun p => contains d2 iv p.1)
  let rLbNew := (support.map (fun p => lb d2 p.2)).foldl min 2147483647
  let rUbNew := (support.map (fun p => ub d2 p.2)).foldl max (-2147483648)
  (setLb d2 r rLbNew).bind fun d3 =>
  (setUb d3 r rUbNew).bind fun d4 =>
  (elementRemoveLoop iv (lb d4 r) (ub d4 r) d4 (indexed xs) d4).bind fun d5 =>
  if fixed d5 iv then
    match xs[(lb d5 iv).toNat]? with
    | some x => (setLb d5 x (lb d5 r)).bind (fun d6 => setUb d6 x (ub d5 r))
    | none => some d5
  else some d5

/-! ### clause (unit rule of the nogood propagator) -/

def clausePass (ls : List Atom) (d : Doms) : Option Doms :=
  if ls.any (atomTrue d) then some d
  else
    match ls.filter (fun p => !atomFalse d p) with
    | [] => none
    | p :: rest => if rest.all (fun q => q == p) then postAtom d p else some d

/-! ### cumulative: time-table filtering (see `Model/Cumulative.lean` for the description) -/

def ttTasks (ts : List Task) : List Task := ts.filter (fun k => decide (0 < k.dur) && decide (0 < k.use))

def mandatoryAt (d : Doms) (k : Task) (t : Int) : Bool :=
  decide (ub d k.start ≤ t) && decide (t < lb d k.start + k.dur)

def heightAt (d : Doms) (ts : List Task) (t : Int) : Int :=
  (ts.map (fun k => if mandatoryAt d k t then k.use else 0)).foldl (· + ·) 0

def intRange (lo hi : Int) : List Int := (List.range (hi + 1 - lo).toNat).map (fun (i : Nat) => lo + Int.ofNat i)

/-- the time points of the mandatory parts (where the profile can be positive) -/
def ttTimes (d : Doms) (ts : List Task) : List Int :=
  ts.flatMap (fun k => intRange (ub d k.start) (lb d k.start + k.dur - 1))

/-- the rules of `find_possible_updates` for one task and one time point; the profile height is read
off the current domains -/
def ttTaskAt (holes : Bool) (cap : Int) (ts : List Task) (t : Int) (k : Task) (d : Doms) : Option Doms :=
  if heightAt d ts t + k.use > cap ∧ mandatoryAt d k t = false ∧ lb d k.start ≤ t ∧ t < ub d k.start + k.dur then
    (if lb d k.start + k.dur > t ∧ lb d k.start ≤ t then setLb d k.start (t + 1) else some d).bind fun d1 =>
    (if ub d1 k.start + k.dur > t ∧ ub d1 k.start ≤ t then setUb d1 k.start (t - k.dur) else some d1).bind fun d2 =>
    if holes then keep d2 k.start (fun z => !(decide (t - k.dur < z) && decide (z ≤ t))) else some d2
  else some d

def ttTasksAt (holes : Bool) (cap : Int) (ts : List Task) (t : Int) : List Task → Doms → Option Doms
  | [], d => some d
  | k :: r, d => (ttTaskAt holes cap ts t k d).bind (ttTasksAt holes cap ts t r)

def ttPoints (holes : Bool) (cap : Int) (ts : List Task) : List Int → Doms → Option Doms
  | [], d => some d
  | t :: r, d =>
    if heightAt d ts t > cap then none
    else if heightAt d ts t > 0 then (ttTasksAt holes cap ts t ts d).bind (ttPoints holes cap ts r)
    else ttPoints holes cap ts r d

/-- one evaluation of the time-table: conflict check and filtering -/
def ttPass (holes : Bool) (ts : List Task) (cap : Int) (d : Doms) : Option Doms :=
  let ts' := ttTasks ts
  if ts'.any (fun k => decide (k.use > cap)) then none
  else ttPoints holes cap ts' (ttTimes d ts') d


/-! ### propagator instances, reification -/

inductive PropInst where
  | linLe (ts : List View) (c : Int)
  | linNe (ts : List View) (c : Int)
  | abs (s r : View)
  | max (xs : List View) (r : View)
  | times (a b c : View)
  | div (n d r : View)
  | element (i : View) (xs : List View) (r : View)
  | clause (ls : List Atom)
  | cumulative (holes : Bool) (ts : List Task) (cap : Int)
  | reified (r : Atom) (p : PropInst)
deriving Repr, Inhabited

namespace PropInst

/-- the constraint a propagator instance stands for -/
def cons : PropInst → Cons
  | linLe ts c => .linLe ts c
  | linNe ts c => .linNe ts c
  | abs s r => .abs s r
  | max xs r => .max xs r
  | times a b c => .times a b c
  | div n d r => .div n d r
  | element i xs r => .element i xs r
  | clause ls => .clause ls
  | cumulative _ ts cap => .cumulative ts cap
  | reified r p => .implied r p.cons

/-- `Propagator::detect_inconsistency` (only `LinearLeq` overrides the default `None`) -/
def inconsistent : PropInst → Doms → Bool
  | linLe ts c, d => linLeInconsistent ts c d
  | _, _ => false

def pass : PropInst → Doms → Option Doms
  | linLe ts c, d => linLePass ts c d
  | linNe ts c, d => linNePass ts c d
  | abs s r, d => absPass s r d
  | max xs r, d => maxPass xs r d
  | times a b c, d => timesPass a b c d
  | div n dn r, d => divPass n dn r d
  | element i xs r, d => elementPass i xs r d
  | clause ls, d => clausePass ls d
  | cumulative holes ts cap, d => ttPass holes ts cap d
  | reified r p, d0 =>
    -- propagate_reification
    (if !(atomTrue d0 r || atomFalse d0 r) && p.inconsistent d0 then postAtom d0 r.neg else some d0).bind fun d =>
    if atomTrue d r then p.pass d else some d

end PropInst

/-! ### decomposition of constraints into propagators (`pumpkin_solver::constraints`) -/

def negViews (ts : List View) : List View := ts.map neg

def pairs : List View → List (View × View)
  | [] => []
  | x :: xs => xs.map (fun y => (x, y)) ++ pairs xs

/-- negation of a negatable constraint, as `NegatableConstraint::negation` builds it -/
def negCons : Cons → Option Cons
  | .linLe ts c => some (.linLe (negViews ts) (-c - 1))
  | .linEq ts c => some (.linNe ts c)
  | .linNe ts c => some (.linEq ts c)
  | .clause ls => some (.conj (ls.map Atom.neg))
  | .conj ls => some (.clause (ls.map Atom.neg))
  | .neg c => some c
  | _ => none

/-- the domain a variable was created with, as the semantic minimiser sees it -/
def sdOf (vs : List Int) : SemMin.SD :=
  let lo := minL vs
  let hi := maxL vs
  { lb := lo, ub := hi, holes := ((List.range (hi - lo + 1).toNat).map (fun (k : Nat) => lo + Int.ofNat k)).filter (fun v => !vs.contains v) }

/-- `add_permanent_nogood` → `preprocess_nogood`: the clause is stored as the nogood of its negated
literals after the semantic minimiser (with equality merging) has rewritten it relative to the
original domains. `none`: the nogood is inconsistent, the clause holds trivially and nothing is
stored. -/
def sdOfVar (orig : Doms) (x : Nat) : SemMin.SD :=
  if x < orig.length then sdOf (dom orig x) else { lb := 0, ub := 0, holes := [] }

def minClause (orig : Doms) (ls : List Atom) : Option (List Atom) :=
  (SemMin.minimise (sdOfVar orig) (ls.map Atom.neg) true).map (fun ng => ng.map Atom.neg)

def clauseInst (orig : Doms) (ls : List Atom) : List PropInst :=
  match minClause orig ls with
  | some ls' => [.clause ls']
  | none => []

/-- `Constraint::post` (`imp = none`) and `Constraint::implied_by` (`imp = some r`) -/
def compileWith (orig : Doms) (imp : Option Atom) : Cons → Option (List PropInst)
  | .linLe ts c => some [wrap (.linLe ts c)]
  | .linEq ts c => some [wrap (.linLe ts c), wrap (.linLe (negViews ts) (-c))]
  | .linNe ts c => some [wrap (.linNe ts c)]
  | .times a b c => some [wrap (.times a b c)]
  | .div n d r => some [wrap (.div n d r)]
  | .abs s r => some [wrap (.abs s r)]
  | .max xs r => some [wrap (.max xs r)]
  | .min xs r => some [wrap (.max (negViews xs) (neg r))]
  | .element i xs r => some [wrap (.element i xs r)]
  | .allDiff xs => some ((pairs xs).map (fun p => wrap (.linNe [p.1.scaled 1, p.2.scaled (-1)] 0)))
  | .clause ls => some (clauseInst orig (match imp with | some r => ls ++ [r.neg] | none => ls))
  | .conj ls => some (ls.flatMap (fun l => clauseInst orig (match imp with | some r => [r.neg, l] | none => [l])))
  | .cumulative ts cap => some [wrap (.cumulative false ts cap)]
  | _ => none
where
  wrap (p : PropInst) : PropInst := match imp with | some r => .reified r p | none => p

/-- strip (iterated) negation -/
def resolveNeg : Nat → Cons → Option Cons
  | 0, _ => none
  | fuel + 1, .neg c => (resolveNeg fuel c).bind negCons
  | _, c => some c

def consDepth : Cons → Nat
  | .neg c => consDepth c + 1
  | .implied _ c => consDepth c + 1
  | .reif _ c => consDepth c + 1
  | _ => 1

def compile (orig : Doms) (c : Cons) : Option (List PropInst) :=
  match c with
  | .implied r c' => (resolveNeg (consDepth c' + 1) c').bind (compileWith orig (some r))
  | .reif r c' =>
    (resolveNeg (consDepth c' + 1) c').bind fun pos =>
      (negCons pos).bind fun ng =>
        (compileWith orig (some r) pos).bind fun ps =>
          (compileWith orig (some r.neg) ng).map fun qs => ps ++ qs
  | c => (resolveNeg (consDepth c + 1) c).bind (compileWith orig none)

def compileAll (orig : Doms) : List Cons → Option (List PropInst)
  | [] => some []
  | c :: cs => (compile orig c).bind fun ps => (compileAll orig cs).map fun qs => ps ++ qs

/-! ### fixpoint -/

def size (d : Doms) : Nat := (d.map List.length).foldl (· + ·) 0

/-- one round: every propagator once, in order -/
def round : List PropInst → Doms → Option Doms
  | [], d => some d
  | p :: ps, d => (p.pass d).bind (round ps)

/-- rounds until nothing changes; every productive round removes a value, so `size d + 1` rounds
always suffice (see `fixpoint_stable`) -/
def iterate (ps : List PropInst) : Nat → Doms → Option Doms
  | 0, d => some d
  | fuel + 1, d =>
    match round ps d with
    | none => none
    | some d' => if size d' = size d then some d' else iterate ps fuel d'

def fixpoint (ps : List PropInst) (d : Doms) : Option Doms :=
  if d.any List.isEmpty then none else iterate ps (size d + 1) d

/-! ### posting at the root

`Solver::add_propagator` initialises the propagator and propagates to the fixpoint. A *reified*
propagator whose inner `initialise_at_root` fails (`LinearLeq`: `detect_inconsistency`; `LinearNe`:
`check_for_conflict`, i.e. every term fixed and the sum equal to the right-hand side) remembers the
conflict and sets its reification literal to false in its first propagation — with the domains at the
moment of posting. Later, during search, only `detect_inconsistency` (0.`LinearLeq`) does that. -/

def PropInst.initConflict : PropInst → Doms → Bool
  | .linLe ts c, d => linLeInconsistent ts c d
  | .linNe ts c, d => ts.all (fixed d) && decide (fixedSum d ts = c)
  -- `CumulativeConstraint::has_task_exceeding_capacity`: decided when the constraint is posted
  | .cumulative _ ts cap, _ => (ttTasks ts).any (fun k => decide (k.use > cap))
  | _, _ => false

def initPost (d : Doms) : PropInst → Option Doms
  | .reified r q => if q.initConflict d then postAtom d r.neg else some d
  | _ => some d

def initPosts : List PropInst → Doms → Option Doms
  | [], d => some d
  | p :: ps, d => (initPost d p).bind (initPosts ps)

/-- posts the constraints one after the other; `none` = a posting reports infeasibility -/
def postAll (orig : Doms) : List Cons → List PropInst → Doms → Option (Option (List PropInst × Doms))
  | [], ps, d => some (some (ps, d))
  | c :: cs, ps, d =>
    match compile orig c with
    | none => none            -- not modelled
    | some qs =>
      match (initPosts qs d).bind (fixpoint (ps ++ qs)) with
      | none => some none
      | some d' => postAll orig cs (ps ++ qs) d'

def rootFix (orig : Doms) (cs : List Cons) : Option (Option Doms) :=
  if orig.any List.isEmpty then some none
  else (postAll orig cs [] orig).map (fun r => r.map (·.2))

end Pumpkin.Pg
