/-
Soundness of the propagator models of `Model/Propagation.lean`.

`Ok n a r` says that a step has the result `some d'` with the assignment `a` still inside `d'` (and the
number of variables unchanged). Every pass is shown to keep every assignment which lies in the
current domains and satisfies the propagator's constraint:

  `pass_sound : p.Wf n → d.length = n → inDoms d a → p.cons.sat a → Ok n a (p.pass d)`

so a pass never removes a value used by a solution of its constraint within the current domains,
and a conflict (`none`) is only reported when no such solution exists. `fixpoint_sound` lifts this to
the fixpoint of any list of propagators, `rootFix_sound` to the sequential posting at the root.
-/
import Pumpkin.Model.Propagation

namespace Pumpkin.Pg

open Pumpkin.AtomRup (restrict inDoms_restrict restrict_length val_mem_of_inDoms)

/-! ### lists of integers -/

theorem foldl_min_le (l : List Int) (k : Int) : l.foldl min k ≤ k := by
  induction l generalizing k with
  | nil => simp
  | cons x xs ih => simp only [List.foldl_cons]; exact Int.le_trans (ih _) (Int.min_le_left ..)

theorem foldl_min_le_mem (l : List Int) (k : Int) {v : Int} (h : v ∈ l) : l.foldl min k ≤ v := by
  induction l generalizing k with
  | nil => cases h
  | cons x xs ih =>
    simp only [List.foldl_cons]
    cases h with
    | head => exact Int.le_trans (foldl_min_le ..) (Int.min_le_right ..)
    | tail _ h' => exact ih _ h'

theorem le_foldl_max (l : List Int) (k : Int) : k ≤ l.foldl max k := by
  induction l generalizing k with
  | nil => simp
  | cons x xs ih => simp only [List.foldl_cons]; exact Int.le_trans (Int.le_max_left ..) (ih _)

theorem mem_le_foldl_max (l : List Int) (k : Int) {v : Int} (h : v ∈ l) : v ≤ l.foldl max k := by
  induction l generalizing k with
  | nil => cases h
  | cons x xs ih =>
    simp only [List.foldl_cons]
    cases h with
    | head => exact Int.le_trans (Int.le_max_right ..) (le_foldl_max ..)
    | tail _ h' => exact ih _ h'

theorem minL_le {l : List Int} {v : Int} (h : v ∈ l) : minL l ≤ v := by
  cases l with
  | nil => cases h
  | cons x xs =>
    simp only [minL]
    cases h with
    | head => exact foldl_min_le ..
    | tail _ h' => exact foldl_min_le_mem _ _ h'

theorem le_maxL {l : List Int} {v : Int} (h : v ∈ l) : v ≤ maxL l := by
  cases l with
  | nil => cases h
  | cons x xs =>
    simp only [maxL]
    cases h with
    | head => exact le_foldl_max ..
    | tail _ h' => exact mem_le_foldl_max _ _ h'

theorem foldl_add (l : List Int) (k : Int) : l.foldl (· + ·) k = k + l.foldl (· + ·) 0 := by
  induction l generalizing k with
  | nil => simp
  | cons x xs ih => simp only [List.foldl_cons]; rw [ih (k + x), ih (0 + x)]; omega

def sumL (l : List Int) : Int := l.foldl (· + ·) 0

@[simp] theorem sumL_nil : sumL [] = 0 := rfl
@[simp] theorem sumL_cons (x : Int) (xs : List Int) : sumL (x :: xs) = x + sumL xs := by
  simp only [sumL, List.foldl_cons]; rw [foldl_add]; omega

/-! ### reading the domains -/

theorem vapp_val (w : View) (a : List Int) : vapp w (val a w.var) = w.eval a := rfl

theorem eval_mem_vals {d : Doms} {a : List Int} (h : inDoms d a = true) {w : View} (hw : w.var < d.length) :
    w.eval a ∈ vals d w := by
  have := val_mem_of_inDoms h hw
  exact List.mem_map.2 ⟨_, this, vapp_val w a⟩

theorem lb_le {d : Doms} {a : List Int} (h : inDoms d a = true) {w : View} (hw : w.var < d.length) :
    lb d w ≤ w.eval a := minL_le (eval_mem_vals h hw)

theorem le_ub {d : Doms} {a : List Int} (h : inDoms d a = true) {w : View} (hw : w.var < d.length) :
    w.eval a ≤ ub d w := le_maxL (eval_mem_vals h hw)

theorem eq_of_fixed {d : Doms} {a : List Int} (h : inDoms d a = true) {w : View} (hw : w.var < d.length)
    (hf : fixed d w = true) : w.eval a = lb d w := by
  have h1 := lb_le h hw
  have h2 := le_ub h hw
  simp only [fixed, beq_iff_eq] at hf
  omega

theorem contains_eval {d : Doms} {a : List Int} (h : inDoms d a = true) {w : View} (hw : w.var < d.length) :
    contains d w (w.eval a) = true := by
  simp only [contains, List.contains_iff_mem]
  exact eval_mem_vals h hw

theorem atomTrue_holds {d : Doms} {a : List Int} (h : inDoms d a = true) {p : Atom} (hw : p.var < d.length)
    (ht : atomTrue d p = true) : p.holds a = true :=
  List.all_eq_true.1 ht _ (val_mem_of_inDoms h hw)

theorem atomFalse_holds {d : Doms} {a : List Int} (h : inDoms d a = true) {p : Atom} (hw : p.var < d.length)
    (ht : atomFalse d p = true) : p.holds a = false := by
  have := List.all_eq_true.1 ht _ (val_mem_of_inDoms h hw)
  simpa [Atom.holds] using this

/-! ### steps -/

/-- the step succeeds and keeps `a` -/
def Ok (n : Nat) (a : List Int) (r : Option Doms) : Prop :=
  ∃ d', r = some d' ∧ inDoms d' a = true ∧ d'.length = n

theorem Ok.some {n : Nat} {a : List Int} {d : Doms} (h : inDoms d a = true) (hl : d.length = n) : Ok n a (some d) :=
  ⟨d, rfl, h, hl⟩

theorem Ok.bind {n : Nat} {a : List Int} {r : Option Doms} {g : Doms → Option Doms} (hr : Ok n a r)
    (hg : ∀ d', inDoms d' a = true → d'.length = n → Ok n a (g d')) : Ok n a (r.bind g) := by
  obtain ⟨d', rfl, h1, h2⟩ := hr
  exact hg d' h1 h2

theorem Ok.ite {n : Nat} {a : List Int} {c : Prop} [Decidable c] {r s : Option Doms}
    (hr : c → Ok n a r) (hs : ¬c → Ok n a s) : Ok n a (if c then r else s) := by
  split
  · exact hr ‹_›
  · exact hs ‹_›

theorem keep_ok {n : Nat} {d : Doms} {a : List Int} (h : inDoms d a = true) (hl : d.length = n) {w : View}
    (hw : w.var < n) {f : Int → Bool} (hf : f (w.eval a) = true) : Ok n a (keep d w f) := by
  have hin : inDoms (restrict d w.var (fun x => f (vapp w x))) a = true :=
    inDoms_restrict h w.var _ (by simpa [vapp_val] using hf)
  have hlen : (restrict d w.var (fun x => f (vapp w x))).length = n := by rw [restrict_length]; exact hl
  have hmem := val_mem_of_inDoms hin (x := w.var) (by rw [hlen]; exact hw)
  unfold keep
  have hne : (dom (restrict d w.var (fun x => f (vapp w x))) w.var).isEmpty = false := by
    cases hd : dom (restrict d w.var (fun x => f (vapp w x))) w.var with
    | nil => simp [dom, AtomRup.domOf] at hd hmem; rw [hd] at hmem; cases hmem
    | cons _ _ => rfl
  simp only [hne]
  exact ⟨_, rfl, hin, hlen⟩

theorem setLb_ok {n : Nat} {d : Doms} {a : List Int} (h : inDoms d a = true) (hl : d.length = n) {w : View}
    (hw : w.var < n) {v : Int} (hv : v ≤ w.eval a) : Ok n a (setLb d w v) :=
  keep_ok h hl hw (by simpa using hv)

theorem setUb_ok {n : Nat} {d : Doms} {a : List Int} (h : inDoms d a = true) (hl : d.length = n) {w : View}
    (hw : w.var < n) {v : Int} (hv : w.eval a ≤ v) : Ok n a (setUb d w v) :=
  keep_ok h hl hw (by simpa using hv)

theorem remove_ok {n : Nat} {d : Doms} {a : List Int} (h : inDoms d a = true) (hl : d.length = n) {w : View}
    (hw : w.var < n) {v : Int} (hv : w.eval a ≠ v) : Ok n a (remove d w v) :=
  keep_ok h hl hw (by simpa using hv)

theorem postAtom_ok {n : Nat} {d : Doms} {a : List Int} (h : inDoms d a = true) (hl : d.length = n) {p : Atom}
    (hw : p.var < n) (hp : p.holds a = true) : Ok n a (postAtom d p) := by
  apply keep_ok h hl (w := View.ofVar p.var) hw
  simpa [View.ofVar, View.eval, Atom.holds] using hp

theorem guard_ok {n : Nat} {a : List Int} {b : Bool} {f : Doms → Option Doms} {d : Doms}
    (h : inDoms d a = true) (hl : d.length = n) (hf : b = true → Ok n a (f d)) : Ok n a (guard b f d) := by
  unfold guard
  cases b with
  | true => exact hf rfl
  | false => exact Ok.some h hl


/-! ### well-formedness: every variable mentioned exists -/

/-- tasks well-formed for `n` variables: start views over existing variables, non-negative usages -/
def tasksWf (n : Nat) (ts : List Task) : Prop := ∀ k ∈ ts, k.start.var < n ∧ 0 ≤ k.use

def PropInst.Wf (n : Nat) : PropInst → Prop
  | .linLe ts _ => ∀ t ∈ ts, t.var < n
  | .linNe ts _ => ∀ t ∈ ts, t.var < n
  | .abs s r => s.var < n ∧ r.var < n
  | .max xs r => (∀ t ∈ xs, t.var < n) ∧ r.var < n
  | .times a b c => a.var < n ∧ b.var < n ∧ c.var < n
  | .div a b c => a.var < n ∧ b.var < n ∧ c.var < n
  | .element i xs r => i.var < n ∧ (∀ t ∈ xs, t.var < n) ∧ r.var < n
  | .clause ls => ∀ p ∈ ls, p.var < n
  | .cumulative _ ts _ => tasksWf n ts
  | .reified r p => r.var < n ∧ p.Wf n

/-! ### LinearLeq -/

theorem sumViews_eq (ts : List View) (a : List Int) : sumViews ts a = sumL (ts.map (·.eval a)) := rfl
theorem sumLb_eq (d : Doms) (ts : List View) : sumLb d ts = sumL (ts.map (lb d)) := rfl

theorem sumLb_le {d : Doms} {a : List Int} (h : inDoms d a = true) (ts : List View)
    (hw : ∀ t ∈ ts, t.var < d.length) : sumLb d ts ≤ sumViews ts a := by
  rw [sumViews_eq, sumLb_eq]
  induction ts with
  | nil => simp
  | cons t ts ih =>
    simp only [List.map_cons, sumL_cons]
    have := lb_le h (hw t (by simp))
    have := ih (fun t' ht' => hw t' (by simp [ht']))
    omega

theorem slack {d : Doms} {a : List Int} (h : inDoms d a = true) (ts : List View)
    (hw : ∀ t ∈ ts, t.var < d.length) {t : View} (ht : t ∈ ts) :
    sumLb d ts - lb d t ≤ sumViews ts a - t.eval a := by
  induction ts with
  | nil => cases ht
  | cons x xs ih =>
    have hx := lb_le h (hw x (by simp))
    have hxs := sumLb_le h xs (fun t' ht' => hw t' (by simp [ht']))
    rw [sumViews_eq, sumLb_eq] at *
    simp only [List.map_cons, sumL_cons] at *
    cases ht with
    | head => omega
    | tail _ h' =>
      have := ih (fun t' ht' => hw t' (by simp [ht'])) h'
      omega

theorem linLeLoop_ok {n : Nat} {a : List Int} (all : List View) (c : Int) (hw : ∀ t ∈ all, t.var < n)
    (hsat : sumViews all a ≤ c) (rest : List View) (hsub : ∀ t ∈ rest, t ∈ all) (d : Doms)
    (h : inDoms d a = true) (hl : d.length = n) : Ok n a (linLeLoop all c rest d) := by
  induction rest generalizing d with
  | nil => exact Ok.some h hl
  | cons t rest ih =>
    simp only [linLeLoop]
    have htall := hsub t (by simp)
    have hwd : ∀ t ∈ all, t.var < d.length := by rw [hl]; exact hw
    have hs := slack h all hwd htall
    apply Ok.bind
    · apply Ok.ite
      · intro _
        exact setUb_ok h hl (hw t htall) (by omega)
      · intro _
        exact Ok.some h hl
    · intro d' h' hl'
      exact ih (fun t' ht' => hsub t' (by simp [ht'])) d' h' hl'

theorem linLePass_ok {n : Nat} {a : List Int} (ts : List View) (c : Int) (hw : ∀ t ∈ ts, t.var < n)
    (hsat : sumViews ts a ≤ c) (d : Doms) (h : inDoms d a = true) (hl : d.length = n) :
    Ok n a (linLePass ts c d) := by
  unfold linLePass linLeInconsistent
  have := sumLb_le h ts (by rw [hl]; exact hw)
  have hc : decide (c < sumLb d ts) = false := by simp; omega
  simp only [hc]
  exact linLeLoop_ok ts c hw hsat ts (fun _ h => h) d h hl

/-! ### LinearNe -/

theorem fixedSum_eq {d : Doms} {a : List Int} (h : inDoms d a = true) (ts : List View)
    (hw : ∀ t ∈ ts, t.var < d.length) :
    fixedSum d ts = sumL ((ts.filter (fixed d)).map (·.eval a)) := by
  unfold fixedSum
  show sumL _ = _
  induction ts with
  | nil => rfl
  | cons t ts ih =>
    have iht := ih (fun t' ht' => hw t' (by simp [ht']))
    simp only [List.filter_cons]
    split
    · rename_i hf
      simp only [List.map_cons, sumL_cons, iht, eq_of_fixed h (hw t (by simp)) hf]
    · exact iht

/-- all but the terms in `l` are listed in `ts.filter p`: the sum splits -/
theorem sum_split (ts : List View) (p : View → Bool) (a : List Int) :
    sumViews ts a = sumL ((ts.filter p).map (·.eval a)) + sumL ((ts.filter (fun t => !p t)).map (·.eval a)) := by
  rw [sumViews_eq]
  induction ts with
  | nil => rfl
  | cons t ts ih =>
    simp only [List.filter_cons]
    cases hp : p t <;> simp [sumL_cons, ih] <;> omega

theorem filter_not_eq_single {α : Type} (ts : List α) (p : α → Bool)
    (hlen : (ts.filter p).length + 1 = ts.length) :
    ∃ t, ts.find? (fun t => !p t) = some t ∧ ts.filter (fun t => !p t) = [t] := by
  induction ts with
  | nil => simp at hlen
  | cons x xs ih =>
    simp only [List.filter_cons, List.find?_cons] at *
    cases hp : p x
    · simp only [hp, Bool.not_false, if_true] at *
      simp only [Bool.false_eq_true, if_false] at hlen
      refine ⟨x, rfl, ?_⟩
      have hall : (xs.filter p).length = xs.length := by simpa using hlen
      have : xs.filter (fun t => !p t) = [] := by
        apply List.filter_eq_nil_iff.2
        intro y hy
        have := List.length_filter_eq_length_iff.1 hall y hy
        simp [this]
      simp [this]
    · simp only [hp, if_true, List.length_cons, Bool.not_true, Bool.false_eq_true, if_false] at *
      have : (xs.filter p).length + 1 = xs.length := by omega
      exact ih this

theorem linNePass_ok {n : Nat} {a : List Int} (ts : List View) (c : Int) (hw : ∀ t ∈ ts, t.var < n)
    (hsat : sumViews ts a ≠ c) (d : Doms) (h : inDoms d a = true) (hl : d.length = n) :
    Ok n a (linNePass ts c d) := by
  have hwd : ∀ t ∈ ts, t.var < d.length := by rw [hl]; exact hw
  unfold linNePass
  simp only []
  split
  · exact Ok.some h hl
  · split
    · rename_i hlen
      obtain ⟨t, hfind, hfilt⟩ := filter_not_eq_single ts (fixed d) hlen
      rw [hfind]
      have htmem : t ∈ ts := List.mem_of_find?_eq_some hfind
      apply remove_ok h hl (hw t htmem)
      have hsplit := sum_split ts (fixed d) a
      rw [hfilt, ← fixedSum_eq h ts hwd] at hsplit
      simp at hsplit
      omega
    · split
      · rename_i h1 h2 heq
        exfalso
        have hall : (ts.filter (fixed d)).length = ts.length := by
          have := List.length_filter_le (fixed d) ts
          omega
        have hnone : ts.filter (fun t => !fixed d t) = [] := by
          apply List.filter_eq_nil_iff.2
          intro y hy
          have := List.length_filter_eq_length_iff.1 hall y hy
          simp [this]
        have hsplit := sum_split ts (fixed d) a
        rw [hnone, ← fixedSum_eq h ts hwd] at hsplit
        simp at hsplit
        omega
      · exact Ok.some h hl


theorem Ok.bind' {n : Nat} {a : List Int} {r : Option Doms} {g : Doms → Option Doms} (hr : Ok n a r)
    (hg : ∀ d', inDoms d' a = true → d'.length = n → Ok n a (g d')) : Ok n a (r >>= g) := Ok.bind hr hg

/-! ### IntAbs -/

theorem natAbs_iabs (x : Int) : (x.natAbs : Int) = iabs x := by
  unfold iabs; split <;> omega

theorem iabs_cases (x : Int) : (x < 0 ∧ iabs x = -x) ∨ (0 ≤ x ∧ iabs x = x) := by
  unfold iabs; split <;> omega

theorem absPass_ok {n : Nat} {a : List Int} (s r : View) (hs : s.var < n) (hr : r.var < n)
    (hsat : ((s.eval a).natAbs : Int) = r.eval a) (d : Doms) (h : inDoms d a = true) (hl : d.length = n) :
    Ok n a (absPass s r d) := by
  unfold absPass
  have e := natAbs_iabs (s.eval a)
  have c0 := iabs_cases (s.eval a)
  apply Ok.bind (setLb_ok h hl hr (by omega))
  intro d1 h1 l1
  dsimp only
  have s1 := lb_le h1 (w := s) (by omega)
  have s2 := le_ub h1 (w := s) (by omega)
  have c1 := iabs_cases (lb d1 s)
  have c2 := iabs_cases (ub d1 s)
  apply Ok.bind (setUb_ok h1 l1 hr (by omega))
  intro d2 h2 l2
  apply Ok.bind
  · apply Ok.ite
    · intro _; exact setLb_ok h2 l2 hr (by omega)
    · intro _
      apply Ok.ite
      · intro _; exact setLb_ok h2 l2 hr (by omega)
      · intro _; exact Ok.some h2 l2
  intro d3 h3 l3
  have r1 := lb_le h3 (w := r) (by omega)
  have r2 := le_ub h3 (w := r) (by omega)
  apply Ok.bind (setLb_ok h3 l3 hs (by omega))
  intro d4 h4 l4
  apply Ok.bind (setUb_ok h4 l4 hs (by omega))
  intro d5 h5 l5
  apply Ok.ite
  · intro _; exact setUb_ok h5 l5 hs (by omega)
  · intro _
    apply Ok.ite
    · intro _; exact setLb_ok h5 l5 hs (by omega)
    · intro _; exact Ok.some h5 l5


/-! ### Maximum -/

theorem maxLoop1_ok {n : Nat} {a : List Int} (r : View) (rhsUb : Int) (hr : r.eval a ≤ rhsUb)
    (rest : List View) (hw : ∀ x ∈ rest, x.var < n) (hle : ∀ x ∈ rest, x.eval a ≤ r.eval a)
    (mLb mUb : Int) (hm : mLb ≤ r.eval a) (d : Doms) (h : inDoms d a = true) (hl : d.length = n) :
    ∃ mLb' mUb' d', maxLoop1 rhsUb rest mLb mUb d = some (mLb', mUb', d') ∧ inDoms d' a = true ∧ d'.length = n ∧
      mLb' ≤ r.eval a ∧ mUb ≤ mUb' ∧ ∀ x ∈ rest, x.eval a ≤ mUb' := by
  induction rest generalizing mLb mUb d with
  | nil => exact ⟨mLb, mUb, d, rfl, h, hl, hm, Int.le_refl _, fun _ hx => by cases hx⟩
  | cons x rest ih =>
    have hx := hle x (by simp)
    obtain ⟨d1, e1, h1, l1⟩ := setUb_ok h hl (hw x (by simp)) (v := rhsUb) (by omega)
    simp only [maxLoop1, e1, Option.bind_some]
    have x1 := lb_le h1 (w := x) (by rw [l1]; exact hw x (by simp))
    have x2 := le_ub h1 (w := x) (by rw [l1]; exact hw x (by simp))
    obtain ⟨mLb', mUb', d', e, h', l', g1, g2, g3⟩ :=
      ih (fun y hy => hw y (by simp [hy])) (fun y hy => hle y (by simp [hy]))
        (if lb d1 x > mLb then lb d1 x else mLb) (if ub d1 x > mUb then ub d1 x else mUb)
        (by split <;> omega) d1 h1 l1
    refine ⟨mLb', mUb', d', e, h', l', g1, ?_, ?_⟩
    · split at g2 <;> omega
    · intro y hy
      cases hy with
      | head => split at g2 <;> omega
      | tail _ hy' => exact g3 y hy'

theorem maxPass_ok {n : Nat} {a : List Int} (xs : List View) (r : View) (hw : ∀ x ∈ xs, x.var < n) (hr : r.var < n)
    (hall : ∀ x ∈ xs, x.eval a ≤ r.eval a) (hany : ∃ x ∈ xs, x.eval a = r.eval a)
    (d : Doms) (h : inDoms d a = true) (hl : d.length = n) : Ok n a (maxPass xs r d) := by
  unfold maxPass
  cases xs with
  | nil => exact Ok.some h hl
  | cons x0 xs' =>
    dsimp only
    have r0 := le_ub h (w := r) (by omega)
    have x00 := lb_le h (w := x0) (by rw [hl]; exact hw x0 (by simp))
    have hx0 := hall x0 (by simp)
    obtain ⟨mLb, mUb, d1, e1, h1, l1, g1, _, g3⟩ :=
      maxLoop1_ok r (ub d r) r0 (x0 :: xs') hw hall (lb d x0) (ub d x0) (by omega) d h hl
    rw [e1]
    simp only [Option.bind_some]
    obtain ⟨xj, hxj, hxje⟩ := hany
    have hj := g3 xj hxj
    apply Ok.bind (setLb_ok h1 l1 hr g1)
    intro d2 h2 l2
    apply Ok.bind
    · apply Ok.ite
      · intro _; exact setUb_ok h2 l2 hr (by omega)
      · intro _; exact Ok.some h2 l2
    intro d3 h3 l3
    have r3 := lb_le h3 (w := r) (by omega)
    have xj3 := le_ub h3 (w := xj) (by rw [l3]; exact hw xj hxj)
    have hmem : xj ∈ maxSupport d3 (x0 :: xs') (lb d3 r) := by
      simp only [maxSupport, List.mem_filter, decide_eq_true_eq]
      exact ⟨hxj, by omega⟩
    split
    · rename_i x hsup
      rw [hsup] at hmem
      have : xj = x := by simpa using hmem
      subst this
      apply Ok.ite
      · intro _; exact setLb_ok h3 l3 (hw xj hxj) (by omega)
      · intro _; exact Ok.some h3 l3
    · exact Ok.some h3 l3

/-! ### clause -/

theorem clausePass_ok {n : Nat} {a : List Int} (ls : List Atom) (hw : ∀ p ∈ ls, p.var < n)
    (hsat : ∃ p ∈ ls, p.holds a = true) (d : Doms) (h : inDoms d a = true) (hl : d.length = n) :
    Ok n a (clausePass ls d) := by
  unfold clausePass
  split
  · exact Ok.some h hl
  · obtain ⟨q, hq, hqa⟩ := hsat
    have hqf : q ∈ ls.filter (fun p => !atomFalse d p) := by
      simp only [List.mem_filter, Bool.not_eq_true']
      refine ⟨hq, ?_⟩
      cases hf : atomFalse d q with
      | false => rfl
      | true =>
        have := atomFalse_holds h (by rw [hl]; exact hw q hq) hf
        rw [hqa] at this; cases this
    split
    · rename_i hnil
      rw [hnil] at hqf; cases hqf
    · rename_i p rest hcons
      rw [hcons] at hqf
      have hp : p ∈ ls := (List.mem_filter.1 (by rw [hcons]; simp : p ∈ ls.filter _)).1
      split
      · rename_i hallp
        have : q = p := by
          cases hqf with
          | head => rfl
          | tail _ hr =>
            have := List.all_eq_true.1 hallp q hr
            simpa using this
        subst this
        exact postAtom_ok h hl (hw q hq) hqa
      · exact Ok.some h hl

/-! ### Element -/

theorem mem_indexedFrom (k : Int) (xs : List View) (k' : Int) (x : View) :
    (k', x) ∈ indexedFrom k xs ↔ ∃ j : Nat, xs[j]? = some x ∧ k' = k + j := by
  induction xs generalizing k with
  | nil => simp [indexedFrom]
  | cons y ys ih =>
    simp only [indexedFrom, List.mem_cons, Prod.mk.injEq, ih]
    constructor
    · rintro (⟨rfl, rfl⟩ | ⟨j, hj, rfl⟩)
      · exact ⟨0, by simp, by simp⟩
      · exact ⟨j + 1, by simpa using hj, by omega⟩
    · rintro ⟨j, hj, rfl⟩
      cases j with
      | zero => left; simp at hj; exact ⟨by simp, hj.symm⟩
      | succ j => right; exact ⟨j, by simpa using hj, by omega⟩

theorem elementRemoveLoop_ok {n : Nat} {a : List Int} (iv : View) (hiv : iv.var < n) (rLb rUb : Int) (d0 : Doms)
    (l : List (Int × View))
    (hl0 : ∀ p ∈ l, contains d0 iv p.1 = true → (rLb > ub d0 p.2 ∨ rUb < lb d0 p.2) → iv.eval a ≠ p.1)
    (d : Doms) (h : inDoms d a = true) (hl : d.length = n) : Ok n a (elementRemoveLoop iv rLb rUb d0 l d) := by
  induction l generalizing d with
  | nil => exact Ok.some h hl
  | cons p rest ih =>
    obtain ⟨k, x⟩ := p
    simp only [elementRemoveLoop]
    apply Ok.bind
    · apply Ok.ite
      · intro hc
        simp only [Bool.and_eq_true, Bool.or_eq_true, decide_eq_true_eq] at hc
        exact remove_ok h hl hiv (hl0 (k, x) (by simp) hc.1 hc.2)
      · intro _; exact Ok.some h hl
    · intro d' h' l'
      exact ih (fun p hp => hl0 p (by simp [hp])) d' h' l'

theorem elementPass_ok {n : Nat} {a : List Int} (iv : View) (xs : List View) (r : View) (hiv : iv.var < n)
    (hw : ∀ x ∈ xs, x.var < n) (hr : r.var < n) (x : View) (h0 : 0 ≤ iv.eval a)
    (hx : xs[(iv.eval a).toNat]? = some x) (hxr : x.eval a = r.eval a)
    (d : Doms) (h : inDoms d a = true) (hl : d.length = n) : Ok n a (elementPass iv xs r d) := by
  unfold elementPass
  have hxmem : x ∈ xs := List.mem_of_getElem? hx
  have hlt : (iv.eval a).toNat < xs.length := by
    have := List.getElem?_eq_some_iff.1 hx
    exact this.1
  apply Ok.bind (setLb_ok h hl hiv h0)
  intro d1 h1 l1
  apply Ok.bind (setUb_ok h1 l1 hiv (by omega))
  intro d2 h2 l2
  dsimp only
  have hidx : (iv.eval a, x) ∈ indexed xs := by
    unfold indexed
    rw [mem_indexedFrom]
    exact ⟨(iv.eval a).toNat, hx, by omega⟩
  have hsup : (iv.eval a, x) ∈ (indexed xs).filter (fun p => contains d2 iv p.1) := by
    simp only [List.mem_filter]
    exact ⟨hidx, contains_eval h2 (by omega)⟩
  have x2l := lb_le h2 (w := x) (by rw [l2]; exact hw x hxmem)
  have x2u := le_ub h2 (w := x) (by rw [l2]; exact hw x hxmem)
  have m1 : List.foldl min 2147483647 (((indexed xs).filter (fun p => contains d2 iv p.1)).map (fun p => lb d2 p.2)) ≤ lb d2 x :=
    foldl_min_le_mem _ _ (List.mem_map.2 ⟨_, hsup, rfl⟩)
  have m2 : ub d2 x ≤ List.foldl max (-2147483648) (((indexed xs).filter (fun p => contains d2 iv p.1)).map (fun p => ub d2 p.2)) :=
    mem_le_foldl_max _ _ (List.mem_map.2 ⟨_, hsup, rfl⟩)
  apply Ok.bind (setLb_ok h2 l2 hr (by omega))
  intro d3 h3 l3
  apply Ok.bind (setUb_ok h3 l3 hr (by omega))
  intro d4 h4 l4
  have r4l := lb_le h4 (w := r) (by omega)
  have r4u := le_ub h4 (w := r) (by omega)
  have x4l := lb_le h4 (w := x) (by rw [l4]; exact hw x hxmem)
  have x4u := le_ub h4 (w := x) (by rw [l4]; exact hw x hxmem)
  apply Ok.bind
  · apply elementRemoveLoop_ok iv hiv _ _ d4 (indexed xs) _ d4 h4 l4
    intro p hp _ hcond heq
    obtain ⟨k', x'⟩ := p
    unfold indexed at hp
    rw [mem_indexedFrom] at hp
    obtain ⟨j, hj, hk⟩ := hp
    simp only at heq hcond hk
    have : j = (iv.eval a).toNat := by omega
    subst this
    rw [hx] at hj
    cases hj
    omega
  intro d5 h5 l5
  have r5l := lb_le h5 (w := r) (by omega)
  have r5u := le_ub h5 (w := r) (by omega)
  split
  · rename_i hfix
    have := eq_of_fixed h5 (w := iv) (by omega) hfix
    rw [← this, hx]
    apply Ok.bind (setLb_ok h5 l5 (hw x hxmem) (by omega))
    intro d6 h6 l6
    exact setUb_ok h6 l6 (hw x hxmem) (by omega)
  · exact Ok.some h5 l5

end Pumpkin.Pg
