/-
Soundness of the two non-linear propagator models (`timesPass`, `divPass`) of
`Model/Propagation.lean`; continues `Model/PropagationSound.lean`.
-/
import Pumpkin.Model.PropagationSound
import Pumpkin.Model.CumulativeSound

namespace Pumpkin.Pg

open Pumpkin.AtomRup (restrict)

theorem sign_mul (a b p : Int) (hp : p = a * b) :
    (0 < a ∧ 0 < b ∧ 0 < p) ∨ (0 < a ∧ b < 0 ∧ p < 0) ∨ (a < 0 ∧ 0 < b ∧ p < 0) ∨ (a < 0 ∧ b < 0 ∧ 0 < p) ∨
      ((a = 0 ∨ b = 0) ∧ p = 0) := by
  subst hp
  rcases Int.lt_trichotomy a 0 with ha | ha | ha <;> rcases Int.lt_trichotomy b 0 with hb | hb | hb
  · right; right; right; left; exact ⟨ha, hb, Int.mul_pos_of_neg_of_neg ha hb⟩
  · right; right; right; right; subst hb; simp
  · right; right; left; exact ⟨ha, hb, Int.mul_neg_of_neg_of_pos ha hb⟩
  · right; right; right; right; subst ha; simp
  · right; right; right; right; subst ha; simp
  · right; right; right; right; subst ha; simp
  · right; left; exact ⟨ha, hb, Int.mul_neg_of_pos_of_neg ha hb⟩
  · right; right; right; right; subst hb; simp
  · left; exact ⟨ha, hb, Int.mul_pos ha hb⟩

theorem mul_le_bounds {a b A B : Int} (ha : 0 ≤ a) (hb : 0 ≤ b) (hA : a ≤ A) (hB : b ≤ B) : a * b ≤ A * B :=
  Int.mul_le_mul hA hB hb (by omega)

theorem divCeilPos_le {n m a : Int} (hm : 0 < m) (hn : 0 < n) (h : n ≤ a * m) : divCeilPos n m ≤ a := by
  unfold divCeilPos
  have h1 := Int.mul_tdiv_add_tmod n m
  have h2 := Int.tmod_nonneg m (Int.le_of_lt hn)
  have h3 := Int.tmod_lt_of_pos n hm
  -- n = m * q + r, 0 ≤ r < m ; n ≤ a * m
  have hq : m * (n.tdiv m) ≤ a * m := by omega
  rw [Int.mul_comm] at hq
  have hqa : n.tdiv m ≤ a := Int.le_of_mul_le_mul_right hq hm
  split
  · -- r > 0: strict
    rcases Int.lt_or_eq_of_le hqa with hlt | heq
    · omega
    · rw [heq] at h1; rw [Int.mul_comm] at h1; omega
  · split <;> omega

theorem le_tdiv_of_mul_le {n m a : Int} (hm : 0 < m) (hn : 0 ≤ n) (h : a * m ≤ n) : a ≤ n.tdiv m := by
  have h1 := Int.mul_tdiv_add_tmod n m
  have h3 := Int.tmod_lt_of_pos n hm
  have h2 := Int.tmod_nonneg m hn
  -- a*m ≤ m*q + r < m*(q+1)
  have : a * m < (n.tdiv m + 1) * m := by rw [Int.add_mul, Int.one_mul, Int.mul_comm (n.tdiv m)]; omega
  have := Int.lt_of_mul_lt_mul_right this (Int.le_of_lt hm)
  omega

theorem mul_ge_bounds {a b A B : Int} (hA : 0 ≤ A) (hB : 0 ≤ B) (ha : A ≤ a) (hb : B ≤ b) : A * B ≤ a * b :=
  Int.mul_le_mul ha hb hB (by omega)

theorem gLb_ok {n : Nat} {a : List Int} {d : Doms} (h : inDoms d a = true) (hl : d.length = n) {w : View}
    (hw : w.var < n) {b : Bool} {v : Int} (hv : b = true → v ≤ w.eval a) :
    Ok n a (guard b (fun d => setLb d w v) d) :=
  guard_ok h hl (fun hb => setLb_ok h hl hw (hv hb))

theorem gUb_ok {n : Nat} {a : List Int} {d : Doms} (h : inDoms d a = true) (hl : d.length = n) {w : View}
    (hw : w.var < n) {b : Bool} {v : Int} (hv : b = true → w.eval a ≤ v) :
    Ok n a (guard b (fun d => setUb d w v) d) :=
  guard_ok h hl (fun hb => setUb_ok h hl hw (hv hb))

/-! ### IntTimes -/

theorem timesSigns_ok {n : Nat} {x : List Int} (a b c : View) (ha : a.var < n) (hb : b.var < n) (hc : c.var < n)
    (hsat : a.eval x * b.eval x = c.eval x) (d : Doms) (h : inDoms d x = true) (hl : d.length = n) :
    Ok n x (timesSigns a b c d) := by
  unfold timesSigns
  have sg := sign_mul (a.eval x) (b.eval x) (c.eval x) hsat.symm
  have a1 := lb_le h (w := a) (by omega)
  have a2 := le_ub h (w := a) (by omega)
  have b1 := lb_le h (w := b) (by omega)
  have b2 := le_ub h (w := b) (by omega)
  have c1 := lb_le h (w := c) (by omega)
  have c2 := le_ub h (w := c) (by omega)
  dsimp only
  apply Ok.bind' (gLb_ok h hl hc (fun hg => by simp only [Bool.and_eq_true, decide_eq_true_eq] at hg; omega))
  intro d1 h1 l1
  apply Ok.bind' (gLb_ok h1 l1 hb (fun hg => by simp only [Bool.and_eq_true, decide_eq_true_eq] at hg; omega))
  intro d2 h2 l2
  apply Ok.bind' (gLb_ok h2 l2 ha (fun hg => by simp only [Bool.and_eq_true, decide_eq_true_eq] at hg; omega))
  intro d3 h3 l3
  apply Ok.bind' (gLb_ok h3 l3 hc (fun hg => by simp only [Bool.and_eq_true, decide_eq_true_eq] at hg; omega))
  intro d4 h4 l4
  apply Ok.bind' (gLb_ok h4 l4 hb (fun hg => by simp only [Bool.and_eq_true, decide_eq_true_eq] at hg; omega))
  intro d5 h5 l5
  apply Ok.bind' (gLb_ok h5 l5 ha (fun hg => by simp only [Bool.and_eq_true, decide_eq_true_eq] at hg; omega))
  intro d6 h6 l6
  apply Ok.bind' (gUb_ok h6 l6 hc (fun hg => by simp only [Bool.and_eq_true, decide_eq_true_eq] at hg; omega))
  intro d7 h7 l7
  apply Ok.bind' (gUb_ok h7 l7 hc (fun hg => by simp only [Bool.and_eq_true, decide_eq_true_eq] at hg; omega))
  intro d8 h8 l8
  apply Ok.bind' (gUb_ok h8 l8 hb (fun hg => by simp only [Bool.and_eq_true, decide_eq_true_eq] at hg; omega))
  intro d9 h9 l9
  apply Ok.bind' (gUb_ok h9 l9 hb (fun hg => by simp only [Bool.and_eq_true, decide_eq_true_eq] at hg; omega))
  intro d10 h10 l10
  apply Ok.bind' (gUb_ok h10 l10 ha (fun hg => by simp only [Bool.and_eq_true, decide_eq_true_eq] at hg; omega))
  intro d11 h11 l11
  exact gUb_ok h11 l11 ha (fun hg => by simp only [Bool.and_eq_true, decide_eq_true_eq] at hg; omega)

theorem timesPass_ok {n : Nat} {x : List Int} (a b c : View) (ha : a.var < n) (hb : b.var < n) (hc : c.var < n)
    (hsat : a.eval x * b.eval x = c.eval x) (d : Doms) (h : inDoms d x = true) (hl : d.length = n) :
    Ok n x (timesPass a b c d) := by
  unfold timesPass
  apply Ok.bind' (timesSigns_ok a b c ha hb hc hsat d h hl)
  intro d1 h1 l1
  have sg := sign_mul (a.eval x) (b.eval x) (c.eval x) hsat.symm
  have a1 := lb_le h1 (w := a) (by omega)
  have a2 := le_ub h1 (w := a) (by omega)
  have b1 := lb_le h1 (w := b) (by omega)
  have b2 := le_ub h1 (w := b) (by omega)
  have c1 := lb_le h1 (w := c) (by omega)
  have c2 := le_ub h1 (w := c) (by omega)
  dsimp only
  apply Ok.bind'
  · apply guard_ok h1 l1
    intro hg
    simp only [Bool.and_eq_true, decide_eq_true_eq] at hg
    apply Ok.bind
    · apply setUb_ok h1 l1 hc
      rw [← hsat]
      exact mul_le_bounds (by omega) (by omega) a2 b2
    · intro d' h' l'
      apply setLb_ok h' l' hc
      rw [← hsat]
      exact mul_ge_bounds (by omega) (by omega) a1 b1
  intro d2 h2 l2
  apply Ok.bind' (gLb_ok h2 l2 ha (fun hg => by
    simp only [Bool.and_eq_true, decide_eq_true_eq] at hg
    apply divCeilPos_le (by omega) (by omega)
    have : a.eval x * b.eval x ≤ a.eval x * ub d1 b := Int.mul_le_mul_of_nonneg_left b2 (by omega)
    omega))
  intro d3 h3 l3
  apply Ok.bind' (gUb_ok h3 l3 ha (fun hg => by
    simp only [Bool.and_eq_true, decide_eq_true_eq] at hg
    apply le_tdiv_of_mul_le (by omega) (by omega)
    rcases Int.le_total 0 (a.eval x) with hpos | hneg
    · have : a.eval x * lb d1 b ≤ a.eval x * b.eval x := Int.mul_le_mul_of_nonneg_left b1 hpos
      omega
    · have : a.eval x * lb d1 b ≤ 0 := Int.mul_nonpos_of_nonpos_of_nonneg hneg (by omega)
      omega))
  intro d4 h4 l4
  apply Ok.bind' (gUb_ok h4 l4 hb (fun hg => by
    simp only [Bool.and_eq_true, decide_eq_true_eq] at hg
    apply le_tdiv_of_mul_le (by omega) (by omega)
    rcases Int.le_total 0 (b.eval x) with hpos | hneg
    · have : b.eval x * lb d1 a ≤ b.eval x * a.eval x := Int.mul_le_mul_of_nonneg_left a1 hpos
      rw [Int.mul_comm (b.eval x) (a.eval x)] at this
      omega
    · have : b.eval x * lb d1 a ≤ 0 := Int.mul_nonpos_of_nonpos_of_nonneg hneg (by omega)
      omega))
  intro d5 h5 l5
  apply Ok.bind' (gLb_ok h5 l5 hb (fun hg => by
    simp only [Bool.and_eq_true, decide_eq_true_eq] at hg
    apply divCeilPos_le (by omega) (by omega)
    have : b.eval x * a.eval x ≤ b.eval x * ub d1 a := Int.mul_le_mul_of_nonneg_left a2 (by omega)
    rw [Int.mul_comm (b.eval x) (a.eval x)] at this
    omega))
  intro d6 h6 l6
  unfold timesCheck
  split
  · rename_i hfix
    exfalso
    simp only [Bool.and_eq_true, bne_iff_ne, ne_eq] at hfix
    obtain ⟨⟨⟨fa, fb⟩, fc⟩, hne⟩ := hfix
    have ea := eq_of_fixed h6 (w := a) (by omega) fa
    have eb := eq_of_fixed h6 (w := b) (by omega) fb
    have ec := eq_of_fixed h6 (w := c) (by omega) fc
    rw [← ea, ← eb, ← ec] at hne
    exact hne hsat
  · exact Ok.some h6 l6


/-! ### Division -/

/-- every current value is also a value of the earlier state -/
def Sub (d' d : Doms) : Prop := ∀ x v, v ∈ dom d' x → v ∈ dom d x

theorem Sub.refl (d : Doms) : Sub d d := fun _ _ h => h
theorem Sub.trans {a b c : Doms} (h1 : Sub a b) (h2 : Sub b c) : Sub a c := fun x v h => h2 x v (h1 x v h)

theorem dom_restrict_sub (d : Doms) (x : Nat) (f : Int → Bool) : Sub (restrict d x f) d := by
  intro y v hv
  induction d generalizing x y with
  | nil => simpa [restrict] using hv
  | cons l ls ih =>
    cases x with
    | zero =>
      cases y with
      | zero => simp only [restrict, dom, List.getD_cons_zero] at hv ⊢; exact (List.mem_filter.1 hv).1
      | succ y => simpa [restrict, dom] using hv
    | succ x =>
      cases y with
      | zero => simpa [restrict, dom] using hv
      | succ y =>
        simp only [restrict, dom, List.getD_cons_succ] at hv ⊢
        exact ih x y hv

theorem keep_sub {d d' : Doms} {w : View} {f : Int → Bool} (h : keep d w f = some d') : Sub d' d := by
  unfold keep at h
  simp only at h
  split at h
  · cases h
  · cases h; exact dom_restrict_sub _ _ _

theorem vals_sub {d' d : Doms} (h : Sub d' d) (w : View) {v : Int} (hv : v ∈ vals d' w) : v ∈ vals d w := by
  simp only [vals, List.mem_map] at hv ⊢
  obtain ⟨z, hz, rfl⟩ := hv
  exact ⟨z, h _ _ hz, rfl⟩

/-- `Ok` which also records that the domains only shrank -/
def Ok2 (n : Nat) (a : List Int) (d : Doms) (r : Option Doms) : Prop :=
  ∃ d', r = some d' ∧ inDoms d' a = true ∧ d'.length = n ∧ Sub d' d

theorem Ok2.ok {n a d r} (h : Ok2 n a d r) : Ok n a r := by
  obtain ⟨d', e, h1, h2, _⟩ := h; exact ⟨d', e, h1, h2⟩

theorem Ok2.some {n : Nat} {a : List Int} {d : Doms} (h : inDoms d a = true) (hl : d.length = n) : Ok2 n a d (some d) :=
  ⟨d, rfl, h, hl, Sub.refl d⟩

theorem Ok2.bind {n : Nat} {a : List Int} {d : Doms} {r : Option Doms} {g : Doms → Option Doms} (hr : Ok2 n a d r)
    (hg : ∀ d', inDoms d' a = true → d'.length = n → Sub d' d → Ok2 n a d' (g d')) : Ok2 n a d (r >>= g) := by
  obtain ⟨d', rfl, h1, h2, h3⟩ := hr
  obtain ⟨d'', e, g1, g2, g3⟩ := hg d' h1 h2 h3
  exact ⟨d'', e, g1, g2, g3.trans h3⟩

theorem keep_ok2 {n : Nat} {d : Doms} {a : List Int} (h : inDoms d a = true) (hl : d.length = n) {w : View}
    (hw : w.var < n) {f : Int → Bool} (hf : f (w.eval a) = true) : Ok2 n a d (keep d w f) := by
  obtain ⟨d', e, h1, h2⟩ := keep_ok h hl hw hf
  exact ⟨d', e, h1, h2, keep_sub e⟩

theorem gLb_ok2 {n : Nat} {a : List Int} {d : Doms} (h : inDoms d a = true) (hl : d.length = n) {w : View}
    (hw : w.var < n) {b : Bool} {v : Int} (hv : b = true → v ≤ w.eval a) :
    Ok2 n a d (guard b (fun d => setLb d w v) d) := by
  unfold guard
  cases b with
  | true => exact keep_ok2 (f := fun z => decide (v ≤ z)) h hl hw (by simpa using hv rfl)
  | false => exact Ok2.some h hl

theorem gUb_ok2 {n : Nat} {a : List Int} {d : Doms} (h : inDoms d a = true) (hl : d.length = n) {w : View}
    (hw : w.var < n) {b : Bool} {v : Int} (hv : b = true → w.eval a ≤ v) :
    Ok2 n a d (guard b (fun d => setUb d w v) d) := by
  unfold guard
  cases b with
  | true => exact keep_ok2 (f := fun z => decide (z ≤ v)) h hl hw (by simpa using hv rfl)
  | false => exact Ok2.some h hl

theorem guard_ok2 {n : Nat} {a : List Int} {b : Bool} {f : Doms → Option Doms} {d : Doms}
    (h : inDoms d a = true) (hl : d.length = n) (hf : b = true → Ok2 n a d (f d)) : Ok2 n a d (guard b f d) := by
  unfold guard
  cases b with
  | true => exact hf rfl
  | false => exact Ok2.some h hl

theorem foldl_min_mem (l : List Int) (k : Int) : l.foldl min k = k ∨ l.foldl min k ∈ l := by
  induction l generalizing k with
  | nil => left; rfl
  | cons x xs ih =>
    simp only [List.foldl_cons]
    rcases ih (min k x) with h | h
    · rw [h]
      rcases Int.le_total k x with hk | hk
      · left; exact Int.min_eq_left hk
      · right; rw [Int.min_eq_right hk]; simp
    · right; simp [h]

theorem foldl_max_mem (l : List Int) (k : Int) : l.foldl max k = k ∨ l.foldl max k ∈ l := by
  induction l generalizing k with
  | nil => left; rfl
  | cons x xs ih =>
    simp only [List.foldl_cons]
    rcases ih (max k x) with h | h
    · rw [h]
      rcases Int.le_total k x with hk | hk
      · right; rw [Int.max_eq_right hk]; simp
      · left; exact Int.max_eq_left hk
    · right; simp [h]

theorem minL_mem {l : List Int} (h : l ≠ []) : minL l ∈ l := by
  cases l with
  | nil => exact absurd rfl h
  | cons x xs =>
    simp only [minL]
    rcases foldl_min_mem xs x with h | h
    · rw [h]; simp
    · simp [h]

theorem maxL_mem {l : List Int} (h : l ≠ []) : maxL l ∈ l := by
  cases l with
  | nil => exact absurd rfl h
  | cons x xs =>
    simp only [maxL]
    rcases foldl_max_mem xs x with h | h
    · rw [h]; simp
    · simp [h]

theorem lb_mem {d : Doms} {a : List Int} (h : inDoms d a = true) {w : View} (hw : w.var < d.length) : lb d w ∈ vals d w :=
  minL_mem (List.ne_nil_of_mem (eval_mem_vals h hw))

theorem ub_mem {d : Doms} {a : List Int} (h : inDoms d a = true) {w : View} (hw : w.var < d.length) : ub d w ∈ vals d w :=
  maxL_mem (List.ne_nil_of_mem (eval_mem_vals h hw))

/-- truncating division by a positive number, spelled out -/
theorem tdiv_facts (N D : Int) (hD : 1 ≤ D) :
    (0 ≤ N → D * N.tdiv D ≤ N ∧ N < D * N.tdiv D + D) ∧ (N ≤ 0 → D * N.tdiv D - D < N ∧ N ≤ D * N.tdiv D) := by
  have e := Int.mul_tdiv_add_tmod N D
  constructor
  · intro h
    have := Int.tmod_nonneg D h
    have := Int.tmod_lt_of_pos N (show 0 < D by omega)
    omega
  · intro h
    have e' := Int.mul_tdiv_add_tmod (-N) D
    have := Int.tmod_nonneg D (show 0 ≤ -N by omega)
    have := Int.tmod_lt_of_pos (-N) (show 0 < D by omega)
    rw [Int.neg_tdiv, Int.neg_tmod] at *
    have : D * -(N.tdiv D) = -(D * N.tdiv D) := Int.mul_neg ..
    omega

/-- what the division rules use: `D ≥ 1` and `R = N tdiv D` -/
structure DivT (N D R : Int) : Prop where
  dpos : 1 ≤ D
  eq : N.tdiv D = R

theorem DivT.neg {N D R : Int} (h : DivT N D R) : DivT (-N) D (-R) :=
  ⟨h.dpos, by rw [Int.neg_tdiv, h.eq]⟩

theorem DivT.f5 {N D R : Int} (h : DivT N D R) (hN : 0 ≤ N) : D * R ≤ N ∧ N < D * R + D := by
  have := (tdiv_facts N D h.dpos).1 hN; rw [h.eq] at this; exact this

theorem DivT.f6 {N D R : Int} (h : DivT N D R) (hN : N ≤ 0) : D * R - D < N ∧ N ≤ D * R := by
  have := (tdiv_facts N D h.dpos).2 hN; rw [h.eq] at this; exact this

theorem DivT.r_nonneg {N D R : Int} (h : DivT N D R) (hN : 0 ≤ N) : 0 ≤ R := by
  have := h.f5 hN
  have hd := h.dpos
  rcases Int.lt_or_le R 0 with hr | hr
  · have : D * R ≤ D * (-1) := Int.mul_le_mul_of_nonneg_left (by omega) (by omega)
    omega
  · exact hr

theorem DivT.r_nonpos {N D R : Int} (h : DivT N D R) (hN : N ≤ 0) : R ≤ 0 := by
  have := h.neg.r_nonneg (by omega); omega

theorem DivT.n_pos {N D R : Int} (h : DivT N D R) (hR : 1 ≤ R) : 1 ≤ N := by
  rcases Int.lt_or_le 0 N with hn | hn
  · omega
  · have := h.r_nonpos hn; omega

theorem DivT.n_neg {N D R : Int} (h : DivT N D R) (hR : R ≤ -1) : N ≤ -1 := by
  have := h.neg.n_pos (by omega); omega


theorem divSigns_ok2 {nn : Nat} {x : List Int} (n dn r : View) (hn : n.var < nn) (hr : r.var < nn)
    (T : DivT (n.eval x) (dn.eval x) (r.eval x)) (d : Doms) (h : inDoms d x = true) (hl : d.length = nn) :
    Ok2 nn x d (divSigns n dn r d) := by
  unfold divSigns
  have n1 := lb_le h (w := n) (by omega)
  have n2 := le_ub h (w := n) (by omega)
  have r1 := lb_le h (w := r) (by omega)
  have r2 := le_ub h (w := r) (by omega)
  dsimp only
  apply Ok2.bind (gLb_ok2 h hl hr (fun hg => by
    simp only [Bool.and_eq_true, decide_eq_true_eq] at hg
    exact T.r_nonneg (by omega)))
  intro d1 h1 l1 _
  apply Ok2.bind (gLb_ok2 h1 l1 hn (fun hg => by
    simp only [Bool.and_eq_true, decide_eq_true_eq] at hg
    exact T.n_pos (by omega)))
  intro d2 h2 l2 _
  apply Ok2.bind (gUb_ok2 h2 l2 hr (fun hg => by
    simp only [Bool.and_eq_true, decide_eq_true_eq] at hg
    exact T.r_nonpos (by omega)))
  intro d3 h3 l3 _
  exact gUb_ok2 h3 l3 hn (fun hg => by
    simp only [Bool.and_eq_true, decide_eq_true_eq] at hg
    exact T.n_neg (by omega))

theorem divUpper_ok2 {nn : Nat} {x : List Int} (n dn r : View) (hn : n.var < nn) (hd : dn.var < nn) (hr : r.var < nn)
    (T : DivT (n.eval x) (dn.eval x) (r.eval x)) (d : Doms) (h : inDoms d x = true) (hl : d.length = nn)
    (pos : ∀ v ∈ vals d dn, 1 ≤ v) (g1 : 0 ≤ ub d n) (g2 : 0 ≤ ub d r) :
    Ok2 nn x d (divUpper n dn r d) := by
  unfold divUpper
  have n2 := le_ub h (w := n) (by omega)
  have r2 := le_ub h (w := r) (by omega)
  have d1' := lb_le h (w := dn) (by omega)
  have d2' := le_ub h (w := dn) (by omega)
  have dmin := pos _ (lb_mem h (w := dn) (by omega))
  have hD := T.dpos
  dsimp only
  apply Ok2.bind (gUb_ok2 h hl hr (fun _ => by
    apply le_tdiv_of_mul_le (by omega) g1
    rcases Int.lt_or_le 0 (r.eval x) with hp | hp
    · have hN := T.n_pos (by omega)
      have f := T.f5 (by omega)
      have : lb d dn * r.eval x ≤ dn.eval x * r.eval x := Int.mul_le_mul_of_nonneg_right d1' (by omega)
      rw [Int.mul_comm (r.eval x)]
      omega
    · have : r.eval x * lb d dn ≤ 0 := Int.mul_nonpos_of_nonpos_of_nonneg hp (by omega)
      omega))
  intro d1 h1 l1 _
  exact gUb_ok2 h1 l1 hn (fun _ => by
    have hprod : 1 ≤ (ub d r + 1) * ub d dn := by
      have : 1 * 1 ≤ (ub d r + 1) * ub d dn := mul_ge_bounds (by omega) (by omega) (by omega) (by omega)
      omega
    rcases Int.lt_or_le 0 (n.eval x) with hp | hp
    · have f := T.f5 (by omega)
      have hR := T.r_nonneg (by omega)
      have : (r.eval x + 1) * dn.eval x ≤ (ub d r + 1) * ub d dn := mul_le_bounds (by omega) (by omega) (by omega) d2'
      have e : (r.eval x + 1) * dn.eval x = dn.eval x * r.eval x + dn.eval x := by
        rw [Int.add_mul, Int.one_mul, Int.mul_comm]
      omega
    · omega)

theorem ceil2_le {dividend divisor D : Int} (h1 : 1 ≤ dividend) (h2 : 1 ≤ divisor) (h : dividend ≤ D * divisor) :
    dividend.tdiv divisor + (if dividend.tdiv divisor * divisor < dividend then 1 else 0) ≤ D := by
  have e := Int.mul_tdiv_add_tmod dividend divisor
  have m1 := Int.tmod_nonneg divisor (show 0 ≤ dividend by omega)
  have m2 := Int.tmod_lt_of_pos dividend (show 0 < divisor by omega)
  have hq : dividend.tdiv divisor * divisor ≤ D * divisor := by rw [Int.mul_comm] ; omega
  have hqD : dividend.tdiv divisor ≤ D := Int.le_of_mul_le_mul_right hq (by omega)
  split
  · rename_i hlt
    rcases Int.lt_or_eq_of_le hqD with hl | he
    · omega
    · rw [he] at hlt; omega
  · omega

theorem divPositive_ok2 {nn : Nat} {x : List Int} (n dn r : View) (hn : n.var < nn) (hd : dn.var < nn) (hr : r.var < nn)
    (T : DivT (n.eval x) (dn.eval x) (r.eval x)) (d : Doms) (h : inDoms d x = true) (hl : d.length = nn)
    (pos : ∀ v ∈ vals d dn, 1 ≤ v) (g1 : 0 ≤ lb d n) (g2 : 0 ≤ lb d r) :
    Ok2 nn x d (divPositive n dn r d) := by
  unfold divPositive
  have n1 := lb_le h (w := n) (by omega)
  have n2 := le_ub h (w := n) (by omega)
  have r1 := lb_le h (w := r) (by omega)
  have r2 := le_ub h (w := r) (by omega)
  have d1' := lb_le h (w := dn) (by omega)
  have d2' := le_ub h (w := dn) (by omega)
  have dmin := pos _ (lb_mem h (w := dn) (by omega))
  have hD := T.dpos
  have f := T.f5 (by omega)
  have hR := T.r_nonneg (by omega)
  dsimp only
  apply Ok2.bind (gLb_ok2 h hl hr (fun _ => by
    -- q * dMax ≤ nMin ≤ N < D * (R + 1) ≤ dMax * (R + 1)
    have e := Int.mul_tdiv_add_tmod (lb d n) (ub d dn)
    have m1 := Int.tmod_nonneg (ub d dn) g1
    have : dn.eval x * (r.eval x + 1) ≤ ub d dn * (r.eval x + 1) := Int.mul_le_mul_of_nonneg_right d2' (by omega)
    have e2 : dn.eval x * (r.eval x + 1) = dn.eval x * r.eval x + dn.eval x := by rw [Int.mul_add, Int.mul_one]
    have : ub d dn * (lb d n).tdiv (ub d dn) < ub d dn * (r.eval x + 1) := by omega
    have := Int.lt_of_mul_lt_mul_left this (by omega)
    omega))
  intro d1 h1 l1 _
  apply Ok2.bind (gLb_ok2 h1 l1 hn (fun _ => by
    have : lb d dn * lb d r ≤ dn.eval x * r.eval x := mul_ge_bounds (by omega) g2 d1' r1
    omega))
  intro d2 h2 l2 _
  apply Ok2.bind (gUb_ok2 h2 l2 hd (fun hg => by
    simp only [Bool.and_eq_true, decide_eq_true_eq] at hg
    apply le_tdiv_of_mul_le (by omega) (by omega)
    have : dn.eval x * lb d r ≤ dn.eval x * r.eval x := Int.mul_le_mul_of_nonneg_left r1 (by omega)
    omega))
  intro d3 h3 l3 _
  exact gLb_ok2 h3 l3 hd (fun _ => by
    apply ceil2_le (by omega) (by omega)
    have : dn.eval x * (r.eval x + 1) ≤ dn.eval x * (ub d r + 1) := Int.mul_le_mul_of_nonneg_left (by omega) (by omega)
    have e2 : dn.eval x * (r.eval x + 1) = dn.eval x * r.eval x + dn.eval x := by rw [Int.mul_add, Int.mul_one]
    omega)


theorem vapp_scaled (w : View) (k z : Int) : vapp (w.scaled k) z = k * vapp w z := by
  simp only [vapp, View.scaled]
  rw [Int.mul_add, Int.mul_comm w.scale k, Int.mul_assoc, Int.mul_comm w.offset k]

theorem mem_vals_scaled {d : Doms} {w : View} {k v : Int} (h : v ∈ vals d w) : k * v ∈ vals d (w.scaled k) := by
  simp only [vals, List.mem_map] at h ⊢
  obtain ⟨z, hz, rfl⟩ := h
  exact ⟨z, hz, vapp_scaled w k z⟩

theorem of_mem_vals_scaled {d : Doms} {w : View} {k v : Int} (h : v ∈ vals d (w.scaled k)) :
    ∃ v' ∈ vals d w, v = k * v' := by
  simp only [vals, List.mem_map] at h ⊢
  obtain ⟨z, hz, rfl⟩ := h
  exact ⟨_, ⟨z, hz, rfl⟩, vapp_scaled w k z⟩

theorem divPass_ok {nn : Nat} {x : List Int} (n dn r : View) (hn : n.var < nn) (hd : dn.var < nn) (hr : r.var < nn)
    (hne : dn.eval x ≠ 0) (hsat : (n.eval x).tdiv (dn.eval x) = r.eval x)
    (d : Doms) (h : inDoms d x = true) (hl : d.length = nn) : Ok nn x (divPass n dn r d) := by
  unfold divPass
  split
  · exact Ok.some h hl
  rename_i hnc
  split
  · exact Ok.some h hl
  rename_i hst
  simp only [Bool.and_eq_true, decide_eq_true_eq, not_and] at hst
  have hw1 : (dn.scaled 1).var < d.length := by rw [hl]; exact hd
  have hwd : dn.var < d.length := by rw [hl]; exact hd
  have ev1 : (dn.scaled 1).eval x = 1 * dn.eval x := View.scaled_eval dn 1 x
  have u1 := le_ub h hw1
  have no0 : ∀ v ∈ vals d dn, v ≠ 0 := by
    intro v hv h0
    subst h0
    apply hnc
    simp only [contains, List.contains_iff_mem]
    exact hv
  -- the normalised numerator / denominator
  have key : ∃ num nnum den : View,
      (num = (if ub d (dn.scaled 1) < 0 then n.scaled (-1) else n.scaled 1)) ∧
      (nnum = (if ub d (dn.scaled 1) < 0 then n.scaled 1 else n.scaled (-1))) ∧
      (den = (if ub d (dn.scaled 1) < 0 then dn.scaled (-1) else dn.scaled 1)) ∧
      num.var < nn ∧ nnum.var < nn ∧ den.var < nn ∧
      DivT (num.eval x) (den.eval x) (r.eval x) ∧ nnum.eval x = -(num.eval x) ∧ (∀ v ∈ vals d den, 1 ≤ v) := by
    by_cases hs : ub d (dn.scaled 1) < 0
    · refine ⟨n.scaled (-1), n.scaled 1, dn.scaled (-1), by simp [hs], by simp [hs], by simp [hs], hn, hn, hd, ?_, ?_, ?_⟩
      · constructor
        · rw [View.scaled_eval]; omega
        · rw [View.scaled_eval, View.scaled_eval]
          have : (-1 * n.eval x).tdiv (-1 * dn.eval x) = (n.eval x).tdiv (dn.eval x) := by
            rw [Int.neg_one_mul, Int.neg_one_mul, Int.neg_tdiv, Int.tdiv_neg, Int.neg_neg]
          rw [this, hsat]
      · rw [View.scaled_eval, View.scaled_eval]; omega
      · intro v hv
        obtain ⟨v', hv', rfl⟩ := of_mem_vals_scaled hv
        have := le_maxL (mem_vals_scaled (k := 1) hv')
        unfold ub at hs
        omega
    · refine ⟨n.scaled 1, n.scaled (-1), dn.scaled 1, by simp [hs], by simp [hs], by simp [hs], hn, hn, hd, ?_, ?_, ?_⟩
      · have posv : ∀ v ∈ vals d dn, 1 ≤ v := by
          intro v hv
          have hv0 := no0 v hv
          have l1 := minL_le hv
          have l2 := le_maxL hv
          rcases Int.lt_or_le (lb d dn) 0 with hlt | hge
          · exfalso
            have hub : ub d dn ≤ 0 := by
              have := hst hlt
              simpa using this
            have hm0 := no0 _ (ub_mem h hwd)
            obtain ⟨v'', hv'', e''⟩ := of_mem_vals_scaled (ub_mem h hw1)
            have := le_maxL hv''
            unfold ub at hs hub hm0 e''
            omega
          · unfold lb at hge; omega
        constructor
        · rw [View.scaled_eval]
          have := posv _ (eval_mem_vals h hwd)
          omega
        · rw [View.scaled_eval, View.scaled_eval, Int.one_mul, Int.one_mul, hsat]
      · rw [View.scaled_eval, View.scaled_eval]; omega
      · intro v hv
        obtain ⟨v', hv', rfl⟩ := of_mem_vals_scaled hv
        have hv0 := no0 v' hv'
        have l1 := minL_le hv'
        rcases Int.lt_or_le (lb d dn) 0 with hlt | hge
        · exfalso
          have hub : ub d dn ≤ 0 := by
            have := hst hlt
            simpa using this
          have hm0 := no0 _ (ub_mem h hwd)
          obtain ⟨v'', hv'', e''⟩ := of_mem_vals_scaled (ub_mem h hw1)
          have := le_maxL hv''
          unfold ub at hs hub hm0 e''
          omega
        · unfold lb at hge; omega
  obtain ⟨num, nnum, den, e1, e2, e3, wn, wnn, wd, T, eneg, pos⟩ := key
  simp only []
  rw [← e1, ← e2, ← e3]
  have wnr : (r.scaled (-1)).var < nn := hr
  have enr : (r.scaled (-1)).eval x = -(r.eval x) := by rw [View.scaled_eval]; omega
  have T' : DivT (nnum.eval x) (den.eval x) ((r.scaled (-1)).eval x) := by rw [eneg, enr]; exact T.neg
  apply Ok2.ok (d := d)
  apply Ok2.bind (divSigns_ok2 num den r wn hr T d h hl)
  intro d1 h1 l1 s1
  apply Ok2.bind (guard_ok2 h1 l1 (fun hg => by
    simp only [Bool.and_eq_true, decide_eq_true_eq] at hg
    exact divUpper_ok2 num den r wn wd hr T d1 h1 l1 (fun v hv => pos v (vals_sub s1 den hv)) (by omega) (by omega)))
  intro d2 h2 l2 s2
  have s2' := s2.trans s1
  apply Ok2.bind (guard_ok2 h2 l2 (fun hg => by
    simp only [Bool.and_eq_true, decide_eq_true_eq] at hg
    exact divUpper_ok2 nnum den (r.scaled (-1)) wnn wd wnr T' d2 h2 l2 (fun v hv => pos v (vals_sub s2' den hv)) (by omega) (by omega)))
  intro d3 h3 l3 s3
  have s3' := s3.trans s2'
  apply Ok2.bind (guard_ok2 h3 l3 (fun hg => by
    simp only [Bool.and_eq_true, decide_eq_true_eq] at hg
    exact divPositive_ok2 num den r wn wd hr T d3 h3 l3 (fun v hv => pos v (vals_sub s3' den hv)) (by omega) (by omega)))
  intro d4 h4 l4 s4
  have s4' := s4.trans s3'
  exact guard_ok2 h4 l4 (fun hg => by
    simp only [Bool.and_eq_true, decide_eq_true_eq] at hg
    exact divPositive_ok2 nnum den (r.scaled (-1)) wnn wd wnr T' d4 h4 l4 (fun v hv => pos v (vals_sub s4' den hv)) (by omega) (by omega))


/-! ### every propagator instance; rounds; the fixpoint -/

theorem inconsistent_sound {n : Nat} {a : List Int} (p : PropInst) (hw : p.Wf n) (d : Doms)
    (h : inDoms d a = true) (hl : d.length = n) (hi : p.inconsistent d = true) : p.cons.sat a = false := by
  cases p with
  | linLe ts c =>
    simp only [PropInst.inconsistent, linLeInconsistent, decide_eq_true_eq] at hi
    have := sumLb_le h ts (by rw [hl]; exact hw)
    simp only [PropInst.cons, Cons.sat, decide_eq_false_iff_not]
    omega
  | _ => simp [PropInst.inconsistent] at hi

/-- **Soundness of every propagator model**: a pass keeps every assignment which lies in the current
domains and satisfies the propagator's constraint. -/
theorem pass_ok {n : Nat} {a : List Int} (p : PropInst) (hw : p.Wf n) (d : Doms)
    (h : inDoms d a = true) (hl : d.length = n) (hsat : p.cons.sat a = true) : Ok n a (p.pass d) := by
  induction p generalizing d with
  | linLe ts c =>
    simp only [PropInst.cons, Cons.sat, decide_eq_true_eq] at hsat
    exact linLePass_ok ts c hw hsat d h hl
  | linNe ts c =>
    simp only [PropInst.cons, Cons.sat, decide_eq_true_eq] at hsat
    exact linNePass_ok ts c hw hsat d h hl
  | abs s r =>
    simp only [PropInst.cons, Cons.sat, decide_eq_true_eq] at hsat
    exact absPass_ok s r hw.1 hw.2 hsat d h hl
  | max xs r =>
    simp only [PropInst.cons, Cons.sat, Bool.and_eq_true, List.all_eq_true, List.any_eq_true, decide_eq_true_eq] at hsat
    exact maxPass_ok xs r hw.1 hw.2 hsat.1 hsat.2 d h hl
  | times x y z =>
    simp only [PropInst.cons, Cons.sat, decide_eq_true_eq] at hsat
    exact timesPass_ok x y z hw.1 hw.2.1 hw.2.2 hsat d h hl
  | div x y z =>
    simp only [PropInst.cons, Cons.sat, Bool.and_eq_true, decide_eq_true_eq] at hsat
    exact divPass_ok x y z hw.1 hw.2.1 hw.2.2 hsat.1 hsat.2 d h hl
  | element i xs r =>
    simp only [PropInst.cons, Cons.sat, Bool.and_eq_true, decide_eq_true_eq] at hsat
    obtain ⟨h0, hm⟩ := hsat
    cases hx : xs[(i.eval a).toNat]? with
    | none => rw [hx] at hm; cases hm
    | some x =>
      rw [hx] at hm
      simp only [decide_eq_true_eq] at hm
      exact elementPass_ok i xs r hw.1 hw.2.1 hw.2.2 x h0 hx hm d h hl
  | clause ls =>
    simp only [PropInst.cons, Cons.sat, List.any_eq_true] at hsat
    exact clausePass_ok ls hw hsat d h hl
  | cumulative holes ts cap =>
    have hT : ∀ t, loadAt ts a t ≤ cap :=
      (CumSem.cumulative_sat_iff ts cap a (fun k hk => (hw k hk).2)).1 hsat
    exact ttPass_ok holes ts cap hw hT d h hl
  | reified r p ih =>
    simp only [PropInst.cons, Cons.sat, Bool.or_eq_true, Bool.not_eq_true'] at hsat
    simp only [PropInst.pass]
    apply Ok.bind
    · apply Ok.ite
      · intro hc
        simp only [Bool.and_eq_true] at hc
        have := inconsistent_sound p hw.2 d h hl hc.2
        have hr : r.holds a = false := by
          rcases hsat with h1 | h1
          · exact h1
          · rw [this] at h1; cases h1
        apply postAtom_ok h hl (by simpa using hw.1)
        rw [Atom.neg_holds, hr]; rfl
      · intro _; exact Ok.some h hl
    · intro d' h' l'
      apply Ok.ite
      · intro ht
        have hr := atomTrue_holds h' (by rw [l']; exact hw.1) ht
        rcases hsat with h1 | h1
        · rw [hr] at h1; cases h1
        · exact ih hw.2 d' h' l' h1
      · intro _; exact Ok.some h' l'

theorem round_ok {n : Nat} {a : List Int} (ps : List PropInst) (hw : ∀ p ∈ ps, p.Wf n)
    (hsat : ∀ p ∈ ps, p.cons.sat a = true) (d : Doms) (h : inDoms d a = true) (hl : d.length = n) :
    Ok n a (round ps d) := by
  induction ps generalizing d with
  | nil => exact Ok.some h hl
  | cons p ps ih =>
    simp only [round]
    apply Ok.bind (pass_ok p (hw p (by simp)) d h hl (hsat p (by simp)))
    intro d' h' l'
    exact ih (fun q hq => hw q (by simp [hq])) (fun q hq => hsat q (by simp [hq])) d' h' l'

theorem iterate_ok {n : Nat} {a : List Int} (ps : List PropInst) (hw : ∀ p ∈ ps, p.Wf n)
    (hsat : ∀ p ∈ ps, p.cons.sat a = true) (fuel : Nat) (d : Doms) (h : inDoms d a = true) (hl : d.length = n) :
    Ok n a (iterate ps fuel d) := by
  induction fuel generalizing d with
  | zero => exact Ok.some h hl
  | succ k ih =>
    simp only [iterate]
    obtain ⟨d', e, h', l'⟩ := round_ok ps hw hsat d h hl
    rw [e]
    simp only []
    split
    · exact Ok.some h' l'
    · exact ih d' h' l'

theorem not_hasEmpty_of_inDoms {d : Doms} {a : List Int} (h : inDoms d a = true) : d.any List.isEmpty = false := by
  induction d generalizing a with
  | nil => rfl
  | cons l ls ih =>
    cases a with
    | nil => simp [inDoms] at h
    | cons v vs =>
      simp only [inDoms, Bool.and_eq_true, List.contains_iff_mem] at h
      simp only [List.any_cons, Bool.or_eq_false_iff]
      refine ⟨?_, ih h.2⟩
      cases l with
      | nil => cases h.1
      | cons _ _ => rfl

/-- **The fixpoint of any set of propagators keeps every solution of their constraints** that lies in
the domains it starts from; in particular it reports a conflict only if there is none. -/
theorem fixpoint_ok {n : Nat} {a : List Int} (ps : List PropInst) (hw : ∀ p ∈ ps, p.Wf n)
    (hsat : ∀ p ∈ ps, p.cons.sat a = true) (d : Doms) (h : inDoms d a = true) (hl : d.length = n) :
    Ok n a (fixpoint ps d) := by
  unfold fixpoint
  rw [not_hasEmpty_of_inDoms h]
  exact iterate_ok ps hw hsat _ d h hl

theorem fixpoint_keeps_solutions {n : Nat} (ps : List PropInst) (hw : ∀ p ∈ ps, p.Wf n) (d d' : Doms)
    (hl : d.length = n) (hf : fixpoint ps d = some d') (a : List Int) (h : inDoms d a = true)
    (hsat : ∀ p ∈ ps, p.cons.sat a = true) : inDoms d' a = true := by
  obtain ⟨d'', e, h', _⟩ := fixpoint_ok ps hw hsat d h hl
  rw [hf] at e; cases e; exact h'

theorem fixpoint_conflict_sound {n : Nat} (ps : List PropInst) (hw : ∀ p ∈ ps, p.Wf n) (d : Doms)
    (hl : d.length = n) (hf : fixpoint ps d = none) (a : List Int) (h : inDoms d a = true) :
    ¬ ∀ p ∈ ps, p.cons.sat a = true := by
  intro hsat
  obtain ⟨d'', e, _, _⟩ := fixpoint_ok ps hw hsat d h hl
  rw [hf] at e; cases e

end Pumpkin.Pg
