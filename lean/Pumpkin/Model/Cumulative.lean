/-
Time-table filtering for `cumulative` as a function on domains
(`propagators/cumulative/time_table/*`, `time_table_util.rs`):

* tasks with a zero duration or usage are dropped (`utils/util.rs::create_tasks`); a task whose usage
  alone exceeds the capacity makes posting fail (`constraints/cumulative.rs`);
* the *mandatory part* of a task is `[ub(s), lb(s) + p)`; the profile height at a time point is the
  sum of the usages of the tasks whose mandatory part covers it; a height above the capacity is a
  conflict (`create_time_table_per_point_from_scratch`);
* a task which is not part of the profile at `t`, would overflow it (`height + usage > capacity`) and
  could still run at `t` (`lb ≤ t < ub + p`) is pushed away from `t`
  (`find_possible_updates`): lower bound to `t + 1` if `lb + p > t`, upper bound to `t - p` if
  `ub ≤ t`, and with `allow_holes_in_domain` the start times `t - p + 1 ..= t` are removed.

All six propagator variants (per point / over interval, incremental or not, with or without
synchronisation) and `generate_sequence` compute the *fixpoint* of these rules (they differ in the
order in which, and the profile granularity at which, they get there, and in the explanations); the
rules are monotone, so the fixpoint does not depend on the order, nor on whether the profile is
evaluated once per call (as the Rust does) or read off the current domains (as `ttPass` does). This
is therefore a model of *what is propagated at the fixpoint*, not of the single calls; the `fix`
correspondence compares fixpoints.
-/
import Pumpkin.Model.Propagation

namespace Pumpkin.Pg

/-! (the definitions `ttTasks … ttPass` live in `Model/Propagation.lean`, in front of `PropInst`) -/

/-- several cumulative constraints to the common fixpoint -/
def ttRound : List (Bool × List Task × Int) → Doms → Option Doms
  | [], d => some d
  | (h, ts, c) :: r, d => (ttPass h ts c d).bind (ttRound r)

def ttIterate (cs : List (Bool × List Task × Int)) : Nat → Doms → Option Doms
  | 0, d => some d
  | fuel + 1, d =>
    match ttRound cs d with
    | none => none
    | some d' => if size d' = size d then some d' else ttIterate cs fuel d'

def ttFix (cs : List (Bool × List Task × Int)) (d : Doms) : Option Doms :=
  if d.any List.isEmpty then none else ttIterate cs (size d + 1) d

end Pumpkin.Pg
