/-
Time-table filtering for `cumulative` as a function on domains
(`propagators/cumulative/time_table/*`, `time_table_util.rs`):

* tasks with a zero duration or usage are dropped (`utils/util.rs::create_tasks`); a task whose usage
  alone exceeds the capacity makes posting fail (`constraints/cumulative.rs`);
* the *mandatory part* of a task is `[ub(s), lb(s) + p)`; the profile height at a time point is the
  sum of the usages of the tasks whose mandatory part covers it; a height above the capacity is a
  conflict (`create_time_table_per_point_from_scratch`);
* a task which is not part of the profile at `t`, would overflow it (`height + usage > capacity`) and
  could still run at `t` (`lb ≤ t < ub + p`) is pushed away from `t`
  (`find_possible_updates`): lower bound to `t + 1` if `lb + p > t`, upper bound to `t - p` if
  `ub ≤ t`, and with `allow_holes_in_domain` the start times `t - p + 1 ..= t` are removed.

All six propagator variants (per point / over interval, incremental or not, with or without
synchronisation) and `generate_sequence` compute the *fixpoint* of these rules (they differ in the
order in which, and the profile granularity at which, they get there, and in the explanations); the
rules are monotone, so the fixpoint does not depend on the order, nor on whether the profile is
evaluated once per call (as the Rust does) or read off the current domains (as `ttPass` does). This
is therefore a model of *what is propagated at the fixpoint*, not of the single calls; the `fix`
correspondence compares fixpoints.
-/
import Pumpkin.Model.Propagation

namespace Pumpkin.Pg

def ttTasks (ts : List Task) : List Task := ts.filter (fun k => decide (0 < k.dur) && decide (0 < k.use))

def mandatoryAt (d : Doms) (k : Task) (t : Int) : Bool :=
  decide (ub d k.start ≤ t) && decide (t < lb d k.start + k.dur)

def heightAt (d : Doms) (ts : List Task) (t : Int) : Int :=
  (ts.map (fun k => if mandatoryAt d k t then k.use else 0)).foldl (· + ·) 0

def intRange (lo hi : Int) : List Int := (List.range (hi + 1 - lo).toNat).map (fun (i : Nat) => lo + Int.ofNat i)

/-- every time point at which some task can run -/
def ttTimes (d : Doms) (ts : List Task) : List Int :=
  match ts with
  | [] => []
  | k :: r => intRange (r.foldl (fun m j => min m (lb d j.start)) (lb d k.start))
      (r.foldl (fun m j => max m (ub d j.start + j.dur)) (ub d k.start + k.dur))

/-- the rules of `find_possible_updates` for one task and one time point; the profile height is read
off the current domains -/
def ttTaskAt (holes : Bool) (cap : Int) (ts : List Task) (t : Int) (k : Task) (d : Doms) : Option Doms :=
  if heightAt d ts t + k.use > cap ∧ mandatoryAt d k t = false ∧ lb d k.start ≤ t ∧ t < ub d k.start + k.dur then
    (if lb d k.start + k.dur > t ∧ lb d k.start ≤ t then setLb d k.start (t + 1) else some d).bind fun d1 =>
    (if ub d1 k.start + k.dur > t ∧ ub d1 k.start ≤ t then setUb d1 k.start (t - k.dur) else some d1).bind fun d2 =>
    if holes then keep d2 k.start (fun z => !(decide (t - k.dur < z) && decide (z ≤ t))) else some d2
  else some d

def ttTasksAt (holes : Bool) (cap : Int) (ts : List Task) (t : Int) : List Task → Doms → Option Doms
  | [], d => some d
  | k :: r, d => (ttTaskAt holes cap ts t k d).bind (ttTasksAt holes cap ts t r)

def ttPoints (holes : Bool) (cap : Int) (ts : List Task) : List Int → Doms → Option Doms
  | [], d => some d
  | t :: r, d =>
    if heightAt d ts t > cap then none
    else if heightAt d ts t > 0 then (ttTasksAt holes cap ts t ts d).bind (ttPoints holes cap ts r)
    else ttPoints holes cap ts r d

/-- one evaluation of the time-table: conflict check and filtering -/
def ttPass (holes : Bool) (ts : List Task) (cap : Int) (d : Doms) : Option Doms :=
  let ts' := ttTasks ts
  if ts'.any (fun k => decide (k.use > cap)) then none
  else ttPoints holes cap ts' (ttTimes d ts') d

/-- several cumulative constraints to the common fixpoint -/
def ttRound : List (Bool × List Task × Int) → Doms → Option Doms
  | [], d => some d
  | (h, ts, c) :: r, d => (ttPass h ts c d).bind (ttRound r)

def ttIterate (cs : List (Bool × List Task × Int)) : Nat → Doms → Option Doms
  | 0, d => some d
  | fuel + 1, d =>
    match ttRound cs d with
    | none => none
    | some d' => if size d' = size d then some d' else ttIterate cs fuel d'

def ttFix (cs : List (Bool × List Task × Int)) (d : Doms) : Option Doms :=
  if d.any List.isEmpty then none else ttIterate cs (size d + 1) d

end Pumpkin.Pg
