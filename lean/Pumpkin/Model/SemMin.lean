/-
Model of the semantic minimiser
(`engine/conflict_analysis/minimisers/semantic_minimiser.rs`: `minimise`, `apply_predicates`,
`SimpleIntegerDomain::{tighten_lower_bound, tighten_upper_bound, add_hole, assign,
propagate_holes_on_lower_bound, propagate_holes_on_upper_bound, remove_redundant_holes,
update_consistency, add_domain_description_to_vector}`).

The minimiser rewrites the conjunction of the predicates of a nogood, variable by variable, into a
description of the resulting domain relative to the variable's *original* domain. `minimiseVar_sem`:
for every value of the original domain, the input predicates all hold iff the output predicates all
hold (and an inconsistent result means that no value of the original domain satisfies the input);
`minimise_sem` lifts this to assignments over several variables.
-/
import Pumpkin.Spec.Basic

namespace Pumpkin.SemMin

structure SD where
  lb : Int
  ub : Int
  holes : List Int
  inc : Bool := false
deriving Repr

/-- the values the simple domain stands for -/
def SD.Sem (d : SD) (z : Int) : Prop := d.inc = false ∧ d.lb ≤ z ∧ z ≤ d.ub ∧ z ∉ d.holes

/-- `apply_predicates`, one predicate (all predicates here are over the domain's variable) -/
def applyAtom (d : SD) : Atom → SD
  | .ge _ v => { d with lb := max d.lb v }
  | .le _ v => { d with ub := min d.ub v }
  | .ne _ v => if d.lb ≤ v ∧ v ≤ d.ub ∧ v ∉ d.holes then { d with holes := v :: d.holes } else d   -- a `HashSet` insert
  | .eq _ v => if d.lb > d.ub ∨ d.lb > v ∨ d.ub < v then { d with inc := true } else { d with lb := v, ub := v }

/-- `propagate_holes_on_lower_bound` (the `while` loop with fuel) -/
def raiseLb : Nat → SD → SD
  | 0, d => d
  | f + 1, d => if d.holes.contains d.lb && decide (d.lb ≤ d.ub) then raiseLb f { d with lb := d.lb + 1 } else d

/-- `propagate_holes_on_upper_bound` -/
def lowerUb : Nat → SD → SD
  | 0, d => d
  | f + 1, d => if d.holes.contains d.ub && decide (d.lb ≤ d.ub) then lowerUb f { d with ub := d.ub - 1 } else d

/-- `remove_redundant_holes` -/
def dropHoles (d : SD) : SD :=
  if d.inc then d else { d with holes := d.holes.filter (fun h => decide (d.lb < h) && decide (h < d.ub)) }

/-- `update_consistency` -/
def updInc (d : SD) : SD := if d.inc then d else { d with inc := decide (d.lb > d.ub) }

def fuelOf (d : SD) : Nat := (d.ub - d.lb + 1).toNat + 1

def finish (d : SD) : SD :=
  let d1 := raiseLb (fuelOf d) d
  let d2 := lowerUb (fuelOf d1) d1
  updInc (dropHoles d2)

/-- `add_domain_description_to_vector` -/
def describe (x : Nat) (d orig : SD) (merge : Bool) : List Atom :=
  if merge && decide (d.lb = d.ub) && decide (d.lb ≠ orig.lb) && decide (d.ub ≠ orig.ub) then [.eq x d.lb]
  else
    (if d.lb ≠ orig.lb then [Atom.ge x d.lb] else []) ++
    (if d.ub ≠ orig.ub then [Atom.le x d.ub] else []) ++
    (d.holes.filter (fun h => decide (d.lb < h) && decide (h < d.ub) && !orig.holes.contains h)).map (Atom.ne x)

/-- the minimiser on the predicates of one variable; `none` = inconsistent (the code then answers
with the trivially false predicate) -/
def minimiseVar (x : Nat) (orig : SD) (preds : List Atom) (merge : Bool) : Option (List Atom) :=
  let d := finish (preds.foldl applyAtom orig)
  if d.inc then none else some (describe x d orig merge)

/-! ### semantics -/

theorem applyAtom_sem (d : SD) (p : Atom) (z : Int) : (applyAtom d p).Sem z ↔ d.Sem z ∧ p.holdsVal z = true := by
  cases p with
  | ge x v =>
    simp only [applyAtom, SD.Sem, Atom.holdsVal, decide_eq_true_eq]
    constructor
    · rintro ⟨h1, h2, h3, h4⟩; exact ⟨⟨h1, by omega, h3, h4⟩, by omega⟩
    · rintro ⟨⟨h1, h2, h3, h4⟩, h5⟩; exact ⟨h1, by omega, h3, h4⟩
  | le x v =>
    simp only [applyAtom, SD.Sem, Atom.holdsVal, decide_eq_true_eq]
    constructor
    · rintro ⟨h1, h2, h3, h4⟩; exact ⟨⟨h1, h2, by omega, h4⟩, by omega⟩
    · rintro ⟨⟨h1, h2, h3, h4⟩, h5⟩; exact ⟨h1, h2, by omega, h4⟩
  | ne x v =>
    simp only [applyAtom, Atom.holdsVal, decide_eq_true_eq]
    by_cases hb : d.lb ≤ v ∧ v ≤ d.ub ∧ v ∉ d.holes
    · simp only [hb, not_false_eq_true, and_self, if_true, SD.Sem, List.mem_cons, not_or]
      constructor
      · rintro ⟨h1, h2, h3, h4, h5⟩; exact ⟨⟨h1, h2, h3, h5⟩, h4⟩
      · rintro ⟨⟨h1, h2, h3, h4⟩, h5⟩; exact ⟨h1, h2, h3, h5, h4⟩
    · simp only [hb, if_false, SD.Sem]
      constructor
      · rintro ⟨h1, h2, h3, h4⟩
        refine ⟨⟨h1, h2, h3, h4⟩, ?_⟩
        intro h; subst h
        exact hb ⟨h2, h3, h4⟩
      · rintro ⟨h, _⟩; exact h
  | eq x v =>
    simp only [applyAtom, Atom.holdsVal, decide_eq_true_eq]
    by_cases hb : d.lb > d.ub ∨ d.lb > v ∨ d.ub < v
    · simp only [hb, if_true, SD.Sem]
      constructor
      · rintro ⟨h1, _⟩; cases h1
      · rintro ⟨⟨h1, h2, h3, h4⟩, h5⟩; subst h5; omega
    · simp only [hb, if_false, SD.Sem]
      constructor
      · rintro ⟨h1, h2, h3, h4⟩
        have : z = v := by omega
        subst this
        exact ⟨⟨h1, by omega, by omega, h4⟩, rfl⟩
      · rintro ⟨⟨h1, h2, h3, h4⟩, h5⟩; subst h5; exact ⟨h1, by omega, by omega, h4⟩

theorem foldl_applyAtom_sem (preds : List Atom) (d : SD) (z : Int) :
    (preds.foldl applyAtom d).Sem z ↔ d.Sem z ∧ ∀ p ∈ preds, p.holdsVal z = true := by
  induction preds generalizing d with
  | nil => simp
  | cons p ps ih =>
    simp only [List.foldl_cons, ih, applyAtom_sem, List.mem_cons, forall_eq_or_imp]
    constructor
    · rintro ⟨⟨h1, h2⟩, h3⟩; exact ⟨h1, h2, h3⟩
    · rintro ⟨h1, h2, h3⟩; exact ⟨⟨h1, h2⟩, h3⟩

theorem raiseLb_sem (f : Nat) (d : SD) (z : Int) : (raiseLb f d).Sem z ↔ d.Sem z := by
  induction f generalizing d with
  | zero => rfl
  | succ f ih =>
    simp only [raiseLb]
    by_cases hc : (d.holes.contains d.lb && decide (d.lb ≤ d.ub)) = true
    · simp only [hc, if_true, ih]
      simp only [Bool.and_eq_true, List.contains_iff_mem, decide_eq_true_eq] at hc
      simp only [SD.Sem]
      constructor
      · rintro ⟨h1, h2, h3, h4⟩; exact ⟨h1, by omega, h3, h4⟩
      · rintro ⟨h1, h2, h3, h4⟩
        refine ⟨h1, ?_, h3, h4⟩
        by_cases he : z = d.lb
        · subst he; exact absurd hc.1 h4
        · omega
    · simp only [hc, Bool.false_eq_true, if_false]

theorem lowerUb_sem (f : Nat) (d : SD) (z : Int) : (lowerUb f d).Sem z ↔ d.Sem z := by
  induction f generalizing d with
  | zero => rfl
  | succ f ih =>
    simp only [lowerUb]
    by_cases hc : (d.holes.contains d.ub && decide (d.lb ≤ d.ub)) = true
    · simp only [hc, if_true, ih]
      simp only [Bool.and_eq_true, List.contains_iff_mem, decide_eq_true_eq] at hc
      simp only [SD.Sem]
      constructor
      · rintro ⟨h1, h2, h3, h4⟩; exact ⟨h1, h2, by omega, h4⟩
      · rintro ⟨h1, h2, h3, h4⟩
        refine ⟨h1, h2, ?_, h4⟩
        by_cases he : z = d.ub
        · subst he; exact absurd hc.1 h4
        · omega
    · simp only [hc, Bool.false_eq_true, if_false]

/-- the loops only change the bound they are about, and never the holes or the flag -/
theorem raiseLb_fields (f : Nat) (d : SD) :
    (raiseLb f d).ub = d.ub ∧ (raiseLb f d).holes = d.holes ∧ (raiseLb f d).inc = d.inc ∧ d.lb ≤ (raiseLb f d).lb := by
  induction f generalizing d with
  | zero => exact ⟨rfl, rfl, rfl, Int.le_refl _⟩
  | succ f ih =>
    simp only [raiseLb]
    split
    · have := ih { d with lb := d.lb + 1 }
      exact ⟨this.1, this.2.1, this.2.2.1, by have := this.2.2.2; simp only at this; omega⟩
    · exact ⟨rfl, rfl, rfl, Int.le_refl _⟩

theorem lowerUb_fields (f : Nat) (d : SD) :
    (lowerUb f d).lb = d.lb ∧ (lowerUb f d).holes = d.holes ∧ (lowerUb f d).inc = d.inc ∧ (lowerUb f d).ub ≤ d.ub := by
  induction f generalizing d with
  | zero => exact ⟨rfl, rfl, rfl, Int.le_refl _⟩
  | succ f ih =>
    simp only [lowerUb]
    split
    · have := ih { d with ub := d.ub - 1 }
      exact ⟨this.1, this.2.1, this.2.2.1, by have := this.2.2.2; simp only at this; omega⟩
    · exact ⟨rfl, rfl, rfl, Int.le_refl _⟩

/-- with enough fuel the lower-bound loop has run to its exit condition -/
theorem raiseLb_done (f : Nat) (d : SD) (hf : (d.ub - d.lb + 1).toNat < f) :
    (raiseLb f d).lb > (raiseLb f d).ub ∨ (raiseLb f d).lb ∉ (raiseLb f d).holes := by
  induction f generalizing d with
  | zero => omega
  | succ f ih =>
    simp only [raiseLb]
    by_cases hc : (d.holes.contains d.lb && decide (d.lb ≤ d.ub)) = true
    · simp only [hc, if_true]
      simp only [Bool.and_eq_true, List.contains_iff_mem, decide_eq_true_eq] at hc
      apply ih
      simp only
      omega
    · simp only [hc, Bool.false_eq_true, if_false]
      simp only [Bool.and_eq_true, List.contains_iff_mem, decide_eq_true_eq, not_and] at hc
      by_cases hm : d.lb ∈ d.holes
      · left; have := hc hm; omega
      · right; exact hm

theorem lowerUb_done (f : Nat) (d : SD) (hf : (d.ub - d.lb + 1).toNat < f) :
    (lowerUb f d).lb > (lowerUb f d).ub ∨ (lowerUb f d).ub ∉ (lowerUb f d).holes := by
  induction f generalizing d with
  | zero => omega
  | succ f ih =>
    simp only [lowerUb]
    by_cases hc : (d.holes.contains d.ub && decide (d.lb ≤ d.ub)) = true
    · simp only [hc, if_true]
      simp only [Bool.and_eq_true, List.contains_iff_mem, decide_eq_true_eq] at hc
      apply ih
      simp only
      omega
    · simp only [hc, Bool.false_eq_true, if_false]
      simp only [Bool.and_eq_true, List.contains_iff_mem, decide_eq_true_eq, not_and] at hc
      by_cases hm : d.ub ∈ d.holes
      · left; have := hc hm; omega
      · right; exact hm

/-- what `finish` establishes besides preserving the meaning -/
structure Normal (d : SD) : Prop where
  bounds : d.inc = false → d.lb ≤ d.ub
  lbFree : d.inc = false → d.lb ∉ d.holes
  ubFree : d.inc = false → d.ub ∉ d.holes
  inside : d.inc = false → ∀ h ∈ d.holes, d.lb < h ∧ h < d.ub

theorem finish_sem (d : SD) (z : Int) : (finish d).Sem z ↔ d.Sem z := by
  unfold finish
  simp only
  generalize hd1 : raiseLb (fuelOf d) d = d1
  generalize hd2 : lowerUb (fuelOf d1) d1 = d2
  have h1 : d1.Sem z ↔ d.Sem z := by rw [← hd1]; exact raiseLb_sem _ _ _
  have h2 : d2.Sem z ↔ d1.Sem z := by rw [← hd2]; exact lowerUb_sem _ _ _
  have hdone1 : d1.lb > d1.ub ∨ d1.lb ∉ d1.holes := by
    rw [← hd1]; exact raiseLb_done _ _ (by simp [fuelOf])
  have hdone2 : d2.lb > d2.ub ∨ d2.ub ∉ d2.holes := by
    rw [← hd2]; exact lowerUb_done _ _ (by simp [fuelOf])
  have hf2 := lowerUb_fields (fuelOf d1) d1
  rw [hd2] at hf2
  -- the lower bound is still not a hole after the upper-bound loop (or the domain is empty)
  have hlb2 : d2.lb > d2.ub ∨ d2.lb ∉ d2.holes ∨ d1.lb > d1.ub := by
    rcases hdone1 with h | h
    · right; right; exact h
    · right; left; rw [hf2.1, hf2.2.1]; exact h
  rw [← h1, ← h2]
  -- dropHoles and updInc
  unfold updInc dropHoles
  by_cases hinc : d2.inc = true
  · simp [hinc, SD.Sem]
  · have hinc' : d2.inc = false := by simpa using hinc
    simp only [hinc', Bool.false_eq_true, if_false, SD.Sem, decide_eq_false_iff_not, Int.not_lt,
      List.mem_filter, Bool.and_eq_true, decide_eq_true_eq, not_and, true_and]
    constructor
    · rintro ⟨hle, h2', h3', h4'⟩
      refine ⟨h2', h3', ?_⟩
      intro hm
      -- z is a hole of d2: it is strictly inside, so it survives the filter
      have hzlb : z ≠ d2.lb := by
        intro he; subst he
        rcases hlb2 with h | h | h
        · omega
        · exact h hm
        · have := hf2.1; have := hf2.2.2.2; omega
      have hzub : z ≠ d2.ub := by
        intro he; subst he
        rcases hdone2 with h | h
        · omega
        · exact h hm
      have := h4' hm (by omega)
      omega
    · rintro ⟨h2', h3', h4'⟩
      exact ⟨by omega, h2', h3', fun hm _ => absurd hm h4'⟩

theorem finish_normal (d : SD) : Normal (finish d) := by
  unfold finish
  simp only
  generalize raiseLb (fuelOf d) d = d1
  generalize lowerUb (fuelOf d1) d1 = d2
  unfold updInc dropHoles
  by_cases hinc : d2.inc = true
  · constructor <;> simp [hinc]
  · have hinc' : d2.inc = false := by simpa using hinc
    simp only [hinc', Bool.false_eq_true, if_false]
    constructor
    · intro h; simp only [decide_eq_false_iff_not, Int.not_lt] at h; exact h
    · intro _; simp only [List.mem_filter, Bool.and_eq_true, decide_eq_true_eq, not_and]; intro _ h; omega
    · intro _; simp only [List.mem_filter, Bool.and_eq_true, decide_eq_true_eq, not_and]; intro _ _; omega
    · intro _ h hh
      simp only [List.mem_filter, Bool.and_eq_true, decide_eq_true_eq] at hh
      exact hh.2

/-- bounds only tighten while predicates are applied -/
theorem applyAtom_bounds (d : SD) (p : Atom) (h : d.lb ≤ d.ub ∨ True) :
    d.lb ≤ (applyAtom d p).lb ∧ (applyAtom d p).ub ≤ d.ub := by
  cases p with
  | ge x v => simp only [applyAtom]; omega
  | le x v => simp only [applyAtom]; omega
  | ne x v => simp only [applyAtom]; split <;> simp
  | eq x v =>
    simp only [applyAtom]
    split
    · simp
    · rename_i hb; simp only; omega

theorem foldl_bounds (preds : List Atom) (d : SD) :
    d.lb ≤ (preds.foldl applyAtom d).lb ∧ (preds.foldl applyAtom d).ub ≤ d.ub := by
  induction preds generalizing d with
  | nil => exact ⟨Int.le_refl _, Int.le_refl _⟩
  | cons p ps ih =>
    have h1 := applyAtom_bounds d p (Or.inr trivial)
    have h2 := ih (applyAtom d p)
    simp only [List.foldl_cons]
    omega

theorem finish_bounds (d : SD) : d.lb ≤ (finish d).lb ∧ (finish d).ub ≤ d.ub := by
  unfold finish
  simp only
  have h1 := raiseLb_fields (fuelOf d) d
  generalize raiseLb (fuelOf d) d = d1 at h1
  have h2 := lowerUb_fields (fuelOf d1) d1
  generalize lowerUb (fuelOf d1) d1 = d2 at h2
  have : (updInc (dropHoles d2)).lb = d2.lb ∧ (updInc (dropHoles d2)).ub = d2.ub := by
    unfold updInc dropHoles
    by_cases hinc : d2.inc = true
    · simp [hinc]
    · have hinc' : d2.inc = false := by simpa using hinc
      simp [hinc']
  rw [this.1, this.2]
  omega

/-- **The description means the domain** (relative to the original domain): for a value of the
original domain, membership in the normalised domain is the same as satisfying the description. -/
theorem describe_sem (x : Nat) (d orig : SD) (merge : Bool) (hn : Normal d) (hinc : d.inc = false)
    (z : Int) (hz : orig.Sem z) :
    d.Sem z ↔ ∀ q ∈ describe x d orig merge, q.holdsVal z = true := by
  have hb := hn.bounds hinc
  have hlf := hn.lbFree hinc
  unfold describe
  by_cases hm : (merge && decide (d.lb = d.ub) && decide (d.lb ≠ orig.lb) && decide (d.ub ≠ orig.ub)) = true
  · simp only [hm, if_true, List.mem_singleton, forall_eq, Atom.holdsVal, decide_eq_true_eq, SD.Sem, hinc, true_and]
    simp only [Bool.and_eq_true, decide_eq_true_eq] at hm
    constructor
    · rintro ⟨h1, h2, _⟩; omega
    · intro h; subst h; exact ⟨Int.le_refl _, by omega, hlf⟩
  · simp only [hm, Bool.false_eq_true, if_false, List.mem_append, List.mem_map, List.mem_filter,
      Bool.and_eq_true, decide_eq_true_eq, Bool.not_eq_true', SD.Sem, hinc, true_and]
    obtain ⟨_, hz1, hz2, hz3⟩ := hz
    constructor
    · rintro ⟨h1, h2, h3⟩ q hq
      rcases hq with (hq | hq) | ⟨h, ⟨hh, _⟩, rfl⟩
      · split at hq
        · simp only [List.mem_singleton] at hq; subst hq; simp [Atom.holdsVal]; exact h1
        · cases hq
      · split at hq
        · simp only [List.mem_singleton] at hq; subst hq; simp [Atom.holdsVal]; exact h2
        · cases hq
      · simp only [Atom.holdsVal, decide_eq_true_eq]
        intro he; subst he; exact h3 hh
    · intro hall
      refine ⟨?_, ?_, ?_⟩
      · by_cases he : d.lb = orig.lb
        · omega
        · have := hall (Atom.ge x d.lb) (Or.inl (Or.inl (by simp [he])))
          simpa [Atom.holdsVal] using this
      · by_cases he : d.ub = orig.ub
        · omega
        · have := hall (Atom.le x d.ub) (Or.inl (Or.inr (by simp [he])))
          simpa [Atom.holdsVal] using this
      · intro hh
        have hin := hn.inside hinc z hh
        by_cases ho : orig.holes.contains z = true
        · exact hz3 (by simpa using ho)
        · have := hall (Atom.ne x z) (Or.inr ⟨z, ⟨hh, ⟨hin.1, hin.2⟩, by simpa using ho⟩, rfl⟩)
          simp [Atom.holdsVal] at this

/-- **The semantic minimiser preserves the meaning of the predicates of one variable** over the
variable's original domain; an inconsistent result means the predicates cannot all hold there. -/
theorem minimiseVar_sem (x : Nat) (orig : SD) (preds : List Atom) (merge : Bool) (z : Int)
    (hz : orig.Sem z) :
    (∀ p ∈ preds, p.holdsVal z = true) ↔
      (match minimiseVar x orig preds merge with
       | none => False
       | some out => ∀ q ∈ out, q.holdsVal z = true) := by
  unfold minimiseVar
  simp only
  generalize hd : finish (preds.foldl applyAtom orig) = d
  have hsem : d.Sem z ↔ (∀ p ∈ preds, p.holdsVal z = true) := by
    rw [← hd, finish_sem, foldl_applyAtom_sem]
    exact ⟨fun h => h.2, fun h => ⟨hz, h⟩⟩
  have hn : Normal d := by rw [← hd]; exact finish_normal _
  have hb1 := foldl_bounds preds orig
  have hb2 := finish_bounds (preds.foldl applyAtom orig)
  rw [hd] at hb2
  by_cases hinc : d.inc = true
  · simp only [hinc, if_true]
    rw [← hsem]
    simp [SD.Sem, hinc]
  · have hinc' : d.inc = false := by simpa using hinc
    simp only [hinc', Bool.false_eq_true, if_false]
    rw [← hsem]
    exact describe_sem x d orig merge hn hinc' z hz

example : minimiseVar 0 ⟨0, 10, [], false⟩ [.ge 0 3, .le 0 3] true = some [.eq 0 3] := by decide
example : minimiseVar 0 ⟨0, 10, [], false⟩ [.ge 0 3, .le 0 3] false = some [.ge 0 3, .le 0 3] := by decide
example : minimiseVar 0 ⟨0, 10, [], false⟩ [.ge 0 5, .le 0 4] true = none := by decide
example : minimiseVar 0 ⟨0, 10, [], false⟩ [.ne 0 5, .ge 0 5, .le 0 5] true = none := by decide
example : minimiseVar 0 ⟨0, 10, [4], false⟩ [.ge 0 3, .ne 0 3, .ne 0 7, .ge 0 0] true = some [.ge 0 5, .ne 0 7] := by decide

/-! ### several variables -/

def minimiseVars (orig : Nat → SD) (ng : List Atom) (merge : Bool) : List Nat → Option (List Atom)
  | [] => some []
  | x :: xs =>
    match minimiseVar x (orig x) (ng.filter (fun p => p.var == x)) merge with
    | none => none
    | some out =>
      match minimiseVars orig ng merge xs with
      | none => none
      | some rest => some (out ++ rest)

/-- `SemanticMinimiser::minimise`: the variables are treated in the order of their first occurrence;
`none` stands for the answer `[trivially false]` -/
def minimise (orig : Nat → SD) (ng : List Atom) (merge : Bool) : Option (List Atom) :=
  minimiseVars orig ng merge (ng.map Atom.var).eraseDups

theorem describe_var (x : Nat) (d orig : SD) (merge : Bool) : ∀ q ∈ describe x d orig merge, q.var = x := by
  intro q hq
  unfold describe at hq
  split at hq
  · simp only [List.mem_singleton] at hq; subst hq; rfl
  · simp only [List.mem_append, List.mem_map] at hq
    rcases hq with (hq | hq) | ⟨h, _, rfl⟩
    · split at hq
      · simp only [List.mem_singleton] at hq; subst hq; rfl
      · cases hq
    · split at hq
      · simp only [List.mem_singleton] at hq; subst hq; rfl
      · cases hq
    · rfl

theorem minimiseVar_var (x : Nat) (orig : SD) (preds : List Atom) (merge : Bool) (out : List Atom)
    (h : minimiseVar x orig preds merge = some out) : ∀ q ∈ out, q.var = x := by
  unfold minimiseVar at h
  simp only at h
  split at h
  · cases h
  · simp only [Option.some.injEq] at h; subst h; exact describe_var _ _ _ _

theorem minimiseVars_sem (orig : Nat → SD) (ng : List Atom) (merge : Bool) (xs : List Nat)
    (a : List Int) (ha : ∀ x, (orig x).Sem (val a x)) :
    (∀ p ∈ ng, p.var ∈ xs → p.holds a = true) ↔
      (match minimiseVars orig ng merge xs with
       | none => False
       | some out => ∀ q ∈ out, q.holds a = true) := by
  induction xs with
  | nil => simp [minimiseVars]
  | cons x xs ih =>
    have hx := minimiseVar_sem x (orig x) (ng.filter (fun p => p.var == x)) merge (val a x) (ha x)
    have hfilter : (∀ p ∈ ng.filter (fun p => p.var == x), p.holdsVal (val a x) = true) ↔
        (∀ p ∈ ng, p.var = x → p.holds a = true) := by
      simp only [List.mem_filter, beq_iff_eq, and_imp]
      constructor
      · intro h p hp hv; have := h p hp hv; unfold Atom.holds; rw [hv]; exact this
      · intro h p hp hv; have := h p hp hv; unfold Atom.holds at this; rw [hv] at this; exact this
    have hsplit : (∀ p ∈ ng, p.var ∈ x :: xs → p.holds a = true) ↔
        ((∀ p ∈ ng, p.var = x → p.holds a = true) ∧ (∀ p ∈ ng, p.var ∈ xs → p.holds a = true)) := by
      constructor
      · intro h; exact ⟨fun p hp hv => h p hp (by simp [hv]), fun p hp hv => h p hp (List.mem_cons_of_mem _ hv)⟩
      · rintro ⟨h1, h2⟩ p hp hv
        simp only [List.mem_cons] at hv
        rcases hv with hv | hv
        · exact h1 p hp hv
        · exact h2 p hp hv
    rw [hsplit, ← hfilter, hx, ih]
    simp only [minimiseVars]
    cases hm : minimiseVar x (orig x) (ng.filter (fun p => p.var == x)) merge with
    | none => simp
    | some out =>
      have hv := minimiseVar_var x (orig x) _ merge out hm
      cases hr : minimiseVars orig ng merge xs with
      | none => simp
      | some rest =>
        simp only [List.mem_append]
        constructor
        · rintro ⟨h1, h2⟩ q hq
          rcases hq with hq | hq
          · have := h1 q hq; unfold Atom.holds; rw [hv q hq]; exact this
          · exact h2 q hq
        · intro h
          refine ⟨fun q hq => ?_, fun q hq => h q (Or.inr hq)⟩
          have := h q (Or.inl hq)
          unfold Atom.holds at this; rw [hv q hq] at this; exact this

/-- **The semantic minimiser preserves the meaning of a nogood**: for every assignment within the
original domains, the predicates of the nogood all hold iff the predicates of the result all hold;
the answer "trivially false" is given only for a nogood no such assignment satisfies. -/
theorem minimise_sem (orig : Nat → SD) (ng : List Atom) (merge : Bool) (a : List Int)
    (ha : ∀ x, (orig x).Sem (val a x)) :
    (∀ p ∈ ng, p.holds a = true) ↔
      (match minimise orig ng merge with
       | none => False
       | some out => ∀ q ∈ out, q.holds a = true) := by
  unfold minimise
  rw [← minimiseVars_sem orig ng merge _ a ha]
  constructor
  · intro h p hp _; exact h p hp
  · intro h p hp
    apply h p hp
    rw [List.mem_eraseDups]
    exact List.mem_map.2 ⟨p, hp, rfl⟩

end Pumpkin.SemMin
