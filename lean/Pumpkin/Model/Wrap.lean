/-
32/64-bit instantiation of the arithmetic of `affine_view.rs` and of the linear propagator's
bound computation, operation by operation as written in the Rust source. `wrap32` is two's
complement wrap-around (what a release build does; a build with overflow checks panics exactly
when `wrap32 z ≠ z`).
-/
import Pumpkin.Spec.Basic
import Pumpkin.Model.NumExt

namespace Pumpkin

def wrap32 (z : Int) : Int := (z + 2147483648) % 4294967296 - 2147483648
def wrap64 (z : Int) : Int := (z + 9223372036854775808) % 18446744073709551616 - 9223372036854775808

def fits32 (z : Int) : Prop := -2147483648 ≤ z ∧ z ≤ 2147483647
def fits64 (z : Int) : Prop := -9223372036854775808 ≤ z ∧ z ≤ 9223372036854775807

instance (z : Int) : Decidable (fits32 z) := by unfold fits32; infer_instance
instance (z : Int) : Decidable (fits64 z) := by unfold fits64; infer_instance

theorem wrap32_of_fits {z : Int} (h : fits32 z) : wrap32 z = z := by
  unfold fits32 at h; unfold wrap32; omega

theorem wrap32_ne_of_not_fits {z : Int} (h : ¬ fits32 z) : wrap32 z ≠ z := by
  unfold fits32 at h; unfold wrap32; omega

theorem wrap32_fits (z : Int) : fits32 (wrap32 z) := by
  unfold fits32 wrap32; omega

theorem wrap64_of_fits {z : Int} (h : fits64 z) : wrap64 z = z := by
  unfold fits64 at h; unfold wrap64; omega

/-- `AffineView::map`: `self.scale * value + self.offset` in `i32` -/
def View.map32 (w : View) (x : Int) : Int := wrap32 (wrap32 (w.scale * x) + w.offset)

/-- The view value is computed exactly iff neither the product nor the sum leaves `i32`. -/
theorem View.map32_exact (w : View) (x : Int) (h1 : fits32 (w.scale * x))
    (h2 : fits32 (w.scale * x + w.offset)) : w.map32 x = w.scale * x + w.offset := by
  unfold View.map32
  rw [wrap32_of_fits h1, wrap32_of_fits h2]

theorem View.map32_wraps (w : View) (x : Int) (h1 : fits32 (w.scale * x))
    (h2 : ¬ fits32 (w.scale * x + w.offset)) : w.map32 x ≠ w.scale * x + w.offset := by
  unfold View.map32
  rw [wrap32_of_fits h1]
  exact wrap32_ne_of_not_fits h2

/-- `LinearLessOrEqualPropagator::propagate`: `self.c - (lower_bound_left_hand_side - lb_i)` in
`i32`, where the left-hand side bound was accumulated in `i64` and converted with `try_into`. -/
def linLeBound32 (c lbLhs lbI : Int) : Int := wrap32 (c - wrap32 (lbLhs - lbI))

theorem linLeBound32_exact (c lbLhs lbI : Int) (h1 : fits32 (lbLhs - lbI))
    (h2 : fits32 (c - (lbLhs - lbI))) : linLeBound32 c lbLhs lbI = c - (lbLhs - lbI) := by
  unfold linLeBound32
  rw [wrap32_of_fits h1, wrap32_of_fits h2]

/-- `IntegerMultiplicationPropagator`: products of bounds in `i32` -/
def mul32 (a b : Int) : Int := wrap32 (a * b)

theorem mul32_exact (a b : Int) (h : fits32 (a * b)) : mul32 a b = a * b := wrap32_of_fits h

end Pumpkin
