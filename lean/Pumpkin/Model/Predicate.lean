/-
Model of `engine/predicates/predicate.rs`:
`Predicate::is_mutually_exclusive_with` (lines 23-127) and `impl Not for Predicate`
(the latter is `Atom.neg` in Spec/Basic.lean).
-/
import Pumpkin.Spec.Basic

namespace Pumpkin

/-- mirrors the `match (self, other)` of `is_mutually_exclusive_with` arm by arm -/
def Atom.mutex : Atom → Atom → Bool
  | .ge _ _, .ge _ _ | .ge _ _, .ne _ _ | .le _ _, .le _ _ | .le _ _, .ne _ _
  | .ne _ _, .ge _ _ | .ne _ _, .le _ _ | .ne _ _, .ne _ _ => false
  | .ge x lb, .le y ub | .le y ub, .ge x lb => x == y && decide (lb > ub)
  | .ge x lb, .eq y v | .eq y v, .ge x lb => x == y && decide (lb > v)
  | .le x ub, .eq y v | .eq y v, .le x ub => x == y && decide (ub < v)
  | .ne x n, .eq y v | .eq y v, .ne x n => x == y && decide (v = n)
  | .eq x v, .eq y w => x == y && decide (v ≠ w)

/-- The code's test is exact: two predicates are reported mutually exclusive iff they are over the
same variable and no integer value satisfies both. -/
theorem Atom.mutex_iff (p q : Atom) :
    p.mutex q = true ↔ p.var = q.var ∧ ∀ z : Int, ¬ (p.holdsVal z = true ∧ q.holdsVal z = true) := by
  cases p with
  | ge x a =>
    cases q with
    | ge y b =>
      simp only [Atom.mutex, Atom.var, Atom.holdsVal, Bool.false_eq_true, false_iff, not_and,
        decide_eq_true_eq]
      intro _ h; exact absurd (h (max a b)) (by omega)
    | le y b =>
      simp only [Atom.mutex, Atom.var, Atom.holdsVal, Bool.and_eq_true, beq_iff_eq, decide_eq_true_eq]
      exact ⟨fun ⟨h1, h2⟩ => ⟨h1, fun z => by omega⟩, fun ⟨h1, h2⟩ => ⟨h1, by have := h2 a; omega⟩⟩
    | ne y b =>
      simp only [Atom.mutex, Atom.var, Atom.holdsVal, Bool.false_eq_true, false_iff, not_and,
        decide_eq_true_eq]
      intro _ h; exact absurd (h (max a b + 1)) (by omega)
    | eq y b =>
      simp only [Atom.mutex, Atom.var, Atom.holdsVal, Bool.and_eq_true, beq_iff_eq, decide_eq_true_eq]
      exact ⟨fun ⟨h1, h2⟩ => ⟨h1, fun z => by omega⟩, fun ⟨h1, h2⟩ => ⟨h1, by have := h2 b; omega⟩⟩
  | le x a =>
    cases q with
    | ge y b =>
      simp only [Atom.mutex, Atom.var, Atom.holdsVal, Bool.and_eq_true, beq_iff_eq, decide_eq_true_eq]
      exact ⟨fun ⟨h1, h2⟩ => ⟨h1.symm, fun z => by omega⟩, fun ⟨h1, h2⟩ => ⟨h1.symm, by have := h2 a; omega⟩⟩
    | le y b =>
      simp only [Atom.mutex, Atom.var, Atom.holdsVal, Bool.false_eq_true, false_iff, not_and,
        decide_eq_true_eq]
      intro _ h; exact absurd (h (min a b)) (by omega)
    | ne y b =>
      simp only [Atom.mutex, Atom.var, Atom.holdsVal, Bool.false_eq_true, false_iff, not_and,
        decide_eq_true_eq]
      intro _ h; exact absurd (h (min a b - 1)) (by omega)
    | eq y b =>
      simp only [Atom.mutex, Atom.var, Atom.holdsVal, Bool.and_eq_true, beq_iff_eq, decide_eq_true_eq]
      exact ⟨fun ⟨h1, h2⟩ => ⟨h1, fun z => by omega⟩, fun ⟨h1, h2⟩ => ⟨h1, by have := h2 b; omega⟩⟩
  | ne x a =>
    cases q with
    | ge y b =>
      simp only [Atom.mutex, Atom.var, Atom.holdsVal, Bool.false_eq_true, false_iff, not_and,
        decide_eq_true_eq]
      intro _ h; exact absurd (h (max a b + 1)) (by omega)
    | le y b =>
      simp only [Atom.mutex, Atom.var, Atom.holdsVal, Bool.false_eq_true, false_iff, not_and,
        decide_eq_true_eq]
      intro _ h; exact absurd (h (min a b - 1)) (by omega)
    | ne y b =>
      simp only [Atom.mutex, Atom.var, Atom.holdsVal, Bool.false_eq_true, false_iff, not_and,
        decide_eq_true_eq]
      intro _ h; exact absurd (h (max a b + 1)) (by omega)
    | eq y b =>
      simp only [Atom.mutex, Atom.var, Atom.holdsVal, Bool.and_eq_true, beq_iff_eq, decide_eq_true_eq]
      exact ⟨fun ⟨h1, h2⟩ => ⟨h1, fun z => by omega⟩, fun ⟨h1, h2⟩ => ⟨h1, by have := h2 b; omega⟩⟩
  | eq x a =>
    cases q with
    | ge y b =>
      simp only [Atom.mutex, Atom.var, Atom.holdsVal, Bool.and_eq_true, beq_iff_eq, decide_eq_true_eq]
      exact ⟨fun ⟨h1, h2⟩ => ⟨h1.symm, fun z => by omega⟩, fun ⟨h1, h2⟩ => ⟨h1.symm, by have := h2 a; omega⟩⟩
    | le y b =>
      simp only [Atom.mutex, Atom.var, Atom.holdsVal, Bool.and_eq_true, beq_iff_eq, decide_eq_true_eq]
      exact ⟨fun ⟨h1, h2⟩ => ⟨h1.symm, fun z => by omega⟩, fun ⟨h1, h2⟩ => ⟨h1.symm, by have := h2 a; omega⟩⟩
    | ne y b =>
      simp only [Atom.mutex, Atom.var, Atom.holdsVal, Bool.and_eq_true, beq_iff_eq, decide_eq_true_eq]
      exact ⟨fun ⟨h1, h2⟩ => ⟨h1.symm, fun z => by omega⟩, fun ⟨h1, h2⟩ => ⟨h1.symm, by have := h2 a; omega⟩⟩
    | eq y b =>
      simp only [Atom.mutex, Atom.var, Atom.holdsVal, Bool.and_eq_true, beq_iff_eq, decide_eq_true_eq]
      exact ⟨fun ⟨h1, h2⟩ => ⟨h1, fun z => by omega⟩, fun ⟨h1, h2⟩ => ⟨h1, by have := h2 a; omega⟩⟩

end Pumpkin
