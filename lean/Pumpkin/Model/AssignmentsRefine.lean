/-
The domain store refines the abstract domains of the propagator models: reading every variable's
values off the store gives a `Doms` (`toDoms`), and `post_predicate` on the store is `AtomRup.assume`
(= `Pg.postAtom` without the emptiness check) on that `Doms` — in every reachable state.
-/
import Pumpkin.Model.AssignmentsEvents
import Pumpkin.Check.AtomRup

namespace Pumpkin.Asg

open IDom St

def rangeI (lo hi : Int) : List Int := (List.range (hi + 1 - lo).toNat).map (fun (i : Nat) => lo + Int.ofNat i)

/-- the values of variable `x`, smallest first, within its declared interval -/
def vals (s : St) (x : Nat) : List Int :=
  (rangeI (s.dom x).initLb (s.dom x).initUb).filter (s.contains x)

def toDoms (s : St) : List (List Int) := (List.range s.doms.length).map (vals s)

theorem getLast?_cons_of_ne_nil {α} (a : α) (l : List α) (h : l ≠ []) : (a :: l).getLast? = l.getLast? := by
  cases l with
  | nil => exact absurd rfl h
  | cons b r => simp [List.getLast?_cons_cons]

theorem applyAtom_init (d : IDom) (a : Atom) (l pos : Nat) (h1 : d.lbs ≠ []) (h2 : d.ubs ≠ []) :
    (applyAtom d a l pos).initLb = d.initLb ∧ (applyAtom d a l pos).initUb = d.initUb := by
  unfold IDom.initLb IDom.initUb
  constructor
  · rcases applyAtom_lbs d a l pos with h | ⟨b, h⟩
    · rw [h]
    · rw [h, getLast?_cons_of_ne_nil _ _ h1]
  · rcases applyAtom_ubs d a l pos with h | ⟨b, h⟩
    · rw [h]
    · rw [h, getLast?_cons_of_ne_nil _ _ h2]

theorem inv_ne_nil (s : St) (h : Inv s) (x : Nat) (hx : x < s.doms.length) :
    (s.dom x).lbs ≠ [] ∧ (s.dom x).ubs ≠ [] := by
  have := lbs_ubs_ne_nil s.trail h.wf x (by rw [← h.doms]; exact hx)
  rw [St.dom, h.doms]; exact this

theorem postSimple_init (s : St) (h : Inv s) (p : Atom) (hp : p.var < s.doms.length) (x : Nat)
    (hx : x < s.doms.length) :
    ((s.postSimple p).dom x).initLb = (s.dom x).initLb ∧ ((s.postSimple p).dom x).initUb = (s.dom x).initUb := by
  rcases postSimple_cases s p with e | ⟨_, e⟩
  · rw [e]; exact ⟨rfl, rfl⟩
  · rw [e]
    simp only [St.dom]
    by_cases hxp : p.var = x
    · subst hxp
      rw [getD_set_self _ _ _ _ hp]
      have := inv_ne_nil s h p.var hp
      exact applyAtom_init _ _ _ _ this.1 this.2
    · rw [getD_set_ne _ _ _ _ _ hxp]; exact ⟨rfl, rfl⟩

theorem ite_fst_prop {P : St → Prop} (c : Prop) [Decidable c] (a b : St × Bool) (ha : P a.1) (hb : P b.1) :
    P (if c then a else b).1 := by split <;> assumption

theorem ite_prop {P : St → Prop} (c : Prop) [Decidable c] (a b : St) (ha : P a) (hb : P b) :
    P (if c then a else b) := by split <;> assumption

theorem post_length (s : St) (p : Atom) : (s.post p).1.doms.length = s.doms.length := by
  cases p with
  | eq x v =>
    have h1 : (if s.lb x < v then s.postSimple (.ge x v) else s).doms.length = s.doms.length :=
      ite_length _ _ _ _ (postSimple_length _ _) rfl
    unfold St.post
    apply ite_fst_prop (P := fun t => t.doms.length = s.doms.length)
    · exact h1
    · apply ite_prop (P := fun t => t.doms.length = s.doms.length)
      · rw [postSimple_length]; exact h1
      · exact h1
  | ge x v => exact postSimple_length _ _
  | le x v => exact postSimple_length _ _
  | ne x v => exact postSimple_length _ _

theorem post_init (s : St) (h : Inv s) (p : Atom) (hp : p.var < s.doms.length) (x : Nat)
    (hx : x < s.doms.length) :
    ((s.post p).1.dom x).initLb = (s.dom x).initLb ∧ ((s.post p).1.dom x).initUb = (s.dom x).initUb := by
  cases p with
  | eq y v =>
    have hp' : (Atom.ge y v).var < s.doms.length := hp
    have a1 : ((if s.lb y < v then s.postSimple (.ge y v) else s).dom x).initLb = (s.dom x).initLb ∧
        ((if s.lb y < v then s.postSimple (.ge y v) else s).dom x).initUb = (s.dom x).initUb :=
      ite_prop (P := fun t => (t.dom x).initLb = (s.dom x).initLb ∧ (t.dom x).initUb = (s.dom x).initUb) _ _ _
        (postSimple_init s h _ hp' x hx) ⟨rfl, rfl⟩
    have hinv1 : Inv (if s.lb y < v then s.postSimple (.ge y v) else s) :=
      inv_ite _ _ _ (inv_postSimple s h _ hp') h
    have hl1 : (if s.lb y < v then s.postSimple (.ge y v) else s).doms.length = s.doms.length :=
      ite_length _ _ _ _ (postSimple_length _ _) rfl
    unfold St.post
    apply ite_fst_prop (P := fun t => (t.dom x).initLb = (s.dom x).initLb ∧ (t.dom x).initUb = (s.dom x).initUb)
    · exact a1
    · apply ite_prop (P := fun t => (t.dom x).initLb = (s.dom x).initLb ∧ (t.dom x).initUb = (s.dom x).initUb)
      · have := postSimple_init _ hinv1 (.le y v) (by rw [hl1]; exact hp) x (by rw [hl1]; exact hx)
        rw [this.1, this.2]; exact a1
      · exact a1
  | ge y v => exact postSimple_init s h _ hp x hx
  | le y v => exact postSimple_init s h _ hp x hx
  | ne y v => exact postSimple_init s h _ hp x hx

theorem getD_restrict (ds : List (List Int)) (x y : Nat) (f : Int → Bool) :
    (AtomRup.restrict ds x f).getD y [] = if y = x ∧ y < ds.length then (ds.getD y []).filter f else ds.getD y [] := by
  induction ds generalizing x y with
  | nil => simp [AtomRup.restrict]
  | cons d r ih =>
    cases x with
    | zero =>
      cases y with
      | zero => simp [AtomRup.restrict]
      | succ y => simp [AtomRup.restrict]
    | succ x =>
      cases y with
      | zero => simp [AtomRup.restrict]
      | succ y =>
        simp only [AtomRup.restrict, List.getD_cons_succ, List.length_cons]
        rw [ih]
        simp

/-- **Posting a predicate on the store is `assume` on the values read off the store.** -/
theorem post_refines (s : St) (h : Inv s) (p : Atom) (hp : p.var < s.doms.length) :
    toDoms (s.post p).1 = AtomRup.assume (toDoms s) p := by
  apply List.ext_getElem?
  intro y
  have hlen : (toDoms (s.post p).1).length = s.doms.length := by simp [toDoms, post_length]
  have hlen2 : (AtomRup.assume (toDoms s) p).length = s.doms.length := by
    simp [AtomRup.assume, AtomRup.restrict_length, toDoms]
  by_cases hy : y < s.doms.length
  · have e1 : (toDoms (s.post p).1)[y]? = some (vals (s.post p).1 y) := by
      simp [toDoms, post_length, hy]
    have e2 : (AtomRup.assume (toDoms s) p)[y]? = some ((AtomRup.assume (toDoms s) p).getD y []) := by
      rw [List.getD_eq_getElem?_getD, List.getElem?_eq_getElem (by rw [hlen2]; exact hy)]; rfl
    rw [e1, e2]
    congr 1
    unfold AtomRup.assume
    rw [getD_restrict]
    have hg : (toDoms s).getD y [] = vals s y := by
      simp [toDoms, List.getD_eq_getElem?_getD, hy]
    have hi := post_init s h p hp y hy
    have hc := fun v => post_contains s p hp y v
    unfold vals
    rw [hi.1, hi.2]
    by_cases hyp : y = p.var
    · have : y = p.var ∧ y < (toDoms s).length := ⟨hyp, by simp [toDoms, hy]⟩
      rw [if_pos this, hg]
      unfold vals
      rw [List.filter_filter]
      apply List.filter_congr
      intro v _
      have := hc v
      rw [Bool.eq_iff_iff, this, Bool.and_eq_true]
      constructor
      · rintro ⟨a, b⟩; exact ⟨b hyp, a⟩
      · rintro ⟨a, b⟩; exact ⟨b, fun _ => a⟩
    · have : ¬ (y = p.var ∧ y < (toDoms s).length) := fun hh => hyp hh.1
      rw [if_neg this, hg]
      unfold vals
      apply List.filter_congr
      intro v _
      have := hc v
      rw [Bool.eq_iff_iff, this]
      constructor
      · intro a; exact a.1
      · intro a; exact ⟨a, fun hh => absurd hh hyp⟩
  · have e1 : (toDoms (s.post p).1)[y]? = none := by
      rw [List.getElem?_eq_none_iff, hlen]; omega
    have e2 : (AtomRup.assume (toDoms s) p)[y]? = none := by
      rw [List.getElem?_eq_none_iff, hlen2]; omega
    rw [e1, e2]

end Pumpkin.Asg
