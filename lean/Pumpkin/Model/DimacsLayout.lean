/-
Layout independence of the DIMACS parser model (`Model/Dimacs.lean`): any file of the layout family
below — comment lines and blank space before the header, a header with arbitrary blank runs, and a
body in which literals and clause terminators are separated by arbitrary non-empty white-space runs
(spaces, tabs, CR, FF, line breaks), with comment lines wherever a line starts, clauses broken over
lines or several on one line — is parsed to exactly the formula it denotes.
-/
import Pumpkin.Model.Dimacs

namespace Pumpkin.Dimacs

/-! ### decimal rendering -/

/-- decimal digits, most significant first -/
def digits (n : Nat) : List Nat :=
  if h : n < 10 then [48 + n] else digits (n / 10) ++ [48 + n % 10]
termination_by n
decreasing_by omega

theorem natOfDigits_append (xs : List Nat) (d : Nat) :
    natOfDigits (xs ++ [d]) = natOfDigits xs * 10 + (d - 48) := by
  simp [natOfDigits, List.foldl_append]

theorem natOfDigits_digits (n : Nat) : natOfDigits (digits n) = n := by
  induction n using Nat.strongRecOn with
  | _ n ih =>
    rw [digits]
    by_cases h : n < 10
    · simp [h, natOfDigits]
    · simp only [h, dite_false]
      rw [natOfDigits_append, ih (n / 10) (by omega)]
      omega

theorem digits_all (n : Nat) : (digits n).all isDigit = true := by
  induction n using Nat.strongRecOn with
  | _ n ih =>
    rw [digits]
    by_cases h : n < 10
    · simp only [h, dite_true, List.all_cons, List.all_nil, Bool.and_true, isDigit]
      simp; omega
    · simp only [h, dite_false, List.all_append, ih (n / 10) (by omega), List.all_cons, List.all_nil,
        Bool.and_true, Bool.true_and, isDigit]
      simp; omega

/-- a positive number is rendered as a digit `1`–`9` followed by digits -/
theorem digits_pos (n : Nat) (hn : 0 < n) :
    ∃ d rest, digits n = d :: rest ∧ isDigit19 d = true ∧ rest.all isDigit = true := by
  induction n using Nat.strongRecOn with
  | _ n ih =>
    rw [digits]
    by_cases h : n < 10
    · refine ⟨48 + n, [], by simp [h], ?_, rfl⟩
      simp [isDigit19]; omega
    · simp only [h, dite_false]
      obtain ⟨d, rest, hd, h19, hr⟩ := ih (n / 10) (by omega) (by omega)
      refine ⟨d, rest ++ [48 + n % 10], by rw [hd]; rfl, h19, ?_⟩
      simp only [List.all_append, hr, List.all_cons, List.all_nil, Bool.and_true, Bool.true_and, isDigit]
      simp; omega

theorem isDigit19_isDigit {d : Nat} (h : isDigit19 d = true) : isDigit d = true := by
  simp [isDigit19, isDigit] at *; omega

theorem digits_ne_nil (n : Nat) : digits n ≠ [] := by
  rw [digits]; by_cases h : n < 10 <;> simp [h]

/-- the first byte of a rendered number is a digit (in particular neither `-` nor `+`) -/
theorem digits_head (n : Nat) : ∃ d rest, digits n = d :: rest ∧ isDigit d = true := by
  have h := digits_all n
  cases hd : digits n with
  | nil => exact absurd hd (digits_ne_nil n)
  | cons d rest =>
    rw [hd] at h
    simp only [List.all_cons, Bool.and_eq_true] at h
    exact ⟨d, rest, rfl, h.1⟩

/-- rendering of a non-zero literal -/
def renderLit (z : Int) : List Nat := if z > 0 then digits z.natAbs else 45 :: digits z.natAbs

theorem parseI32_digits (n : Nat) (h : n ≤ 2147483647) : parseI32 (digits n) = some (n : Int) := by
  obtain ⟨d, rest, hd, hdig⟩ := digits_head n
  have h45 : d ≠ 45 := by intro h; subst h; simp [isDigit] at hdig
  have hall := digits_all n
  have hval := natOfDigits_digits n
  rw [hd] at hall hval ⊢
  unfold parseI32
  split
  · rename_i ds heq
    simp only [List.cons.injEq] at heq
    exact absurd heq.1 h45
  · simp only [List.isEmpty_cons, Bool.false_or, hall, Bool.not_true, Bool.false_eq_true, if_false, hval]
    simp [h]

theorem parseI32_neg_digits (n : Nat) (h : n ≤ 2147483648) :
    parseI32 (45 :: digits n) = some (-(n : Int)) := by
  have hall := digits_all n
  have hval := natOfDigits_digits n
  have hne := digits_ne_nil n
  unfold parseI32
  simp only
  have : (digits n).isEmpty = false := by
    cases hd : digits n with
    | nil => exact absurd hd hne
    | cons _ _ => rfl
  simp [this, hall, hval, h]

theorem parseUsize_digits (n : Nat) (h : n ≤ 18446744073709551615) : parseUsize (digits n) = some n := by
  obtain ⟨d, rest, hd, hdig⟩ := digits_head n
  have h43 : d ≠ 43 := by intro h; subst h; simp [isDigit] at hdig
  have hall := digits_all n
  have hval := natOfDigits_digits n
  rw [hd] at hall hval ⊢
  have hs : stripPlus (d :: rest) = d :: rest := by
    unfold stripPlus
    split
    · rename_i r heq
      simp only [List.cons.injEq] at heq
      exact absurd heq.1 h43
    · rfl
  unfold parseUsize
  simp only [hs, List.isEmpty_cons, Bool.false_or, hall, Bool.not_true, Bool.false_eq_true, if_false, hval]
  simp [h]

/-! ### the parser on the pieces of a file -/

/-- in the body of a CNF file: between tokens, at the start of a line or inside a clause -/
def Body (p : P) : Prop := (p.st = .startLine ∨ p.st = .clause) ∧ p.wcnf = false

theorem isWs_not_special {b : Nat} (h : isWs b = true) :
    (b == 112) = false ∧ (b == 99) = false ∧ isDigit19 b = false ∧ (b == 48) = false ∧ (b == 45) = false := by
  simp only [isWs, Bool.or_eq_true, beq_iff_eq] at h
  simp only [isDigit19, beq_eq_false_iff_ne, ne_eq, Bool.and_eq_false_iff, decide_eq_false_iff_not, Nat.not_le]
  omega

/-- white space at the start of a line is skipped -/
theorem run_ws_startLine (p : P) (hst : p.st = .startLine) (w : List Nat) (hw : w.all isWs = true) :
    run p w = .ok p := by
  induction w with
  | nil => rfl
  | cons b bs ih =>
    simp only [List.all_cons, Bool.and_eq_true] at hw
    simp only [run, step, hst, hw.1, if_true]
    exact ih hw.2

/-- white space inside a clause is skipped; a line break moves to the start-of-line state -/
theorem run_ws_clause (p : P) (hst : p.st = .clause) (w : List Nat) (hw : w.all isWs = true) :
    run p w = .ok { p with st := if w.contains 10 then .startLine else .clause } := by
  induction w generalizing p with
  | nil => simp [run, ← hst]
  | cons b bs ih =>
    simp only [List.all_cons, Bool.and_eq_true] at hw
    have hns := isWs_not_special hw.1
    by_cases hb : b = 10
    · subst hb
      simp only [run, step, hst]
      have : run { p with st := PS.startLine } bs = .ok { p with st := PS.startLine } :=
        run_ws_startLine _ rfl bs hw.2
      simp [this]
    · have hb' : (b == 10) = false := by simpa using hb
      simp only [run, step, hst, hns.2.2.2.1, hb', hw.1, if_true, Bool.false_eq_true, if_false]
      rw [ih p hst hw.2]
      have hb'' : ((10 : Nat) == b) = false := by
        simp only [beq_eq_false_iff_ne, ne_eq]; exact fun h => hb h.symm
      have hne : ¬ (10 = b) := fun h => hb h.symm
      simp [hne]

/-- digits extend the literal buffer -/
theorem run_digits (p : P) (hst : p.st = .literal) (ds : List Nat) (hd : ds.all isDigit = true) :
    run p ds = .ok { p with buf := p.buf ++ ds } := by
  induction ds generalizing p with
  | nil => simp [run]
  | cons d rest ih =>
    simp only [List.all_cons, Bool.and_eq_true] at hd
    have hnw : isWs d = false := by
      have := hd.1
      simp only [isDigit, Bool.and_eq_true, decide_eq_true_eq] at this
      simp only [isWs, Bool.or_eq_false_iff, beq_eq_false_iff_ne, ne_eq]
      omega
    simp only [run, step, hst, hnw, hd.1, Bool.false_eq_true, if_false, if_true]
    have := ih { p with buf := p.buf ++ [d] } hst hd.2
    simp only [hst] at this
    rw [this]
    simp [List.append_assoc, hst]

/-- a comment line at the start of a line is skipped -/
theorem run_comment (p : P) (hst : p.st = .startLine) (text : List Nat) (ht : text.contains 10 = false) :
    run p (99 :: text ++ [10]) = .ok p := by
  have h99 : isWs 99 = false := by decide
  have hc : ∀ (q : P), q.st = .comment → ∀ t : List Nat, t.contains 10 = false →
      run q (t ++ [10]) = .ok { q with st := .startLine } := by
    intro q hq t
    induction t generalizing q with
    | nil => intro _; simp [run, step, hq]
    | cons b bs ih =>
      intro hb
      simp only [List.contains_cons, Bool.or_eq_false_iff] at hb
      have hb10 : (b == 10) = false := by
        have := hb.1
        simp only [beq_eq_false_iff_ne, ne_eq] at this ⊢
        exact fun h => this h.symm
      simp only [List.cons_append, run, step, hq, hb10, Bool.false_eq_true, if_false]
      exact ih q hq hb.2
  simp only [List.cons_append, run, step, hst, h99, Bool.false_eq_true, if_false]
  have : ((99 : Nat) == 112) = false := by decide
  simp only [this, Bool.false_eq_true, if_false, beq_self_eq_true, if_true]
  rw [hc { p with st := .comment } rfl text ht]
  simp [← hst]

/-- the clause terminator hands the clause to the sink -/
theorem run_zero (p : P) (hb : Body p) (h : (nv, nc) ∈ p.hdr) :
    run p [48] = .ok { p with out := p.out ++ [p.cur], cur := [] } := by
  have hh : p.hdr = some (nv, nc) := h
  have hw : isWs 48 = false := by decide
  obtain ⟨hb1, hwf⟩ := hb
  rcases hb1 with hst | hst
  · have e1 : ((48 : Nat) == 112) = false := by decide
    have e2 : ((48 : Nat) == 99) = false := by decide
    have e3 : isDigit19 48 = false := by decide
    simp [run, step, hst, hw, e1, e2, e3, finishClause, hh, hwf]
  · simp [run, step, hst, finishClause, hh, hwf]

/-- a literal followed by one white-space byte is added to the current clause -/
theorem run_literal (p : P) (hb : Body p) (z : Int) (hz : z ≠ 0)
    (hr : -2147483648 ≤ z ∧ z ≤ 2147483647) (w : Nat) (hw : isWs w = true) :
    run p (renderLit z ++ [w]) =
      .ok { p with st := if w == 10 then .startLine else .clause, cur := p.cur ++ [z], buf := renderLit z } := by
  -- after the first byte(s) the parser is in the literal state with the sign/first digit buffered
  have key : ∀ (q : P) (pre ds : List Nat), q.st = .literal → q.buf = pre → ds.all isDigit = true →
      parseI32 (pre ++ ds) = some z →
      run q (ds ++ [w]) = .ok { q with st := if w == 10 then .startLine else .clause,
                                        cur := q.cur ++ [z], buf := pre ++ ds } := by
    intro q pre ds hq hbuf hds hparse
    rw [run_append, run_digits q hq ds hds]
    simp only [run, step, hq, hw, if_true, finishLiteral, hbuf, hparse]
    by_cases h10 : w = 10
    · subst h10; simp
    · have : (w == 10) = false := by simpa using h10
      simp [this]
  by_cases hpos : z > 0
  · have hn : z.natAbs ≤ 2147483647 := by omega
    have hzn : (z.natAbs : Int) = z := by omega
    obtain ⟨d, rest, hd, h19, hrest⟩ := digits_pos z.natAbs (by omega)
    have hparse : parseI32 ([d] ++ rest) = some z := by
      have := parseI32_digits z.natAbs hn
      rw [hd, hzn] at this
      exact this
    have hdw : isWs d = false := by
      simp only [isDigit19, Bool.and_eq_true, decide_eq_true_eq] at h19
      simp only [isWs, Bool.or_eq_false_iff, beq_eq_false_iff_ne, ne_eq]
      omega
    have hd112 : (d == 112) = false := by
      simp only [isDigit19, Bool.and_eq_true, decide_eq_true_eq] at h19
      simp only [beq_eq_false_iff_ne, ne_eq]; omega
    have hd99 : (d == 99) = false := by
      simp only [isDigit19, Bool.and_eq_true, decide_eq_true_eq] at h19
      simp only [beq_eq_false_iff_ne, ne_eq]; omega
    have hd48 : (d == 48) = false := by
      simp only [isDigit19, Bool.and_eq_true, decide_eq_true_eq] at h19
      simp only [beq_eq_false_iff_ne, ne_eq]; omega
    have hd10 : (d == 10) = false := by
      simp only [isDigit19, Bool.and_eq_true, decide_eq_true_eq] at h19
      simp only [beq_eq_false_iff_ne, ne_eq]; omega
    simp only [renderLit, hpos, if_true, hd, List.cons_append, run]
    have hstep : step p d = .ok (startLiteral p d true) := by
      rcases hb.1 with hst | hst
      · simp [step, hst, hdw, hd112, hd99, h19]
      · simp [step, hst, hd48, hd10, hdw, h19]
    rw [hstep]
    dsimp only
    have := key (startLiteral p d true) [d] rest (by simp [startLiteral]) (by simp [startLiteral]) hrest hparse
    rw [this]
    simp [startLiteral]
  · have hneg : z < 0 := by omega
    have hn : z.natAbs ≤ 2147483648 := by omega
    have hzn : -(z.natAbs : Int) = z := by omega
    obtain ⟨d, rest, hd, h19, hrest⟩ := digits_pos z.natAbs (by omega)
    have hparse : parseI32 ([45, d] ++ rest) = some z := by
      have := parseI32_neg_digits z.natAbs hn
      rw [hd, hzn] at this
      exact this
    simp only [renderLit, hpos, if_false, hd, List.cons_append, run]
    have h45w : isWs 45 = false := by decide
    have hstep : step p 45 = .ok (startLiteral p 45 false) := by
      rcases hb.1 with hst | hst
      · have e1 : ((45 : Nat) == 112) = false := by decide
        have e2 : ((45 : Nat) == 99) = false := by decide
        have e3 : isDigit19 45 = false := by decide
        have e4 : ((45 : Nat) == 48) = false := by decide
        simp [step, hst, h45w, e1, e2, e3, e4]
      · have e3 : isDigit19 45 = false := by decide
        have e4 : ((45 : Nat) == 48) = false := by decide
        have e5 : ((45 : Nat) == 10) = false := by decide
        simp [step, hst, h45w, e3, e4, e5]
    rw [hstep]
    dsimp only
    have hstep2 : step (startLiteral p 45 false) d = .ok { startLiteral p 45 false with buf := [45, d], st := .literal } := by
      simp [step, startLiteral, h19]
    rw [hstep2]
    dsimp only
    have := key { startLiteral p 45 false with buf := [45, d], st := .literal } [45, d] rest rfl rfl hrest hparse
    rw [this]
    simp [startLiteral]

/-! ### the layout family -/

inductive Item
  /-- a literal followed by a non-empty white-space run -/
  | lit (z : Int) (ws : List Nat)
  /-- the clause terminator `0` followed by a (possibly empty) white-space run -/
  | zero (ws : List Nat)
  /-- a comment line `c<text>\n`; only where a line starts -/
  | comment (text : List Nat)
  /-- additional white space -/
  | blank (ws : List Nat)

def Item.render : Item → List Nat
  | .lit z ws => renderLit z ++ ws
  | .zero ws => 48 :: ws
  | .comment t => 99 :: t ++ [10]
  | .blank ws => ws

/-- what the parser has to remember between items: are we at the start of a line, the literals of
the open clause, the finished clauses -/
structure A where
  start : Bool
  cur : List Int
  out : List (List Int)

def Item.ok (a : A) : Item → Prop
  | .lit z ws => z ≠ 0 ∧ (-2147483648 ≤ z ∧ z ≤ 2147483647) ∧ ws ≠ [] ∧ ws.all isWs = true
  | .zero ws => ws.all isWs = true
  | .comment t => a.start = true ∧ t.contains 10 = false
  | .blank ws => ws.all isWs = true

def Item.apply (a : A) : Item → A
  | .lit z ws => { start := ws.contains 10, cur := a.cur ++ [z], out := a.out }
  | .zero ws => { start := a.start || ws.contains 10, cur := [], out := a.out ++ [a.cur] }
  | .comment _ => a
  | .blank ws => { a with start := a.start || ws.contains 10 }

def Valid : A → List Item → Prop
  | _, [] => True
  | a, i :: is => i.ok a ∧ Valid (i.apply a) is

def renderAll (is : List Item) : List Nat := is.flatMap Item.render

def absOf (p : P) : A := { start := p.st == .startLine, cur := p.cur, out := p.out }

/-- white space from either body state -/
theorem run_ws_body (p : P) (hb : Body p) (w : List Nat) (hw : w.all isWs = true) :
    ∃ p', run p w = .ok p' ∧ Body p' ∧ p'.hdr = p.hdr ∧ p'.cur = p.cur ∧ p'.out = p.out ∧
      (p'.st == .startLine) = ((p.st == .startLine) || w.contains 10) := by
  obtain ⟨hb1, hwf⟩ := hb
  rcases hb1 with hst | hst
  · exact ⟨p, run_ws_startLine p hst w hw, ⟨Or.inl hst, hwf⟩, rfl, rfl, rfl, by simp [hst]⟩
  · refine ⟨_, run_ws_clause p hst w hw, ⟨?_, hwf⟩, rfl, rfl, rfl, ?_⟩
    · by_cases h : 10 ∈ w
      · left; simp [h]
      · right; simp [h]
    · by_cases h : 10 ∈ w <;> simp [h, hst]

theorem run_item (p : P) (hb : Body p) (hh : p.hdr.isSome = true) (i : Item) (hok : i.ok (absOf p)) :
    ∃ p', run p i.render = .ok p' ∧ Body p' ∧ p'.hdr = p.hdr ∧ absOf p' = i.apply (absOf p) := by
  cases i with
  | blank ws =>
    obtain ⟨p', hr, hb', hh', hc, ho, hs⟩ := run_ws_body p hb ws hok
    exact ⟨p', hr, hb', hh', by simp [absOf, Item.apply, hc, ho, hs]⟩
  | comment t =>
    have hst : p.st = .startLine := by
      have := hok.1
      simpa [absOf] using this
    exact ⟨p, run_comment p hst t hok.2, hb, rfl, rfl⟩
  | zero ws =>
    obtain ⟨h, hh'⟩ := Option.isSome_iff_exists.1 hh
    have hz := run_zero (nv := h.1) (nc := h.2) p hb (by simpa using hh')
    let q : P := { p with out := p.out ++ [p.cur], cur := [] }
    have hbq : Body q := hb
    obtain ⟨p', hr, hb', hh'', hc, ho, hs⟩ := run_ws_body q hbq ws hok
    refine ⟨p', ?_, hb', hh'', ?_⟩
    · show run p ([48] ++ ws) = _
      rw [run_append, hz]
      exact hr
    · simp [absOf, Item.apply, hc, ho, hs, q]
  | lit z ws =>
    obtain ⟨hz, hrange, hne, hws⟩ := hok
    cases ws with
    | nil => exact absurd rfl hne
    | cons w ws' =>
      simp only [List.all_cons, Bool.and_eq_true] at hws
      have hl := run_literal p hb z hz hrange w hws.1
      let q : P := { p with st := if w == 10 then .startLine else .clause, cur := p.cur ++ [z], buf := renderLit z }
      have hbq : Body q := by
        refine ⟨?_, hb.2⟩
        by_cases h : w = 10
        · left; simp [q, h]
        · right; have : (w == 10) = false := by simpa using h
          simp [q, this]
      obtain ⟨p', hr, hb', hh'', hc, ho, hs⟩ := run_ws_body q hbq ws' hws.2
      refine ⟨p', ?_, hb', hh'', ?_⟩
      · show run p (renderLit z ++ w :: ws') = _
        have : renderLit z ++ w :: ws' = (renderLit z ++ [w]) ++ ws' := by simp
        rw [this, run_append, hl]
        exact hr
      · have hq : (q.st == PS.startLine) = (w == 10) := by
          by_cases h : w = 10
          · simp [q, h]
          · have : (w == 10) = false := by simpa using h
            simp [q, this]
        have h10 : ((10 : Nat) == w) = (w == 10) := by
          by_cases h : w = 10
          · simp [h]
          · have h1 : (w == 10) = false := by simpa using h
            have h2 : ((10 : Nat) == w) = false := by
              simp only [beq_eq_false_iff_ne, ne_eq]; exact fun e => h e.symm
            rw [h1, h2]
        by_cases h : w = 10
        · subst h; simp [absOf, Item.apply, hc, ho, hs, q]
        · have hne' : ¬ (10 = w) := fun e => h e.symm
          simp [absOf, Item.apply, hc, ho, hs, q, h, hne']

theorem run_items (is : List Item) (p : P) (hb : Body p) (hh : p.hdr.isSome = true)
    (hv : Valid (absOf p) is) :
    ∃ p', run p (renderAll is) = .ok p' ∧ Body p' ∧ p'.hdr = p.hdr ∧
      absOf p' = is.foldl Item.apply (absOf p) := by
  induction is generalizing p with
  | nil => exact ⟨p, rfl, hb, rfl, rfl⟩
  | cons i is ih =>
    obtain ⟨p1, hr1, hb1, hh1, ha1⟩ := run_item p hb hh i hv.1
    have hv1 : Valid (absOf p1) is := by rw [ha1]; exact hv.2
    obtain ⟨p2, hr2, hb2, hh2, ha2⟩ := ih p1 hb1 (by rw [hh1]; exact hh) hv1
    refine ⟨p2, ?_, hb2, by rw [hh2, hh1], ?_⟩
    · show run p (i.render ++ renderAll is) = _
      rw [run_append, hr1]
      exact hr2
    · rw [ha2, ha1]; rfl

/-! ### the header line -/

theorem startsWith_append (a b : List Nat) : startsWith a (a ++ b) = true := by
  induction a with
  | nil => rfl
  | cons x xs ih => simp [startsWith, ih]

theorem tokensAux_word (t rest acc : List Nat) (ht : t.all (fun b => !isHdrWs b) = true) :
    tokensAux (t ++ rest) acc = tokensAux rest (acc ++ t) := by
  induction t generalizing acc with
  | nil => simp
  | cons b bs ih =>
    simp only [List.all_cons, Bool.and_eq_true, Bool.not_eq_true'] at ht
    simp only [List.cons_append, tokensAux, ht.1, Bool.false_eq_true, if_false]
    rw [ih (acc ++ [b]) ht.2]
    simp

theorem tokensAux_ws_nil (w rest : List Nat) (hw : w.all isHdrWs = true) :
    tokensAux (w ++ rest) [] = tokensAux rest [] := by
  induction w with
  | nil => rfl
  | cons b bs ih =>
    simp only [List.all_cons, Bool.and_eq_true] at hw
    simp only [List.cons_append, tokensAux, hw.1, if_true, List.isEmpty_nil]
    exact ih hw.2

theorem tokensAux_ws (w rest acc : List Nat) (hw : w.all isHdrWs = true) (hne : w ≠ []) (hacc : acc ≠ []) :
    tokensAux (w ++ rest) acc = acc :: tokensAux rest [] := by
  cases w with
  | nil => exact absurd rfl hne
  | cons b bs =>
    simp only [List.all_cons, Bool.and_eq_true] at hw
    have : acc.isEmpty = false := by cases acc with | nil => exact absurd rfl hacc | cons _ _ => rfl
    simp only [List.cons_append, tokensAux, hw.1, if_true, this, Bool.false_eq_true, if_false]
    rw [tokensAux_ws_nil bs rest hw.2]

theorem digits_not_ws (n : Nat) : (digits n).all (fun b => !isHdrWs b) = true := by
  have h := digits_all n
  rw [List.all_eq_true] at h ⊢
  intro b hb
  have := h b hb
  simp only [isDigit, Bool.and_eq_true, decide_eq_true_eq] at this
  simp only [isHdrWs, Bool.not_eq_true', Bool.or_eq_false_iff, beq_eq_false_iff_ne, ne_eq,
    Bool.and_eq_false_iff, decide_eq_false_iff_not, Nat.not_le]
  omega

/-- the bytes of a header line (without the line break): `p cnf`, blank runs, the two numbers -/
def headerBytes (sp1 : List Nat) (nv : Nat) (sp2 : List Nat) (nc : Nat) (sp3 : List Nat) : List Nat :=
  cnfPrefix ++ (sp1 ++ (digits nv ++ (sp2 ++ (digits nc ++ sp3))))

theorem parseHeader_headerBytes (sp1 sp2 sp3 : List Nat) (nv nc : Nat)
    (h1 : sp1.all isHdrWs = true) (h2 : sp2.all isHdrWs = true) (h2ne : sp2 ≠ [])
    (h3 : sp3.all isHdrWs = true) (hnv : nv ≤ 18446744073709551615) (hnc : nc ≤ 18446744073709551615) :
    parseHeader (headerBytes sp1 nv sp2 nc sp3) = some (nv, nc) := by
  have htok : tokens (headerBytes sp1 nv sp2 nc sp3) = [[112], [99, 110, 102], digits nv, digits nc] := by
    unfold tokens headerBytes cnfPrefix
    -- "p"
    have e1 : ∀ rest, tokensAux ([112, 32, 99, 110, 102, 32] ++ rest) [] =
        [112] :: [99, 110, 102] :: tokensAux rest [] := by
      intro rest
      have hp : isHdrWs 112 = false := by decide
      have hs : isHdrWs 32 = true := by decide
      have hc : isHdrWs 99 = false := by decide
      have hn : isHdrWs 110 = false := by decide
      have hf : isHdrWs 102 = false := by decide
      simp [tokensAux, hp, hs, hc, hn, hf]
    rw [e1, tokensAux_ws_nil sp1 _ h1, tokensAux_word (digits nv) _ [] (digits_not_ws nv)]
    simp only [List.nil_append]
    rw [tokensAux_ws sp2 _ (digits nv) h2 h2ne (digits_ne_nil nv),
      tokensAux_word (digits nc) _ [] (digits_not_ws nc)]
    simp only [List.nil_append]
    cases sp3 with
    | nil => simp [tokensAux, digits_ne_nil]
    | cons b bs =>
      rw [← List.append_nil (b :: bs), tokensAux_ws (b :: bs) [] (digits nc) h3 (by simp) (digits_ne_nil nc)]
      simp [tokensAux]
  unfold parseHeader
  have hsw : startsWith cnfPrefix (headerBytes sp1 nv sp2 nc sp3) = true := startsWith_append _ _
  simp only [hsw, Bool.not_true, Bool.false_eq_true, if_false, htok, List.drop_succ_cons, List.drop_zero,
    parseUsize_digits nv hnv, parseUsize_digits nc hnc]

/-- bytes other than a line break are collected in the header buffer -/
theorem run_header_bytes (q : P) (hq : q.st = .header) (t : List Nat) (ht : t.contains 10 = false) :
    run q t = .ok { q with buf := q.buf ++ t } := by
  induction t generalizing q with
  | nil => simp [run]
  | cons b bs ih =>
    simp only [List.contains_cons, Bool.or_eq_false_iff] at ht
    have hb10 : (b == 10) = false := by
      have := ht.1
      simp only [beq_eq_false_iff_ne, ne_eq] at this ⊢
      exact fun h => this h.symm
    simp only [run, step, hq, hb10, Bool.false_eq_true, if_false]
    have := ih { q with buf := q.buf ++ [b] } hq ht.2
    simp only [hq] at this
    rw [this]
    simp [List.append_assoc, hq]

/-- comment lines and blank space before the header change nothing -/
def Prelude (is : List Item) : Prop :=
  ∀ i ∈ is, match i with
    | .comment t => t.contains 10 = false
    | .blank ws => ws.all isWs = true
    | _ => False

theorem run_prelude (is : List Item) (hp : Prelude is) (p : P) (hst : p.st = .startLine) :
    run p (renderAll is) = .ok p := by
  induction is with
  | nil => rfl
  | cons i is ih =>
    have hi := hp i (by simp)
    have hrest : Prelude is := fun j hj => hp j (List.mem_cons_of_mem _ hj)
    show run p (i.render ++ renderAll is) = _
    rw [run_append]
    cases i with
    | comment t =>
      simp only at hi
      simp only [Item.render]
      rw [run_comment p hst t hi]
      exact ih hrest
    | blank ws =>
      simp only at hi
      simp only [Item.render]
      rw [run_ws_startLine p hst ws hi]
      exact ih hrest
    | lit z ws => exact hi.elim
    | zero ws => exact hi.elim

/-! ### the theorem -/

/-- the clauses an item list denotes, starting from an empty open clause -/
def denotes (body : List Item) : A := body.foldl Item.apply { start := true, cur := [], out := [] }

/-- **Layout independence.** A file consisting of comment lines / blank space, a header line with
arbitrary blank runs, and a body from the layout family is parsed to the number of variables of its
header and exactly the clauses its body denotes — provided the body is well formed (comments only at
line starts, literals non-zero and within `i32`, last clause terminated) and the declared clause
count is right. -/
theorem layout_independent (pre body : List Item) (sp1 sp2 sp3 : List Nat) (nv : Nat)
    (clauses : List (List Int))
    (hpre : Prelude pre)
    (h1 : sp1.all isHdrWs = true) (h2 : sp2.all isHdrWs = true) (h2ne : sp2 ≠ [])
    (h3 : sp3.all isHdrWs = true)
    (hno10 : (sp1 ++ sp2 ++ sp3).contains 10 = false)
    (hnv : nv ≤ 18446744073709551615) (hnc : clauses.length ≤ 18446744073709551615)
    (hbody : Valid { start := true, cur := [], out := [] } body)
    (hden : (denotes body).cur = [] ∧ (denotes body).out = clauses) :
    parseCnf (renderAll pre ++ (headerBytes sp1 nv sp2 clauses.length sp3 ++ [10] ++ renderAll body))
      = .ok (nv, clauses) := by
  -- the bytes of the header line after the leading `p`
  let tail : List Nat := [32, 99, 110, 102, 32] ++ (sp1 ++ (digits nv ++ (sp2 ++ (digits clauses.length ++ sp3))))
  have hhb : headerBytes sp1 nv sp2 clauses.length sp3 = 112 :: tail := rfl
  have hdig10 : ∀ n, 10 ∉ digits n := by
    intro n hm
    have := List.all_eq_true.1 (digits_all n) 10 hm
    simp [isDigit] at this
  have hsp : 10 ∉ sp1 ∧ 10 ∉ sp2 ∧ 10 ∉ sp3 := by
    have : ¬ (10 ∈ sp1 ++ sp2 ++ sp3) := by
      intro hm
      have : (sp1 ++ sp2 ++ sp3).contains 10 = true := by simpa using hm
      rw [hno10] at this
      cases this
    simp only [List.mem_append, not_or] at this
    exact ⟨this.1.1, this.1.2, this.2⟩
  have htail : tail.contains 10 = false := by
    have : ¬ (10 ∈ tail) := by
      simp only [tail, List.mem_append, List.mem_cons, List.not_mem_nil, or_false, not_or]
      refine ⟨by decide, hsp.1, hdig10 nv, hsp.2.1, hdig10 _, hsp.2.2⟩
    cases h : tail.contains 10 with
    | false => rfl
    | true => exact absurd (by simpa using h) this
  unfold parseCnf
  rw [run_append, run_prelude pre hpre {} rfl]
  simp only [hhb, List.cons_append, List.append_assoc]
  -- `p` switches to the header state
  have h112 : isWs 112 = false := by decide
  have hs1 : step ({} : P) 112 = .ok { st := .header, buf := [112] } := by
    simp [step, h112]
  simp only [run, hs1]
  rw [run_append, run_header_bytes { st := .header, buf := [112] } rfl tail htail]
  -- the line break parses the header
  have hph : parseHeader ([112] ++ tail) = some (nv, clauses.length) := by
    have := parseHeader_headerBytes sp1 sp2 sp3 nv clauses.length h1 h2 h2ne h3 hnv hnc
    rw [hhb] at this
    exact this
  simp only [List.singleton_append, run, step, beq_self_eq_true, if_true, initFormula, Bool.false_eq_true, if_false]
  have hph' : parseHeader (112 :: tail) = some (nv, clauses.length) := hph
  simp only [hph']
  -- the body
  let p0 : P := { st := .startLine, buf := 112 :: tail, cur := [], hdr := some (nv, clauses.length), out := [] }
  obtain ⟨p', hr, hb', hh', ha'⟩ := run_items body p0 ⟨Or.inl rfl, rfl⟩ rfl hbody
  have hr' : run { st := PS.startLine, buf := 112 :: tail, cur := [], hdr := some (nv, clauses.length), out := [] }
      (renderAll body) = .ok p' := hr
  simp only [List.nil_append]
  rw [hr']
  simp only
  -- completion
  have hden' : p'.cur = [] ∧ p'.out = clauses := by
    have e1 : (absOf p').cur = (denotes body).cur := by rw [ha']; rfl
    have e2 : (absOf p').out = (denotes body).out := by rw [ha']; rfl
    exact ⟨by rw [← hden.1, ← e1]; rfl, by rw [← hden.2, ← e2]; rfl⟩
  have hst' : (p'.st == PS.header) = false := by
    rcases hb'.1 with h | h <;> simp [h]
  have hhdr : p'.hdr = some (nv, clauses.length) := hh'
  unfold complete
  simp [hst', hhdr, hden'.1, hden'.2]

end Pumpkin.Dimacs
