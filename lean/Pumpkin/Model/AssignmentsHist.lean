/-
Historic bound queries of the domain store (`lower_bound_at_trail_position`,
`upper_bound_at_trail_position`, used by lazy explanations and conflict analysis): in every state, the
bound reported for trail position `p` is the bound the variable had right after the trail entry at
position `p` was made — i.e. the current bound of the store replayed up to and including that entry.
-/
import Pumpkin.Model.AssignmentsState

namespace Pumpkin.Asg

open IDom St

/-- the state of the trail right after the entry at position `p` (positions count from the oldest entry) -/
def upTo (t : List Entry) (p : Nat) : List Entry := t.drop (t.length - (p + 1))

theorem upTo_cons_lt (e : Entry) (r : List Entry) (p : Nat) (hp : p < r.length) :
    upTo (e :: r) p = upTo r p := by
  unfold upTo
  have : (e :: r).length - (p + 1) = (r.length - (p + 1)) + 1 := by simp; omega
  rw [this, List.drop_succ_cons]

theorem upTo_last (t : List Entry) (p : Nat) (hp : t.length ≤ p + 1) : upTo t p = t := by
  unfold upTo
  have : t.length - (p + 1) = 0 := by omega
  rw [this]; rfl

/-! shape of the update lists after one `IntegerDomain` operation -/

theorem setLb_lbs (d : IDom) (k : Int) (l pos : Nat) :
    (d.setLb k l pos).lbs = d.lbs ∨ ∃ b, (d.setLb k l pos).lbs = ⟨b, l, pos⟩ :: d.lbs := by
  unfold setLb; split
  · left; rfl
  · right; exact ⟨_, rfl⟩

theorem setUb_ubs (d : IDom) (k : Int) (l pos : Nat) :
    (d.setUb k l pos).ubs = d.ubs ∨ ∃ b, (d.setUb k l pos).ubs = ⟨b, l, pos⟩ :: d.ubs := by
  unfold setUb; split
  · left; rfl
  · right; exact ⟨_, rfl⟩

@[simp] theorem setLb_ubs (d : IDom) (k : Int) (l pos : Nat) : (d.setLb k l pos).ubs = d.ubs := by
  unfold setLb; split <;> rfl
@[simp] theorem setUb_lbs (d : IDom) (k : Int) (l pos : Nat) : (d.setUb k l pos).lbs = d.lbs := by
  unfold setUb; split <;> rfl
@[simp] theorem setTrigLb_lbs (d : IDom) : d.setTrigLb.lbs = d.lbs := by unfold setTrigLb; split <;> rfl
@[simp] theorem setTrigLb_ubs (d : IDom) : d.setTrigLb.ubs = d.ubs := by unfold setTrigLb; split <;> rfl
@[simp] theorem setTrigUb_lbs (d : IDom) : d.setTrigUb.lbs = d.lbs := by unfold setTrigUb; split <;> rfl
@[simp] theorem setTrigUb_ubs (d : IDom) : d.setTrigUb.ubs = d.ubs := by unfold setTrigUb; split <;> rfl

theorem removeValue_lbs (d : IDom) (v : Int) (l pos : Nat) :
    (d.removeValue v l pos).lbs = d.lbs ∨ ∃ b, (d.removeValue v l pos).lbs = ⟨b, l, pos⟩ :: d.lbs := by
  unfold removeValue
  split
  · left; rfl
  · generalize hd1 : ({ d with hus := ⟨v, l, pos, false, false⟩ :: d.hus } : IDom) = d1
    have h1 : d1.lbs = d.lbs := by subst hd1; rfl
    simp only []
    have key : ∀ d2 : IDom, (if d2.ub = v then (d2.setUb (v - 1) l pos).setTrigUb else d2).lbs = d2.lbs := by
      intro d2; split <;> simp
    rw [key]
    by_cases hc : d1.lb = v
    · rw [if_pos hc, setTrigLb_lbs, ← h1]; exact setLb_lbs d1 _ _ _
    · rw [if_neg hc]; left; exact h1

theorem removeValue_ubs (d : IDom) (v : Int) (l pos : Nat) :
    (d.removeValue v l pos).ubs = d.ubs ∨ ∃ b, (d.removeValue v l pos).ubs = ⟨b, l, pos⟩ :: d.ubs := by
  unfold removeValue
  split
  · left; rfl
  · generalize hd1 : ({ d with hus := ⟨v, l, pos, false, false⟩ :: d.hus } : IDom) = d1
    have h1 : d1.ubs = d.ubs := by subst hd1; rfl
    simp only []
    have h2 : (if d1.lb = v then (d1.setLb (v + 1) l pos).setTrigLb else d1).ubs = d.ubs := by
      split <;> simp [h1]
    generalize (if d1.lb = v then (d1.setLb (v + 1) l pos).setTrigLb else d1) = d2 at h2
    by_cases hc : d2.ub = v
    · rw [if_pos hc, setTrigUb_ubs, ← h2]; exact setUb_ubs d2 _ _ _
    · rw [if_neg hc]; left; exact h2

theorem applyAtom_lbs (d : IDom) (a : Atom) (l pos : Nat) :
    (applyAtom d a l pos).lbs = d.lbs ∨ ∃ b, (applyAtom d a l pos).lbs = ⟨b, l, pos⟩ :: d.lbs := by
  cases a with
  | ge x k => exact setLb_lbs _ _ _ _
  | le x k => left; simp [applyAtom]
  | ne x k => exact removeValue_lbs _ _ _ _
  | eq x k => left; rfl

theorem applyAtom_ubs (d : IDom) (a : Atom) (l pos : Nat) :
    (applyAtom d a l pos).ubs = d.ubs ∨ ∃ b, (applyAtom d a l pos).ubs = ⟨b, l, pos⟩ :: d.ubs := by
  cases a with
  | ge x k => left; simp [applyAtom]
  | le x k => exact setUb_ubs _ _ _ _
  | ne x k => exact removeValue_ubs _ _ _ _
  | eq x k => left; rfl

/-- every recorded bound update was made at a position on the current trail -/
def PosInv (t : List Entry) : Prop :=
  ∀ x, x < (build t).length → ∀ u, (u ∈ ((build t).getD x default).lbs ∨ u ∈ ((build t).getD x default).ubs) →
    u.pos < t.length

theorem posInv_of_wf : ∀ (t : List Entry), WF t → PosInv t := by
  intro t
  induction t with
  | nil => intro _ x hx; simp [build] at hx
  | cons e r ih =>
    intro hwf x hx u hu
    obtain ⟨hr, he⟩ := hwf
    have ihr := ih hr
    simp only [List.length_cons]
    by_cases hg : e.grow = true
    · simp only [hg, if_true] at he
      rcases he.2 with h1 | ⟨r', h1, h2⟩
      · have hb : build (e :: r) = build r ++ [IDom.new e.oldLb e.oldUb] := by
          simp [build, applyEntry, hg, h1]
        rw [hb] at hx hu
        simp only [List.length_append, List.length_singleton] at hx
        by_cases hxl : x < (build r).length
        · rw [getD_append_lt _ _ _ _ hxl] at hu
          have := ihr x hxl u hu; omega
        · have hxe : x = (build r).length := by omega
          subst hxe
          rw [getD_append_len] at hu
          simp only [IDom.new, List.mem_singleton] at hu
          rcases hu with rfl | rfl <;> simp
      · have hb : build (e :: r) = build r := by simp [build, applyEntry, hg, h2]
        rw [hb] at hx hu
        have := ihr x hx u hu; omega
    · simp only [hg] at he
      simp only [Bool.false_eq_true, if_false] at he
      have hb : build (e :: r) = (build r).set e.atom.var
          (applyAtom ((build r).getD e.atom.var default) e.atom e.level r.length) := by
        simp [build, applyEntry, hg]
      rw [hb] at hx hu
      simp only [List.length_set] at hx
      by_cases hxe : e.atom.var = x
      · subst hxe
        rw [getD_set_self _ _ _ _ hx] at hu
        rcases hu with hu | hu
        · rcases applyAtom_lbs ((build r).getD e.atom.var default) e.atom e.level r.length with h | ⟨b, h⟩
          · rw [h] at hu; have := ihr _ hx u (Or.inl hu); omega
          · rw [h] at hu
            rcases List.mem_cons.1 hu with rfl | hu
            · simp
            · have := ihr _ hx u (Or.inl hu); omega
        · rcases applyAtom_ubs ((build r).getD e.atom.var default) e.atom e.level r.length with h | ⟨b, h⟩
          · rw [h] at hu; have := ihr _ hx u (Or.inr hu); omega
          · rw [h] at hu
            rcases List.mem_cons.1 hu with rfl | hu
            · simp
            · have := ihr _ hx u (Or.inr hu); omega
      · rw [getD_set_ne _ _ _ _ _ hxe] at hu
        have := ihr x hx u hu; omega

theorem find_head_of_all {l : List BU} {p : Nat} (hne : l ≠ []) (h : ∀ u ∈ l, u.pos ≤ p) :
    l.find? (fun u => decide (u.pos ≤ p)) = l.head? := by
  cases l with
  | nil => exact absurd rfl hne
  | cons a r => simp [List.find?_cons, h a (by simp)]

theorem build_length_le_of_suffix (e : Entry) (r : List Entry) : (build r).length ≤ (build (e :: r)).length := by
  rcases build_cons_length e r with h | h <;> omega

theorem build_length_upTo (t : List Entry) (p : Nat) : (build (upTo t p)).length ≤ (build t).length := by
  induction t with
  | nil => simp [upTo]
  | cons e r ih =>
    by_cases hp : p < r.length
    · rw [upTo_cons_lt e r p hp]
      exact Nat.le_trans ih (build_length_le_of_suffix e r)
    · rw [upTo_last _ _ (by simp; omega)]; exact Nat.le_refl _

/-- the update lists of a domain are never empty -/
theorem lbs_ubs_ne_nil : ∀ (t : List Entry), WF t → ∀ x, x < (build t).length →
    ((build t).getD x default).lbs ≠ [] ∧ ((build t).getD x default).ubs ≠ [] := by
  intro t
  induction t with
  | nil => intro _ x hx; simp [build] at hx
  | cons e r ih =>
    intro hwf x hx
    obtain ⟨hr, he⟩ := hwf
    by_cases hg : e.grow = true
    · simp only [hg, if_true] at he
      rcases he.2 with h1 | ⟨r', h1, h2⟩
      · have hb : build (e :: r) = build r ++ [IDom.new e.oldLb e.oldUb] := by
          simp [build, applyEntry, hg, h1]
        rw [hb] at hx ⊢
        simp only [List.length_append, List.length_singleton] at hx
        by_cases hxl : x < (build r).length
        · rw [getD_append_lt _ _ _ _ hxl]; exact ih hr x hxl
        · have hxe : x = (build r).length := by omega
          subst hxe
          rw [getD_append_len]
          simp [IDom.new]
      · have hb : build (e :: r) = build r := by simp [build, applyEntry, hg, h2]
        rw [hb] at hx ⊢
        exact ih hr x hx
    · simp only [hg] at he
      simp only [Bool.false_eq_true, if_false] at he
      have hb : build (e :: r) = (build r).set e.atom.var
          (applyAtom ((build r).getD e.atom.var default) e.atom e.level r.length) := by
        simp [build, applyEntry, hg]
      rw [hb] at hx ⊢
      simp only [List.length_set] at hx
      by_cases hxe : e.atom.var = x
      · subst hxe
        rw [getD_set_self _ _ _ _ hx]
        have := ih hr _ hx
        refine ⟨?_, ?_⟩
        · rcases applyAtom_lbs ((build r).getD e.atom.var default) e.atom e.level r.length with h | ⟨b, h⟩
          · rw [h]; exact this.1
          · rw [h]; simp
        · rcases applyAtom_ubs ((build r).getD e.atom.var default) e.atom e.level r.length with h | ⟨b, h⟩
          · rw [h]; exact this.2
          · rw [h]; simp
      · rw [getD_set_ne _ _ _ _ _ hxe]; exact ih hr x hx

/-- **`lower_bound_at_trail_position` / `upper_bound_at_trail_position` report the bounds the variable
had right after the trail entry at that position was made**, for every well-formed trail (hence in
every reachable state of the store), every variable which existed at that position and every position
on the trail. -/
theorem boundsAt_spec : ∀ (t : List Entry), WF t → ∀ (x p : Nat), p < t.length →
    x < (build (upTo t p)).length →
    ((build t).getD x default).lbAt p = ((build (upTo t p)).getD x default).lb ∧
    ((build t).getD x default).ubAt p = ((build (upTo t p)).getD x default).ub := by
  intro t
  induction t with
  | nil => intro _ x p hp; simp at hp
  | cons e r ih =>
    intro hwf x p hp hx'
    have hpos := posInv_of_wf _ hwf
    obtain ⟨hr, he⟩ := hwf
    simp only [List.length_cons] at hp
    by_cases hpl : p < r.length
    · -- an older position: the newest entry is invisible
      rw [upTo_cons_lt e r p hpl] at hx' ⊢
      have hxr : x < (build r).length := Nat.lt_of_lt_of_le hx' (build_length_upTo r p)
      have ihx := ih hr x p hpl hx'
      by_cases hg : e.grow = true
      · simp only [hg, if_true] at he
        rcases he.2 with h1 | ⟨r', h1, h2⟩
        · have hb : build (e :: r) = build r ++ [IDom.new e.oldLb e.oldUb] := by
            simp [build, applyEntry, hg, h1]
          rw [hb, getD_append_lt _ _ _ _ hxr]; exact ihx
        · have hb : build (e :: r) = build r := by simp [build, applyEntry, hg, h2]
          rw [hb]; exact ihx
      · simp only [hg] at he
        simp only [Bool.false_eq_true, if_false] at he
        have hb : build (e :: r) = (build r).set e.atom.var
            (applyAtom ((build r).getD e.atom.var default) e.atom e.level r.length) := by
          simp [build, applyEntry, hg]
        rw [hb]
        by_cases hxe : e.atom.var = x
        · subst hxe
          rw [getD_set_self _ _ _ _ hxr]
          refine ⟨?_, ?_⟩
          · rw [← ihx.1]
            unfold IDom.lbAt
            rcases applyAtom_lbs ((build r).getD e.atom.var default) e.atom e.level r.length with h | ⟨b, h⟩
            · rw [h]
            · rw [h, List.find?_cons]
              have : ¬ r.length ≤ p := by omega
              simp [this]
          · rw [← ihx.2]
            unfold IDom.ubAt
            rcases applyAtom_ubs ((build r).getD e.atom.var default) e.atom e.level r.length with h | ⟨b, h⟩
            · rw [h]
            · rw [h, List.find?_cons]
              have : ¬ r.length ≤ p := by omega
              simp [this]
        · rw [getD_set_ne _ _ _ _ _ hxe]; exact ihx
    · -- the newest position: every update is visible, the newest one is the current bound
      have hpe : p = r.length := by omega
      rw [upTo_last _ _ (by simp; omega)] at hx' ⊢
      have hne := lbs_ubs_ne_nil (e :: r) ⟨hr, he⟩ x hx'
      have hall := hpos x hx'
      unfold IDom.lbAt IDom.ubAt IDom.lb IDom.ub
      rw [find_head_of_all hne.1 (fun u hu => by have := hall u (Or.inl hu); simp at this; omega),
        find_head_of_all hne.2 (fun u hu => by have := hall u (Or.inr hu); simp at this; omega)]
      constructor
      · cases hl : ((build (e :: r)).getD x default).lbs with
        | nil => exact absurd hl hne.1
        | cons a l => rfl
      · cases hl : ((build (e :: r)).getD x default).ubs with
        | nil => exact absurd hl hne.2
        | cons a l => rfl

end Pumpkin.Asg
