/-
Domain events (`IntDomainEvent`, `EventSink`): which events a change of the domain store raises.
Propagators are woken by these events only, so every change of a bound, every removed value and
every fixing must raise its event (`events_complete`).
-/
import Pumpkin.Model.AssignmentsHist

namespace Pumpkin.Asg

open IDom St

inductive Ev where
  | assign | lowerBound | upperBound | removal
deriving DecidableEq, Repr, Inhabited

/-- the events raised by `set_lower_bound` / `set_upper_bound` / `remove_value` when the predicate is a
real change of `d` and `d'` is the domain afterwards (the sink ignores duplicates: a set) -/
def evAtom (d d' : IDom) : Atom → List Ev
  | .ge _ _ => [.lowerBound] ++ (if d'.lb = d'.ub then [.assign] else [])
  | .le _ _ => [.upperBound] ++ (if d'.lb = d'.ub then [.assign] else [])
  | .ne _ v => [.removal] ++ (if d.lb = v then [.lowerBound] else []) ++ (if d.ub = v then [.upperBound] else [])
      ++ (if d'.lb = d'.ub then [.assign] else [])
  | .eq _ _ => []

/-- events of `tighten_lower_bound` / `tighten_upper_bound` / `remove_value_from_domain` -/
def simpleEvents (s : St) (p : Atom) : List (Nat × Ev) :=
  if changes (s.dom p.var) p then
    (evAtom (s.dom p.var) ((s.postSimple p).dom p.var) p).map (fun e => (p.var, e))
  else []

/-- events of `post_predicate` (an equality is two bound updates; the second is skipped when the first
has emptied the domain) -/
def postEvents (s : St) (p : Atom) : List (Nat × Ev) :=
  match p with
  | .eq x v =>
    let e1 := if s.lb x < v then simpleEvents s (.ge x v) else []
    let s1 := if s.lb x < v then s.postSimple (.ge x v) else s
    if s.lb x < v ∧ !(s1.dom x).consistent then e1
    else e1 ++ (if s1.ub x > v then simpleEvents s1 (.le x v) else [])
  | p => simpleEvents s p

/-! ### completeness -/

theorem setLb_lb_gt (d : IDom) (k : Int) (l pos : Nat) (h : d.lb < k) : k ≤ (d.setLb k l pos).lb := by
  have hk : ¬ k ≤ d.lb := by omega
  have hs := skipUp_spec d d.ub (d.ub + 1 - k).toNat k (Nat.le_refl _)
  have : (d.setLb k l pos).lb = d.skipUp d.ub (d.ub + 1 - k).toNat k := by
    unfold setLb; rw [if_neg hk]; rfl
  rw [this]; exact hs.1

theorem setUb_ub_lt (d : IDom) (k : Int) (l pos : Nat) (h : k < d.ub) : (d.setUb k l pos).ub ≤ k := by
  have hk : ¬ d.ub ≤ k := by omega
  have hs := skipDown_spec d d.lb (k + 1 - d.lb).toNat k (Nat.le_refl _)
  have : (d.setUb k l pos).ub = d.skipDown d.lb (k + 1 - d.lb).toNat k := by
    unfold setUb; rw [if_neg hk]; rfl
  rw [this]; exact hs.1

/-- bounds after `remove_value` of a value of the domain -/
theorem removeValue_bounds (d : IDom) (v : Int) (l pos : Nat) (h : d.contains v = true) :
    (if d.lb = v then v + 1 ≤ (d.removeValue v l pos).lb else (d.removeValue v l pos).lb = d.lb) ∧
    (if d.ub = v then (d.removeValue v l pos).ub ≤ v - 1 else (d.removeValue v l pos).ub = d.ub) := by
  obtain ⟨h1, h2, h3⟩ := (contains_iff d v).1 h
  have hg : ¬ (v < d.lb ∨ d.ub < v ∨ d.hole v = true) := by rw [h3]; simp; omega
  unfold removeValue
  rw [if_neg hg]
  generalize hd1 : ({ d with hus := ⟨v, l, pos, false, false⟩ :: d.hus } : IDom) = d1
  have hl1 : d1.lb = d.lb := by subst hd1; rfl
  have hu1 : d1.ub = d.ub := by subst hd1; rfl
  simp only []
  by_cases ha : d1.lb = v
  · rw [if_pos ha]
    have hlb2 : v + 1 ≤ ((d1.setLb (v + 1) l pos).setTrigLb).lb := by
      rw [setTrigLb_lb]; exact setLb_lb_gt d1 (v + 1) l pos (by omega)
    have hub2 : ((d1.setLb (v + 1) l pos).setTrigLb).ub = d.ub := by simp [hu1]
    generalize ((d1.setLb (v + 1) l pos).setTrigLb) = d2 at hlb2 hub2
    have hdl : d.lb = v := by omega
    by_cases hb : d2.ub = v
    · rw [if_pos hb]
      simp only [setTrigUb_lb, setTrigUb_ub, setUb_lb, hdl, if_true]
      refine ⟨hlb2, ?_⟩
      have : d.ub = v := by omega
      rw [if_pos this]
      exact setUb_ub_lt d2 (v - 1) l pos (by omega)
    · rw [if_neg hb]
      simp only [hdl, if_true]
      refine ⟨hlb2, ?_⟩
      have : ¬ d.ub = v := by omega
      rw [if_neg this]; exact hub2
  · rw [if_neg ha]
    have hdl : ¬ d.lb = v := by omega
    by_cases hb : d1.ub = v
    · rw [if_pos hb]
      simp only [setTrigUb_lb, setTrigUb_ub, setUb_lb, hdl, if_false]
      refine ⟨hl1, ?_⟩
      have : d.ub = v := by omega
      rw [if_pos this]
      exact setUb_ub_lt d1 (v - 1) l pos (by omega)
    · rw [if_neg hb]
      simp only [hdl, if_false]
      refine ⟨hl1, ?_⟩
      have : ¬ d.ub = v := by omega
      rw [if_neg this]; exact hu1

theorem mem_ite_single {c : Prop} [Decidable c] (x e : Ev) : x ∈ (if c then [e] else []) ↔ c ∧ x = e := by
  split <;> simp_all

/-- **Every change is reported**: a moved lower bound raises `LowerBound`, a moved upper bound
`UpperBound`, a domain which has become a single value `Assign`, an explicitly removed value `Removal`
— and nothing is reported which did not happen; in particular a real change always raises an event. -/
theorem events_complete (d : IDom) (a : Atom) (l pos : Nat) (hc : changes d a = true) :
    (Ev.lowerBound ∈ evAtom d (applyAtom d a l pos) a ↔ (applyAtom d a l pos).lb ≠ d.lb) ∧
    (Ev.upperBound ∈ evAtom d (applyAtom d a l pos) a ↔ (applyAtom d a l pos).ub ≠ d.ub) ∧
    (Ev.assign ∈ evAtom d (applyAtom d a l pos) a ↔ (applyAtom d a l pos).lb = (applyAtom d a l pos).ub) ∧
    evAtom d (applyAtom d a l pos) a ≠ [] := by
  cases a with
  | ge x k =>
    simp only [changes, decide_eq_true_eq] at hc
    have h1 := setLb_lb_gt d k l pos hc
    have h2 : (d.setLb k l pos).ub = d.ub := setLb_ub d k l pos
    simp only [applyAtom, evAtom, List.mem_append, List.mem_singleton, mem_ite_single, h2]
    refine ⟨?_, ?_, ?_, by simp⟩
    · simp; omega
    · simp
    · simp
  | le x k =>
    simp only [changes, decide_eq_true_eq] at hc
    have h1 := setUb_ub_lt d k l pos hc
    have h2 : (d.setUb k l pos).lb = d.lb := setUb_lb d k l pos
    simp only [applyAtom, evAtom, List.mem_append, List.mem_singleton, mem_ite_single, h2]
    refine ⟨?_, ?_, ?_, by simp⟩
    · simp
    · simp; omega
    · simp
  | ne x v =>
    simp only [changes] at hc
    have hb := removeValue_bounds d v l pos hc
    simp only [applyAtom, evAtom, List.mem_append, List.mem_singleton, mem_ite_single]
    refine ⟨?_, ?_, ?_, by simp⟩
    · by_cases h : d.lb = v
      · simp only [h, if_true] at hb
        simp [h]; omega
      · simp only [h, if_false] at hb
        simp [h, hb.1]
    · by_cases h : d.ub = v
      · simp only [h, if_true] at hb
        simp [h]; omega
      · simp only [h, if_false] at hb
        simp [h, hb.2]
    · by_cases h : (d.removeValue v l pos).lb = (d.removeValue v l pos).ub <;> simp [h]
  | eq x k => simp [changes] at hc

end Pumpkin.Asg
