/-
At a full assignment every modelled propagator decides its constraint: on the state in which each
variable has exactly one value, a pass that does not report a conflict leaves the state as it is and
the constraint holds (`pass_checks`). Together with `pass_ok` this is what makes "no decision left,
fixpoint, no conflict" a solution (C01) for the modelled constraint kinds.
-/
import Pumpkin.Model.PropagationCompile

namespace Pumpkin.Pg

open Pumpkin.AtomRup (restrict)

/-- the state in which every variable is fixed to its value under `a` -/
def sing (a : List Int) : Doms := a.map (fun v => [v])

theorem dom_sing {a : List Int} {x : Nat} (hx : x < a.length) : dom (sing a) x = [val a x] := by
  simp only [dom, sing, val, List.getD_eq_getElem?_getD, List.getElem?_map]
  rw [List.getElem?_eq_getElem hx]
  rfl

theorem vals_sing {a : List Int} {w : View} (hw : w.var < a.length) : vals (sing a) w = [w.eval a] := by
  simp only [vals, dom_sing hw, List.map_cons, List.map_nil]
  rfl

theorem lb_sing {a : List Int} {w : View} (hw : w.var < a.length) : lb (sing a) w = w.eval a := by
  simp [lb, vals_sing hw, minL]

theorem ub_sing {a : List Int} {w : View} (hw : w.var < a.length) : ub (sing a) w = w.eval a := by
  simp [ub, vals_sing hw, maxL]

theorem fixed_sing {a : List Int} {w : View} (hw : w.var < a.length) : fixed (sing a) w = true := by
  simp [fixed, lb_sing hw, ub_sing hw]

theorem contains_sing {a : List Int} {w : View} (hw : w.var < a.length) (v : Int) :
    contains (sing a) w v = decide (v = w.eval a) := by
  simp only [contains, vals_sing hw, List.contains_cons, List.contains_nil, Bool.or_false]
  rw [Bool.eq_iff_iff]; simp

theorem restrict_sing_true (a : List Int) (x : Nat) (g : Int → Bool) (hx : x < a.length) (hg : g (val a x) = true) :
    restrict (sing a) x g = sing a := by
  induction a generalizing x with
  | nil => simp at hx
  | cons v vs ih =>
    cases x with
    | zero => simp only [val, List.getD_cons_zero] at hg; simp [sing, restrict, hg]
    | succ x =>
      simp only [sing, List.map_cons, restrict]
      congr 1
      exact ih x (by simpa using hx) (by simpa [val] using hg)

theorem restrict_sing_false (a : List Int) (x : Nat) (g : Int → Bool) (hx : x < a.length) (hg : g (val a x) = false) :
    dom (restrict (sing a) x g) x = [] := by
  induction a generalizing x with
  | nil => simp at hx
  | cons v vs ih =>
    cases x with
    | zero => simp only [val, List.getD_cons_zero] at hg; simp [sing, restrict, dom, hg]
    | succ x =>
      simp only [sing, List.map_cons, restrict, dom, List.getD_cons_succ]
      exact ih x (by simpa using hx) (by simpa [val] using hg)

theorem keep_sing {a : List Int} {w : View} (hw : w.var < a.length) (f : Int → Bool) :
    keep (sing a) w f = if f (w.eval a) then some (sing a) else none := by
  unfold keep
  cases hf : f (w.eval a) with
  | true =>
    have := restrict_sing_true a w.var (fun x => f (vapp w x)) hw (by simpa [vapp_val] using hf)
    simp only [this, dom_sing hw]
    rfl
  | false =>
    have := restrict_sing_false a w.var (fun x => f (vapp w x)) hw (by simpa [vapp_val] using hf)
    simp [this]

theorem setLb_sing {a : List Int} {w : View} (hw : w.var < a.length) (v : Int) :
    setLb (sing a) w v = if v ≤ w.eval a then some (sing a) else none := by
  rw [setLb, keep_sing hw]; simp

theorem setUb_sing {a : List Int} {w : View} (hw : w.var < a.length) (v : Int) :
    setUb (sing a) w v = if w.eval a ≤ v then some (sing a) else none := by
  rw [setUb, keep_sing hw]; simp

theorem remove_sing {a : List Int} {w : View} (hw : w.var < a.length) (v : Int) :
    remove (sing a) w v = if w.eval a ≠ v then some (sing a) else none := by
  rw [remove, keep_sing hw]; simp

theorem postAtom_sing {a : List Int} {p : Atom} (hw : p.var < a.length) :
    postAtom (sing a) p = if p.holds a then some (sing a) else none := by
  rw [postAtom, keep_sing (w := View.ofVar p.var) hw]
  have : (View.ofVar p.var).eval a = val a p.var := by simp [View.ofVar, View.eval]
  rw [this]; rfl

theorem atomTrue_sing {a : List Int} {p : Atom} (hw : p.var < a.length) : atomTrue (sing a) p = p.holds a := by
  simp [atomTrue, dom_sing hw, Atom.holds]

theorem atomFalse_sing {a : List Int} {p : Atom} (hw : p.var < a.length) : atomFalse (sing a) p = !p.holds a := by
  simp [atomFalse, dom_sing hw, Atom.holds]

/-- the outcome of a pass on a full assignment: a conflict, or nothing changes and the constraint holds -/
def Decides (a : List Int) (c : Cons) (r : Option Doms) : Prop :=
  r = none ∨ (r = some (sing a) ∧ c.sat a = true)


/-- a step on a full assignment either fails or changes nothing, and in the latter case `P` holds -/
def Step (a : List Int) (P : Prop) (r : Option Doms) : Prop := r = none ∨ (r = some (sing a) ∧ P)

theorem Step.bind {a : List Int} {P : Prop} {c : Cons} {r : Option Doms} {g : Doms → Option Doms}
    (hr : Step a P r) (hg : P → Decides a c (g (sing a))) : Decides a c (r.bind g) := by
  rcases hr with rfl | ⟨rfl, hp⟩
  · left; rfl
  · exact hg hp

theorem Step.bind' {a : List Int} {P : Prop} {c : Cons} {r : Option Doms} {g : Doms → Option Doms}
    (hr : Step a P r) (hg : P → Decides a c (g (sing a))) : Decides a c (r >>= g) := Step.bind hr hg

theorem Step.bindS {a : List Int} {P Q : Prop} {r : Option Doms} {g : Doms → Option Doms}
    (hr : Step a P r) (hg : P → Step a Q (g (sing a))) : Step a Q (r.bind g) := by
  rcases hr with rfl | ⟨rfl, hp⟩
  · left; rfl
  · exact hg hp

theorem Step.bindS' {a : List Int} {P Q : Prop} {r : Option Doms} {g : Doms → Option Doms}
    (hr : Step a P r) (hg : P → Step a Q (g (sing a))) : Step a Q (r >>= g) := Step.bindS hr hg

theorem step_some (a : List Int) : Step a True (some (sing a)) := Or.inr ⟨rfl, trivial⟩

theorem step_setLb {a : List Int} {w : View} (hw : w.var < a.length) (v : Int) :
    Step a (v ≤ w.eval a) (setLb (sing a) w v) := by
  rw [setLb_sing hw]; split
  · right; exact ⟨rfl, ‹_›⟩
  · left; rfl

theorem step_setUb {a : List Int} {w : View} (hw : w.var < a.length) (v : Int) :
    Step a (w.eval a ≤ v) (setUb (sing a) w v) := by
  rw [setUb_sing hw]; split
  · right; exact ⟨rfl, ‹_›⟩
  · left; rfl

theorem step_remove {a : List Int} {w : View} (hw : w.var < a.length) (v : Int) :
    Step a (w.eval a ≠ v) (remove (sing a) w v) := by
  rw [remove_sing hw]; split
  · right; exact ⟨rfl, ‹_›⟩
  · left; rfl

theorem step_guard {a : List Int} {P : Prop} {b : Bool} {f : Doms → Option Doms} (hf : b = true → Step a P (f (sing a))) :
    Step a (b = true → P) (guard b f (sing a)) := by
  unfold guard
  cases b with
  | false => right; exact ⟨rfl, fun h => by cases h⟩
  | true =>
    rcases hf rfl with h | ⟨h, hp⟩
    · left; exact h
    · right; exact ⟨h, fun _ => hp⟩

theorem step_ite {a : List Int} {P Q : Prop} {c : Prop} [Decidable c] {r s : Option Doms}
    (hr : c → Step a P r) (hs : ¬c → Step a Q s) : Step a ((c → P) ∧ (¬c → Q)) (if c then r else s) := by
  split
  · rename_i h
    rcases hr h with e | ⟨e, hp⟩
    · left; exact e
    · right; exact ⟨e, fun _ => hp, fun hn => absurd h hn⟩
  · rename_i h
    rcases hs h with e | ⟨e, hq⟩
    · left; exact e
    · right; exact ⟨e, fun hc => absurd hc h, fun _ => hq⟩

/-! ### LinearLeq, LinearNe -/

theorem sumLb_sing {a : List Int} (ts : List View) (hw : ∀ t ∈ ts, t.var < a.length) :
    sumLb (sing a) ts = sumViews ts a := by
  rw [sumViews_eq, sumLb_eq]
  induction ts with
  | nil => rfl
  | cons t ts ih =>
    simp only [List.map_cons, sumL_cons, lb_sing (hw t (by simp))]
    rw [ih (fun t' ht' => hw t' (by simp [ht']))]

theorem linLeLoop_sing {a : List Int} (all : List View) (c : Int) (hall : ∀ t ∈ all, t.var < a.length)
    (hc : sumViews all a ≤ c) (rest : List View) (hw : ∀ t ∈ rest, t.var < a.length) :
    linLeLoop all c rest (sing a) = some (sing a) := by
  induction rest with
  | nil => rfl
  | cons t rest ih =>
    simp only [linLeLoop, sumLb_sing all hall, lb_sing (hw t (by simp)), ub_sing (hw t (by simp))]
    have : ¬ (t.eval a > c - (sumViews all a - t.eval a)) := by omega
    simp only [this, if_false, Option.bind_some]
    exact ih (fun t' ht' => hw t' (by simp [ht']))

theorem linLe_decides {a : List Int} (ts : List View) (c : Int) (hw : ∀ t ∈ ts, t.var < a.length) :
    Decides a (.linLe ts c) (linLePass ts c (sing a)) := by
  unfold linLePass linLeInconsistent
  rw [sumLb_sing ts hw]
  by_cases h : c < sumViews ts a
  · left; simp [h]
  · right
    simp only [h, decide_false, Bool.false_eq_true, if_false]
    exact ⟨linLeLoop_sing ts c hw (by omega) ts hw, by simp [Cons.sat]; omega⟩

theorem filter_fixed_sing {a : List Int} (ts : List View) (hw : ∀ t ∈ ts, t.var < a.length) :
    ts.filter (fixed (sing a)) = ts := by
  apply List.filter_eq_self.2
  intro t ht
  exact fixed_sing (hw t ht)

theorem fixedSum_sing {a : List Int} (ts : List View) (hw : ∀ t ∈ ts, t.var < a.length) :
    fixedSum (sing a) ts = sumViews ts a := by
  unfold fixedSum
  rw [filter_fixed_sing ts hw]
  exact sumLb_sing ts hw

theorem linNe_decides {a : List Int} (ts : List View) (c : Int) (hw : ∀ t ∈ ts, t.var < a.length) :
    Decides a (.linNe ts c) (linNePass ts c (sing a)) := by
  unfold linNePass
  simp only [filter_fixed_sing ts hw, fixedSum_sing ts hw]
  have h1 : ¬ (ts.length + 1 < ts.length) := by omega
  have h2 : ¬ (ts.length + 1 = ts.length) := by omega
  simp only [h1, h2, if_false]
  by_cases h : sumViews ts a = c
  · left; simp [h]
  · right; simp [h, Cons.sat]

/-! ### IntAbs -/

theorem abs_decides {a : List Int} (s r : View) (hs : s.var < a.length) (hr : r.var < a.length) :
    Decides a (.abs s r) (absPass s r (sing a)) := by
  unfold absPass
  have c0 := iabs_cases (s.eval a)
  have e := natAbs_iabs (s.eval a)
  apply Step.bind (step_setLb hr 0)
  intro f1
  simp only [lb_sing hs, ub_sing hs, lb_sing hr, ub_sing hr]
  apply Step.bind (step_setUb hr _)
  intro f2
  apply Step.bind (step_ite (fun _ => step_setLb hr _) (fun _ => step_ite (fun _ => step_setLb hr _) (fun _ => step_some a)))
  intro f3
  simp only [lb_sing hs, ub_sing hs, lb_sing hr, ub_sing hr]
  apply Step.bind (step_setLb hs _)
  intro f4
  apply Step.bind (step_setUb hs _)
  intro f5
  have hsat : (Cons.abs s r).sat a = true := by
    simp only [Cons.sat, decide_eq_true_eq]
    rcases f3 with ⟨g1, g2⟩
    by_cases hpos : s.eval a > 0
    · have := g1 hpos; omega
    · have g2' := (g2 hpos)
      by_cases hneg : s.eval a < 0
      · have := g2'.1 hneg; omega
      · omega
  split
  · rw [setUb_sing hs]; split
    · right; exact ⟨rfl, hsat⟩
    · left; rfl
  · split
    · rw [setLb_sing hs]; split
      · right; exact ⟨rfl, hsat⟩
      · left; rfl
    · right; exact ⟨rfl, hsat⟩

/-! ### clause -/

theorem clause_decides {a : List Int} (ls : List Atom) (hw : ∀ p ∈ ls, p.var < a.length) :
    Decides a (.clause ls) (clausePass ls (sing a)) := by
  unfold clausePass
  have hT : ∀ p ∈ ls, atomTrue (sing a) p = p.holds a := fun p hp => atomTrue_sing (hw p hp)
  have hF : ∀ p ∈ ls, atomFalse (sing a) p = !p.holds a := fun p hp => atomFalse_sing (hw p hp)
  by_cases hany : ls.any (·.holds a) = true
  · have : ls.any (atomTrue (sing a)) = true := by
      obtain ⟨p, hp, hpa⟩ := List.any_eq_true.1 hany
      exact List.any_eq_true.2 ⟨p, hp, by rw [hT p hp]; exact hpa⟩
    simp only [this, if_true]
    right; exact ⟨rfl, by simpa [Cons.sat] using hany⟩
  · have hnone : ∀ p ∈ ls, p.holds a = false := by
      intro p hp
      cases hh : p.holds a with
      | false => rfl
      | true => exact absurd (List.any_eq_true.2 ⟨p, hp, hh⟩) hany
    have : ls.any (atomTrue (sing a)) = false := by
      apply List.any_eq_false.2
      intro p hp
      rw [hT p hp, hnone p hp]; simp
    simp only [this, Bool.false_eq_true, if_false]
    have hfilt : ls.filter (fun p => !atomFalse (sing a) p) = [] := by
      apply List.filter_eq_nil_iff.2
      intro p hp
      rw [hF p hp, hnone p hp]; simp
    rw [hfilt]
    left; rfl

/-! ### IntTimes -/

theorem times_decides {a : List Int} (x y z : View) (hx : x.var < a.length) (hy : y.var < a.length) (hz : z.var < a.length) :
    Decides a (.times x y z) (timesPass x y z (sing a)) := by
  unfold timesPass
  have hsigns : Step a True (timesSigns x y z (sing a)) := by
    unfold timesSigns
    dsimp only
    refine Step.bindS' (step_guard (fun _ => step_setLb hz _)) (fun _ => ?_)
    refine Step.bindS' (step_guard (fun _ => step_setLb hy _)) (fun _ => ?_)
    refine Step.bindS' (step_guard (fun _ => step_setLb hx _)) (fun _ => ?_)
    refine Step.bindS' (step_guard (fun _ => step_setLb hz _)) (fun _ => ?_)
    refine Step.bindS' (step_guard (fun _ => step_setLb hy _)) (fun _ => ?_)
    refine Step.bindS' (step_guard (fun _ => step_setLb hx _)) (fun _ => ?_)
    refine Step.bindS' (step_guard (fun _ => step_setUb hz _)) (fun _ => ?_)
    refine Step.bindS' (step_guard (fun _ => step_setUb hz _)) (fun _ => ?_)
    refine Step.bindS' (step_guard (fun _ => step_setUb hy _)) (fun _ => ?_)
    refine Step.bindS' (step_guard (fun _ => step_setUb hy _)) (fun _ => ?_)
    refine Step.bindS' (step_guard (fun _ => step_setUb hx _)) (fun _ => ?_)
    rcases step_guard (a := a) (b := (decide (lb (sing a) y ≥ 1) && decide (ub (sing a) z ≤ -1))) (f := fun d => setUb d x (-1)) (fun _ => step_setUb hx (-1)) with h | ⟨h, _⟩
    · left; exact h
    · right; exact ⟨h, trivial⟩
  apply Step.bind' hsigns
  intro _
  dsimp only
  apply Step.bind' (P := True)
  · rcases step_guard (a := a) (P := True) (b := (decide (lb (sing a) x ≥ 0) && decide (lb (sing a) y ≥ 0)))
      (f := fun d => (setUb d z (ub (sing a) x * ub (sing a) y)).bind (fun d => setLb d z (lb (sing a) x * lb (sing a) y)))
      (fun _ => Step.bindS (step_setUb hz _) (fun _ => by
        rcases step_setLb (a := a) hz (lb (sing a) x * lb (sing a) y) with h | ⟨h, _⟩
        · left; exact h
        · right; exact ⟨h, trivial⟩)) with h | ⟨h, _⟩
    · left; exact h
    · right; exact ⟨h, trivial⟩
  intro _
  apply Step.bind' (step_guard (fun _ => step_setLb hx _))
  intro _
  apply Step.bind' (step_guard (fun _ => step_setUb hx _))
  intro _
  apply Step.bind' (step_guard (fun _ => step_setUb hy _))
  intro _
  apply Step.bind' (step_guard (fun _ => step_setLb hy _))
  intro _
  unfold timesCheck
  simp only [fixed_sing hx, fixed_sing hy, fixed_sing hz, lb_sing hx, lb_sing hy, lb_sing hz, Bool.and_self, Bool.true_and]
  by_cases h : x.eval a * y.eval a = z.eval a
  · right; simp [h, Cons.sat]
  · left; simp [h]


/-! ### Maximum -/

theorem maxLoop1_sing {a : List Int} (R : Int) (rest : List View) (hw : ∀ x ∈ rest, x.var < a.length) (mLb mUb : Int) :
    maxLoop1 R rest mLb mUb (sing a) = none ∨
    ∃ M M', maxLoop1 R rest mLb mUb (sing a) = some (M, M', sing a) ∧ (∀ x ∈ rest, x.eval a ≤ R) ∧
      mLb ≤ M ∧ (∀ x ∈ rest, x.eval a ≤ M) ∧ (M' = mUb ∨ ∃ x ∈ rest, M' = x.eval a) := by
  induction rest generalizing mLb mUb with
  | nil => right; exact ⟨mLb, mUb, rfl, by simp, Int.le_refl _, by simp, Or.inl rfl⟩
  | cons x rest ih =>
    have hx := hw x (by simp)
    simp only [maxLoop1, setUb_sing hx]
    by_cases hle : x.eval a ≤ R
    · simp only [hle, if_true, Option.bind_some, lb_sing hx, ub_sing hx]
      rcases ih (fun y hy => hw y (by simp [hy])) (if x.eval a > mLb then x.eval a else mLb)
          (if x.eval a > mUb then x.eval a else mUb) with h | ⟨M, M', e, g1, g2, g3, g4⟩
      · left; exact h
      · right
        refine ⟨M, M', e, ?_, ?_, ?_, ?_⟩
        · intro y hy
          rcases List.mem_cons.1 hy with rfl | hy
          · exact hle
          · exact g1 y hy
        · split at g2 <;> omega
        · intro y hy
          rcases List.mem_cons.1 hy with rfl | hy
          · split at g2 <;> omega
          · exact g3 y hy
        · rcases g4 with g4 | ⟨y, hy, g4⟩
          · split at g4
            · right; exact ⟨x, by simp, g4⟩
            · left; exact g4
          · right; exact ⟨y, by simp [hy], g4⟩
    · left; simp [hle]

theorem max_decides {a : List Int} (xs : List View) (r : View) (hw : ∀ x ∈ xs, x.var < a.length) (hr : r.var < a.length)
    (hne : xs ≠ []) : Decides a (.max xs r) (maxPass xs r (sing a)) := by
  unfold maxPass
  cases xs with
  | nil => exact absurd rfl hne
  | cons x0 xs' =>
    have hx0 := hw x0 (by simp)
    simp only [ub_sing hr, lb_sing hx0, ub_sing hx0]
    rcases maxLoop1_sing (a := a) (r.eval a) (x0 :: xs') hw (x0.eval a) (x0.eval a) with h | ⟨M, M', e, g1, g2, g3, g4⟩
    · left; rw [h]; rfl
    · rw [e]
      simp only [Option.bind_some]
      apply Step.bind (step_setLb hr M)
      intro f1
      apply Step.bind (step_ite (fun _ => step_setUb hr M') (fun _ => step_some a))
      intro f2
      have hsat : (Cons.max (x0 :: xs') r).sat a = true := by
        simp only [Cons.sat, Bool.and_eq_true, List.all_eq_true, List.any_eq_true, decide_eq_true_eq]
        refine ⟨g1, ?_⟩
        -- r ≤ M' and M' is the value of some element
        have hle : r.eval a ≤ M' := by
          by_cases hgt : r.eval a > M'
          · exact f2.1 hgt
          · omega
        rcases g4 with g4 | ⟨y, hy, g4⟩
        · exact ⟨x0, by simp, by have := g1 x0 (by simp); omega⟩
        · exact ⟨y, hy, by have := g1 y hy; omega⟩
      simp only [lb_sing hr]
      split
      · rename_i x hsup
        have hxm : x ∈ x0 :: xs' := by
          have : x ∈ maxSupport (sing a) (x0 :: xs') (r.eval a) := by rw [hsup]; simp
          exact (List.mem_filter.1 this).1
        have hx := hw x hxm
        rw [lb_sing hx, setLb_sing hx]
        split
        · split
          · right; exact ⟨rfl, hsat⟩
          · left; rfl
        · right; exact ⟨rfl, hsat⟩
      · right; exact ⟨rfl, hsat⟩

/-! ### Element -/

theorem elementRemoveLoop_sing {a : List Int} (iv : View) (hiv : iv.var < a.length) (rLb rUb : Int)
    (l : List (Int × View)) (hw : ∀ p ∈ l, p.2.var < a.length) :
    Step a (∀ p ∈ l, p.1 = iv.eval a → ¬ (rLb > p.2.eval a ∨ rUb < p.2.eval a))
      (elementRemoveLoop iv rLb rUb (sing a) l (sing a)) := by
  induction l with
  | nil => right; exact ⟨rfl, by simp⟩
  | cons p rest ih =>
    obtain ⟨k, x⟩ := p
    have hx : x.var < a.length := hw (k, x) (by simp)
    simp only [elementRemoveLoop, contains_sing hiv, ub_sing hx, lb_sing hx]
    by_cases hc : (decide (k = iv.eval a) && (decide (rLb > x.eval a) || decide (rUb < x.eval a))) = true
    · left
      simp only [hc, if_true, remove_sing hiv]
      simp only [Bool.and_eq_true, decide_eq_true_eq] at hc
      simp [hc.1]
    · simp only [hc, Bool.false_eq_true, if_false, Option.bind_some]
      rcases ih (fun p hp => hw p (by simp [hp])) with h | ⟨h, hrest⟩
      · left; exact h
      · right
        refine ⟨h, ?_⟩
        intro p hp
        rcases List.mem_cons.1 hp with rfl | hp'
        · intro hk hcond
          apply hc
          simp only [Bool.and_eq_true, Bool.or_eq_true, decide_eq_true_eq]
          exact ⟨hk, hcond⟩
        · exact hrest _ hp'

theorem indexed_wf {n : Nat} (xs : List View) (hw : ∀ x ∈ xs, x.var < n) : ∀ p ∈ indexed xs, p.2.var < n := by
  intro p hp
  obtain ⟨k, x⟩ := p
  unfold indexed at hp
  rw [mem_indexedFrom] at hp
  obtain ⟨j, hj, _⟩ := hp
  exact hw x (List.mem_of_getElem? hj)

theorem element_decides {a : List Int} (iv : View) (xs : List View) (r : View) (hiv : iv.var < a.length)
    (hw : ∀ x ∈ xs, x.var < a.length) (hr : r.var < a.length) :
    Decides a (.element iv xs r) (elementPass iv xs r (sing a)) := by
  unfold elementPass
  apply Step.bind (step_setLb hiv 0)
  intro f1
  apply Step.bind (step_setUb hiv _)
  intro f2
  dsimp only
  apply Step.bind (step_setLb hr _)
  intro _
  apply Step.bind (step_setUb hr _)
  intro _
  simp only [lb_sing hr, ub_sing hr]
  apply Step.bind (elementRemoveLoop_sing iv hiv _ _ (indexed xs) (indexed_wf xs hw))
  intro f3
  have hlt : (iv.eval a).toNat < xs.length := by omega
  obtain ⟨x, hx⟩ : ∃ x, xs[(iv.eval a).toNat]? = some x := ⟨xs[(iv.eval a).toNat], List.getElem?_eq_getElem hlt⟩
  have hxm : x ∈ xs := List.mem_of_getElem? hx
  have hidx : (iv.eval a, x) ∈ indexed xs := by
    unfold indexed; rw [mem_indexedFrom]; exact ⟨(iv.eval a).toNat, hx, by omega⟩
  have heq : x.eval a = r.eval a := by
    have := f3 _ hidx rfl
    simp only at this
    omega
  have hsat : (Cons.element iv xs r).sat a = true := by
    simp only [Cons.sat, Bool.and_eq_true, decide_eq_true_eq]
    exact ⟨f1, by rw [hx]; simpa using heq⟩
  simp only [fixed_sing hiv, if_true, lb_sing hiv, hx, lb_sing hr, ub_sing hr]
  apply Step.bind (step_setLb (hw x hxm) _)
  intro _
  rw [setUb_sing (hw x hxm)]
  split
  · right; exact ⟨rfl, hsat⟩
  · left; rfl


/-! ### Division -/

theorem Step.weaken {a : List Int} {P Q : Prop} {r : Option Doms} (h : Step a P r) (hpq : P → Q) : Step a Q r := by
  rcases h with h | ⟨h, hp⟩
  · left; exact h
  · right; exact ⟨h, hpq hp⟩

theorem divSigns_sing {a : List Int} (n dn r : View) (hn : n.var < a.length) (hr : r.var < a.length) :
    Step a (¬ (0 ≤ n.eval a ∧ r.eval a < 0) ∧ ¬ (n.eval a ≤ 0 ∧ 0 < r.eval a)) (divSigns n dn r (sing a)) := by
  unfold divSigns
  simp only [lb_sing hn, ub_sing hn, lb_sing hr, ub_sing hr]
  refine Step.bindS' (step_guard (fun _ => step_setLb hr 0)) (fun f1 => ?_)
  refine Step.bindS' (step_guard (fun _ => step_setLb hn 1)) (fun f2 => ?_)
  refine Step.bindS' (step_guard (fun _ => step_setUb hr 0)) (fun f3 => ?_)
  refine Step.weaken (step_guard (fun _ => step_setUb hn (-1))) (fun f4 => ?_)
  simp only [Bool.and_eq_true, decide_eq_true_eq] at f1 f2 f3 f4
  constructor
  · intro h; have := f1 ⟨by omega, h.2⟩; omega
  · intro h; have := f2 ⟨h.1, by omega⟩; omega

theorem divUpper_sing {a : List Int} (n dn r : View) (hn : n.var < a.length) (hd : dn.var < a.length) (hr : r.var < a.length) :
    Step a (r.eval a ≤ (n.eval a).tdiv (dn.eval a) ∧ n.eval a ≤ (r.eval a + 1) * dn.eval a - 1) (divUpper n dn r (sing a)) := by
  unfold divUpper
  simp only [lb_sing hn, ub_sing hn, lb_sing hr, ub_sing hr, lb_sing hd, ub_sing hd]
  refine Step.bindS' (step_guard (fun _ => step_setUb hr _)) (fun f1 => ?_)
  refine Step.weaken (step_guard (fun _ => step_setUb hn _)) (fun f2 => ?_)
  simp only [decide_eq_true_eq] at f1 f2
  constructor
  · by_cases h : r.eval a > (n.eval a).tdiv (dn.eval a)
    · exact f1 h
    · omega
  · by_cases h : n.eval a > (r.eval a + 1) * dn.eval a - 1
    · exact f2 h
    · omega

theorem divPositive_sing {a : List Int} (n dn r : View) (hn : n.var < a.length) (hd : dn.var < a.length) (hr : r.var < a.length) :
    Step a True (divPositive n dn r (sing a)) := by
  unfold divPositive
  dsimp only
  refine Step.bindS' (step_guard (fun _ => step_setLb hr _)) (fun _ => ?_)
  refine Step.bindS' (step_guard (fun _ => step_setLb hn _)) (fun _ => ?_)
  refine Step.bindS' (step_guard (fun _ => step_setUb hd _)) (fun _ => ?_)
  exact Step.weaken (step_guard (fun _ => step_setLb hd _)) (fun _ => trivial)

/-- the two upper-bound rules pin the quotient of non-negative operands -/
theorem quotient_pinned {N D R : Int} (hD : 1 ≤ D) (hN : 0 ≤ N) (hR : 0 ≤ R) (h1 : R ≤ N.tdiv D) (h2 : N ≤ (R + 1) * D - 1) :
    N.tdiv D = R := by
  have f := (tdiv_facts N D hD).1 hN
  have e : (R + 1) * D = D * R + D := by rw [Int.add_mul, Int.one_mul, Int.mul_comm]
  have : D * N.tdiv D < D * (R + 1) := by rw [Int.mul_add, Int.mul_one]; omega
  have := Int.lt_of_mul_lt_mul_left this (by omega)
  omega

theorem div_decides {a : List Int} (n dn r : View) (hn : n.var < a.length) (hd : dn.var < a.length) (hr : r.var < a.length)
    (hne : dn.eval a ≠ 0) : Decides a (.div n dn r) (divPass n dn r (sing a)) := by
  unfold divPass
  have hd1 : (dn.scaled 1).var < a.length := hd
  have e1 : (dn.scaled 1).eval a = dn.eval a := by rw [View.scaled_eval]; omega
  simp only [contains_sing hd, lb_sing hd, ub_sing hd, ub_sing hd1, e1]
  have h0 : decide (0 = dn.eval a) = false := by simp; omega
  have hst : (decide (dn.eval a < 0) && decide (dn.eval a > 0)) = false := by
    rw [Bool.and_eq_false_iff]; by_cases h : dn.eval a < 0
    · right; simp; omega
    · left; simp; omega
  simp only [h0, hst, Bool.false_eq_true, if_false]
  -- the normalised views
  have key : ∃ num nnum den : View,
      (num = (if dn.eval a < 0 then n.scaled (-1) else n.scaled 1)) ∧
      (nnum = (if dn.eval a < 0 then n.scaled 1 else n.scaled (-1))) ∧
      (den = (if dn.eval a < 0 then dn.scaled (-1) else dn.scaled 1)) ∧
      num.var < a.length ∧ nnum.var < a.length ∧ den.var < a.length ∧ 1 ≤ den.eval a ∧ nnum.eval a = -(num.eval a) ∧
      (num.eval a).tdiv (den.eval a) = (n.eval a).tdiv (dn.eval a) := by
    by_cases hs : dn.eval a < 0
    · refine ⟨n.scaled (-1), n.scaled 1, dn.scaled (-1), by simp [hs], by simp [hs], by simp [hs], hn, hn, hd, ?_, ?_, ?_⟩
      · rw [View.scaled_eval]; omega
      · rw [View.scaled_eval, View.scaled_eval]; omega
      · rw [View.scaled_eval, View.scaled_eval, Int.neg_one_mul, Int.neg_one_mul, Int.neg_tdiv, Int.tdiv_neg, Int.neg_neg]
    · refine ⟨n.scaled 1, n.scaled (-1), dn.scaled 1, by simp [hs], by simp [hs], by simp [hs], hn, hn, hd, ?_, ?_, ?_⟩
      · rw [View.scaled_eval]; omega
      · rw [View.scaled_eval, View.scaled_eval]; omega
      · rw [View.scaled_eval, View.scaled_eval, Int.one_mul, Int.one_mul]
  obtain ⟨num, nnum, den, e2, e3, e4, wn, wnn, wd, hD, eneg, etd⟩ := key
  rw [← e2, ← e3, ← e4]
  have wnr : (r.scaled (-1)).var < a.length := hr
  have enr : (r.scaled (-1)).eval a = -(r.eval a) := by rw [View.scaled_eval]; omega
  apply Step.bind' (divSigns_sing num den r wn hr)
  intro fs
  simp only [ub_sing wn, ub_sing hr]
  apply Step.bind' (step_guard (fun _ => divUpper_sing num den r wn wd hr))
  intro fu1
  simp only [ub_sing wnn, ub_sing wnr]
  apply Step.bind' (step_guard (fun _ => divUpper_sing nnum den (r.scaled (-1)) wnn wd wnr))
  intro fu2
  simp only [lb_sing wn, lb_sing hr]
  apply Step.bind' (step_guard (fun _ => divPositive_sing num den r wn wd hr))
  intro _
  simp only [lb_sing wnn, lb_sing wnr]
  have hsat : (Cons.div n dn r).sat a = true := by
    simp only [Cons.sat, Bool.and_eq_true, decide_eq_true_eq]
    refine ⟨hne, ?_⟩
    rw [← etd]
    simp only [Bool.and_eq_true, decide_eq_true_eq, eneg, enr] at fu1 fu2
    rcases Int.lt_or_le (num.eval a) 0 with hneg | hpos
    · -- negative numerator: the quotient is not positive, use the negated rules
      have hR : r.eval a ≤ 0 := by
        rcases Int.lt_or_le 0 (r.eval a) with h | h
        · exact absurd ⟨by omega, h⟩ fs.2
        · exact h
      have := fu2 ⟨by omega, by omega⟩
      have q := quotient_pinned hD (N := -(num.eval a)) (R := -(r.eval a)) (by omega) (by omega) this.1 this.2
      rw [Int.neg_tdiv] at q
      omega
    · have hR : 0 ≤ r.eval a := by
        rcases Int.lt_or_le (r.eval a) 0 with h | h
        · exact absurd ⟨hpos, h⟩ fs.1
        · exact h
      have := fu1 ⟨by omega, by omega⟩
      exact quotient_pinned hD hpos hR this.1 this.2
  rcases step_guard (a := a) (P := True) (b := (decide (nnum.eval a ≥ 0) && decide ((r.scaled (-1)).eval a ≥ 0)))
      (f := divPositive nnum den (r.scaled (-1))) (fun _ => divPositive_sing nnum den (r.scaled (-1)) wnn wd wnr) with h | ⟨h, _⟩
  · left; exact h
  · right; exact ⟨h, hsat⟩


/-! ### every propagator; the fixpoint at a full assignment -/

/-! ### cumulative at a full assignment -/

theorem mandatoryAt_sing {a : List Int} (k : Task) (hk : k.start.var < a.length) (t : Int) :
    mandatoryAt (sing a) k t = (decide (k.start.eval a ≤ t) && decide (t < k.start.eval a + k.dur)) := by
  simp only [mandatoryAt, lb_sing hk, ub_sing hk]

theorem heightAt_sing {a : List Int} (ts : List Task) (hw : ∀ k ∈ ts, k.start.var < a.length) (t : Int) :
    heightAt (sing a) ts t = loadAt ts a t := by
  rw [heightAt_eq_sumL, loadAt_eq_sumL]
  congr 1
  apply List.map_congr_left
  intro k hk
  rw [mandatoryAt_sing k (hw k hk)]
  by_cases h1 : k.start.eval a ≤ t <;> by_cases h2 : t < k.start.eval a + k.dur <;> simp [h1, h2]

theorem ttTaskAt_sing {a : List Int} (holes : Bool) (cap : Int) (ts : List Task) (t : Int) (k : Task)
    (hk : k.start.var < a.length) : ttTaskAt holes cap ts t k (sing a) = some (sing a) := by
  unfold ttTaskAt
  rw [if_neg]
  rintro ⟨_, hnm, h1, h2⟩
  rw [mandatoryAt_sing k hk] at hnm
  rw [lb_sing hk] at h1
  rw [ub_sing hk] at h2
  simp [h1, h2] at hnm

theorem ttTasksAt_sing {a : List Int} (holes : Bool) (cap : Int) (ts : List Task) (t : Int) (sub : List Task)
    (hw : ∀ k ∈ sub, k.start.var < a.length) : ttTasksAt holes cap ts t sub (sing a) = some (sing a) := by
  induction sub with
  | nil => rfl
  | cons k r ih =>
    simp only [ttTasksAt, ttTaskAt_sing holes cap ts t k (hw k (by simp)), Option.bind_some]
    exact ih (fun j hj => hw j (by simp [hj]))

theorem ttPoints_sing {a : List Int} (holes : Bool) (cap : Int) (ts : List Task)
    (hw : ∀ k ∈ ts, k.start.var < a.length) (times : List Int) :
    ttPoints holes cap ts times (sing a) = none ∨
    (ttPoints holes cap ts times (sing a) = some (sing a) ∧ ∀ t ∈ times, loadAt ts a t ≤ cap) := by
  induction times with
  | nil => right; exact ⟨rfl, by intro t ht; cases ht⟩
  | cons t r ih =>
    simp only [ttPoints, heightAt_sing ts hw]
    by_cases h1 : loadAt ts a t > cap
    · left; simp [h1]
    · rw [if_neg h1]
      have hstep : (if loadAt ts a t > 0 then (ttTasksAt holes cap ts t ts (sing a)).bind (ttPoints holes cap ts r)
          else ttPoints holes cap ts r (sing a)) = ttPoints holes cap ts r (sing a) := by
        split
        · rw [ttTasksAt_sing holes cap ts t ts hw]; rfl
        · rfl
      rw [hstep]
      rcases ih with h | ⟨h, hall⟩
      · left; exact h
      · right
        refine ⟨h, ?_⟩
        intro u hu
        rcases List.mem_cons.1 hu with rfl | hu
        · omega
        · exact hall u hu

theorem mem_intRange_lo (lo hi : Int) (h : lo ≤ hi) : lo ∈ intRange lo hi := by
  unfold intRange
  exact List.mem_map.2 ⟨0, List.mem_range.2 (by omega), by simp⟩

theorem ttTasks_eq (ts : List Task) :
    ttTasks ts = ts.filter (fun k => decide (0 < k.use) && decide (0 < k.dur)) := by
  unfold ttTasks
  apply List.filter_congr
  intro k _
  exact Bool.and_comm _ _

/-- at a full assignment the time-table check decides `cumulative` (for a non-negative capacity) -/
theorem tt_decides {a : List Int} (holes : Bool) (ts : List Task) (cap : Int) (hw : tasksWf a.length ts)
    (hcap : 0 ≤ cap) : Decides a (.cumulative ts cap) (ttPass holes ts cap (sing a)) := by
  unfold ttPass
  simp only []
  split
  · left; rfl
  · have hw' : ∀ k ∈ ttTasks ts, k.start.var < a.length := fun k hk => (hw k (List.mem_filter.1 hk).1).1
    rcases ttPoints_sing holes cap (ttTasks ts) hw' (ttTimes (sing a) (ttTasks ts)) with h | ⟨h, hall⟩
    · left; exact h
    · right
      refine ⟨h, ?_⟩
      -- the load at the start of every kept task is within the capacity
      have hu' : ∀ k ∈ ttTasks ts, 0 ≤ k.use := fun k hk => (hw k (List.mem_filter.1 hk).1).2
      have hsat' : (Cons.cumulative (ttTasks ts) cap).sat a = true := by
        simp only [Cons.sat, Bool.and_eq_true, List.all_eq_true, decide_eq_true_eq]
        refine ⟨?_, hcap⟩
        intro k hk
        apply hall
        simp only [ttTimes, List.mem_flatMap]
        refine ⟨k, hk, ?_⟩
        rw [ub_sing (hw' k hk), lb_sing (hw' k hk)]
        have hd := (List.mem_filter.1 hk).2
        simp only [Bool.and_eq_true, decide_eq_true_eq] at hd
        exact mem_intRange_lo _ _ (by omega)
      have hT' := (CumSem.cumulative_sat_iff (ttTasks ts) cap a hu').1 hsat'
      apply (CumSem.cumulative_sat_iff ts cap a (fun k hk => (hw k hk).2)).2
      intro t
      rcases CumSem.loadAt_drop_zero ts a t with he | ⟨k, hk, hneg⟩
      · rw [← he, ← ttTasks_eq]; exact hT' t
      · have := (hw k hk).2; omega

/-- preconditions the real propagators assert or rely on: a denominator is never 0, `maximum` is
not posted over an empty array, the capacity of `cumulative` is not negative -/
def PropInst.Pre (a : List Int) : PropInst → Prop
  | .div _ dn _ => dn.eval a ≠ 0
  | .max xs _ => xs ≠ []
  | .cumulative _ _ cap => 0 ≤ cap
  | .reified _ p => p.Pre a
  | _ => True

/-- **At a full assignment every modelled propagator decides its constraint.** -/
theorem pass_checks {a : List Int} (p : PropInst) (hw : p.Wf a.length) (hpre : p.Pre a) :
    Decides a p.cons (p.pass (sing a)) := by
  induction p with
  | linLe ts c => exact linLe_decides ts c hw
  | linNe ts c => exact linNe_decides ts c hw
  | abs s r => exact abs_decides s r hw.1 hw.2
  | max xs r => exact max_decides xs r hw.1 hw.2 hpre
  | times x y z => exact times_decides x y z hw.1 hw.2.1 hw.2.2
  | div x y z => exact div_decides x y z hw.1 hw.2.1 hw.2.2 hpre
  | element i xs r => exact element_decides i xs r hw.1 hw.2.1 hw.2.2
  | clause ls => exact clause_decides ls hw
  | cumulative holes ts cap => exact tt_decides holes ts cap hw hpre
  | reified r q ih =>
    simp only [PropInst.pass, atomTrue_sing hw.1, atomFalse_sing hw.1]
    have hfix : (!(r.holds a || !r.holds a) && q.inconsistent (sing a)) = false := by
      cases r.holds a <;> simp
    simp only [hfix, Bool.false_eq_true, if_false, Option.bind_some, atomTrue_sing hw.1]
    cases hr : r.holds a with
    | false => right; exact ⟨by simp, by simp [PropInst.cons, Cons.sat, hr]⟩
    | true =>
      simp only [if_true]
      rcases ih hw.2 hpre with h | ⟨h, hs⟩
      · left; exact h
      · right; exact ⟨h, by simp [PropInst.cons, Cons.sat, hs]⟩

theorem round_sing {a : List Int} (ps : List PropInst) (hw : ∀ p ∈ ps, p.Wf a.length) (hpre : ∀ p ∈ ps, p.Pre a) :
    round ps (sing a) = none ∨ (round ps (sing a) = some (sing a) ∧ ∀ p ∈ ps, p.cons.sat a = true) := by
  induction ps with
  | nil => right; exact ⟨rfl, by simp⟩
  | cons p ps ih =>
    simp only [round]
    rcases pass_checks p (hw p (by simp)) (hpre p (by simp)) with h | ⟨h, hs⟩
    · left; rw [h]; rfl
    · rw [h]
      simp only [Option.bind_some]
      rcases ih (fun q hq => hw q (by simp [hq])) (fun q hq => hpre q (by simp [hq])) with h' | ⟨h', hs'⟩
      · left; exact h'
      · right
        refine ⟨h', ?_⟩
        intro q hq
        rcases List.mem_cons.1 hq with rfl | hq
        · exact hs
        · exact hs' q hq

theorem sing_no_empty (a : List Int) : (sing a).any List.isEmpty = false := by
  simp [sing, List.any_map]

/-- **If the fixpoint computation at a full assignment reports no conflict, the constraint of every
propagator holds there** (and the state is unchanged). -/
theorem fixpoint_checks {a : List Int} (ps : List PropInst) (hw : ∀ p ∈ ps, p.Wf a.length) (hpre : ∀ p ∈ ps, p.Pre a)
    (d' : Doms) (hf : fixpoint ps (sing a) = some d') : d' = sing a ∧ ∀ p ∈ ps, p.cons.sat a = true := by
  unfold fixpoint at hf
  rw [sing_no_empty] at hf
  simp only [Bool.false_eq_true, if_false, iterate] at hf
  rcases round_sing ps hw hpre with h | ⟨h, hs⟩
  · rw [h] at hf; cases hf
  · rw [h] at hf
    simp only [if_true] at hf
    cases hf
    exact ⟨rfl, hs⟩


/-! ### the decomposition, backwards: if the constraints of all propagators hold, the constraint holds -/

theorem wrap_sat_inv (imp : Option Atom) (p : PropInst) (a : List Int)
    (h : (compileWith.wrap imp p).cons.sat a = true) (hi : impHolds imp a) : p.cons.sat a = true := by
  cases imp with
  | none => exact h
  | some r =>
    simp only [compileWith.wrap, PropInst.cons, Cons.sat, Bool.or_eq_true, Bool.not_eq_true'] at h
    simp only [impHolds] at hi
    rcases h with h | h
    · rw [hi] at h; cases h
    · exact h

theorem clauseInst_bwd {orig : Doms} {a : List Int} (hin : inDoms orig a = true) (ls : List Atom)
    (h : ∀ p ∈ clauseInst orig ls, p.cons.sat a = true) : ∃ l ∈ ls, l.holds a = true := by
  unfold clauseInst minClause at h
  have key := SemMin.minimise_sem (sdOfVar orig) (ls.map Atom.neg) true a (sdOfVar_sem hin)
  have hnot : ¬ (∀ p ∈ ls.map Atom.neg, p.holds a = true) := by
    cases hm : SemMin.minimise (sdOfVar orig) (ls.map Atom.neg) true with
    | none => rw [hm] at key; exact fun hall => key.1 hall
    | some out =>
      rw [hm] at key h
      simp only [Option.map_some] at h
      have hs := h _ (List.mem_cons_self ..)
      simp only [PropInst.cons, Cons.sat, List.any_map, List.any_eq_true, Function.comp, Atom.neg_holds,
        Bool.not_eq_true'] at hs
      obtain ⟨q, hq, hqa⟩ := hs
      intro hall
      have := key.1 hall q hq
      rw [hqa] at this; cases this
  cases hany : ls.any (·.holds a) with
  | true => exact List.any_eq_true.1 hany
  | false =>
    exfalso
    apply hnot
    intro p hp
    obtain ⟨l, hl, rfl⟩ := List.mem_map.1 hp
    have := List.any_eq_false.1 hany l hl
    rw [Atom.neg_holds]
    simpa using this

theorem pairwiseNe_of_pairs (xs : List View) (a : List Int)
    (h : ∀ p ∈ pairs xs, p.1.eval a ≠ p.2.eval a) : pairwiseNe (xs.map (·.eval a)) = true := by
  induction xs with
  | nil => rfl
  | cons x xs ih =>
    simp only [List.map_cons, pairwiseNe, Bool.and_eq_true, List.all_eq_true, decide_eq_true_eq]
    refine ⟨?_, ih (fun p hp => h p (by simp [pairs, hp]))⟩
    intro v hv
    obtain ⟨y, hy, rfl⟩ := List.mem_map.1 hv
    exact h (x, y) (by simp only [pairs, List.mem_append, List.mem_map]; left; exact ⟨y, hy, rfl⟩)

theorem compileWith_bwd (orig : Doms) (imp : Option Atom) (c : Cons) (ps : List PropInst)
    (hc : compileWith orig imp c = some ps) (a : List Int) (hin : inDoms orig a = true)
    (H : ∀ p ∈ ps, p.cons.sat a = true) (hi : impHolds imp a) : c.sat a = true := by
  cases c <;> simp only [compileWith, Option.some.injEq] at hc <;> try (cases hc)
  · exact wrap_sat_inv imp _ a (H _ (List.mem_cons_self ..)) hi
  · rename_i ts c
    have h1 := wrap_sat_inv imp _ a (H _ (List.mem_cons_self ..)) hi
    have h2 := wrap_sat_inv imp _ a (H _ (List.mem_cons_of_mem _ (List.mem_cons_self ..))) hi
    have hdec := C09.equals_decomposition ts c a
    simp only [C09.equalsAsInequalities, List.all_cons, List.all_nil, Bool.and_true] at hdec
    rw [← hdec, Bool.and_eq_true]
    exact ⟨h1, h2⟩
  · exact wrap_sat_inv imp _ a (H _ (List.mem_cons_self ..)) hi
  · exact wrap_sat_inv imp _ a (H _ (List.mem_cons_self ..)) hi
  · exact wrap_sat_inv imp _ a (H _ (List.mem_cons_self ..)) hi
  · exact wrap_sat_inv imp _ a (H _ (List.mem_cons_self ..)) hi
  · exact wrap_sat_inv imp _ a (H _ (List.mem_cons_self ..)) hi
  · -- min
    rename_i xs r
    have := wrap_sat_inv imp _ a (H _ (List.mem_cons_self ..)) hi
    simp only [PropInst.cons, Cons.sat, Bool.and_eq_true, List.all_eq_true, List.any_eq_true, decide_eq_true_eq, negViews] at this
    simp only [Cons.sat, Bool.and_eq_true, List.all_eq_true, List.any_eq_true, decide_eq_true_eq]
    refine ⟨?_, ?_⟩
    · intro x hx
      have := this.1 (neg x) (List.mem_map.2 ⟨x, hx, rfl⟩)
      simp only [neg, View.scaled_eval] at this; omega
    · obtain ⟨y, hy, he⟩ := this.2
      obtain ⟨x, hx, rfl⟩ := List.mem_map.1 hy
      exact ⟨x, hx, by simp only [neg, View.scaled_eval] at he; omega⟩
  · exact wrap_sat_inv imp _ a (H _ (List.mem_cons_self ..)) hi
  · -- allDiff
    rename_i xs
    simp only [Cons.sat]
    apply pairwiseNe_of_pairs
    intro p hp
    have := wrap_sat_inv imp _ a (H _ (List.mem_map.2 ⟨p, hp, rfl⟩)) hi
    simp only [PropInst.cons, Cons.sat, decide_eq_true_eq, sumViews, List.map_cons, List.map_nil, List.foldl_cons,
      List.foldl_nil, View.scaled_eval] at this
    omega
  · exact wrap_sat_inv imp _ a (H _ (List.mem_cons_self ..)) hi
  · -- clause
    rename_i ls
    cases imp with
    | none =>
      obtain ⟨l, hl, hla⟩ := clauseInst_bwd hin ls H
      simp only [Cons.sat, List.any_eq_true]; exact ⟨l, hl, hla⟩
    | some r =>
      obtain ⟨l, hl, hla⟩ := clauseInst_bwd hin (ls ++ [r.neg]) H
      simp only [impHolds] at hi
      rcases List.mem_append.1 hl with hl | hl
      · simp only [Cons.sat, List.any_eq_true]; exact ⟨l, hl, hla⟩
      · simp only [List.mem_singleton] at hl; subst hl
        rw [Atom.neg_holds, hi] at hla; cases hla
  · -- conj
    rename_i ls
    simp only [Cons.sat, List.all_eq_true]
    intro l hl
    cases imp with
    | none =>
      obtain ⟨l', hl', hla⟩ := clauseInst_bwd hin [l] (fun p hp => H p (List.mem_flatMap.2 ⟨l, hl, hp⟩))
      simp only [List.mem_singleton] at hl'; subst hl'; exact hla
    | some r =>
      obtain ⟨l', hl', hla⟩ := clauseInst_bwd hin [r.neg, l] (fun p hp => H p (List.mem_flatMap.2 ⟨l, hl, hp⟩))
      simp only [impHolds] at hi
      simp only [List.mem_cons, List.not_mem_nil, or_false] at hl'
      rcases hl' with rfl | rfl
      · rw [Atom.neg_holds, hi] at hla; cases hla
      · exact hla

theorem compile_bwd (orig : Doms) (c : Cons) (ps : List PropInst) (hc : compile orig c = some ps)
    (a : List Int) (hin : inDoms orig a = true) (H : ∀ p ∈ ps, p.cons.sat a = true) : c.sat a = true := by
  unfold compile at hc
  split at hc
  · rename_i r c'
    simp only [Option.bind_eq_some_iff] at hc
    obtain ⟨c1, h1, h2⟩ := hc
    simp only [Cons.sat, Bool.or_eq_true, Bool.not_eq_true']
    cases hr : r.holds a with
    | false => left; rfl
    | true =>
      right
      rw [← resolveNeg_sat _ _ _ h1 a]
      exact compileWith_bwd orig (some r) c1 ps h2 a hin H hr
  · rename_i r c'
    simp only [Option.bind_eq_some_iff, Option.map_eq_some_iff] at hc
    obtain ⟨pos, h1, ng, h2, ps1, h3, ps2, h4, rfl⟩ := hc
    have e1 := resolveNeg_sat _ _ _ h1 a
    have e2 := negCons_sat h2 a
    simp only [Cons.sat, beq_iff_eq]
    cases hr : r.holds a with
    | true =>
      have := compileWith_bwd orig (some r) pos ps1 h3 a hin (fun p hp => H p (List.mem_append.2 (Or.inl hp))) hr
      rw [← e1, this]
    | false =>
      have := compileWith_bwd orig (some r.neg) ng ps2 h4 a hin (fun p hp => H p (List.mem_append.2 (Or.inr hp)))
        (by simp only [impHolds, Atom.neg_holds, hr]; rfl)
      rw [e2, e1] at this
      cases hc' : c'.sat a with
      | false => rfl
      | true => rw [hc'] at this; cases this
  · simp only [Option.bind_eq_some_iff] at hc
    obtain ⟨c1, h1, h2⟩ := hc
    rw [← resolveNeg_sat _ _ _ h1 a]
    exact compileWith_bwd orig none c1 ps h2 a hin H trivial

theorem compileAll_spec {n : Nat} (orig : Doms) (cs : List Cons) (ps : List PropInst) (hc : compileAll orig cs = some ps)
    (hw : ∀ c ∈ cs, consWf n c) :
    (∀ p ∈ ps, p.Wf n) ∧ ∀ a, inDoms orig a = true → (∀ p ∈ ps, p.cons.sat a = true) → ∀ c ∈ cs, c.sat a = true := by
  induction cs generalizing ps with
  | nil => simp only [compileAll, Option.some.injEq] at hc; subst hc; simp
  | cons c cs ih =>
    simp only [compileAll, Option.bind_eq_some_iff, Option.map_eq_some_iff] at hc
    obtain ⟨qs, hq, rs, hr, rfl⟩ := hc
    obtain ⟨w2, s2⟩ := ih rs hr (fun c' hc' => hw c' (by simp [hc']))
    have w1 := compile_wf orig c qs hq (hw c (by simp))
    refine ⟨?_, ?_⟩
    · intro p hp
      rcases List.mem_append.1 hp with hp | hp
      · exact w1 p hp
      · exact w2 p hp
    · intro a hin H c' hc'
      rcases List.mem_cons.1 hc' with rfl | hc'
      · exact compile_bwd orig c' qs hq a hin (fun p hp => H p (List.mem_append.2 (Or.inl hp)))
      · exact s2 a hin (fun p hp => H p (List.mem_append.2 (Or.inr hp))) c' hc'

/-- **A state in which every variable is fixed and whose propagation fixpoint reports no conflict is a
solution of the model** (for every model of the modelled constraint kinds whose compiled propagators
meet the preconditions the real ones assert). -/
theorem full_assignment_fixpoint_is_solution (m : Model) (hw : ∀ c ∈ m.cons, consWf m.doms.length c)
    (ps : List PropInst) (hc : compileAll m.doms m.cons = some ps) (a : List Int) (hin : inDoms m.doms a = true)
    (hpre : ∀ p ∈ ps, p.Pre a) (d' : Doms) (hf : fixpoint ps (sing a) = some d') : m.sat a = true := by
  obtain ⟨w, s⟩ := compileAll_spec (n := m.doms.length) m.doms m.cons ps hc hw
  have hlen := inDoms_length hin
  obtain ⟨_, hs⟩ := fixpoint_checks ps (by rw [hlen]; exact w) hpre d' hf
  simp only [Model.sat, Bool.and_eq_true, List.all_eq_true]
  exact ⟨hin, s a hin hs⟩

end Pumpkin.Pg
