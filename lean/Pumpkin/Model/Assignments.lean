/-
A model of the domain store `engine/cp/assignments.rs` (`Assignments`, `IntegerDomain`) and of the
trail `basic_types/trail.rs`, statement by statement:

* `IntegerDomain` keeps *chronological update lists* — `lower_bound_updates`, `upper_bound_updates`
  (bound, decision level, trail position), `hole_updates` (value, decision level, whether the removal
  moved a bound) and the map `holes` (value ↦ level, position), which mirrors `hole_updates` and is
  modelled by it (`HU.pos`). The current bound is the last update; a bound which lands on a hole skips
  over it (`update_lower_bound_with_respect_to_holes`), stopping when the domain has become empty.
* `Assignments` pushes one trail entry (predicate, old bounds) per change which is not already true,
  splits `[x == v]` into two bound updates and, on `synchronise`, pops the entries above the new
  decision level and undoes each of them by popping update lists (`undo_trail_entry`).

Lists are newest-first here (the head is Rust's `last()`), trail entries carry the decision level at
which they were pushed (Rust: `trail_delimiter`; `sync k` drops exactly the entries pushed at a level
above `k`). Events (`EventSink`) and the pruned-value statistic are not modelled.
-/
import Pumpkin.Spec.Basic

namespace Pumpkin.Asg

structure BU where
  bound : Int
  level : Nat
  pos : Nat
deriving DecidableEq, Repr, Inhabited

structure HU where
  value : Int
  level : Nat
  pos : Nat
  trigLb : Bool
  trigUb : Bool
deriving DecidableEq, Repr, Inhabited

structure IDom where
  lbs : List BU
  ubs : List BU
  hus : List HU
deriving DecidableEq, Repr, Inhabited

namespace IDom

/-- `IntegerDomain::new` -/
def new (lb ub : Int) : IDom := ⟨[⟨lb, 0, 0⟩], [⟨ub, 0, 0⟩], []⟩

def lb (d : IDom) : Int := match d.lbs with | b :: _ => b.bound | [] => 0
def ub (d : IDom) : Int := match d.ubs with | b :: _ => b.bound | [] => 0
def initLb (d : IDom) : Int := match d.lbs.getLast? with | some b => b.bound | none => 0
def initUb (d : IDom) : Int := match d.ubs.getLast? with | some b => b.bound | none => 0
def hole (d : IDom) (v : Int) : Bool := d.hus.any (fun h => h.value == v)

/-- `IntegerDomain::contains` -/
def contains (d : IDom) (v : Int) : Bool := decide (d.lb ≤ v) && decide (v ≤ d.ub) && !d.hole v

/-- `verify_consistency` -/
def consistent (d : IDom) : Bool := decide (d.lb ≤ d.ub)

/-- the loop of `update_lower_bound_with_respect_to_holes`; `fuel = ub + 1 - lb` suffices
(`skipUp_fuel`) -/
def skipUp (d : IDom) (ub : Int) : Nat → Int → Int
  | 0, b => b
  | n + 1, b => if d.hole b && decide (b ≤ ub) then skipUp d ub n (b + 1) else b

def skipDown (d : IDom) (lb : Int) : Nat → Int → Int
  | 0, b => b
  | n + 1, b => if d.hole b && decide (lb ≤ b) then skipDown d lb n (b - 1) else b

/-- `set_lower_bound` -/
def setLb (d : IDom) (k : Int) (level pos : Nat) : IDom :=
  if k ≤ d.lb then d
  else { d with lbs := ⟨d.skipUp d.ub (d.ub + 1 - k).toNat k, level, pos⟩ :: d.lbs }

/-- `set_upper_bound` -/
def setUb (d : IDom) (k : Int) (level pos : Nat) : IDom :=
  if d.ub ≤ k then d
  else { d with ubs := ⟨d.skipDown d.lb (k + 1 - d.lb).toNat k, level, pos⟩ :: d.ubs }

def setTrigLb (d : IDom) : IDom :=
  match d.hus with
  | h :: r => { d with hus := { h with trigLb := true } :: r }
  | [] => d

def setTrigUb (d : IDom) : IDom :=
  match d.hus with
  | h :: r => { d with hus := { h with trigUb := true } :: r }
  | [] => d

/-- `remove_value` -/
def removeValue (d : IDom) (v : Int) (level pos : Nat) : IDom :=
  if v < d.lb ∨ d.ub < v ∨ d.hole v then d
  else
    let d1 : IDom := { d with hus := ⟨v, level, pos, false, false⟩ :: d.hus }
    let d2 := if d1.lb = v then (d1.setLb (v + 1) level pos).setTrigLb else d1
    if d2.ub = v then (d2.setUb (v - 1) level pos).setTrigUb else d2

/-- `undo_trail_entry` (the `Equal` arm is `unreachable!()`: modelled as no change) -/
def undo (d : IDom) : Atom → IDom
  | .ge _ _ => { d with lbs := d.lbs.tail }
  | .le _ _ => { d with ubs := d.ubs.tail }
  | .ne _ _ =>
    match d.hus with
    | [] => d
    | h :: r =>
      { lbs := if h.trigLb then d.lbs.tail else d.lbs
        ubs := if h.trigUb then d.ubs.tail else d.ubs
        hus := r }
  | .eq _ _ => d

/-- `lower_bound_at_trail_position`: the newest update made at or before the position -/
def lbAt (d : IDom) (p : Nat) : Int :=
  match d.lbs.find? (fun u => decide (u.pos ≤ p)) with | some u => u.bound | none => 0
def ubAt (d : IDom) (p : Nat) : Int :=
  match d.ubs.find? (fun u => decide (u.pos ≤ p)) with | some u => u.bound | none => 0
def containsAt (d : IDom) (v : Int) (p : Nat) : Bool :=
  if d.lbAt p > v ∨ d.ubAt p < v then false
  else match d.hus.find? (fun h => h.value == v) with
    | some h => !decide (h.pos ≤ p)
    | none => true

/-- `get_update_info` for bounds: the *oldest* update which reaches the bound -/
def lbInfo (d : IDom) (k : Int) : Option (Nat × Nat) :=
  (d.lbs.reverse.find? (fun u => decide (k ≤ u.bound))).map (fun u => (u.level, u.pos))
def ubInfo (d : IDom) (k : Int) : Option (Nat × Nat) :=
  (d.ubs.reverse.find? (fun u => decide (u.bound ≤ k))).map (fun u => (u.level, u.pos))

def updateInfo (d : IDom) : Atom → Option (Nat × Nat)
  | .ge _ k => d.lbInfo k
  | .le _ k => d.ubInfo k
  | .ne _ k =>
    match d.hus.find? (fun h => h.value == k) with
    | some h => some (h.level, h.pos)
    | none => match d.lbInfo (k + 1) with
      | some r => some r
      | none => d.ubInfo (k - 1)
  | .eq _ k =>
    match d.lbInfo k with
    | some l => (d.ubInfo k).map (fun u => if l.2 > u.2 then l else u)
    | none => none

end IDom

structure Entry where
  atom : Atom
  oldLb : Int
  oldUb : Int
  level : Nat
  grow : Bool
deriving DecidableEq, Repr, Inhabited

structure St where
  doms : List IDom
  trail : List Entry
  level : Nat
deriving DecidableEq, Repr, Inhabited

namespace St

def empty : St := ⟨[], [], 0⟩

def dom (s : St) (x : Nat) : IDom := s.doms.getD x default
def lb (s : St) (x : Nat) : Int := (s.dom x).lb
def ub (s : St) (x : Nat) : Int := (s.dom x).ub
def contains (s : St) (x : Nat) (v : Int) : Bool := (s.dom x).contains v
def setDom (s : St) (x : Nat) (d : IDom) : St := { s with doms := s.doms.set x d }

/-- `grow` (only at the root; the harness respects the `pumpkin_assert_simple`) -/
def grow (s : St) (lo hi : Int) : St :=
  let x := s.doms.length
  { s with
    doms := s.doms ++ [IDom.new lo hi]
    trail := ⟨.le x hi, lo, hi, s.level, true⟩ :: ⟨.ge x lo, lo, hi, s.level, true⟩ :: s.trail }

/-- `Assignments::default`: the dummy variable 0 with domain {1} -/
def init : St := empty.grow 1 1

def entryFor (s : St) (p : Atom) : Entry := ⟨p, s.lb p.var, s.ub p.var, s.level, false⟩

/-- what a trail entry does to its domain (the `IntegerDomain` call made by `tighten_*` / `remove_*`) -/
def applyAtom (d : IDom) (p : Atom) (level pos : Nat) : IDom :=
  match p with
  | .ge _ k => d.setLb k level pos
  | .le _ k => d.setUb k level pos
  | .ne _ k => d.removeValue k level pos
  | .eq _ _ => d

/-- is the predicate a change (otherwise `tighten_*` / `remove_*` return without touching anything) -/
def changes (d : IDom) : Atom → Bool
  | .ge _ k => decide (d.lb < k)
  | .le _ k => decide (k < d.ub)
  | .ne _ k => d.contains k
  | .eq _ _ => false

/-- `tighten_lower_bound`, `tighten_upper_bound`, `remove_value_from_domain` -/
def postSimple (s : St) (p : Atom) : St :=
  let d := s.dom p.var
  if changes d p then
    { (s.setDom p.var (applyAtom d p s.level s.trail.length)) with trail := s.entryFor p :: s.trail }
  else s

/-- `post_predicate`; the Boolean is `Ok` (true) / `Err(EmptyDomain)` (false). `make_assignment`
returns early when the lower-bound half has emptied the domain. -/
def post (s : St) (p : Atom) : St × Bool :=
  match p with
  | .eq x v =>
    let s1 := if s.lb x < v then s.postSimple (.ge x v) else s
    if s.lb x < v ∧ !(s1.dom x).consistent then (s1, false)
    else
      let s2 := if s1.ub x > v then s1.postSimple (.le x v) else s1
      (s2, (s2.dom x).consistent)
  | p => let s' := s.postSimple p; (s', (s'.dom p.var).consistent)

def newLevel (s : St) : St := { s with level := s.level + 1 }

/-- pop and undo the entries pushed above level `k` -/
def unwind (k : Nat) : List Entry → List IDom → List Entry × List IDom
  | [], ds => ([], ds)
  | e :: r, ds =>
    if k < e.level then unwind k r (ds.set e.atom.var ((ds.getD e.atom.var default).undo e.atom))
    else (e :: r, ds)

/-- `synchronise` -/
def sync (s : St) (k : Nat) : St :=
  let (t, ds) := unwind k s.trail s.doms
  ⟨ds, t, k⟩

/-- the list `synchronise` returns: variables which were fixed right before one of the popped entries
was undone and are not fixed right after (with the value they were fixed to); newest entry first -/
def unfixed (k : Nat) : List Entry → List IDom → List (Nat × Int)
  | [], _ => []
  | e :: r, ds =>
    if k < e.level then
      let d := ds.getD e.atom.var default
      let d' := d.undo e.atom
      let rest := unfixed k r (ds.set e.atom.var d')
      if d.lb = d.ub ∧ d'.lb ≠ d'.ub then (e.atom.var, d.lb) :: rest else rest
    else []

/-- `evaluate_predicate` -/
def evaluate (s : St) : Atom → Option Bool
  | .ge x k => if s.lb x ≥ k then some true else if s.ub x < k then some false else none
  | .le x k => if s.ub x ≤ k then some true else if s.lb x > k then some false else none
  | .ne x k => if !s.contains x k then some true else if s.lb x = s.ub x then some false else none
  | .eq x k => if !s.contains x k then some false else if s.lb x = s.ub x then some true else none

inductive Op where
  | grow (lo hi : Int)
  | post (p : Atom)
  | newLevel
  | sync (k : Nat)
deriving Repr, DecidableEq

/-- The operations as the solver may issue them: variables are created at the root only, predicates
are over existing variables, `sync` goes strictly down. (Rust asserts the first and the third.) -/
def Op.ok (s : St) : Op → Bool
  | .grow lo hi => s.level == 0 && decide (lo ≤ hi)
  | .post p => decide (p.var < s.doms.length)
  | .newLevel => true
  | .sync k => decide (k < s.level)

def step (s : St) : Op → St
  | .grow lo hi => s.grow lo hi
  | .post p => (s.post p).1
  | .newLevel => s.newLevel
  | .sync k => s.sync k

/-- run a sequence of operations, skipping the ones the API forbids in the current state -/
def run (s : St) : List Op → St
  | [] => s
  | o :: r => if o.ok s then run (step s o) r else run s r

end St

end Pumpkin.Asg
