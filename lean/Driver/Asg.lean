/-
Glue for the `asg` records: runs `Model/Assignments.lean` on the operation sequence of the harness and
renders every observable exactly as `harness/src/asg.rs` does.
-/
import Pumpkin.Model.AssignmentsEvents
import Driver.Parse

namespace Driver.AsgRun
open Pumpkin Pumpkin.Asg

inductive XOp where
  | grow (lo hi : Int)
  | sparse (vs : List Int)
  | post (p : Atom)
  | newLevel
  | sync (k : Nat)
  | query
deriving Repr

def pOps : Nat → P (List XOp)
  | 0 => fun ts => some ([], ts)
  | n + 1 => fun ts => do
    let (k, ts) ← pTok ts
    let (o, ts) ← (match k with
      | "g" => do let (lo, ts) ← pInt ts; let (hi, ts) ← pInt ts; pure (XOp.grow lo hi, ts)
      | "s" => do let (vs, ts) ← pList pInt ts; pure (XOp.sparse vs, ts)
      | "p" => do let (a, ts) ← pAtom ts; pure (XOp.post a, ts)
      | "n" => pure (XOp.newLevel, ts)
      | "y" => do let (k, ts) ← pNat ts; pure (XOp.sync k, ts)
      | "q" => pure (XOp.query, ts)
      | _ => none : Option (XOp × List String))
    let (os, ts) ← pOps n ts
    pure (o :: os, ts)

def rangeI (lo hi : Int) : List Int := (List.range (hi + 1 - lo).toNat).map (fun (i : Nat) => lo + Int.ofNat i)

def showList (vs : List Int) : String := "[" ++ ";".intercalate (vs.map toString) ++ "]"

def showAtom : Atom → String
  | .ge x v => s!"ge.{x}.{v}"
  | .le x v => s!"le.{x}.{v}"
  | .ne x v => s!"ne.{x}.{v}"
  | .eq x v => s!"eq.{x}.{v}"

def minL (l : List Int) : Int := l.foldl min (l.headD 0)
def maxL (l : List Int) : Int := l.foldl max (l.headD 0)

/-- `create_new_integer_variable_sparse`: sort, dedup, `grow`, remove the values in between -/
def growSparse (s : St) (vs : List Int) : St :=
  let lo := minL vs
  let hi := maxL vs
  let x := s.doms.length
  let s1 := s.grow lo hi
  (rangeI lo hi).foldl (fun s v => if vs.contains v then s else (s.post (.ne x v)).1) s1

def snapshot (s : St) (decl : List (Int × Int)) : String := Id.run do
  let mut out := s!"L{s.level}T{s.trail.length}"
  let mut raw := ""
  let mut x := 0
  for (lo, hi) in decl do
    let lb := s.lb x
    let ub := s.ub x
    let vals := (rangeI lb ub).filter (s.contains x)
    if lb ≤ ub then out := out ++ s!",{x}:{lb}:{ub}:{showList vals}"
    else out := out ++ s!",{x}:E:{showList vals}"
    let cont := (rangeI (lo - 1) (hi + 1)).filter (s.contains x)
    out := out ++ ":" ++ showList cont
    raw := raw ++ s!",{lb}:{ub}"
    x := x + 1
  return out ++ "~" ++ raw

def query (s : St) (decl : List (Int × Int)) : String := Id.run do
  let mut out := "q"
  let t := s.trail.length
  let entries := s.trail.reverse
  let mut i := 0
  for e in entries do
    out := out ++ s!",e{i}:{showAtom e.atom}:{e.oldLb}:{e.oldUb}"
    i := i + 1
  let mut x := 0
  for (lo, hi) in decl do
    let d := s.dom x
    for pos in List.range t do
      let cont := (rangeI (lo - 1) (hi + 1)).filter (fun v => d.containsAt v pos)
      out := out ++ s!",a{x}@{pos}:{d.lbAt pos}:{d.ubAt pos}:{showList cont}"
    for v in rangeI (lo - 1) (hi + 1) do
      for p in [Atom.ge x v, Atom.le x v, Atom.ne x v, Atom.eq x v] do
        let e := match s.evaluate p with | some true => "T" | some false => "F" | none => "N"
        let u := match d.updateInfo p with | some (l, pos) => s!"{l}.{pos}" | none => "-"
        out := out ++ s!",v{showAtom p}:{e}:{u}"
    x := x + 1
  return out

def insertSorted (p : Nat × Int) : List (Nat × Int) → List (Nat × Int)
  | [] => [p]
  | q :: r => if p.1 < q.1 ∨ (p.1 == q.1 && decide (p.2 ≤ q.2)) then p :: q :: r else q :: insertSorted p r

def unfixed (s : St) (k : Nat) : String :=
  let xs := (St.unfixed k s.trail s.doms).foldr insertSorted []
  "y[" ++ ";".intercalate (xs.map (fun (x, v) => s!"{x}={v}")) ++ "]"

def evCode : Ev → Nat
  | .assign => 0 | .lowerBound => 1 | .upperBound => 2 | .removal => 3

def insertEv (p : Nat × Nat) : List (Nat × Nat) → List (Nat × Nat)
  | [] => [p]
  | q :: r => if p == q then q :: r else if p.1 < q.1 ∨ (p.1 == q.1 && decide (p.2 < q.2)) then p :: q :: r else q :: insertEv p r

def showEvents (es : List (Nat × Ev)) : String :=
  let xs := (es.map (fun (x, e) => (x, evCode e))).foldr insertEv []
  "ev[" ++ ";".intercalate (xs.map (fun (x, k) => s!"{x}.{k}")) ++ "]"

/-- events of `create_new_integer_variable_sparse` (the removals after `grow`) -/
def sparseEvents (s : St) (vs : List Int) : List (Nat × Ev) :=
  let lo := minL vs
  let hi := maxL vs
  let x := s.doms.length
  let s1 := s.grow lo hi
  ((rangeI lo hi).foldl (fun (acc : St × List (Nat × Ev)) v =>
    if vs.contains v then acc else ((acc.1.post (.ne x v)).1, acc.2 ++ postEvents acc.1 (.ne x v))) (s1, [])).2

def runOps : List XOp → St → List (Int × Int) → List String → List String
  | [], _, _, acc => acc.reverse
  | o :: r, s, decl, acc =>
    match o with
    | .grow lo hi =>
      let s' := s.grow lo hi
      let decl' := decl ++ [(lo, hi)]
      runOps r s' decl' ((s!"g{s.doms.length}" ++ snapshot s' decl' ++ showEvents []) :: acc)
    | .sparse vs =>
      let s' := growSparse s vs
      let decl' := decl ++ [(minL vs, maxL vs)]
      runOps r s' decl' ((s!"g{s.doms.length}" ++ snapshot s' decl' ++ showEvents (sparseEvents s vs)) :: acc)
    | .post p =>
      let (s', ok) := s.post p
      runOps r s' decl ((s!"p{if ok then 1 else 0}" ++ snapshot s' decl ++ showEvents (postEvents s p)) :: acc)
    | .newLevel =>
      let s' := s.newLevel
      runOps r s' decl (("n" ++ snapshot s' decl ++ showEvents []) :: acc)
    | .sync k =>
      let s' := s.sync k
      runOps r s' decl (("y" ++ snapshot s' decl ++ unfixed s k ++ showEvents []) :: acc)
    | .query => runOps r s decl (query s decl :: acc)

def describe : XOp → String
  | .grow lo hi => s!"grow({lo},{hi})"
  | .sparse vs => s!"sparse{showList vs}"
  | .post p => s!"post({showAtom p})"
  | .newLevel => "newLevel"
  | .sync k => s!"sync({k})"
  | .query => "query"

/-- compare segment by segment; the part of a segment before `~` is determined by the *meaning* of the
operations (`post_contains`, `sync_restores`, `bounds_tight`), the rest is bookkeeping -/
def judge (ops : List XOp) (real : String) : String :=
  let model := runOps ops St.init [(1, 1)] []
  let realSegs := real.splitOn "|"
  if realSegs.length != model.length then s!"FAIL asg CORR segments real={realSegs.length} model={model.length}" else
  let rec go (i : Nat) : List XOp → List String → List String → String
    | o :: os, r :: rs, m :: ms =>
      if r == m then go (i + 1) os rs ms else
        let rsem := (r.splitOn "~").headD ""
        let msem := (m.splitOn "~").headD ""
        match o with
        | .query => s!"FAIL asg CORR op#{i} query real={r} model={m}"
        | _ =>
          if rsem != msem then s!"FAIL asg values op#{i} {describe o} real={rsem} model={msem}"
          else s!"FAIL asg CORR op#{i} {describe o} raw real={r} model={m}"
    | _, _, _ => s!"ok asg exact ops={ops.length}"
  go 0 ops realSegs model

end Driver.AsgRun
