/-
Token parsers for the line protocol between the Rust harness and the Lean driver.
This file is glue (trusted, not verified): it only turns whitespace tokens into `Spec` terms.
-/
import Pumpkin.Spec.Basic

namespace Driver
open Pumpkin

abbrev P (α : Type) := List String → Option (α × List String)

def pInt : P Int
  | t :: ts => t.toInt?.map (·, ts)
  | [] => none

def pNat : P Nat
  | t :: ts => t.toNat?.map (·, ts)
  | [] => none

def pTok : P String
  | t :: ts => some (t, ts)
  | [] => none

def pView : P View := fun ts => do
  let (s, ts) ← pInt ts
  let (o, ts) ← pInt ts
  let (x, ts) ← pNat ts
  pure (⟨s, o, x⟩, ts)

def pAtom : P Atom := fun ts => do
  let (k, ts) ← pTok ts
  let (x, ts) ← pNat ts
  let (v, ts) ← pInt ts
  match k with
  | "ge" => pure (Atom.ge x v, ts)
  | "le" => pure (Atom.le x v, ts)
  | "ne" => pure (Atom.ne x v, ts)
  | "eq" => pure (Atom.eq x v, ts)
  | _ => none

def pRep {α : Type} (p : P α) : Nat → P (List α)
  | 0 => fun ts => some ([], ts)
  | n + 1 => fun ts => do
    let (a, ts) ← p ts
    let (as, ts) ← pRep p n ts
    pure (a :: as, ts)

/-- `<n> item*n` -/
def pList {α : Type} (p : P α) : P (List α) := fun ts => do
  let (n, ts) ← pNat ts
  pRep p n ts

def pTask : P Task := fun ts => do
  let (s, ts) ← pView ts
  let (d, ts) ← pInt ts
  let (u, ts) ← pInt ts
  pure (⟨s, d, u⟩, ts)

partial def pCons : P Cons := fun ts => do
  let (k, ts) ← pTok ts
  match k with
  | "linle" => do let (vs, ts) ← pList pView ts; let (c, ts) ← pInt ts; pure (Cons.linLe vs c, ts)
  | "lineq" => do let (vs, ts) ← pList pView ts; let (c, ts) ← pInt ts; pure (Cons.linEq vs c, ts)
  | "linne" => do let (vs, ts) ← pList pView ts; let (c, ts) ← pInt ts; pure (Cons.linNe vs c, ts)
  | "times" => do
      let (a, ts) ← pView ts; let (b, ts) ← pView ts; let (c, ts) ← pView ts
      pure (Cons.times a b c, ts)
  | "div" => do
      let (a, ts) ← pView ts; let (b, ts) ← pView ts; let (c, ts) ← pView ts
      pure (Cons.div a b c, ts)
  | "abs" => do let (a, ts) ← pView ts; let (b, ts) ← pView ts; pure (Cons.abs a b, ts)
  | "max" => do let (vs, ts) ← pList pView ts; let (r, ts) ← pView ts; pure (Cons.max vs r, ts)
  | "min" => do let (vs, ts) ← pList pView ts; let (r, ts) ← pView ts; pure (Cons.min vs r, ts)
  | "elem" => do
      let (i, ts) ← pView ts; let (vs, ts) ← pList pView ts; let (r, ts) ← pView ts
      pure (Cons.element i vs r, ts)
  | "alldiff" => do let (vs, ts) ← pList pView ts; pure (Cons.allDiff vs, ts)
  | "cumul" => do let (tks, ts) ← pList pTask ts; let (c, ts) ← pInt ts; pure (Cons.cumulative tks c, ts)
  | "clause" => do let (ls, ts) ← pList pAtom ts; pure (Cons.clause ls, ts)
  | "conj" => do let (ls, ts) ← pList pAtom ts; pure (Cons.conj ls, ts)
  | "impl" => do let (r, ts) ← pAtom ts; let (c, ts) ← pCons ts; pure (Cons.implied r c, ts)
  | "reif" => do let (r, ts) ← pAtom ts; let (c, ts) ← pCons ts; pure (Cons.reif r c, ts)
  | "neg" => do let (c, ts) ← pCons ts; pure (Cons.neg c, ts)
  | _ => none

def pModel : P Model := fun ts => do
  let (doms, ts) ← pList (pList pInt) ts
  let (cons, ts) ← pList pCons ts
  pure ({ doms := doms, cons := cons }, ts)

def tokens (line : String) : List String :=
  (line.splitOn " ").filter (· ≠ "")

end Driver
