/-
`pdrive`: line-protocol driver. Reads observation records written by the Rust harness on stdin and
answers one line per record (`ok …` / `FAIL …`), judging every observation with the verified
acceptors of `Pumpkin.Check.*` against the verified oracle `Pumpkin.solutions`.

Records (whitespace tokens):
  case <id> …                      -> echoed as `case <id>`
  # …                              -> ignored
  model <model>                    -> sets the current model; answers `model nvars= nprod= nsol=`
  addcons <cons>                   -> appends a constraint to the current model
  sol <tag> v*                     -> the assignment is a solution of the current model
  asol <atoms> v*                  -> … and satisfies the assumptions
  verdict <tag> unsat|sat          -> (un)satisfiability of the current model
  averdict <atoms> unsat|sat       -> (un)satisfiability of model ∧ assumptions
  solset <tag> k n v*(k·n)         -> exactly the solution set, no duplicates
  subset <tag> k n v*(k·n)         -> duplicate-free list of solutions
  opt min|max <view> <value>       -> optimum of the view over all solutions
  improving min|max k v*k          -> strictly improving sequence
  core <atoms:assumptions> <atoms:core>
  conflicting <atoms>              -> the assumptions contain a mutually exclusive pair
  bounds <tag> x lb ub             -> encloses every solution, within the declared domain
  vbounds <tag> <view> lb ub
  nogood <tag> <atoms>             -> no solution satisfies all atoms
  infer <tag> <cons> <atoms:premises> none|<atom>
  minfer <tag> <atoms:premises> none|<atom>  -> premises → conclusion holds in every solution of the model
  drat <tag> <cnf> <proof>         -> the lemmas form a RUP refutation ending in the empty clause (Check/Rup.lean)
  maxsat <tag> <softs> <cost> v*   -> model satisfies the hard clauses, has that cost, and the cost is optimal
  same <tag> a b                   -> two observations that must be identical
  recmin <limit> <lvl> … :: … :: … -> a run of the real recursive minimiser equals Model/RecMin (kept predicates and call trace)
  litdefs <n>                      -> the first n constraints of the model define literals of predicates
  drcp <kind> <obj> <lits> :: steps -> the proof file is a valid DRCP certificate (Check/DrcpCheck.lean)
  drcpw <step> :: <text>           -> the real writer's line equals the model's rendering and reads back
  drcpr ok <step>|err :: <text>    -> the real reader's verdict / result equals the model's
  derive <k> (<atoms> none|<atom>)*k :: <atoms> -> the learned nogood follows by unit propagation from the recorded reasons (Check/Derive.lean)
  asg <n> op*n :: <observations>   -> every observable of the real domain store after every operation equals Model/Assignments
  valsel <name> x <n v*n> <atom>   -> the decision of a value selector is in the model's support
  panic|nonterm|partial|bad|branchviolation …   -> FAIL (harness-side observation of a failure)
-/
import Driver.Asg
import Pumpkin.Check.Derive
import Pumpkin.Model.Cumulative
import Pumpkin.Spec.Basic
import Pumpkin.Check.Oracle
import Pumpkin.Model.Predicate
import Pumpkin.Model.Branching
import Pumpkin.Model.Drcp
import Pumpkin.Model.Dimacs
import Pumpkin.Model.ImplicitReason
import Pumpkin.Model.Lits
import Pumpkin.Model.SemMin
import Pumpkin.Model.RecMin
import Pumpkin.Model.Propagation
import Pumpkin.Model.Search
import Pumpkin.Model.Narrow
import Pumpkin.Check.Rup
import Pumpkin.Check.MaxSat
import Pumpkin.Check.DrcpCheck
import Driver.Parse

open Pumpkin Driver

structure St where
  model : Model := { doms := [], cons := [] }
  sols : List (List Int) := []
  /-- number of leading constraints of the model which define literal variables (`litdefs <n>`) -/
  nd : Nat := 0
  /-- `allow_holes_in_domain` of the cumulative constraints of the model, in order (`cumopts`) -/
  cumHoles : List Bool := []

def chunk (n : Nat) : Nat → List Int → List (List Int)
  | 0, _ => []
  | k + 1, xs => xs.take n :: chunk n k (xs.drop n)

def pVals (ts : List String) : Option (List Int) := ts.mapM (·.toInt?)

def strictly (maximise : Bool) : List Int → Bool
  | a :: b :: rest => (if maximise then decide (a < b) else decide (b < a)) && strictly maximise (b :: rest)
  | _ => true

/-- the assumption list contains a pair which `is_mutually_exclusive_with` (model: `Atom.mutex`,
exact by `Atom.mutex_iff`) reports as exclusive -/
def hasExclusivePair : List Atom → Bool
  | [] => false
  | p :: ps => ps.any (fun q => p.mutex q) || hasExclusivePair ps

def hasNegPair (as : List Atom) : Bool := as.any (fun p => as.contains p.neg)

/-! DRCP lexing (glue): one line of text ↔ tokens -/
open Pumpkin.Drcp in
def isIdent (s : String) : Bool :=
  match s.toList with
  | [] => false
  | c :: cs => (c.isAlpha || c == '_') && cs.all (fun d => d.isAlphanum || d == '_')

open Pumpkin.Drcp in
def lexTok (t : String) : Option Tok :=
  if t == "i" || t == "n" || t == "d" || t == "c" || t == "UNSAT" then some (Tok.kw t)
  else if t.startsWith "c:" then (t.drop 2).toString.toNat?.map Tok.tag
  else if t.startsWith "l:" then (if isIdent (t.drop 2).toString then some (Tok.label (t.drop 2).toString) else none)
  else if t.startsWith "+" then (t.drop 1).toString.toNat?.map (fun n => Tok.pnum (n : Int))
  else t.toInt?.map Tok.num

open Pumpkin.Drcp in
def lexLine (line : String) : Option (List Tok) := (line.splitOn " ").mapM lexTok

open Pumpkin.Drcp in
def showTok : Tok → String
  | .kw s => s
  | .num z => toString z
  | .pnum z => s!"+{z}"
  | .tag n => s!"c:{n}"
  | .label l => s!"l:{l}"

open Pumpkin.Drcp in
/-- structured step description written by the harness:
`I id np p* (P p | -) (T t | -) (L label | -)`, `N id nl l* (H nh h* | -)`, `D id`, `U`, `O lit` -/
def pStep : P Step := fun ts =>
  match ts with
  | "I" :: ts => do
    let (id, ts) ← pNat ts
    let (prem, ts) ← pList pInt ts
    let (prop, ts) ← (match ts with
      | "P" :: ts => do let (p, ts) ← pInt ts; pure (some p, ts)
      | "-" :: ts => some (none, ts)
      | _ => none)
    let (tag, ts) ← (match ts with
      | "T" :: ts => do let (t, ts) ← pNat ts; pure (some t, ts)
      | "-" :: ts => some (none, ts)
      | _ => none)
    let (label, ts) ← (match ts with
      | "L" :: l :: ts => some (some l, ts)
      | "-" :: ts => some (none, ts)
      | _ => none)
    pure (Step.inference id prem prop tag label, ts)
  | "N" :: ts => do
    let (id, ts) ← pNat ts
    let (lits, ts) ← pList pInt ts
    let (hints, ts) ← (match ts with
      | "H" :: ts => do let (hs, ts) ← pList pNat ts; pure (some hs, ts)
      | "-" :: ts => some (none, ts)
      | _ => none)
    pure (Step.nogood id lits hints, ts)
  | "D" :: ts => do let (id, ts) ← pNat ts; pure (Step.deletion id, ts)
  | "U" :: ts => some (Step.unsat, ts)
  | "O" :: ts => do let (l, ts) ← pInt ts; pure (Step.optimal l, ts)
  | _ => none

def setModel (m : Model) : St := { model := m, sols := solutions m }


/-- `recmin` record: groups of naturals. `takeGroups k n xs` reads `n` groups of `k` numbers. -/
def takeGroups (k : Nat) : Nat → List Nat → Option (List (List Nat) × List Nat)
  | 0, xs => some ([], xs)
  | n + 1, xs =>
    if xs.length < k then none else
    match takeGroups k n (xs.drop k) with
    | some (gs, r) => some (xs.take k :: gs, r)
    | none => none

/-- visits: `id code level isdec k a1 … ak` -/
def takeVisits : Nat → List Nat → Option (List (Nat × Nat × Nat × Nat × List Nat) × List Nat)
  | 0, xs => some ([], xs)
  | n + 1, xs =>
    match xs with
    | id :: code :: lvl :: isd :: k :: r =>
      if r.length < k then none else
      match takeVisits n (r.drop k) with
      | some (vs, r') => some ((id, code, lvl, isd, r.take k) :: vs, r')
      | none => none
    | _ => none

/-- the observed reason graph is acyclic: every node gets a rank within `n` rounds -/
def acyclicRounds (reason : Nat → List Nat) (nodes : List Nat) : Nat → List Nat → Bool
  | 0, ranked => nodes.all ranked.contains
  | k + 1, ranked =>
    let ranked' := nodes.filter (fun p => ranked.contains p || (reason p).all ranked.contains)
    if ranked'.length == ranked.length then nodes.all ranked.contains else acyclicRounds reason nodes k ranked'


/-! propagation correspondence (`fix` records): the real solver's domains at a decision point against
`Model/Propagation.lean`'s fixpoint, and against the verified oracle (no value of a solution pruned) -/
def domsSub (a b : List (List Int)) : Bool :=
  a.length == b.length && (a.zip b).all (fun p => p.1.all p.2.contains)

def showDoms (d : List (List Int)) : String := " ".intercalate (d.map (fun l => "{" ++ ",".intercalate (l.map toString) ++ "}"))

/-- every value that some solution of `cons` within `start` gives to a variable is still in `after` -/
def prunedSolution (cons : List Cons) (start after : List (List Int)) : Option (List Int) :=
  (solutions { doms := start, cons := cons }).find? (fun a => !(inDoms after a))

/-- does a constraint contain a `cumulative` (possibly under negation / reification) -/
partial def hasCumulative : Cons → Bool
  | .cumulative _ _ => true
  | .neg c => hasCumulative c
  | .implied _ c => hasCumulative c
  | .reif _ c => hasCumulative c
  | _ => false

/-- a model which consists of plain cumulative constraints only (with their `allow_holes` flags) -/
def cumOnly (cons : List Cons) (holes : List Bool) : Option (List (Bool × List Task × Int)) :=
  if cons.isEmpty || holes.length != cons.length then none else
  (cons.zip holes).mapM (fun (c, h) => match c with
    | .cumulative ts cap => some (h, ts, cap)
    | _ => none)

def fixJudge (st : St) (kind : String) (root : Bool) (start : List (List Int)) (learned : Bool) (after : Option (List (List Int))) : String :=
  let cons := st.model.cons
  -- the model's answer: none = not modelled, some none = conflict
  let modelAns : Option (Option (List (List Int))) :=
    match cumOnly cons st.cumHoles with
    | some cs => some (Pumpkin.Pg.ttFix cs start)
    | none =>
    if root then Pumpkin.Pg.rootFix st.model.doms cons
    else (Pumpkin.Pg.compileAll st.model.doms cons).map (fun ps => Pumpkin.Pg.fixpoint ps start)
  -- (1) sound direction, judged by the oracle alone
  match after with
  | some aft =>
    match prunedSolution cons start aft with
    | some a => s!"FAIL fix {kind} pruned-solution {a} start={showDoms start} real={showDoms aft}"
    | none =>
      match modelAns with
      | none => s!"ok fix {kind} oracle-only"
      | some none =>
        if learned then s!"ok fix {kind} learned" else
        if (cumOnly cons st.cumHoles).isSome || cons.any hasCumulative then s!"ok fix {kind} weaker-timetable" else
        s!"FAIL fix {kind} CORR model-conflict-real-none start={showDoms start} real={showDoms aft}"
      | some (some md) =>
        if domsSub aft md && domsSub md aft then s!"ok fix {kind} exact"
        else if domsSub aft md then
          (if learned then s!"ok fix {kind} learned-stronger" else
           -- `compile` models `constraints::cumulative` with its default options; with
           -- `allow_holes_in_domain` the real propagator also removes start times inside the domain
           -- (the oracle has already confirmed above that no solution was pruned)
           if (cumOnly cons st.cumHoles).isNone && cons.any hasCumulative && st.cumHoles.any id then s!"ok fix {kind} stronger-holes" else
           -- a cumulative under a reification literal: some propagator variants build their time-table
           -- in `initialise_at_root` and report an overload there, which the wrapper turns into
           -- "literal false" (variant-dependent, not modelled; sound: confirmed by the oracle above)
           if cons.any (fun c => hasCumulative c && (match c with | .cumulative _ _ => false | _ => true)) then s!"ok fix {kind} stronger-reified-timetable" else s!"FAIL fix {kind} CORR real-stronger-than-model start={showDoms start} real={showDoms aft} model={showDoms md}")
        else if ((cumOnly cons st.cumHoles).isSome || cons.any hasCumulative) && domsSub md aft then
          -- the incremental time-table variants occasionally miss a propagation (sound; the property
          -- does not ask for a particular strength): counted, not an alarm
          s!"ok fix {kind} weaker-timetable"
        else s!"FAIL fix {kind} CORR real-weaker-than-model start={showDoms start} real={showDoms aft} model={showDoms md}"
  | none =>
    match (solutions { doms := start, cons := cons }) with
    | a :: _ => s!"FAIL fix {kind} conflict-with-solution {a} start={showDoms start}"
    | [] =>
      match modelAns with
      | none => s!"ok fix {kind} oracle-only"
      | some none => s!"ok fix {kind} exact"
      | some (some md) => if learned then s!"ok fix {kind} learned" else
        s!"FAIL fix {kind} CORR real-conflict-model-none start={showDoms start} model={showDoms md}"


/-! the whole search loop (`nlsearch` records): the decisions of a real no-learning solve replayed through
`Model/Search.lean`; the scripted strategy aborts as soon as the domains at a decision point differ -/
def domsEqB (a b : List (List Int)) : Bool := domsSub a b && domsSub b a

def scriptStrat : List (List (List Int) × Atom) → List (List Int) → Pumpkin.Pg.Choice (List (List (List Int) × Atom))
  | [], _ => .done
  | (s, p) :: rest, cur => if domsEqB cur s then .decide p rest else .abort

def pScriptEntry : P (List (List Int) × Atom) := fun ts => do
  let (d, ts) ← pList (pList pInt) ts
  let (p, ts) ← pAtom ts
  pure ((d, p), ts)

def showOutcome : Pumpkin.Pg.Outcome → String
  | .sat a => s!"sat {a}"
  | .unsat => "unsat"
  | .out => "no-answer(state-mismatch-or-script-exhausted)"

def nlJudge (st : St) (root : Option (List (List Int))) (script : List (List (List Int) × Atom)) (answer : Option (List Int)) : String :=
  -- the root state the real solver was in at its first decision
  match root, Pumpkin.Pg.rootFix st.model.doms st.model.cons with
  | some r, some (some d0) =>
    if !domsEqB r d0 then
      (if st.model.cons.any hasCumulative then "ok nlsearch timetable-weaker-or-holes" else
       s!"FAIL nlsearch CORR root real={showDoms r} model={showDoms d0}") else run
  | _, _ => run
where
  run : String :=
    -- `solveNL` is the function `solveNL_unsat_sound` / `solveNL_sat_sound` are about
    match Pumpkin.Pg.solveNL st.model scriptStrat (script.length + 2) script with
    | none => "ok nlsearch not-modelled"
    | some out =>
      let expected : Pumpkin.Pg.Outcome := match answer with | some a => .sat a | none => .unsat
      if out == expected then s!"ok nlsearch exact decisions={script.length}"
      else if st.model.cons.any hasCumulative then "ok nlsearch timetable-weaker-or-holes"
      else s!"FAIL nlsearch CORR real={showOutcome expected} model={showOutcome out} decisions={script.length}"

def applyAtom (d : List (List Int)) (p : Atom) : List (List Int) := Pumpkin.AtomRup.assume d p

def respond (st : St) (line : String) : St × Option String :=
  let ts := tokens line
  match ts with
  | [] => (st, none)
  | "#" :: _ => (st, none)
  | "case" :: id :: _ => (st, some s!"case {id}")
  | "model" :: rest =>
    match pModel rest with
    | some (m, []) =>
      let st' := setModel m
      (st', some s!"model nvars={m.doms.length} nprod={(product m.doms).length} nsol={st'.sols.length}")
    | _ => (st, some "FAIL model unparsed")
  | "derive" :: n :: rest =>
    -- `derive <k> (<atoms:premises> none|<atom>)*k :: <atoms:nogood>`
    (match n.toNat? with
     | none => (st, some "FAIL derive unparsed")
     | some k =>
       let pImpl : P Pumpkin.Derive.Impl := fun ts => do
         let (prem, ts) ← pList pAtom ts
         match ts with
         | "none" :: ts => pure ((prem, none), ts)
         | ts => do let (q, ts) ← pAtom ts; pure ((prem, some q), ts)
       match pRep pImpl k rest with
       | some (g, "::" :: rest) =>
         (match pList pAtom rest with
          | some (ng, []) =>
            if Pumpkin.Derive.derivable st.model.doms g ng then (st, some s!"ok derive clauses={g.length} size={ng.length}")
            else (st, some s!"FAIL derive CORR not-derivable nogood={repr ng} clauses={g.length}")
          | _ => (st, some "FAIL derive unparsed"))
       | _ => (st, some "FAIL derive unparsed"))
  | "nderive" :: n :: rest =>
    -- `nderive <k> (<atoms> none|<atom>)*k :: <atoms:premises> none|<atom>`: a reason of the nogood
    -- propagator follows from the stored nogoods (learned, blocking, root facts) or from the model
    (match n.toNat? with
     | none => (st, some "FAIL nderive unparsed")
     | some k =>
       let pImpl : P Pumpkin.Derive.Impl := fun ts => do
         let (prem, ts) ← pList pAtom ts
         match ts with
         | "none" :: ts => pure ((prem, none), ts)
         | ts => do let (q, ts) ← pAtom ts; pure ((prem, some q), ts)
       match pRep pImpl k rest with
       | some (g, "::" :: rest) =>
         (match pImpl rest with
          | some ((prem, concl), []) =>
            let ng := match concl with | some q => q.neg :: prem | none => prem
            if Pumpkin.Derive.derivable st.model.doms g ng then (st, some "ok nderive stored")
            else if checkNogood st.sols ng then (st, some "ok nderive model")
            else (st, some s!"FAIL nderive CORR reason-of-nogood-propagator-not-derivable nogood={repr ng} clauses={g.length}")
          | _ => (st, some "FAIL nderive unparsed"))
       | _ => (st, some "FAIL nderive unparsed"))
  | "cumopts" :: rest =>
    ({ st with cumHoles := rest.map (· == "1") }, some "ok cumopts")
  | ["litdefs", n] =>
    -- the first n constraints of the model are definitions `r ↔ p` of literals of predicates
    match n.toNat? with
    | some k =>
      if k ≤ st.model.cons.length && (Pumpkin.DrcpCheck.defsOf st.model k).all (isDef st.model.doms) then
        ({ st with nd := k }, some s!"ok litdefs {k}")
      else (st, some "FAIL litdefs not-definitions")
    | none => (st, some "FAIL litdefs unparsed")
  | "addcons" :: rest =>
    match pCons rest with
    | some (c, []) =>
      let st' := setModel { st.model with cons := st.model.cons ++ [c] }
      (st', some s!"model nvars={st'.model.doms.length} nsol={st'.sols.length}")
    | _ => (st, some "FAIL addcons unparsed")
  | "sol" :: tag :: rest =>
    match pVals rest with
    | some a => (st, some (if st.model.sat a then s!"ok sol {tag}" else s!"FAIL sol {tag} not-a-solution"))
    | none => (st, some s!"FAIL sol {tag} unparsed")
  | "asol" :: rest =>
    match pList pAtom rest with
    | some (as, rest) =>
      match pVals rest with
      | some a =>
        (st, some (if (st.model.withAtoms as).sat a then "ok asol" else
          (if st.model.sat a then "FAIL asol assumption-violated" else "FAIL asol not-a-solution")))
      | none => (st, some "FAIL asol unparsed")
    | none => (st, some "FAIL asol unparsed")
  | ["verdict", tag, v] =>
    let isUnsat := st.sols.isEmpty
    (st, some (if (v == "unsat") == isUnsat then s!"ok verdict {tag} {v}"
      else s!"FAIL verdict {tag} reported={v} nsol={st.sols.length}"))
  | "averdict" :: rest =>
    match pList pAtom rest with
    | some (as, [v]) =>
      let n := (st.sols.filter (fun a => as.all (·.holds a))).length
      (st, some (if (v == "unsat") == (n == 0) then s!"ok averdict {v}" else s!"FAIL averdict reported={v} nsol={n}"))
    | _ => (st, some "FAIL averdict unparsed")
  | "solset" :: tag :: k :: n :: rest =>
    match k.toNat?, n.toNat?, pVals rest with
    | some k, some n, some vs =>
      if vs.length != k * n then (st, some s!"FAIL solset {tag} bad-length") else
      let ls := chunk n k vs
      if checkSolSet st.model st.sols ls then (st, some s!"ok solset {tag} {k}")
      else
        let missing := (st.sols.filter (fun a => !ls.contains a)).length
        let foreign := (ls.filter (fun a => !st.model.sat a)).length
        (st, some s!"FAIL solset {tag} reported={k} nsol={st.sols.length} missing={missing} foreign={foreign} dup={!nodupB ls}")
    | _, _, _ => (st, some s!"FAIL solset {tag} unparsed")
  | "subset" :: tag :: k :: n :: rest =>
    match k.toNat?, n.toNat?, pVals rest with
    | some k, some n, some vs =>
      if vs.length != k * n then (st, some s!"FAIL subset {tag} bad-length") else
      let ls := chunk n k vs
      (st, some (if checkSubset st.model ls then s!"ok subset {tag} {k}" else s!"FAIL subset {tag} dup={!nodupB ls}"))
    | _, _, _ => (st, some s!"FAIL subset {tag} unparsed")
  | "opt" :: dir :: rest =>
    match pView rest with
    | some (w, [v]) =>
      match v.toInt? with
      | some v =>
        let o := optimum st.model w (dir == "max")
        (st, some (if o == some v then s!"ok opt {dir} {v}" else s!"FAIL opt {dir} reported={v} optimum={o}"))
      | none => (st, some "FAIL opt unparsed")
    | _ => (st, some "FAIL opt unparsed")
  | "improving" :: dir :: _k :: rest =>
    match pVals rest with
    | some vs => (st, some (if strictly (dir == "max") vs then "ok improving" else s!"FAIL improving {dir} {vs}"))
    | none => (st, some "FAIL improving unparsed")
  | "core" :: rest =>
    match pList pAtom rest with
    | some (as, rest) =>
      match pList pAtom rest with
      | some (core, []) =>
        if hasNegPair as then (st, some "FAIL core contradictory-pair-not-reported")
        else if checkCore st.model as core then (st, some s!"ok core {core.length}")
        else
          let implied := (product st.model.doms).all (fun a => !as.all (·.holds a) || core.all (·.holds a))
          (st, some s!"FAIL core implied-by-assumptions={implied} inconsistent-with-model={checkNogood st.sols core}")
      | _ => (st, some "FAIL core unparsed")
    | none => (st, some "FAIL core unparsed")
  | "conflicting" :: rest =>
    match pList pAtom rest with
    | some (as, []) => (st, some (if hasExclusivePair as then "ok conflicting" else "FAIL conflicting no-exclusive-pair"))
    | _ => (st, some "FAIL conflicting unparsed")
  | ["bounds", tag, x, lb, ub] =>
    match x.toNat?, lb.toInt?, ub.toInt? with
    | some x, some lb, some ub =>
      let d := st.model.doms.getD x []
      let within := d.any (fun v => decide (v ≤ lb)) && d.any (fun v => decide (ub ≤ v))
      if !within && !(decide (ub < lb)) then (st, some s!"FAIL bounds {tag} x={x} [{lb},{ub}] outside-declared-domain")
      else if checkBounds st.sols x lb ub then (st, some s!"ok bounds {tag}")
      else (st, some s!"FAIL bounds {tag} x={x} [{lb},{ub}] excludes-a-solution")
    | _, _, _ => (st, some "FAIL bounds unparsed")
  | "vbounds" :: tag :: rest =>
    match pView rest with
    | some (w, [lb, ub]) =>
      match lb.toInt?, ub.toInt? with
      | some lb, some ub =>
        (st, some (if checkViewBounds st.sols w lb ub then s!"ok vbounds {tag}"
          else s!"FAIL vbounds {tag} [{lb},{ub}] excludes-a-solution"))
      | _, _ => (st, some "FAIL vbounds unparsed")
    | _ => (st, some "FAIL vbounds unparsed")
  | "nogood" :: tag :: rest =>
    match pList pAtom rest with
    | some (ng, []) => (st, some (if checkNogood st.sols ng then s!"ok nogood {tag}" else s!"FAIL nogood {tag} cuts-a-solution"))
    | _ => (st, some "FAIL nogood unparsed")
  | "infer" :: tag :: rest =>
    match pCons rest with
    | some (c, rest) =>
      match pList pAtom rest with
      | some (prem, ["none"]) =>
        (st, some (if checkInference st.model.doms c prem none then s!"ok infer {tag}" else s!"FAIL infer {tag} conflict-not-entailed"))
      | some (prem, rest) =>
        match pAtom rest with
        | some (q, []) =>
          (st, some (if checkInference st.model.doms c prem (some q) then s!"ok infer {tag}" else s!"FAIL infer {tag} not-entailed"))
        | _ => (st, some "FAIL infer unparsed")
      | none => (st, some "FAIL infer unparsed")
    | none => (st, some "FAIL infer unparsed")
  | "minfer" :: tag :: rest =>
    -- entailed by the model as a whole: no solution satisfies the premises and falsifies the conclusion
    match pList pAtom rest with
    | some (prem, ["none"]) =>
      (st, some (if checkNogood st.sols prem then s!"ok minfer {tag}" else s!"FAIL minfer {tag} premises-hold-in-a-solution"))
    | some (prem, rest) =>
      match pAtom rest with
      | some (q, []) =>
        (st, some (if checkNogood st.sols (q.neg :: prem) then s!"ok minfer {tag}" else s!"FAIL minfer {tag} cuts-a-solution"))
      | _ => (st, some "FAIL minfer unparsed")
    | none => (st, some "FAIL minfer unparsed")
  | "drcp" :: _ =>
    -- `drcp <kind 0|1|2> (none | min x | max x) <nlits> (code <atom>)* :: step ; step ; …`
    match line.splitOn " :: " with
    | [lhs, text] =>
      let hd := (tokens lhs).drop 1
      let pLit : P (Nat × Atom) := fun ts => do
        let (c, ts) ← pNat ts
        let (a, ts) ← pAtom ts
        pure ((c, a), ts)
      let parsed : Option (String × Pumpkin.DrcpCheck.Obj × List (Nat × Atom)) :=
        match hd with
        | kind :: "none" :: rest => (pList pLit rest).bind (fun r => if r.2.isEmpty then some (kind, .none, r.1) else none)
        | kind :: "min" :: x :: rest => (pList pLit rest).bind (fun r => x.toNat?.bind (fun x => if r.2.isEmpty then some (kind, .minimise x, r.1) else none))
        | kind :: "max" :: x :: rest => (pList pLit rest).bind (fun r => x.toNat?.bind (fun x => if r.2.isEmpty then some (kind, .maximise x, r.1) else none))
        | _ => none
      match parsed with
      | none => (st, some "FAIL drcp unparsed-header")
      | some (kind, obj, lits) =>
        let stepLines := (text.splitOn " ; ").map (fun l => l.trimAscii.toString) |>.filter (· ≠ "")
        match stepLines.mapM (fun l => (lexLine l).bind Pumpkin.Drcp.parse) with
        | none => (st, some s!"FAIL drcp step-not-readable-by-the-model-reader")
        | some steps =>
          -- every literal code used must be defined
          let codes := steps.flatMap (fun s => match s with
            | .inference _ prem prop _ _ => prem ++ prop.toList
            | .nogood _ ls _ => ls
            | .optimal l => [l]
            | _ => [])
          let undefined := codes.filter (fun c => (Pumpkin.DrcpCheck.atomOfCode lits c).isNone)
          if !undefined.isEmpty then (st, some s!"FAIL drcp undefined-literal-codes {undefined.eraseDups}")
          else if kind == "0" then
            -- scaffold: nogoods only; structural checks (the derivations are left to a later tool)
            let hasEmpty := steps.any (fun s => match s with | .nogood _ [] _ => true | _ => false)
            let concl := steps.getLast?
            let ok := match concl with
              | some .unsat => hasEmpty
              | some (.optimal _) => true
              | _ => false
            (st, some (if ok then s!"ok drcp scaffold steps={steps.length}" else s!"FAIL drcp scaffold-without-empty-nogood-or-conclusion"))
          else
            match Pumpkin.DrcpCheck.checkDrcp st.model st.nd lits obj steps with
            | .unsat => (st, some (if st.sols.isEmpty then s!"ok drcp unsat steps={steps.length}" else "FAIL drcp accepted-unsat-proof-of-satisfiable-model"))
            | .bound b => (st, some s!"ok drcp bound={b} steps={steps.length}")
            | .stepsValid x b =>
              -- all steps valid; the concluded bound itself is judged by the oracle
              let isMax := match obj with | .maximise _ => true | _ => false
              let o := optimum st.model ⟨1, 0, x⟩ isMax
              (st, some (if o == some b then s!"ok drcp steps-valid bound={b} steps={steps.length}"
                else s!"FAIL drcp concluded-bound={b} but optimum={o}"))
            | .rejected =>
              -- find the first rejected step for the report
              let rec firstBad (stc : Pumpkin.DrcpCheck.St) (ss : List Pumpkin.Drcp.Step) (i : Nat) : String :=
                match ss with
                | [] => "conclusion"
                | s :: rest =>
                  match Pumpkin.DrcpCheck.stepCheck st.model st.nd lits obj stc s with
                  | some stc' => firstBad stc' rest (i + 1)
                  | none => s!"step#{i + 1}:{repr s}"
              (st, some s!"FAIL drcp rejected at {firstBad {} steps 0}")
    | _ => (st, some "FAIL drcp unparsed")
  | "drcpw" :: _ =>
    -- `drcpw <step> :: <line written by the real ProofWriter>`
    match line.splitOn " :: " with
    | [lhs, text] =>
      match pStep ((tokens lhs).drop 1) with
      | some (step, []) =>
        let rendered := " ".intercalate ((Pumpkin.Drcp.render step).map showTok)
        if rendered != text then (st, some s!"FAIL drcpw writer-differs-from-model model='{rendered}' real='{text}'")
        else match lexLine text with
          | some toks =>
            if Pumpkin.Drcp.parse toks == some step then (st, some "ok drcpw")
            else (st, some s!"FAIL drcpw model-reader-does-not-read-back '{text}'")
          | none => (st, some s!"FAIL drcpw unlexable '{text}'")
      | _ => (st, some "FAIL drcpw unparsed-step")
    | _ => (st, some "FAIL drcpw unparsed")
  | "drcpr" :: _ =>
    -- `drcpr (ok <step> | err) :: <line given to the real ProofReader>`
    match line.splitOn " :: " with
    | [lhs, text] =>
      let modelResult := (lexLine text).bind Pumpkin.Drcp.parse
      match (tokens lhs).drop 1 with
      | "err" :: _ =>
        (st, some (if modelResult.isNone then "ok drcpr reject" else s!"FAIL drcpr real-reader-rejects-model-accepts '{text}'"))
      | "ok" :: rest =>
        match pStep rest with
        | some (step, []) =>
          (st, some (if modelResult == some step then "ok drcpr accept" else s!"FAIL drcpr reader-differs-from-model '{text}' model={repr modelResult}"))
        | _ => (st, some "FAIL drcpr unparsed-step")
      | _ => (st, some "FAIL drcpr unparsed")
    | _ => (st, some "FAIL drcpr unparsed")
  | "valsel" :: name :: x :: rest =>
    match x.toNat?, pList pInt rest with
    | some x, some (vs, rest) =>
      match pAtom rest with
      | some (p, []) =>
        let sup := Pumpkin.Branching.support name x vs
        if sup.isEmpty then (st, some s!"FAIL valsel {name} unknown-selector")
        else if sup.contains p then (st, some s!"ok valsel {name}")
        else (st, some s!"FAIL valsel {name} decision-differs-from-model domain={vs} model={repr sup}")
      | _ => (st, some "FAIL valsel unparsed")
    | _, _ => (st, some "FAIL valsel unparsed")
  | "drat" :: tag :: rest =>
    -- `drat <tag> <ncl> (k lit*k)*ncl <nproof> (k lit*k)*nproof`: the proof is a RUP refutation of the formula
    match pList (pList pInt) rest with
    | some (cnf, rest) =>
      match pList (pList pInt) rest with
      | some (proof, []) =>
        let wf := (cnf ++ proof).all (fun c => c.all (fun l => l != 0))
        if !wf then (st, some s!"FAIL drat {tag} zero-literal")
        else if Pumpkin.Rup.checkProof cnf proof then (st, some s!"ok drat {tag} lemmas={proof.length}")
        else (st, some s!"FAIL drat {tag} not-a-rup-refutation lemmas={proof.length}")
      | _ => (st, some "FAIL drat unparsed")
    | none => (st, some "FAIL drat unparsed")
  | "maxsat" :: tag :: rest =>
    -- `maxsat <tag> <nsoft> (w <atoms>)*nsoft <reported> v*`
    let pSoft : P Soft := fun ts => do
      let (w, ts) ← pNat ts
      let (as, ts) ← pList pAtom ts
      pure (⟨w, as⟩, ts)
    match pList pSoft rest with
    | some (softs, r :: vals) =>
      match r.toNat?, pVals vals with
      | some reported, some a =>
        if checkMaxSat st.model softs reported a then (st, some s!"ok maxsat {tag} {reported}")
        else (st, some s!"FAIL maxsat {tag} reported={reported} hard-satisfied={st.model.sat a} cost-of-model={softCost softs a} optimum={maxsatOpt st.model softs}")
      | _, _ => (st, some "FAIL maxsat unparsed")
    | _ => (st, some "FAIL maxsat unparsed")
  | "same" :: tag :: a :: b :: _ =>
    (st, some (if a == b then s!"ok same {tag}" else s!"FAIL same {tag} {a} vs {b}"))
  | "dimacs" :: n :: rest =>
    -- `dimacs <n> b1 … bn :: <result of the real parser>`: exact correspondence with Model/Dimacs
    (match n.toNat? with
     | none => (st, some "FAIL dimacs unparsed")
     | some k =>
       let bytes := (rest.take k).filterMap String.toNat?
       let impl := " ".intercalate (rest.drop (k + 1))
       if bytes.length != k || (rest.drop k).head? != some "::" then (st, some "FAIL dimacs unparsed") else
       let model := match Pumpkin.Dimacs.parseCnf bytes with
         | .ok (nv, cs) =>
           let body := cs.foldl (fun acc c => acc ++ s!" {c.length}" ++ c.foldl (fun a l => a ++ s!" {l}") "") ""
           s!"ok {nv} {cs.length}" ++ body
         | .error e => match e with
           | .missingHeader => "err missingHeader"
           | .invalidHeader => "err invalidHeader"
           | .duplicateHeader => "err duplicateHeader"
           | .unexpectedChar b => s!"err unexpectedChar {b}"
           | .invalidLiteral => "err invalidLiteral"
           | .unterminated => "err unterminated"
           | .clauseCount e p => s!"err clauseCount {e} {p}"
           | .panicked => "err panicked"
       if model == impl then (st, some s!"ok dimacs {(model.splitOn " ").take 2}")
       else (st, some s!"FAIL dimacs model=[{model}] impl=[{impl}]"))
  | "wcnf" :: n :: rest =>
    -- `wcnf <n> b1 … bn :: <result of the real parse_wcnf>`: exact correspondence with Model/Dimacs
    (match n.toNat? with
     | none => (st, some "FAIL wcnf unparsed")
     | some k =>
       let bytes := (rest.take k).filterMap String.toNat?
       let impl := " ".intercalate (rest.drop (k + 1))
       if bytes.length != k || (rest.drop k).head? != some "::" then (st, some "FAIL wcnf unparsed") else
       let model := match Pumpkin.Dimacs.parseWcnf bytes with
         | .ok (nv, cs) =>
           let body := cs.foldl (fun acc (w, c) =>
             acc ++ (match w with | none => " h" | some w => s!" s {w}") ++ s!" {c.length}" ++ c.foldl (fun a l => a ++ s!" {l}") "") ""
           s!"ok {nv} {cs.length}" ++ body
         | .error e => match e with
           | .missingHeader => "err missingHeader"
           | .invalidHeader => "err invalidHeader"
           | .duplicateHeader => "err duplicateHeader"
           | .unexpectedChar b => s!"err unexpectedChar {b}"
           | .invalidLiteral => "err invalidLiteral"
           | .unterminated => "err unterminated"
           | .clauseCount e p => s!"err clauseCount {e} {p}"
           | .panicked => "err panicked"
       if model == impl then (st, some s!"ok wcnf {(model.splitOn " ").take 2}")
       else (st, some s!"FAIL wcnf model=[{model}] impl=[{impl}]"))
  | "litsfile" :: n :: rest =>
    -- `litsfile <n> b1 … bn :: <result of the real LiteralDefinitions::parse>`: exact correspondence
    -- with Model/Lits (the map keeps the last definition of a code; reported in code order)
    (match n.toNat? with
     | none => (st, some "FAIL litsfile unparsed")
     | some k =>
       let bytes := (rest.take k).filterMap String.toNat?
       let impl := " ".intercalate (rest.drop (k + 1))
       if bytes.length != k || (rest.drop k).head? != some "::" then (st, some "FAIL litsfile unparsed") else
       let name := fun (bs : List Nat) => String.ofList (bs.map Char.ofNat)
       let model := match Pumpkin.Lits.parseFile bytes with
         | none => "err"
         | some defs =>
           -- last definition per code wins, then sort by code
           let dedup := defs.foldl (fun acc d => (acc.filter (fun e => e.1 != d.1)) ++ [d]) ([] : List (Nat × List Pumpkin.Lits.Atomic))
           let sorted := dedup.mergeSort (fun a b => a.1 ≤ b.1)
           sorted.foldl (fun acc d =>
             acc ++ s!" {d.1} {d.2.length}" ++ d.2.foldl (fun a at_ =>
               a ++ (match at_ with
                 | .int nm c v => s!" i {name nm} " ++ (match c with | .ge => "ge" | .le => "le" | .eq => "eq" | .ne => "ne") ++ s!" {v}"
                 | .bool nm v => s!" b {name nm} {v}")) "") "ok"
       if model == impl then (st, some s!"ok litsfile {(model.splitOn " ").take 1}")
       else (st, some s!"FAIL litsfile model=[{model}] impl=[{impl}]"))
  | "recmin" :: rest =>
    -- `recmin <limit> <curlevel> <n> (id code level)*n :: <nv> (id code level isdec k a*k)*nv :: <k> id*k`:
    -- exact correspondence of a run of the real RecursiveMinimiser with Model/RecMin (kept predicates
    -- in order, and the sequence of compute_label calls with their outcomes)
    (match (do
        let parts := (" ".intercalate rest).splitOn " :: "
        match parts with
        | [a, b, c] =>
          let na ← ((a.splitOn " ").filter (· ≠ "")).mapM String.toNat?
          let nb ← ((b.splitOn " ").filter (· ≠ "")).mapM String.toNat?
          let nc ← ((c.splitOn " ").filter (· ≠ "")).mapM String.toNat?
          match na, nb, nc with
          | limit :: cur :: n :: ra, nv :: rb, k :: rc =>
            let (inits, ra') ← takeGroups 3 n ra
            let (visits, rb') ← takeVisits nv rb
            if !ra'.isEmpty || !rb'.isEmpty || rc.length != k then none
            else pure (limit, cur, inits, visits, rc)
          | _, _, _ => none
        | _ => none) with
     | none => (st, some "FAIL recmin unparsed")
     | some (limit, cur, inits, visits, implOut) =>
       let nogood := inits.map (fun g => g.getD 0 0)
       let levelOf := fun (p : Nat) =>
         match inits.find? (fun g => g.getD 0 0 == p) with
         | some g => g.getD 2 0
         | none => match visits.find? (fun v => v.1 == p) with
           | some v => v.2.2.1
           | none => 0
       let isDec := fun (p : Nat) =>
         (inits.any (fun g => g.getD 0 0 == p && g.getD 1 0 == 1)) || (visits.any (fun v => v.1 == p && v.2.2.2.1 == 1))
       let reasonOf := fun (p : Nat) =>
         match visits.find? (fun v => v.1 == p && v.2.1 == 4) with
         | some v => v.2.2.2.2
         | none => []
       let ctx : Pumpkin.RecMin.Ctx := { info := fun p => ⟨levelOf p, isDec p, reasonOf p⟩, limit := limit, curLevel := cur }
       let res := Pumpkin.RecMin.removeDominated ctx nogood
       let modelTrace := res.1.trace.reverse
       let implTrace := visits.map (fun v => (v.1, v.2.1))
       let nodes := (nogood ++ visits.map (·.1) ++ visits.flatMap (·.2.2.2.2)).eraseDups
       if limit == 0 then (st, some "FAIL recmin limit-zero")
       else if !acyclicRounds reasonOf nodes nodes.length [] then (st, some "FAIL recmin reason-graph-has-a-cycle")
       else if res.2 != implOut then (st, some s!"FAIL recmin limit={limit} kept model={res.2} impl={implOut}")
       else if modelTrace != implTrace then (st, some s!"FAIL recmin limit={limit} calls model={modelTrace} impl={implTrace}")
       else (st, some s!"ok recmin limit={if limit == 500 then "500" else "low"} removed={nogood.length - implOut.length}"))
  | "semmin" :: mergeTok :: rest =>
    -- `semmin <merge 0|1> <n> <input atoms> :: (false | <k> <output atoms>)`: exact correspondence of
    -- the real SemanticMinimiser::minimise with Model/SemMin (as sets of predicates; the original
    -- domains are the declared domains of the current model)
    (match (do
        let (inp, r1) ← pList pAtom rest
        match r1 with
        | "::" :: "false" :: _ => pure (inp, (none : Option (List Atom)))
        | "::" :: r2 =>
          let (outp, _) ← pList pAtom r2
          pure (inp, some outp)
        | _ => none) with
     | none => (st, some "FAIL semmin unparsed")
     | some (inp, impl) =>
       let origOf := fun (x : Nat) =>
         match st.model.doms[x]? with
         | some (v :: vs) =>
           let lo := vs.foldl min v
           let hi := vs.foldl max v
           let holes := ((List.range (hi - lo + 1).toNat).map (fun (i : Nat) => lo + (i : Int))).filter (fun z => !(v :: vs).contains z)
           (⟨lo, hi, holes, false⟩ : Pumpkin.SemMin.SD)
         | _ => ⟨0, 0, [], false⟩
       let model := Pumpkin.SemMin.minimise origOf inp (mergeTok == "1")
       let one := fun (a : Atom) => match a with
         | .ge x v => s!"ge:{x}:{v}" | .le x v => s!"le:{x}:{v}" | .ne x v => s!"ne:{x}:{v}" | .eq x v => s!"eq:{x}:{v}"
       let norm := fun (l : List Atom) => (l.map one).mergeSort (fun a b => a ≤ b)
       let shown := fun (l : List Atom) => ",".intercalate (norm l)
       match model, impl with
       | none, none => (st, some "ok semmin false")
       | some m, some i => if norm m == norm i then (st, some "ok semmin") else (st, some s!"FAIL semmin model={shown m} impl={shown i}")
       | none, some i => (st, some s!"FAIL semmin model=false impl={shown i}")
       | some m, none => (st, some s!"FAIL semmin model={shown m} impl=false"))
  | "implicit" :: rest =>
    -- `implicit <trail atom> <queried atom> <n> <reason atoms>`: exact correspondence with
    -- Model/ImplicitReason (the reason the real conflict analysis derived for a predicate that is
    -- not literally on the trail)
    (match (do
        let (t, r1) ← pAtom rest
        let (q, r2) ← pAtom r1
        let (rs, _) ← pList pAtom r2
        pure (t, q, rs)) with
     | none => (st, some "FAIL implicit unparsed")
     | some (t, q, rs) =>
       match Pumpkin.Implicit.implicitReason t q with
       | some m => if m == rs then (st, some "ok implicit") else (st, some s!"FAIL implicit model={repr m} impl={repr rs}")
       | none => (st, some s!"FAIL implicit model-has-no-reason-for trail={repr t} queried={repr q} impl={repr rs}"))
  | "fix" :: "root" :: rest =>
    -- `fix root (ok <doms> | conflict)`: the state after posting everything, from the declared domains
    match rest with
    | ["conflict"] => (st, some (fixJudge st "root" true st.model.doms false none))
    | "ok" :: rest =>
      match pList (pList pInt) rest with
      | some (aft, []) => (st, some (fixJudge st "root" true st.model.doms false (some aft)))
      | _ => (st, some "FAIL fix unparsed")
    | _ => (st, some "FAIL fix unparsed")
  | "fix" :: "step" :: l :: rest =>
    -- `fix step <learned 0|1> <doms before> <decision> (ok <doms after> | conflict)`
    match pList (pList pInt) rest with
    | some (bef, rest) =>
      match pAtom rest with
      | some (p, ["conflict"]) => (st, some (fixJudge st "step" false (applyAtom bef p) (l != "0") none))
      | some (p, "ok" :: rest) =>
        match pList (pList pInt) rest with
        | some (aft, []) => (st, some (fixJudge st "step" false (applyAtom bef p) (l != "0") (some aft)))
        | _ => (st, some "FAIL fix unparsed")
      | _ => (st, some "FAIL fix unparsed")
    | none => (st, some "FAIL fix unparsed")
  | "nlsearch" :: rest =>
    match rest with
    | ["posterr"] =>
      (st, some (match Pumpkin.Pg.rootFix st.model.doms st.model.cons with
        | some none => "ok nlsearch posterr"
        | none => "ok nlsearch not-modelled"
        | some (some d) => s!"FAIL nlsearch CORR real-posterr model={showDoms d}"))
    | n :: rest =>
      match n.toNat? with
      | none => (st, some "FAIL nlsearch unparsed")
      | some k =>
        let rootP : Option (Option (List (List Int)) × List String) :=
          match rest with
          | "-" :: r => some (none, r)
          | r => (pList (pList pInt) r).map (fun x => (some x.1, x.2))
        match rootP with
        | none => (st, some "FAIL nlsearch unparsed")
        | some (root, rest) =>
          match pRep pScriptEntry k rest with
          | some (script, "::" :: "unsat" :: []) => (st, some (nlJudge st root script none))
          | some (script, "::" :: "sat" :: vs) =>
            match pVals vs with
            | some a => (st, some (nlJudge st root script (some a)))
            | none => (st, some "FAIL nlsearch unparsed")
          | _ => (st, some "FAIL nlsearch unparsed")
    | _ => (st, some "FAIL nlsearch unparsed")
  | "asg" :: n :: rest =>
    (match n.toNat? with
     | none => (st, some "FAIL asg unparsed")
     | some k =>
       match Driver.AsgRun.pOps k rest with
       | some (ops, ["::", real]) => (st, some (Driver.AsgRun.judge ops real))
       | _ => (st, some "FAIL asg unparsed"))
  | "litsok" :: _ => (st, some "ok litsok")
  | "negok" :: _ => (st, some "ok negok")
  | "panic" :: _ | "nonterm" :: _ | "partial" :: _ | "bad" :: _ | "branchviolation" :: _ | "hang" :: _ =>
    (st, some s!"FAIL {line}")
  | _ => (st, some s!"FAIL unparsed {line}")

partial def loop (h : IO.FS.Stream) (out : IO.FS.Stream) (st : St) : IO Unit := do
  let line ← h.getLine
  if line.isEmpty then return ()
  let line := line.trimAscii.toString
  let (st', r) := respond st line
  match r with
  | some s => out.putStrLn s
  | none => pure ()
  loop h out st'

def main : IO Unit := do
  let stdin ← IO.getStdin
  let stdout ← IO.getStdout
  loop stdin stdout {}
