import Pumpkin.Spec.Basic
import Pumpkin.Check.Oracle
import Pumpkin.Props.C01
import Pumpkin.Props.C02
