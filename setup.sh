#!/bin/sh
# Build the framework from files on disk only (offline): Lean library + driver, Rust harness.
set -e
cd "$(dirname "$0")"
mkdir -p .work evidence replays
python3 tools/gen_tables.py
(cd lean && lake build)
(cd harness && CARGO_NET_OFFLINE=true cargo build --offline)
echo setup-ok
