//! Scenarios: run the real solver on a generated model and write observation records for the
//! Lean driver (`pdrive`). One record per line; see `lean/Driver/Main.lean` for the protocol.

use std::cell::RefCell;
use std::panic::catch_unwind;
use std::panic::AssertUnwindSafe;

use pumpkin_solver::optimisation::linear_sat_unsat::LinearSatUnsat;
use pumpkin_solver::optimisation::linear_unsat_sat::LinearUnsatSat;
use pumpkin_solver::optimisation::OptimisationDirection;
use pumpkin_solver::predicates::Predicate;
use pumpkin_solver::results::solution_iterator::IteratedSolution;
use pumpkin_solver::results::OptimisationResult;
use pumpkin_solver::results::ProblemSolution;
use pumpkin_solver::results::SatisfactionResult;
use pumpkin_solver::results::SatisfactionResultUnderAssumptions;
use pumpkin_solver::results::Solution;
use pumpkin_solver::results::SolutionReference;
use pumpkin_solver::Solver;

use crate::config::*;
use crate::model::*;
use crate::post::*;
use crate::rng::Rng;

thread_local! {
    pub static LAST_PANIC: RefCell<String> = RefCell::new(String::new());
}

pub fn install_panic_hook() {
    std::panic::set_hook(Box::new(|info| {
        let msg = if let Some(s) = info.payload().downcast_ref::<&str>() {
            s.to_string()
        } else if let Some(s) = info.payload().downcast_ref::<String>() {
            s.clone()
        } else {
            "panic".to_string()
        };
        let loc = info.location().map(|l| format!("{}:{}", l.file(), l.line())).unwrap_or_default();
        LAST_PANIC.with(|p| *p.borrow_mut() = format!("{} @ {}", msg.replace('\n', " "), loc));
    }));
}

pub fn last_panic() -> String {
    LAST_PANIC.with(|p| p.borrow().clone())
}

/// Output of one case.
#[derive(Default)]
pub struct Out {
    pub lines: Vec<String>,
}

impl Out {
    pub fn push(&mut self, s: impl Into<String>) {
        self.lines.push(s.into());
    }
    pub fn meta(&mut self, s: impl AsRef<str>) {
        self.lines.push(format!("# {}", s.as_ref()));
    }
}

pub fn fmt_vals(vs: &[i32]) -> String {
    vs.iter().map(|v| v.to_string()).collect::<Vec<_>>().join(" ")
}

pub fn fmt_atoms(atoms: &[Atom]) -> String {
    let mut s = format!("{}", atoms.len());
    for a in atoms {
        a.emit(&mut s);
    }
    s
}

pub fn atom_of(p: Predicate) -> Atom {
    // Domain 0 is the solver's constant-1 dummy variable; a predicate over it is a constant.
    if p.get_domain().id == 0 {
        let holds = match p {
            Predicate::LowerBound { lower_bound, .. } => 1 >= lower_bound,
            Predicate::UpperBound { upper_bound, .. } => 1 <= upper_bound,
            Predicate::NotEqual { not_equal_constant, .. } => 1 != not_equal_constant,
            Predicate::Equal { equality_constant, .. } => 1 == equality_constant,
        };
        // constant true / constant false, expressed over variable 0
        return if holds { Atom::Ge(0, i32::MIN) } else { Atom::Ge(0, i32::MAX) };
    }
    match p {
        Predicate::LowerBound { domain_id, lower_bound } => Atom::Ge(domain_id.id as usize - 1, lower_bound),
        Predicate::UpperBound { domain_id, upper_bound } => Atom::Le(domain_id.id as usize - 1, upper_bound),
        Predicate::NotEqual { domain_id, not_equal_constant } => Atom::Ne(domain_id.id as usize - 1, not_equal_constant),
        Predicate::Equal { domain_id, equality_constant } => Atom::Eq(domain_id.id as usize - 1, equality_constant),
    }
}

/// Values of all model variables in a solution; `None` if some variable is unassigned (reading an
/// unassigned variable panics inside the library).
pub fn extract(sol: SolutionReference<'_>, vars: &Vars) -> Option<Vec<i32>> {
    catch_unwind(AssertUnwindSafe(|| vars.ids.iter().map(|d| sol.get_integer_value(*d)).collect::<Vec<i32>>())).ok()
}

pub fn sol_record(out: &mut Out, tag: &str, sol: SolutionReference<'_>, vars: &Vars) -> Option<Vec<i32>> {
    match extract(sol, vars) {
        Some(vs) => {
            out.push(format!("sol {} {}", tag, fmt_vals(&vs)));
            Some(vs)
        }
        None => {
            out.push(format!("partial {}", tag));
            None
        }
    }
}

pub struct Setup {
    pub opts: Opts,
    pub bspec: BrancherSpec,
    pub style_seed: u64,
}

impl Setup {
    pub fn random(r: &mut Rng) -> Setup {
        Setup { opts: Opts::random(r), bspec: BrancherSpec::random(r), style_seed: r.next() }
    }
    pub fn describe(&self) -> String {
        format!("opts[{}] brancher[{}] style={}", self.opts.describe(), self.bspec.describe(), self.style_seed)
    }
}

/// Builds the model. On a posting error the record is: the prefix model (up to and including the
/// failing constraint) must be unsatisfiable.
pub fn build_or_report(m: &Model, setup: &Setup, out: &mut Out) -> Option<Built> {
    let solver = Solver::with_options(setup.opts.to_solver_options());
    let built = build(solver, m, false, false, setup.style_seed);
    if let Some(i) = built.failed_at {
        let prefix = Model { vars: m.vars.clone(), cons: m.cons[..=i].to_vec() };
        out.push(format!("model {}", prefix.emit()));
        out.push("verdict posterr unsat");
        out.meta(format!("posterr at={} kind={}", i, m.cons[i].full_kind()));
        return None;
    }
    out.push(format!("model {}", m.emit()));
    Some(built)
}

pub fn report_branch_log(b: &BoxB, out: &mut Out) {
    let log = b.log.borrow();
    out.meta(format!("brancher decisions={} nones={}", log.decisions, log.nones));
    for v in &log.violations {
        out.push(format!("branchviolation {}", v.what.replace(' ', "_")));
    }
}

// ---------------------------------------------------------------------------------------------

pub fn scen_satisfy(m: &Model, setup: &Setup, out: &mut Out) {
    let Some(mut built) = build_or_report(m, setup, out) else { return };
    let mut brancher = make_brancher(&setup.bspec, &built.solver, &built.vars.ids);
    let mut term = StopAt::never();
    match built.solver.satisfy(&mut brancher, &mut term) {
        SatisfactionResult::Satisfiable(sol) => {
            let _ = sol_record(out, "satisfy", sol.as_reference(), &built.vars);
        }
        SatisfactionResult::Unsatisfiable => out.push("verdict satisfy unsat"),
        SatisfactionResult::Unknown => out.push("nonterm satisfy"),
    }
    out.meta(format!("polls={}", term.polls));
    report_branch_log(&brancher, out);
}

/// Iterate up to `limit` solutions. If the iterator finishes, the full set is compared;
/// otherwise the prefix must be duplicate-free and consist of solutions.
pub fn scen_iterate(m: &Model, setup: &Setup, limit: usize, out: &mut Out) {
    let Some(mut built) = build_or_report(m, setup, out) else { return };
    let mut brancher = make_brancher(&setup.bspec, &built.solver, &built.vars.ids);
    let mut term = StopAt::never();
    let mut sols: Vec<Vec<i32>> = vec![];
    let mut end = "limit";
    {
        let mut it = built.solver.get_solution_iterator(&mut brancher, &mut term);
        loop {
            if sols.len() >= limit {
                break;
            }
            match it.next_solution() {
                IteratedSolution::Solution(sol, _, _) => match extract(sol.as_reference(), &built.vars) {
                    Some(vs) => sols.push(vs),
                    None => {
                        out.push("partial iterate");
                        end = "partial";
                        break;
                    }
                },
                IteratedSolution::Finished => {
                    end = "finished";
                    break;
                }
                IteratedSolution::Unsatisfiable => {
                    end = "unsat";
                    break;
                }
                IteratedSolution::Unknown => {
                    end = "unknown";
                    break;
                }
            }
        }
    }
    let n = m.vars.len();
    let flat: Vec<String> = sols.iter().map(|s| fmt_vals(s)).collect();
    match end {
        "finished" => {
            if sols.is_empty() {
                out.push("bad iterate finished-without-solution");
            }
            out.push(format!("solset iterate {} {} {}", sols.len(), n, flat.join(" ")));
        }
        "unsat" => {
            if !sols.is_empty() {
                out.push("bad iterate unsat-after-solutions");
            }
            out.push(format!("solset iterate 0 {}", n));
        }
        "unknown" => out.push("nonterm iterate"),
        _ => out.push(format!("subset iterate {} {} {}", sols.len(), n, flat.join(" "))),
    }
    out.meta(format!("iterate end={} count={} polls={}", end, sols.len(), term.polls));
    report_branch_log(&brancher, out);
}

#[derive(Clone, Copy, Debug)]
pub struct OptSpec {
    pub maximise: bool,
    pub lus: bool,
    pub objective: View,
}

pub fn scen_optimise(m: &Model, setup: &Setup, spec: &OptSpec, stop_at: Option<u64>, out: &mut Out) -> u64 {
    let Some(mut built) = build_or_report(m, setup, out) else { return 0 };
    let mut brancher = make_brancher(&setup.bspec, &built.solver, &built.vars.ids);
    let mut term = match stop_at {
        Some(k) => StopAt::at(k),
        None => StopAt::never(),
    };
    let obj = built.vars.view(&spec.objective);
    let dir = if spec.maximise { OptimisationDirection::Maximise } else { OptimisationDirection::Minimise };
    let seen: RefCell<Vec<Option<Vec<i32>>>> = RefCell::new(vec![]);
    let vars = &built.vars;
    let callback = |_: &Solver, sol: SolutionReference<'_>, _: &BoxB| {
        seen.borrow_mut().push(extract(sol, vars));
    };
    let result = if spec.lus {
        built.solver.optimise(&mut brancher, &mut term, LinearUnsatSat::new(dir, obj, callback))
    } else {
        built.solver.optimise(&mut brancher, &mut term, LinearSatUnsat::new(dir, obj, callback))
    };
    let dirs = if spec.maximise { "max" } else { "min" };
    let mut objs = String::new();
    spec.objective.emit(&mut objs);
    let mut cbvals = vec![];
    for s in seen.borrow().iter() {
        match s {
            Some(vs) => {
                out.push(format!("sol callback {}", fmt_vals(vs)));
                cbvals.push(spec.objective.eval(vs));
            }
            None => out.push("partial callback"),
        }
    }
    if !spec.lus {
        // linear SAT-UNSAT: every callback solution strictly improves on the previous one
        out.push(format!(
            "improving {} {} {}",
            dirs,
            cbvals.len(),
            cbvals.iter().map(|v| v.to_string()).collect::<Vec<_>>().join(" ")
        ));
    }
    match result {
        OptimisationResult::Optimal(sol) => {
            if let Some(vs) = sol_record(out, "optimal", sol.as_reference(), &built.vars) {
                out.push(format!("opt {}{} {}", dirs, objs, spec.objective.eval(&vs)));
            }
            if stop_at.is_some() {
                out.meta("interrupted-run-result optimal");
            }
        }
        OptimisationResult::Satisfiable(sol) => {
            let _ = sol_record(out, "best-so-far", sol.as_reference(), &built.vars);
            if stop_at.is_none() {
                out.push("nonterm optimise");
            }
        }
        OptimisationResult::Unsatisfiable => out.push("verdict optimise unsat"),
        OptimisationResult::Unknown => {
            if stop_at.is_none() {
                out.push("nonterm optimise");
            }
        }
    }
    out.meta(format!("optimise lus={} max={} polls={}", spec.lus as u8, spec.maximise as u8, term.polls));
    report_branch_log(&brancher, out);
    term.polls
}

/// `rounds` assumption solves on one solver, then a plain satisfy.
pub fn scen_assume(m: &Model, setup: &Setup, rounds: &[(Vec<Atom>, bool)], out: &mut Out) {
    let Some(mut built) = build_or_report(m, setup, out) else { return };
    let mut brancher = make_brancher(&setup.bspec, &built.solver, &built.vars.ids);
    for (assumptions, want_core) in rounds {
        let preds: Vec<Predicate> = assumptions.iter().map(|a| built.vars.pred(a)).collect();
        let mut term = StopAt::never();
        let atoms = fmt_atoms(assumptions);
        let r = built.solver.satisfy_under_assumptions(&mut brancher, &mut term, &preds);
        match r {
            SatisfactionResultUnderAssumptions::Satisfiable(sol) => match extract(sol.as_reference(), &built.vars) {
                Some(vs) => out.push(format!("asol {} {}", atoms, fmt_vals(&vs))),
                None => out.push("partial assume"),
            },
            SatisfactionResultUnderAssumptions::UnsatisfiableUnderAssumptions(mut u) => {
                out.push(format!("averdict {} unsat", atoms));
                if *want_core {
                    // a directly contradictory pair is documented to be reported (by a panic naming it)
                    let core = catch_unwind(AssertUnwindSafe(|| u.extract_core()));
                    match core {
                        Ok(core) => {
                            let core_atoms: Vec<Atom> = core.iter().map(|p| atom_of(*p)).collect();
                            out.push(format!("core {} {}", atoms, fmt_atoms(&core_atoms)));
                        }
                        Err(_) => {
                            let msg = last_panic();
                            if msg.contains("Conflicting assumptions were provided") {
                                out.push(format!("conflicting {}", atoms));
                            } else {
                                out.push(format!("panic extract_core {}", msg.replace(' ', "_")));
                            }
                        }
                    }
                }
            }
            SatisfactionResultUnderAssumptions::Unsatisfiable => {
                out.push("verdict assume unsat");
            }
            SatisfactionResultUnderAssumptions::Unknown => out.push("nonterm assume"),
        }
    }
    // assumptions are not retained: a plain solve answers for the original model
    let mut term = StopAt::never();
    match built.solver.satisfy(&mut brancher, &mut term) {
        SatisfactionResult::Satisfiable(sol) => {
            let _ = sol_record(out, "after-assume", sol.as_reference(), &built.vars);
        }
        SatisfactionResult::Unsatisfiable => out.push("verdict after-assume unsat"),
        SatisfactionResult::Unknown => out.push("nonterm after-assume"),
    }
    report_branch_log(&brancher, out);
}

pub fn gen_assumptions(r: &mut Rng, m: &Model) -> Vec<Atom> {
    let n = r.usize(5);
    let mut v = vec![];
    for _ in 0..n {
        let x = r.usize(m.vars.len());
        let d = &m.vars[x];
        let val = r.i32(d.lb() - 1, d.ub() + 1);
        let a = match r.below(4) {
            0 => Atom::Ge(x, val),
            1 => Atom::Le(x, val),
            2 => Atom::Ne(x, val),
            _ => Atom::Eq(x, val),
        };
        v.push(a);
        if r.chance(1, 8) {
            v.push(a); // duplicated assumption
        }
        if r.chance(1, 12) {
            v.push(a.neg()); // directly contradictory pair
        }
    }
    r.shuffle(&mut v);
    v
}

pub fn gen_objective(r: &mut Rng, m: &Model) -> View {
    let x = r.usize(m.vars.len());
    if r.chance(1, 2) {
        View::of(x)
    } else {
        let mut scale = r.i32(-3, 3);
        if scale == 0 {
            scale = -1;
        }
        View { scale, offset: r.i32(-3, 3), var: x }
    }
}

pub fn solution_of(s: &Solution, vars: &Vars) -> Option<Vec<i32>> {
    extract(s.as_reference(), vars)
}
