//! Scenarios: run the real solver on a generated model and write observation records for the
//! Lean driver (`pdrive`). One record per line; see `lean/Driver/Main.lean` for the protocol.

use std::cell::RefCell;
use std::panic::catch_unwind;
use std::panic::AssertUnwindSafe;

use pumpkin_solver::optimisation::linear_sat_unsat::LinearSatUnsat;
use pumpkin_solver::optimisation::linear_unsat_sat::LinearUnsatSat;
use pumpkin_solver::optimisation::OptimisationDirection;
use pumpkin_solver::predicates::Predicate;
use pumpkin_solver::results::solution_iterator::IteratedSolution;
use pumpkin_solver::results::OptimisationResult;
use pumpkin_solver::results::ProblemSolution;
use pumpkin_solver::results::SatisfactionResult;
use pumpkin_solver::results::SatisfactionResultUnderAssumptions;
use pumpkin_solver::results::Solution;
use pumpkin_solver::results::SolutionReference;
use pumpkin_solver::Solver;

use crate::config::*;
use crate::model::*;
use crate::post::*;
use crate::rng::Rng;

thread_local! {
    pub static LAST_PANIC: RefCell<String> = RefCell::new(String::new());
}

pub fn install_panic_hook() {
    std::panic::set_hook(Box::new(|info| {
        let msg = if let Some(s) = info.payload().downcast_ref::<&str>() {
            s.to_string()
        } else if let Some(s) = info.payload().downcast_ref::<String>() {
            s.clone()
        } else {
            "panic".to_string()
        };
        let loc = info.location().map(|l| format!("{}:{}", l.file(), l.line())).unwrap_or_default();
        LAST_PANIC.with(|p| *p.borrow_mut() = format!("{} @ {}", msg.replace('\n', " "), loc));
    }));
}

pub fn last_panic() -> String {
    LAST_PANIC.with(|p| p.borrow().clone())
}

/// Output of one case.
#[derive(Default)]
pub struct Out {
    pub lines: Vec<String>,
}

impl Out {
    pub fn push(&mut self, s: impl Into<String>) {
        let s = s.into();
        if std::env::var_os("PHARNESS_EAGER").is_some() {
            eprintln!("{}", s);
        }
        self.lines.push(s);
    }
    pub fn meta(&mut self, s: impl AsRef<str>) {
        self.push(format!("# {}", s.as_ref()));
    }
}

pub fn fmt_vals(vs: &[i32]) -> String {
    vs.iter().map(|v| v.to_string()).collect::<Vec<_>>().join(" ")
}

pub fn fmt_atoms(atoms: &[Atom]) -> String {
    let mut s = format!("{}", atoms.len());
    for a in atoms {
        a.emit(&mut s);
    }
    s
}

pub fn atom_of(p: Predicate) -> Atom {
    // Domain 0 is the solver's constant-1 dummy variable; a predicate over it is a constant.
    if p.get_domain().id == 0 {
        let holds = match p {
            Predicate::LowerBound { lower_bound, .. } => 1 >= lower_bound,
            Predicate::UpperBound { upper_bound, .. } => 1 <= upper_bound,
            Predicate::NotEqual { not_equal_constant, .. } => 1 != not_equal_constant,
            Predicate::Equal { equality_constant, .. } => 1 == equality_constant,
        };
        // constant true / constant false, expressed over variable 0
        return if holds { Atom::Ge(0, i32::MIN) } else { Atom::Ge(0, i32::MAX) };
    }
    match p {
        Predicate::LowerBound { domain_id, lower_bound } => Atom::Ge(domain_id.id as usize - 1, lower_bound),
        Predicate::UpperBound { domain_id, upper_bound } => Atom::Le(domain_id.id as usize - 1, upper_bound),
        Predicate::NotEqual { domain_id, not_equal_constant } => Atom::Ne(domain_id.id as usize - 1, not_equal_constant),
        Predicate::Equal { domain_id, equality_constant } => Atom::Eq(domain_id.id as usize - 1, equality_constant),
    }
}

/// Values of all model variables in a solution; `None` if some variable is unassigned (reading an
/// unassigned variable panics inside the library).
pub fn extract(sol: SolutionReference<'_>, vars: &Vars) -> Option<Vec<i32>> {
    catch_unwind(AssertUnwindSafe(|| vars.ids.iter().map(|d| sol.get_integer_value(*d)).collect::<Vec<i32>>())).ok()
}

pub fn sol_record(out: &mut Out, tag: &str, sol: SolutionReference<'_>, vars: &Vars) -> Option<Vec<i32>> {
    match extract(sol, vars) {
        Some(vs) => {
            out.push(format!("sol {} {}", tag, fmt_vals(&vs)));
            Some(vs)
        }
        None => {
            out.push(format!("partial {}", tag));
            None
        }
    }
}

pub struct Setup {
    pub opts: Opts,
    pub bspec: BrancherSpec,
    pub style_seed: u64,
}

impl Setup {
    pub fn random(r: &mut Rng) -> Setup {
        let mut opts = Opts::random(r);
        if crate::config::FORCE_NOLEARNING.load(std::sync::atomic::Ordering::Relaxed) {
            opts.resolver_uip = false;
        }
        Setup { opts, bspec: BrancherSpec::random(r), style_seed: r.next() }
    }
    pub fn describe(&self) -> String {
        format!("opts[{}] brancher[{}] style={}", self.opts.describe(), self.bspec.describe(), self.style_seed)
    }
}

/// Builds the model. On a posting error the record is: the prefix model (up to and including the
/// failing constraint) must be unsatisfiable.
pub fn build_or_report(m: &Model, setup: &Setup, out: &mut Out) -> Option<Built> {
    let solver = Solver::with_options(setup.opts.to_solver_options());
    let built = build(solver, m, false, false, setup.style_seed);
    if let Some(i) = built.failed_at {
        let prefix = Model { vars: m.vars.clone(), cons: m.cons[..=i].to_vec() };
        out.push(format!("model {}", prefix.emit()));
        out.push("verdict posterr unsat");
        out.meta(format!("posterr at={} kind={}", i, m.cons[i].full_kind()));
        return None;
    }
    out.push(format!("model {}", m.emit()));
    Some(built)
}

pub fn report_branch_log(b: &BoxB, out: &mut Out) {
    let log = b.log.borrow();
    out.meta(format!("brancher decisions={} nones={}", log.decisions, log.nones));
    for v in &log.violations {
        out.push(format!("branchviolation {}", v.what.replace(' ', "_")));
    }
    for r in &log.valsel_records {
        out.push(r.clone());
    }
}

// ---------------------------------------------------------------------------------------------

pub fn scen_satisfy(m: &Model, setup: &Setup, out: &mut Out) {
    let Some(mut built) = build_or_report(m, setup, out) else { return };
    let mut brancher = make_brancher(&setup.bspec, &built.solver, &built.vars.ids);
    let mut term = StopAt::never();
    match built.solver.satisfy(&mut brancher, &mut term) {
        SatisfactionResult::Satisfiable(sol) => {
            let _ = sol_record(out, "satisfy", sol.as_reference(), &built.vars);
        }
        SatisfactionResult::Unsatisfiable => out.push("verdict satisfy unsat"),
        SatisfactionResult::Unknown => out.push("nonterm satisfy"),
    }
    out.meta(format!("polls={}", term.polls));
    report_branch_log(&brancher, out);
}

/// Iterate up to `limit` solutions. If the iterator finishes, the full set is compared;
/// otherwise the prefix must be duplicate-free and consist of solutions.
pub fn scen_iterate(m: &Model, setup: &Setup, limit: usize, out: &mut Out) {
    let Some(mut built) = build_or_report(m, setup, out) else { return };
    let mut brancher = make_brancher(&setup.bspec, &built.solver, &built.vars.ids);
    // A quarter of the enumerations are interrupted now and then: the termination condition answers
    // "stop" at the first poll of some `next_solution` calls (an interrupt arriving between two
    // solutions) and the caller simply asks again. The solutions handed out must be the same set
    // (nothing lost, nothing repeated).
    let mut br = Rng::new(setup.style_seed ^ 0xB0D6E7);
    let renewable = br.chance(1, 4);
    // On a fifth of the cases the solver has answered an assumption query before the enumeration
    // starts (nothing of it may be retained: the enumeration is over the model alone).
    if br.chance(1, 5) && !m.vars.is_empty() {
        let n = 1 + br.usize(2);
        let atoms: Vec<Atom> = (0..n)
            .map(|_| {
                let x = br.usize(m.vars.len());
                let vals = &m.vars[x].values;
                let v = vals[br.usize(vals.len())];
                match br.below(4) {
                    0 => Atom::Ge(x, v),
                    1 => Atom::Le(x, v),
                    2 => Atom::Ne(x, v),
                    _ => Atom::Eq(x, v),
                }
            })
            .collect();
        let preds: Vec<Predicate> = atoms.iter().map(|a| built.vars.pred(a)).collect();
        let mut t0 = StopAt::never();
        let r0 = built.solver.satisfy_under_assumptions(&mut brancher, &mut t0, &preds);
        out.meta(format!(
            "assumption query before the enumeration {} -> {}",
            fmt_atoms(&atoms),
            match r0 {
                SatisfactionResultUnderAssumptions::Satisfiable(_) => "sat",
                SatisfactionResultUnderAssumptions::UnsatisfiableUnderAssumptions(_) => "unsat-under",
                SatisfactionResultUnderAssumptions::Unsatisfiable => "unsat",
                SatisfactionResultUnderAssumptions::Unknown => "unknown",
            }
        ));
    }
    let mut term = StopAt::never();
    let armed = term.armed.clone();
    let since = term.since.clone();
    let mut sols: Vec<Vec<i32>> = vec![];
    let mut end = "limit";
    let mut interruptions = 0u64;
    {
        let mut it = built.solver.get_solution_iterator(&mut brancher, &mut term);
        loop {
            if sols.len() >= limit {
                break;
            }
            // the poll cap is per solve, not for the whole enumeration
            since.set(0);
            if renewable && br.chance(1, 2) {
                armed.set(true);
            }
            match it.next_solution() {
                IteratedSolution::Solution(sol, _, _) => match extract(sol.as_reference(), &built.vars) {
                    Some(vs) => sols.push(vs),
                    None => {
                        out.push("partial iterate");
                        end = "partial";
                        break;
                    }
                },
                IteratedSolution::Finished => {
                    end = "finished";
                    break;
                }
                IteratedSolution::Unsatisfiable => {
                    end = "unsat";
                    break;
                }
                IteratedSolution::Unknown if renewable && interruptions < 200_000 => {
                    interruptions += 1;
                    continue;
                }
                IteratedSolution::Unknown => {
                    end = "unknown";
                    break;
                }
            }
        }
    }
    if renewable {
        out.meta(format!("iterate with interrupts between solutions: {} interruptions", interruptions));
    }
    let n = m.vars.len();
    let flat: Vec<String> = sols.iter().map(|s| fmt_vals(s)).collect();
    match end {
        "finished" => {
            if sols.is_empty() {
                out.push("bad iterate finished-without-solution");
            }
            out.push(format!("solset iterate {} {} {}", sols.len(), n, flat.join(" ")));
        }
        "unsat" => {
            if !sols.is_empty() {
                out.push("bad iterate unsat-after-solutions");
            }
            out.push(format!("solset iterate 0 {}", n));
        }
        "unknown" => out.push("nonterm iterate"),
        _ => out.push(format!("subset iterate {} {} {}", sols.len(), n, flat.join(" "))),
    }
    out.meta(format!("iterate end={} count={} polls={}", end, sols.len(), term.polls));
    report_branch_log(&brancher, out);
}

#[derive(Clone, Copy, Debug)]
pub struct OptSpec {
    pub maximise: bool,
    pub lus: bool,
    pub objective: View,
}

pub fn scen_optimise(m: &Model, setup: &Setup, spec: &OptSpec, stop_at: Option<u64>, out: &mut Out) -> u64 {
    let Some(mut built) = build_or_report(m, setup, out) else { return 0 };
    let mut brancher = make_brancher(&setup.bspec, &built.solver, &built.vars.ids);
    let mut term = match stop_at {
        Some(k) => StopAt::at(k),
        None => StopAt::never(),
    };
    let obj = built.vars.view(&spec.objective);
    let dir = if spec.maximise { OptimisationDirection::Maximise } else { OptimisationDirection::Minimise };
    // On a third of the uninterrupted cases the solver has been used before the optimisation which is
    // judged: an assumption solve (nothing of it may be retained), or a complete linear UNSAT-SAT
    // optimisation of some variable (it only leaves valid bounds of that variable behind). Both leave
    // the model as it is, so the answer must be the optimum of the model. Derived from a separate
    // generator so that the rest of the case is unchanged.
    let mut wr = Rng::new(setup.style_seed ^ 0x3A21);
    if stop_at.is_none() && !m.vars.is_empty() {
        match wr.below(6) {
            0 => {
                let n = 1 + wr.usize(2);
                let atoms: Vec<Atom> = (0..n)
                    .map(|_| {
                        let x = wr.usize(m.vars.len());
                        let vals = &m.vars[x].values;
                        let v = vals[wr.usize(vals.len())];
                        match wr.below(4) {
                            0 => Atom::Ge(x, v),
                            1 => Atom::Le(x, v),
                            2 => Atom::Ne(x, v),
                            _ => Atom::Eq(x, v),
                        }
                    })
                    .collect();
                let preds: Vec<Predicate> = atoms.iter().map(|a| built.vars.pred(a)).collect();
                let mut t0 = StopAt::never();
                let r = built.solver.satisfy_under_assumptions(&mut brancher, &mut t0, &preds);
                out.meta(format!(
                    "warm-up assume {} -> {}",
                    fmt_atoms(&atoms),
                    match r {
                        SatisfactionResultUnderAssumptions::Satisfiable(_) => "sat",
                        SatisfactionResultUnderAssumptions::UnsatisfiableUnderAssumptions(_) => "unsat-under",
                        SatisfactionResultUnderAssumptions::Unsatisfiable => "unsat",
                        SatisfactionResultUnderAssumptions::Unknown => "unknown",
                    }
                ));
            }
            1 => {
                let x = wr.usize(m.vars.len());
                let wdir = if wr.chance(1, 2) { OptimisationDirection::Maximise } else { OptimisationDirection::Minimise };
                let wobj = built.vars.view(&View::of(x));
                let mut t0 = StopAt::never();
                let r = built.solver.optimise(&mut brancher, &mut t0, LinearUnsatSat::new(wdir, wobj, |_: &Solver, _: SolutionReference<'_>, _: &BoxB| {}));
                out.meta(format!(
                    "warm-up lus var={} -> {}",
                    x,
                    match r {
                        OptimisationResult::Optimal(_) => "optimal",
                        OptimisationResult::Satisfiable(_) => "satisfiable",
                        OptimisationResult::Unsatisfiable => "unsat",
                        OptimisationResult::Unknown => "unknown",
                    }
                ));
            }
            _ => {}
        }
    }
    let seen: RefCell<Vec<Option<Vec<i32>>>> = RefCell::new(vec![]);
    let vars = &built.vars;
    let callback = |_: &Solver, sol: SolutionReference<'_>, _: &BoxB| {
        seen.borrow_mut().push(extract(sol, vars));
    };
    let result = if spec.lus {
        built.solver.optimise(&mut brancher, &mut term, LinearUnsatSat::new(dir, obj, callback))
    } else {
        built.solver.optimise(&mut brancher, &mut term, LinearSatUnsat::new(dir, obj, callback))
    };
    let dirs = if spec.maximise { "max" } else { "min" };
    let mut objs = String::new();
    spec.objective.emit(&mut objs);
    let mut cbvals = vec![];
    for s in seen.borrow().iter() {
        match s {
            Some(vs) => {
                out.push(format!("sol callback {}", fmt_vals(vs)));
                cbvals.push(spec.objective.eval(vs));
            }
            None => out.push("partial callback"),
        }
    }
    if !spec.lus {
        // linear SAT-UNSAT: every callback solution strictly improves on the previous one
        out.push(format!(
            "improving {} {} {}",
            dirs,
            cbvals.len(),
            cbvals.iter().map(|v| v.to_string()).collect::<Vec<_>>().join(" ")
        ));
    }
    match result {
        OptimisationResult::Optimal(sol) => {
            if let Some(vs) = sol_record(out, "optimal", sol.as_reference(), &built.vars) {
                out.push(format!("opt {}{} {}", dirs, objs, spec.objective.eval(&vs)));
            }
            if stop_at.is_some() {
                out.meta("interrupted-run-result optimal");
            }
        }
        OptimisationResult::Satisfiable(sol) => {
            let _ = sol_record(out, "best-so-far", sol.as_reference(), &built.vars);
            if stop_at.is_none() {
                out.push("nonterm optimise");
            }
        }
        OptimisationResult::Unsatisfiable => out.push("verdict optimise unsat"),
        OptimisationResult::Unknown => {
            if stop_at.is_none() {
                out.push("nonterm optimise");
            }
        }
    }
    out.meta(format!("optimise lus={} max={} polls={}", spec.lus as u8, spec.maximise as u8, term.polls));
    report_branch_log(&brancher, out);
    term.polls
}

/// `rounds` assumption solves on one solver, then a plain satisfy.
pub fn scen_assume(m: &Model, setup: &Setup, rounds: &[(Vec<Atom>, bool)], out: &mut Out) {
    let Some(mut built) = build_or_report(m, setup, out) else { return };
    let mut brancher = make_brancher(&setup.bspec, &built.solver, &built.vars.ids);
    // some rounds are interrupted after 0-2 polls (derived from a separate generator so that the
    // rest of the case is unchanged): whatever is left behind must not leak into the next round
    let mut ir = Rng::new(setup.style_seed ^ 0x5709);
    for (assumptions, want_core) in rounds {
        let preds: Vec<Predicate> = assumptions.iter().map(|a| built.vars.pred(a)).collect();
        let mut term = if ir.chance(1, 3) { StopAt::at(ir.below(3)) } else { StopAt::never() };
        let interrupted = term.stop_at.is_some();
        let atoms = fmt_atoms(assumptions);
        let r = built.solver.satisfy_under_assumptions(&mut brancher, &mut term, &preds);
        match r {
            SatisfactionResultUnderAssumptions::Satisfiable(sol) => match extract(sol.as_reference(), &built.vars) {
                Some(vs) => out.push(format!("asol {} {}", atoms, fmt_vals(&vs))),
                None => out.push("partial assume"),
            },
            SatisfactionResultUnderAssumptions::UnsatisfiableUnderAssumptions(mut u) => {
                out.push(format!("averdict {} unsat", atoms));
                if *want_core {
                    // a directly contradictory pair is documented to be reported (by a panic naming it)
                    let core = catch_unwind(AssertUnwindSafe(|| u.extract_core()));
                    match core {
                        Ok(core) => {
                            let core_atoms: Vec<Atom> = core.iter().map(|p| atom_of(*p)).collect();
                            out.push(format!("core {} {}", atoms, fmt_atoms(&core_atoms)));
                        }
                        Err(_) => {
                            let msg = last_panic();
                            if msg.contains("Conflicting assumptions were provided") {
                                out.push(format!("conflicting {}", atoms));
                            } else {
                                out.push(format!("panic extract_core {}", msg.replace(' ', "_")));
                            }
                        }
                    }
                }
            }
            SatisfactionResultUnderAssumptions::Unsatisfiable => {
                out.push("verdict assume unsat");
            }
            SatisfactionResultUnderAssumptions::Unknown if interrupted => out.meta("assume interrupted: unknown"),
            SatisfactionResultUnderAssumptions::Unknown => out.push("nonterm assume"),
        }
    }
    // assumptions are not retained: a plain solve answers for the original model
    let mut term = StopAt::never();
    match built.solver.satisfy(&mut brancher, &mut term) {
        SatisfactionResult::Satisfiable(sol) => {
            let _ = sol_record(out, "after-assume", sol.as_reference(), &built.vars);
        }
        SatisfactionResult::Unsatisfiable => out.push("verdict after-assume unsat"),
        SatisfactionResult::Unknown => out.push("nonterm after-assume"),
    }
    report_branch_log(&brancher, out);
}

pub fn gen_assumptions(r: &mut Rng, m: &Model) -> Vec<Atom> {
    if crate::config::EQ_ASSUME.load(std::sync::atomic::Ordering::Relaxed) {
        // an equality strictly inside its domain is posted as two bound updates; the later
        // assumptions are bounds which tend to conflict only after propagation
        let n = 2 + r.usize(3);
        let mut v = vec![];
        for i in 0..n {
            let x = r.usize(m.vars.len());
            let d = &m.vars[x];
            let inner: Vec<i32> = d.values.iter().copied().filter(|v| *v > d.lb() && *v < d.ub()).collect();
            if (i == 0 || r.chance(1, 3)) && !inner.is_empty() {
                v.push(Atom::Eq(x, inner[r.usize(inner.len())]));
            } else {
                let val = d.values[r.usize(d.values.len())];
                v.push(if r.chance(1, 2) { Atom::Ge(x, val) } else { Atom::Le(x, val) });
            }
        }
        return v;
    }
    let n = r.usize(5);
    let mut v = vec![];
    if r.chance(1, 8) && !m.vars.is_empty() {
        // assumptions over one variable which are pairwise compatible but jointly contradictory on
        // the declared domain: [x >= c], [x <= c], [x != c]
        let x = r.usize(m.vars.len());
        let d = &m.vars[x];
        let c = d.values[r.usize(d.values.len())];
        v.push(Atom::Ge(x, c));
        v.push(Atom::Le(x, c));
        v.push(Atom::Ne(x, c));
    }
    for _ in 0..n {
        let x = r.usize(m.vars.len());
        let d = &m.vars[x];
        let val = r.i32(d.lb() - 1, d.ub() + 1);
        let a = match r.below(4) {
            0 => Atom::Ge(x, val),
            1 => Atom::Le(x, val),
            2 => Atom::Ne(x, val),
            _ => Atom::Eq(x, val),
        };
        v.push(a);
        if r.chance(1, 8) {
            v.push(a); // duplicated assumption
        }
        if r.chance(1, 12) {
            v.push(a.neg()); // directly contradictory pair
        }
    }
    r.shuffle(&mut v);
    v
}

pub fn gen_objective(r: &mut Rng, m: &Model) -> View {
    let x = r.usize(m.vars.len());
    if r.chance(1, 2) {
        View::of(x)
    } else {
        let mut scale = r.i32(-3, 3);
        if scale == 0 {
            scale = -1;
        }
        View { scale, offset: r.i32(-3, 3), var: x }
    }
}

pub fn solution_of(s: &Solution, vars: &Vars) -> Option<Vec<i32>> {
    extract(s.as_reference(), vars)
}

// ---------------------------------------------------------------------------------------------
// C12: root bounds along a posting sequence
// ---------------------------------------------------------------------------------------------

pub fn scen_bounds(m: &Model, setup: &Setup, r: &mut Rng, out: &mut Out) {
    use pumpkin_solver::variables::TransformableVariable;
    let mut solver = Solver::with_options(setup.opts.to_solver_options());
    let mut vars = Vars { ids: vec![], lits: vec![] };
    let mut sr = Rng::new(setup.style_seed);
    for d in &m.vars {
        declare_var(&mut solver, &mut vars, d, None, sr.next());
    }
    let n = m.vars.len();
    out.meta(format!("full-model {}", m.emit()));
    let mut prev: Vec<(i32, i32)> = m.vars.iter().map(|d| (d.lb(), d.ub())).collect();
    // random views observed at every step
    let views: Vec<View> = (0..3)
        .map(|_| {
            let mut scale = r.i32(-3, 3);
            if scale == 0 {
                scale = -2;
            }
            View { scale, offset: r.i32(-4, 4), var: r.usize(n) }
        })
        .collect();
    for step in 0..=m.cons.len() {
        let prefix = Model { vars: m.vars.clone(), cons: m.cons[..step].to_vec() };
        out.push(format!("model {}", prefix.emit()));
        for x in 0..n {
            let lb = solver.lower_bound(&vars.ids[x]);
            let ub = solver.upper_bound(&vars.ids[x]);
            out.push(format!("bounds step{} {} {} {}", step, x, lb, ub));
            if lb < prev[x].0 || ub > prev[x].1 {
                out.push(format!("bad bounds-not-monotone step={} x={} [{},{}] after [{},{}]", step, x, lb, ub, prev[x].0, prev[x].1));
            }
            prev[x] = (lb, ub);
            if let Some(l) = vars.lits[x] {
                // literal value must agree with the bounds of its 0-1 variable
                let v = solver.get_literal_value(l);
                let expect = if lb == ub { Some(lb == 1) } else { None };
                if v != expect {
                    out.push(format!("bad literal-value x={} value={:?} bounds=[{},{}]", x, v, lb, ub));
                }
                let nv = solver.get_literal_value(!l);
                if nv != expect.map(|b| !b) {
                    out.push(format!("bad negated-literal-value x={} value={:?} bounds=[{},{}]", x, nv, lb, ub));
                }
            }
        }
        for w in &views {
            let v = vars.ids[w.var].scaled(w.scale).offset(w.offset);
            let lb = solver.lower_bound(&v);
            let ub = solver.upper_bound(&v);
            let mut ws = String::new();
            w.emit(&mut ws);
            out.push(format!("vbounds step{}{} {} {}", step, ws, lb, ub));
            // exact correspondence with the view rule applied to the inner bounds
            let (il, iu) = (solver.lower_bound(&vars.ids[w.var]) as i64, solver.upper_bound(&vars.ids[w.var]) as i64);
            let (a, b) = (w.scale as i64 * il + w.offset as i64, w.scale as i64 * iu + w.offset as i64);
            if (lb as i64, ub as i64) != (a.min(b), a.max(b)) {
                out.push(format!("bad view-bounds-rule view={} reported=[{},{}] expected=[{},{}]", ws.trim(), lb, ub, a.min(b), a.max(b)));
            }
        }
        // Sometimes the solver is used between two postings: a solve which is interrupted after a few
        // polls (or runs to the end). Afterwards the reported bounds are root bounds again: they still
        // enclose every solution and have not loosened (a solve may tighten them by learning units).
        if r.chance(1, 3) {
            let mut brancher = make_brancher(&setup.bspec, &solver, &vars.ids);
            let mut term = if r.chance(3, 4) { StopAt::at(1 + r.below(5)) } else { StopAt::never() };
            let res = solver.satisfy(&mut brancher, &mut term);
            let what = match res {
                SatisfactionResult::Satisfiable(_) => "sat",
                SatisfactionResult::Unsatisfiable => "unsat",
                SatisfactionResult::Unknown => "unknown",
            };
            out.meta(format!("solve between postings step={} stop_at={:?} -> {}", step, term.stop_at, what));
            if what != "unsat" {
                for x in 0..n {
                    let lb = solver.lower_bound(&vars.ids[x]);
                    let ub = solver.upper_bound(&vars.ids[x]);
                    out.push(format!("bounds step{}s {} {} {}", step, x, lb, ub));
                    if lb < prev[x].0 || ub > prev[x].1 {
                        out.push(format!("bad bounds-not-monotone-after-solve step={} x={} [{},{}] after [{},{}]", step, x, lb, ub, prev[x].0, prev[x].1));
                    }
                    prev[x] = (lb, ub);
                }
            } else {
                break;
            }
        }
        if step == m.cons.len() {
            break;
        }
        let tag = None;
        if post_cons(&mut solver, &vars, &m.cons[step], Mode::Post, tag, sr.next()).is_err() {
            let prefix = Model { vars: m.vars.clone(), cons: m.cons[..=step].to_vec() };
            out.push(format!("model {}", prefix.emit()));
            out.push("verdict posterr unsat");
            out.meta(format!("posterr at={} kind={}", step, m.cons[step].full_kind()));
            break;
        }
    }
}

// ---------------------------------------------------------------------------------------------
// C07: one model under several configurations
// ---------------------------------------------------------------------------------------------

pub fn scen_configs(m: &Model, setups: &[Setup], what: &str, spec: &OptSpec, out: &mut Out) {
    for (i, setup) in setups.iter().enumerate() {
        out.meta(format!("config {} {}", i, setup.describe()));
        match what {
            "satisfy" => scen_satisfy(m, setup, out),
            "iterate" => scen_iterate(m, setup, 3000, out),
            _ => {
                let _ = scen_optimise(m, setup, spec, None, out);
            }
        }
    }
}

// ---------------------------------------------------------------------------------------------
// C11: interrupting a solve at poll k, then asking again
// ---------------------------------------------------------------------------------------------

pub fn scen_interrupt(m: &Model, setup: &Setup, what: &str, spec: &OptSpec, r: &mut Rng, thorough: bool, out: &mut Out) {
    // uninterrupted run with a counting condition
    let mut count_out = Out::default();
    let polls = match what {
        "satisfy" | "iterate" | "assume" => {
            let Some(mut built) = build_or_report(m, setup, &mut count_out) else {
                out.lines.extend(count_out.lines);
                return;
            };
            let mut b = make_brancher(&setup.bspec, &built.solver, &built.vars.ids);
            let mut t = StopAt::never();
            let _ = built.solver.satisfy(&mut b, &mut t);
            t.polls
        }
        _ => scen_optimise(m, setup, spec, None, &mut count_out),
    };
    if count_out.lines.iter().any(|l| l.starts_with("verdict posterr")) {
        out.lines.extend(count_out.lines);
        return;
    }
    out.meta(format!("uninterrupted polls={}", polls));
    let mut ks: Vec<u64> = vec![0, 1, 2, polls.saturating_sub(1), polls];
    let extra = if thorough { 40 } else { 6 };
    for _ in 0..extra {
        ks.push(r.below(polls + 1));
    }
    ks.sort();
    ks.dedup();
    for k in ks {
        out.meta(format!("interrupt at poll {}", k));
        match what {
            "satisfy" => {
                let Some(mut built) = build_or_report(m, setup, out) else { return };
                let mut b = make_brancher(&setup.bspec, &built.solver, &built.vars.ids);
                let mut t = StopAt::at(k);
                match built.solver.satisfy(&mut b, &mut t) {
                    SatisfactionResult::Satisfiable(sol) => {
                        let _ = sol_record(out, &format!("interrupted@{}", k), sol.as_reference(), &built.vars);
                    }
                    SatisfactionResult::Unsatisfiable => out.push(format!("verdict interrupted@{} unsat", k)),
                    SatisfactionResult::Unknown => out.meta("unknown"),
                }
                // ask again, uninterrupted, on the same solver and brancher
                let mut t = StopAt::never();
                match built.solver.satisfy(&mut b, &mut t) {
                    SatisfactionResult::Satisfiable(sol) => {
                        let _ = sol_record(out, &format!("resumed@{}", k), sol.as_reference(), &built.vars);
                    }
                    SatisfactionResult::Unsatisfiable => out.push(format!("verdict resumed@{} unsat", k)),
                    SatisfactionResult::Unknown => out.push(format!("nonterm resumed@{}", k)),
                }
                report_branch_log(&b, out);
            }
            "assume" => {
                // an interrupted assumption solve, then another assumption solve, then a plain one,
                // all on one solver: nothing of the interrupted query may leak into the later ones
                let Some(mut built) = build_or_report(m, setup, out) else { return };
                let mut b = make_brancher(&setup.bspec, &built.solver, &built.vars.ids);
                let mut ar = Rng::new(setup.style_seed ^ 0xA55 ^ k);
                let mut first = gen_assumptions(&mut ar, m);
                if first.is_empty() {
                    let d = &m.vars[0];
                    first.push(Atom::Ge(0, d.values[ar.usize(d.values.len())]));
                }
                let second = gen_assumptions(&mut ar, m);
                for (round, (assumptions, stop)) in [(first, Some(k)), (second, None)].into_iter().enumerate() {
                    let preds: Vec<Predicate> = assumptions.iter().map(|a| built.vars.pred(a)).collect();
                    let atoms = fmt_atoms(&assumptions);
                    let mut t = match stop {
                        Some(k) => StopAt::at(k),
                        None => StopAt::never(),
                    };
                    match built.solver.satisfy_under_assumptions(&mut b, &mut t, &preds) {
                        SatisfactionResultUnderAssumptions::Satisfiable(sol) => match extract(sol.as_reference(), &built.vars) {
                            Some(vs) => out.push(format!("asol {} {}", atoms, fmt_vals(&vs))),
                            None => out.push("partial assume-interrupted"),
                        },
                        SatisfactionResultUnderAssumptions::UnsatisfiableUnderAssumptions(mut u) => {
                            out.push(format!("averdict {} unsat", atoms));
                            match catch_unwind(AssertUnwindSafe(|| u.extract_core())) {
                                Ok(core) => {
                                    let core_atoms: Vec<Atom> = core.iter().map(|p| atom_of(*p)).collect();
                                    out.push(format!("core {} {}", atoms, fmt_atoms(&core_atoms)));
                                }
                                Err(_) => {
                                    let msg = last_panic();
                                    if msg.contains("Conflicting assumptions were provided") {
                                        out.push(format!("conflicting {}", atoms));
                                    } else {
                                        out.push(format!("panic extract_core {}", msg.replace(' ', "_")));
                                    }
                                }
                            }
                        }
                        SatisfactionResultUnderAssumptions::Unsatisfiable => out.push(format!("verdict assume-round{} unsat", round)),
                        SatisfactionResultUnderAssumptions::Unknown if stop.is_some() => out.meta("unknown"),
                        SatisfactionResultUnderAssumptions::Unknown => out.push(format!("nonterm assume-resumed@{}", k)),
                    }
                }
                let mut t = StopAt::never();
                match built.solver.satisfy(&mut b, &mut t) {
                    SatisfactionResult::Satisfiable(sol) => {
                        let _ = sol_record(out, &format!("resumed@{}", k), sol.as_reference(), &built.vars);
                    }
                    SatisfactionResult::Unsatisfiable => out.push(format!("verdict resumed@{} unsat", k)),
                    SatisfactionResult::Unknown => out.push(format!("nonterm resumed@{}", k)),
                }
                report_branch_log(&b, out);
            }
            "iterate" => {
                let Some(mut built) = build_or_report(m, setup, out) else { return };
                let mut b = make_brancher(&setup.bspec, &built.solver, &built.vars.ids);
                let mut sols: Vec<Vec<i32>> = vec![];
                let mut finished = false;
                // interrupted iteration: polls are counted across the whole iteration
                {
                    let mut t = StopAt::at(k);
                    let mut it = built.solver.get_solution_iterator(&mut b, &mut t);
                    loop {
                        match it.next_solution() {
                            IteratedSolution::Solution(sol, _, _) => match extract(sol.as_reference(), &built.vars) {
                                Some(vs) => sols.push(vs),
                                None => {
                                    out.push("partial iterate-interrupted");
                                    break;
                                }
                            },
                            IteratedSolution::Finished | IteratedSolution::Unsatisfiable => {
                                finished = true;
                                break;
                            }
                            IteratedSolution::Unknown => break,
                        }
                        if sols.len() > 3000 {
                            break;
                        }
                    }
                }
                // continue with a fresh iterator on the same solver
                if !finished && sols.len() <= 3000 {
                    let mut t = StopAt::never();
                    let mut it = built.solver.get_solution_iterator(&mut b, &mut t);
                    loop {
                        match it.next_solution() {
                            IteratedSolution::Solution(sol, _, _) => match extract(sol.as_reference(), &built.vars) {
                                Some(vs) => sols.push(vs),
                                None => {
                                    out.push("partial iterate-resumed");
                                    break;
                                }
                            },
                            IteratedSolution::Finished | IteratedSolution::Unsatisfiable => {
                                finished = true;
                                break;
                            }
                            IteratedSolution::Unknown => {
                                out.push("nonterm iterate-resumed");
                                break;
                            }
                        }
                        if sols.len() > 3000 {
                            break;
                        }
                    }
                }
                let flat: Vec<String> = sols.iter().map(|s| fmt_vals(s)).collect();
                if finished {
                    out.push(format!("solset interrupted@{} {} {} {}", k, sols.len(), m.vars.len(), flat.join(" ")));
                } else {
                    out.push(format!("subset interrupted@{} {} {} {}", k, sols.len(), m.vars.len(), flat.join(" ")));
                }
            }
            _ => {
                // optimise: interrupted run must give Unknown / a valid best-so-far / the correct optimum
                let _ = scen_optimise(m, setup, spec, Some(k), out);
            }
        }
    }
}

// ---------------------------------------------------------------------------------------------
// C10: a history of API calls on one solver
// ---------------------------------------------------------------------------------------------

#[derive(Clone, Debug)]
pub enum Op {
    NewVar(VarDecl),
    Post(Cons),
    Satisfy,
    /// a plain solve which is interrupted at the given poll
    SatisfyInterrupted(u64),
    Assume(Vec<Atom>, bool),
    Iterate(usize),
    Optimise(OptSpec),
}

impl Op {
    pub fn describe(&self) -> String {
        match self {
            Op::NewVar(d) => format!("newvar:{:?}:{}", d.kind, d.values.len()).to_lowercase(),
            Op::Post(c) => format!("post:{}", c.full_kind()),
            Op::Satisfy => "satisfy".into(),
            Op::SatisfyInterrupted(k) => format!("satisfy-interrupted:{}", k),
            Op::Assume(a, c) => format!("assume:{}:{}", a.len(), *c as u8),
            Op::Iterate(k) => format!("iterate:{}", k),
            Op::Optimise(s) => format!("optimise:{}:{}", if s.lus { "lus" } else { "lsu" }, if s.maximise { "max" } else { "min" }),
        }
    }
}

pub fn blocking_clause(sol: &[i32]) -> Cons {
    Cons::Clause(sol.iter().enumerate().map(|(x, v)| Atom::Ne(x, *v)).collect())
}

/// Runs the history; after every operation that changes the accumulated model the model is
/// re-emitted, and every answer is judged against the model accumulated so far.
pub fn scen_history(initial: &Model, ops: &[Op], setup: &Setup, out: &mut Out) {
    let mut solver = Solver::with_options(setup.opts.to_solver_options());
    let mut vars = Vars { ids: vec![], lits: vec![] };
    let mut sr = Rng::new(setup.style_seed);
    let mut acc = Model { vars: initial.vars.clone(), cons: vec![] };
    for d in &initial.vars {
        declare_var(&mut solver, &mut vars, d, None, sr.next());
    }
    out.push(format!("model {}", acc.emit()));
    let mut infeasible = false;
    // the brancher is created lazily and re-created whenever variables are added
    let mut brancher = make_brancher(&setup.bspec, &solver, &vars.ids);
    for (i, op) in ops.iter().enumerate() {
        out.meta(format!("op {} {}", i, op.describe()));
        match op {
            Op::NewVar(d) => {
                if infeasible {
                    continue; // documented: variables cannot be created in an inconsistent state
                }
                declare_var(&mut solver, &mut vars, d, None, sr.next());
                acc.vars.push(d.clone());
                brancher = make_brancher(&setup.bspec, &solver, &vars.ids);
                out.push(format!("model {}", acc.emit()));
            }
            Op::Post(c) => {
                let mut used = vec![];
                c.vars(&mut used);
                if used.iter().any(|v| *v >= vars.ids.len()) {
                    continue; // refers to a variable whose creation was skipped
                }
                let r = post_cons(&mut solver, &vars, c, Mode::Post, None, sr.next());
                acc.cons.push(c.clone());
                out.push(format!("model {}", acc.emit()));
                if r.is_err() {
                    out.push(format!("verdict posterr-op{} unsat", i));
                    infeasible = true;
                }
            }
            Op::Satisfy => {
                let mut t = StopAt::never();
                match solver.satisfy(&mut brancher, &mut t) {
                    SatisfactionResult::Satisfiable(sol) => {
                        let _ = sol_record(out, &format!("op{}", i), sol.as_reference(), &vars);
                    }
                    SatisfactionResult::Unsatisfiable => {
                        out.push(format!("verdict op{} unsat", i));
                        infeasible = true;
                    }
                    SatisfactionResult::Unknown => out.push(format!("nonterm op{}", i)),
                }
            }
            Op::SatisfyInterrupted(k) => {
                let mut t = StopAt::at(*k);
                match solver.satisfy(&mut brancher, &mut t) {
                    SatisfactionResult::Satisfiable(sol) => {
                        let _ = sol_record(out, &format!("op{}", i), sol.as_reference(), &vars);
                    }
                    SatisfactionResult::Unsatisfiable => {
                        out.push(format!("verdict op{} unsat", i));
                        infeasible = true;
                    }
                    SatisfactionResult::Unknown => out.meta(format!("op{} interrupted: unknown", i)),
                }
            }
            Op::Assume(assumptions, want_core) => {
                if assumptions.iter().any(|a| a.var() >= vars.ids.len()) {
                    continue;
                }
                let preds: Vec<Predicate> = assumptions.iter().map(|a| vars.pred(a)).collect();
                let atoms = fmt_atoms(assumptions);
                let mut ir = Rng::new(setup.style_seed ^ 0x5709 ^ (i as u64) << 8);
                let mut t = if ir.chance(1, 3) { StopAt::at(ir.below(3)) } else { StopAt::never() };
                let interrupted = t.stop_at.is_some();
                match solver.satisfy_under_assumptions(&mut brancher, &mut t, &preds) {
                    SatisfactionResultUnderAssumptions::Satisfiable(sol) => match extract(sol.as_reference(), &vars) {
                        Some(vs) => out.push(format!("asol {} {}", atoms, fmt_vals(&vs))),
                        None => out.push(format!("partial op{}", i)),
                    },
                    SatisfactionResultUnderAssumptions::UnsatisfiableUnderAssumptions(mut u) => {
                        out.push(format!("averdict {} unsat", atoms));
                        if *want_core {
                            match catch_unwind(AssertUnwindSafe(|| u.extract_core())) {
                                Ok(core) => {
                                    let core_atoms: Vec<Atom> = core.iter().map(|p| atom_of(*p)).collect();
                                    out.push(format!("core {} {}", atoms, fmt_atoms(&core_atoms)));
                                }
                                Err(_) => {
                                    let msg = last_panic();
                                    if msg.contains("Conflicting assumptions were provided") {
                                        out.push(format!("conflicting {}", atoms));
                                    } else {
                                        out.push(format!("panic extract_core {}", msg.replace(' ', "_")));
                                    }
                                }
                            }
                        }
                    }
                    SatisfactionResultUnderAssumptions::Unsatisfiable => {
                        out.push(format!("verdict op{} unsat", i));
                        infeasible = true;
                    }
                    SatisfactionResultUnderAssumptions::Unknown if interrupted => out.meta(format!("op{} interrupted: unknown", i)),
                    SatisfactionResultUnderAssumptions::Unknown => out.push(format!("nonterm op{}", i)),
                }
            }
            Op::Iterate(k) => {
                let mut t = StopAt::never();
                let mut yielded: Vec<Vec<i32>> = vec![];
                let mut ended = false;
                {
                    let mut it = solver.get_solution_iterator(&mut brancher, &mut t);
                    while yielded.len() < *k {
                        match it.next_solution() {
                            IteratedSolution::Solution(sol, _, _) => match extract(sol.as_reference(), &vars) {
                                Some(vs) => yielded.push(vs),
                                None => {
                                    out.push(format!("partial op{}", i));
                                    break;
                                }
                            },
                            IteratedSolution::Finished | IteratedSolution::Unsatisfiable => {
                                ended = true;
                                break;
                            }
                            IteratedSolution::Unknown => {
                                out.push(format!("nonterm op{}", i));
                                break;
                            }
                        }
                    }
                }
                let flat: Vec<String> = yielded.iter().map(|s| fmt_vals(s)).collect();
                if ended {
                    out.push(format!("solset op{} {} {} {}", i, yielded.len(), acc.vars.len(), flat.join(" ")));
                } else {
                    out.push(format!("subset op{} {} {} {}", i, yielded.len(), acc.vars.len(), flat.join(" ")));
                }
                // blocking clauses which the iterator has added: all yielded solutions except the
                // last one, which is only blocked by a further call
                let blocked = if ended { yielded.len() } else { yielded.len().saturating_sub(1) };
                for s in &yielded[..blocked] {
                    acc.cons.push(blocking_clause(s));
                }
                if ended {
                    infeasible = true;
                }
                out.push(format!("model {}", acc.emit()));
            }
            Op::Optimise(spec) => {
                if spec.objective.var >= vars.ids.len() {
                    continue;
                }
                let obj = vars.view(&spec.objective);
                let dir = if spec.maximise { OptimisationDirection::Maximise } else { OptimisationDirection::Minimise };
                let mut t = StopAt::never();
                let no_callback: Option<fn(&Solver, SolutionReference<'_>, &BoxB)> = None;
                let result = if spec.lus {
                    solver.optimise(&mut brancher, &mut t, LinearUnsatSat::new(dir, obj, no_callback))
                } else {
                    solver.optimise(&mut brancher, &mut t, LinearSatUnsat::new(dir, obj, no_callback))
                };
                let dirs = if spec.maximise { "max" } else { "min" };
                let mut objs = String::new();
                spec.objective.emit(&mut objs);
                match result {
                    OptimisationResult::Optimal(sol) => {
                        if let Some(vs) = sol_record(out, &format!("op{}", i), sol.as_reference(), &vars) {
                            let best = spec.objective.eval(&vs);
                            out.push(format!("opt {}{} {}", dirs, objs, best));
                            if !spec.lus {
                                // side effect of linear SAT-UNSAT: the cuts stay in the solver; the last
                                // one (objective strictly better than the optimum) makes it infeasible
                                let internal = if spec.maximise {
                                    View { scale: -spec.objective.scale, offset: -spec.objective.offset, var: spec.objective.var }
                                } else {
                                    spec.objective
                                };
                                let internal_best = if spec.maximise { -best } else { best };
                                acc.cons.push(Cons::LinLe(vec![internal], (internal_best - 1) as i32));
                                infeasible = true;
                                out.push(format!("model {}", acc.emit()));
                            }
                        }
                    }
                    OptimisationResult::Satisfiable(_) | OptimisationResult::Unknown => out.push(format!("nonterm op{}", i)),
                    OptimisationResult::Unsatisfiable => {
                        out.push(format!("verdict op{} unsat", i));
                        infeasible = true;
                    }
                }
            }
        }
        // after every second operation the bounds the solver reports are read: they are root bounds
        // of the accumulated model (they enclose every solution of it and lie in the declared domains),
        // whatever the operation was (a posting, an interrupted or complete solve, an enumeration, ...)
        if !infeasible && (setup.style_seed >> (i % 48)) & 1 == 1 {
            for x in 0..vars.ids.len() {
                let lb = solver.lower_bound(&vars.ids[x]);
                let ub = solver.upper_bound(&vars.ids[x]);
                out.push(format!("bounds op{} {} {} {}", i, x, lb, ub));
            }
        }
    }
    report_branch_log(&brancher, out);
}

/// see `mode_bigsearch`
/// `expected`: the known number of solutions when the enumeration runs to its end
pub fn scen_bigsearch(m: &Model, setup: &Setup, k: usize, expected: Option<usize>, out: &mut Out) {
    let solver = Solver::with_options(setup.opts.to_solver_options());
    let mut built = build(solver, m, false, false, setup.style_seed);
    if built.failed_at.is_some() {
        out.push("bad bigsearch posting-failed");
        return;
    }
    let mut brancher = make_brancher(&setup.bspec, &built.solver, &built.vars.ids);
    let mut term = StopAt::never();
    term.cap = term.cap.min(60_000);
    let since = term.since.clone();
    let mut found = 0;
    let mut finished = false;
    let mut seen: std::collections::BTreeSet<Vec<i32>> = Default::default();
    {
        let mut it = built.solver.get_solution_iterator(&mut brancher, &mut term);
        while found < k {
            since.set(0);
            match it.next_solution() {
                IteratedSolution::Solution(sol, _, _) => match extract(sol.as_reference(), &built.vars) {
                    Some(vs) => {
                        found += 1;
                        let in_dom = vs.iter().zip(m.vars.iter()).all(|(v, d)| d.values.contains(v));
                        if !in_dom || !m.cons.iter().all(|c| c.sat(&vs)) {
                            out.push(format!("bad bigsearch non-solution {}", fmt_vals(&vs).replace(' ', ",")));
                        }
                        if !seen.insert(vs) {
                            out.push("bad bigsearch repeated-solution");
                        }
                    }
                    None => {
                        out.push("partial bigsearch");
                        break;
                    }
                },
                IteratedSolution::Finished | IteratedSolution::Unsatisfiable => {
                    finished = true;
                    break;
                }
                IteratedSolution::Unknown => {
                    // the poll cap of the harness: a long search, not an observation about the solver
                    out.meta("bigsearch: poll cap reached, case inconclusive");
                    break;
                }
            }
        }
    }
    if let (true, Some(e)) = (finished, expected) {
        if found != e {
            out.push(format!("bad bigsearch wrong-number-of-solutions expected={} found={}", e, found));
        }
    }
    out.push(format!("same bigsearch-solutions-found {} {}", found, found));
    report_branch_log(&brancher, out);
}

// ---------------------------------------------------------------------------------------------
// C17 / C02: explanation tap
// ---------------------------------------------------------------------------------------------

pub fn scen_tap(m: &Model, setup: &Setup, iterate_k: usize, out: &mut Out) {
    scen_tap_probes(m, setup, iterate_k, if iterate_k == 1 { 24 } else { 8 }, out)
}

/// `probes`: number of short solves under random bound assumptions made before the enumeration
pub fn scen_tap_probes(m: &Model, setup: &Setup, iterate_k: usize, probes: usize, out: &mut Out) {
    use pumpkin_solver::verif_hooks::*;
    use std::collections::BTreeSet;
    let solver = Solver::with_options(setup.opts.to_solver_options());
    tap_enable(true);
    let _ = tap_drain();
    // every constraint is posted with tag = index + 1 (clauses cannot be tagged)
    let mut built = build(solver, m, false, true, setup.style_seed);
    out.push(format!("model {}", m.emit()));
    // root facts after posting (unit clauses leave no tap record)
    let root_facts_after_post: Vec<Predicate> = root_facts(&built.solver);
    let mut early_records: Vec<TapRecord> = vec![];
    let mut blocking_at: Vec<(usize, Vec<i32>)> = vec![];
    if let Some(i) = built.failed_at {
        out.meta(format!("posterr at={} kind={}", i, m.cons[i].full_kind()));
    } else {
        // Probing: short solves under random bound assumptions. Every assumption is a decision, so
        // the propagators run (and explain) in many states that are *not* root states — e.g. with a
        // variable made non-negative by a decision although its domain has negative values.
        {
            let mut pr = crate::rng::Rng::new(setup.style_seed ^ 0x9e37_79b9);
            for _ in 0..probes {
                let mut preds: Vec<Predicate> = vec![];
                for (x, d) in m.vars.iter().enumerate() {
                    if pr.chance(1, 2) {
                        let v = d.values[pr.usize(d.values.len())];
                        let a = match pr.below(5) {
                            0 | 1 => Atom::Ge(x, v),
                            2 | 3 => Atom::Le(x, v),
                            _ => Atom::Ne(x, v),
                        };
                        preds.push(built.vars.pred(&a));
                    }
                }
                pr.shuffle(&mut preds);
                let mut brancher = make_brancher(&setup.bspec, &built.solver, &built.vars.ids);
                // poll i comes before the propagation of decision i: let all assumptions (and sometimes
                // a few decisions of the brancher) be propagated
                let mut term = StopAt::at(preds.len() as u64 + 1 + pr.below(3));
                let r = catch_unwind(AssertUnwindSafe(|| {
                    let res = built.solver.satisfy_under_assumptions(&mut brancher, &mut term, &preds);
                    if std::env::var_os("PHARNESS_EAGER").is_some() {
                        eprintln!(
                            "# probe {} assumptions -> {}",
                            preds.len(),
                            match res {
                                SatisfactionResultUnderAssumptions::Satisfiable(_) => "sat",
                                SatisfactionResultUnderAssumptions::UnsatisfiableUnderAssumptions(_) => "unsat-under-assumptions",
                                SatisfactionResultUnderAssumptions::Unsatisfiable => "unsat",
                                SatisfactionResultUnderAssumptions::Unknown => "unknown",
                            }
                        );
                    }
                }));
                if r.is_err() {
                    // panics under assumptions are C05 / C10 business (known findings there); the
                    // solver may be in an undefined state now, so stop probing this case
                    break;
                }
            }
        }
        let mut brancher = make_brancher(&setup.bspec, &built.solver, &built.vars.ids);
        let mut term = StopAt::never();
        let mut it = built.solver.get_solution_iterator(&mut brancher, &mut term);
        let mut n = 0;
        while n < iterate_k {
            match it.next_solution() {
                IteratedSolution::Solution(sol, _, _) => {
                    n += 1;
                    // the blocking clause of this solution is added by the next call: remember where
                    // in the record stream that is
                    early_records.extend(tap_drain());
                    if let Some(vs) = extract(sol.as_reference(), &built.vars) {
                        blocking_at.push((early_records.len(), vs));
                    }
                }
                _ => break,
            }
        }
    }
    tap_enable(false);
    early_records.extend(tap_drain());
    let records = early_records;
    let nvars = m.vars.len();
    let in_model = |p: &Predicate| (p.get_domain().id as usize) <= nvars;
    let mut seen: BTreeSet<String> = BTreeSet::new();
    let mut counts = [0usize; 4];
    // calls of the semantic minimiser: input / output pairs, exact correspondence with
    // Model/SemMin.lean (the original domains are the declared domains of the model)
    {
        let mut pending: Option<(usize, Vec<Predicate>)> = None;
        let mut emitted = 0;
        for r in &records {
            match r.kind {
                TapKind::MinimiseIn => pending = Some((r.level, r.reason.clone())),
                TapKind::MinimiseOut => {
                    if let Some((merge, input)) = pending.take() {
                        let is_false = r.reason.len() == 1 && r.reason[0] == Predicate::trivially_false();
                        let ok_vars = input.iter().all(|p| in_model(p) && p.get_domain().id != 0)
                            && (is_false || r.reason.iter().all(|p| in_model(p) && p.get_domain().id != 0));
                        if ok_vars && !input.is_empty() {
                            let inp: Vec<Atom> = input.iter().map(|p| atom_of(*p)).collect();
                            let line = if is_false {
                                format!("semmin {} {} :: false", merge, fmt_atoms(&inp))
                            } else {
                                let outp: Vec<Atom> = r.reason.iter().map(|p| atom_of(*p)).collect();
                                format!("semmin {} {} :: {}", merge, fmt_atoms(&inp), fmt_atoms(&outp))
                            };
                            if emitted < 300 && seen.insert(line.clone()) {
                                emitted += 1;
                                out.push(line);
                            }
                        }
                    }
                }
                _ => {}
            }
        }
    }
    // runs of the recursive minimiser: exact correspondence with Model/RecMin.lean. Predicates are
    // opaque there, so each distinct predicate of a run gets a number.
    {
        let mut ids: std::collections::HashMap<Predicate, usize> = std::collections::HashMap::new();
        let mut head = String::new();
        let mut inits = String::new();
        let mut n_init = 0;
        let mut visits = String::new();
        let mut n_visit = 0;
        let mut emitted = 0;
        let mut open = false;
        for r in &records {
            if r.kind == TapKind::RecMinIn {
                ids.clear();
            }
            let mut id = |p: Predicate| -> usize {
                let n = ids.len();
                *ids.entry(p).or_insert(n)
            };
            match r.kind {
                TapKind::RecMinIn => {
                    for p in &r.reason {
                        let _ = id(*p);
                    }
                    head = format!("recmin {} {}", r.level, r.trail_position);
                    inits.clear();
                    visits.clear();
                    n_init = 0;
                    n_visit = 0;
                    open = true;
                }
                TapKind::RecMinInit if open => {
                    inits.push_str(&format!(" {} {} {}", id(r.predicate.unwrap()), r.level, r.trail_position));
                    n_init += 1;
                }
                TapKind::RecMinVisit if open => {
                    visits.push_str(&format!(
                        " {} {} {} {} {}",
                        id(r.predicate.unwrap()),
                        r.level,
                        r.trail_position,
                        r.tag.unwrap_or(0),
                        r.reason.len()
                    ));
                    for p in &r.reason {
                        visits.push_str(&format!(" {}", id(*p)));
                    }
                    n_visit += 1;
                }
                TapKind::RecMinOut if open => {
                    open = false;
                    let mut o = format!("{}", r.reason.len());
                    for p in &r.reason {
                        o.push_str(&format!(" {}", id(*p)));
                    }
                    let line = format!("{} {}{} :: {}{} :: {}", head, n_init, inits, n_visit, visits, o);
                    if n_visit <= 400 && emitted < 200 && seen.insert(line.clone()) {
                        emitted += 1;
                        out.push(line);
                    }
                }
                _ => {}
            }
        }
    }
    for r in &records {
        if matches!(
            r.kind,
            TapKind::MinimiseIn | TapKind::MinimiseOut | TapKind::RecMinIn | TapKind::RecMinInit | TapKind::RecMinVisit | TapKind::RecMinOut
        ) {
            continue;
        }
        // blocking clauses added by the iterator are not part of `m`: inferences of the nogood
        // propagator are only checked for the first solve (iterate_k == 0) at model level
        let all_in_model = r.reason.iter().all(in_model) && r.predicate.as_ref().map(in_model).unwrap_or(true);
        if !all_in_model {
            continue;
        }
        let prem: Vec<Atom> = r.reason.iter().map(|p| atom_of(*p)).collect();
        let concl = r.predicate.map(atom_of);
        let concl_s = match &concl {
            Some(a) => {
                let mut s = String::new();
                a.emit(&mut s);
                s.trim().to_string()
            }
            None => "none".to_string(),
        };
        let name = r.propagator.replace(' ', "");
        let kind = match r.kind {
            TapKind::Propagation => "prop",
            TapKind::Conflict => "conflict",
            TapKind::AnalysisReason => "analysis",
            TapKind::Learned => "learned",
            _ => unreachable!(),
        };
        counts[r.kind as usize] += 1;
        if !r.reason_all_true {
            out.push(format!("bad reason-not-true kind={} propagator={} reason={} concl={}", kind, name, fmt_atoms(&prem).replace(' ', "_"), concl_s.replace(' ', "_")));
        }
        let line = match (r.kind, r.tag) {
            (TapKind::Learned, _) if iterate_k <= 1 => format!("nogood learned {}", fmt_atoms(&prem)),
            (TapKind::Learned, _) => continue,
            (_, Some(t)) if (t as usize) <= m.cons.len() => {
                format!("infer {}:{} {} {} {}", kind, name, m.cons[t as usize - 1].to_text(), fmt_atoms(&prem), concl_s)
            }
            _ if name == "implicit" => format!("infer {}:{} conj 0 {} {}", kind, name, fmt_atoms(&prem), concl_s),
            // untagged propagator (clauses, learned nogoods): entailed by the model as a whole;
            // only meaningful while no blocking clause has been added
            _ if iterate_k <= 1 => format!("minfer {}:{} {} {}", kind, name, fmt_atoms(&prem), concl_s),
            _ => continue,
        };
        if seen.len() < 400 + 30 * probes && seen.insert(line.clone()) {
            out.push(line);
        }
        // exact correspondence of the implicit reasons with Model/ImplicitReason.lean
        if let (TapKind::AnalysisReason, Some(tp), Some(q)) = (r.kind, r.trail_predicate, concl) {
            if in_model(&tp) {
                let mut t = String::new();
                atom_of(tp).emit(&mut t);
                let mut qs = String::new();
                q.emit(&mut qs);
                let line = format!("implicit{}{} {}", t, qs, fmt_atoms(&prem));
                if seen.len() < 600 + 30 * probes && seen.insert(line.clone()) {
                    out.push(line);
                }
            }
        }
    }
    // Derivation of the learned nogoods (all iterations, whatever blocking clauses have been added):
    // every learned nogood must follow by domain-aware unit propagation (Check/AtomRup.lean) from
    // the reasons which were handed to its conflict analysis, the conflict itself (or the
    // propagation which emptied a domain), the root-level propagations made so far and the nogoods
    // learned before. Each of those clauses is judged on its own elsewhere (explicit reasons against
    // their constraint, implicit reasons against Model/ImplicitReason), so a nogood which does not
    // follow from the model plus the blocking clauses cannot pass.
    {
        let clause_of = |r: &TapRecord| -> Option<String> {
            if !(r.reason.iter().all(in_model) && r.predicate.as_ref().map(in_model).unwrap_or(true)) {
                return None;
            }
            let prem: Vec<Atom> = r.reason.iter().map(|p| atom_of(*p)).collect();
            let concl = match r.predicate.map(atom_of) {
                Some(a) => {
                    let mut s = String::new();
                    a.emit(&mut s);
                    s.trim().to_string()
                }
                None => "none".to_string(),
            };
            Some(format!("{} {}", fmt_atoms(&prem), concl))
        };
        let mut root: Vec<String> = vec![]; // level-0 facts and propagations so far
        for p in &root_facts_after_post {
            if in_model(p) && p.get_domain().id != 0 {
                let mut s = String::new();
                atom_of(*p).emit(&mut s);
                root.push(format!("0 {}", s.trim()));
            }
        }
        let mut learned: Vec<String> = vec![]; // earlier learned nogoods, as clauses
        let mut window: Vec<String> = vec![]; // since the previous learned nogood
        let mut window_ok = true;
        let mut emitted = 0;
        let mut skipped = 0;
        let mut blocking: Vec<String> = vec![]; // blocking clauses of the solutions handed out so far
        let mut next_block = 0;
        let mut n_emitted = 0;
        let mut n_seen: BTreeSet<String> = BTreeSet::new();
        for (ri, r) in records.iter().enumerate() {
            while next_block < blocking_at.len() && blocking_at[next_block].0 <= ri {
                let sol = &blocking_at[next_block].1;
                let atoms: Vec<Atom> = sol.iter().enumerate().map(|(x, v)| Atom::Eq(x, *v)).collect();
                blocking.push(format!("{} none", fmt_atoms(&atoms)));
                next_block += 1;
            }
            // A reason given by the nogood propagator is an instance of a stored nogood: it follows
            // from the nogoods learned so far, the blocking clauses and the root facts — or it comes
            // from a clause of the model, in which case the model entails it (the driver tries both).
            // (not under `NoLearning`: there the reason attached to a flipped decision — the decisions
            // above it — is recorded under the same name; it states that the search below was exhausted
            // and is not an instance of a stored nogood)
            if setup.opts.resolver_uip
                && r.propagator == "NogoodPropagator"
                && matches!(r.kind, TapKind::Propagation | TapKind::Conflict | TapKind::AnalysisReason)
                && n_emitted < 150
            {
                if let Some(c) = clause_of(r) {
                    if n_seen.insert(c.clone()) {
                        let l: Vec<String> = learned.iter().rev().take(300).cloned().collect();
                        let all: Vec<&String> = l.iter().chain(blocking.iter()).chain(root.iter()).collect();
                        out.push(format!("nderive {} {} :: {}", all.len(), all.iter().map(|s| s.as_str()).collect::<Vec<_>>().join(" "), c));
                        n_emitted += 1;
                    }
                }
            }
            match r.kind {
                TapKind::Propagation | TapKind::Conflict | TapKind::AnalysisReason => match clause_of(r) {
                    Some(c) => {
                        if r.kind == TapKind::Propagation && r.level == 0 {
                            if root.len() < 600 {
                                root.push(c);
                            }
                        } else {
                            window.push(c);
                        }
                    }
                    None => window_ok = false,
                },
                TapKind::Learned => {
                    let ok = window_ok && r.reason.iter().all(in_model);
                    if ok && emitted < 120 {
                        let ng: Vec<Atom> = r.reason.iter().map(|p| atom_of(*p)).collect();
                        let w: Vec<String> = window.iter().rev().take(300).cloned().collect();
                        let l: Vec<String> = learned.iter().rev().take(300).cloned().collect();
                        let all: Vec<&String> = w.iter().chain(root.iter()).chain(l.iter()).chain(blocking.iter()).collect();
                        out.push(format!(
                            "derive {} {} :: {}",
                            all.len(),
                            all.iter().map(|s| s.as_str()).collect::<Vec<_>>().join(" "),
                            fmt_atoms(&ng)
                        ));
                        emitted += 1;
                    } else {
                        skipped += 1;
                    }
                    if r.reason.iter().all(in_model) {
                        let ng: Vec<Atom> = r.reason.iter().map(|p| atom_of(*p)).collect();
                        learned.push(format!("{} none", fmt_atoms(&ng)));
                    }
                    window.clear();
                    window_ok = true;
                }
                _ => {}
            }
        }
        out.meta(format!("derive emitted={} skipped={} nderive={} blocking={}", emitted, skipped, n_emitted, blocking.len()));
    }
    out.meta(format!(
        "tap records={} propagation={} conflict={} analysis={} learned={} distinct={}",
        records.len(), counts[0], counts[1], counts[2], counts[3], seen.len()
    ));
}

// ---------------------------------------------------------------------------------------------
// C06: DRCP proof logging
// ---------------------------------------------------------------------------------------------

pub fn atomic_to_atom(a: &drcp_format::AtomicConstraint<String>, nvars: usize) -> Option<Atom> {
    use drcp_format::AtomicConstraint;
    use drcp_format::Comparison;
    let var_of = |name: &str| -> Option<usize> {
        let i: usize = name.strip_prefix('x')?.parse().ok()?;
        if i < nvars {
            Some(i)
        } else {
            None
        }
    };
    match a {
        AtomicConstraint::Int(i) if i.name == "Dummy" => {
            // the solver's internal constant-1 variable: an atomic over it is a constant
            let holds = match i.comparison {
                Comparison::GreaterThanEqual => 1 >= i.value,
                Comparison::LessThanEqual => 1 <= i.value,
                Comparison::Equal => 1 == i.value,
                Comparison::NotEqual => 1 != i.value,
            };
            if nvars == 0 {
                return None;
            }
            Some(if holds { Atom::Ge(0, i32::MIN) } else { Atom::Ge(0, i32::MAX) })
        }
        AtomicConstraint::Int(i) => {
            let x = var_of(&i.name)?;
            let v = i32::try_from(i.value).ok()?;
            Some(match i.comparison {
                Comparison::GreaterThanEqual => Atom::Ge(x, v),
                Comparison::LessThanEqual => Atom::Le(x, v),
                Comparison::Equal => Atom::Eq(x, v),
                Comparison::NotEqual => Atom::Ne(x, v),
            })
        }
        AtomicConstraint::Bool(b) => {
            let x = var_of(&b.name)?;
            Some(if b.value { Atom::Ge(x, 1) } else { Atom::Le(x, 0) })
        }
    }
}

/// `kind`: 0 scaffold, 1 full, 2 with hints. `opt`: None = satisfy, Some(spec) = optimise.
pub fn scen_proof(m: &Model, setup: &Setup, kind: u8, opt: Option<&OptSpec>, dir: &std::path::Path, out: &mut Out) {
    use pumpkin_solver::proof::Format;
    use pumpkin_solver::proof::ProofLog;
    let path = dir.join("proof.drcp");
    let lits_path = dir.join("proof.lits");
    let _ = std::fs::remove_file(&path);
    let _ = std::fs::remove_file(&lits_path);
    let mut options = setup.opts.to_solver_options();
    options.proof_log = ProofLog::cp(&path, Format::Text, kind >= 1, kind >= 2).expect("proof file");
    let solver = Solver::with_options(options);
    out.push(format!("model {}", m.emit()));
    let n_defs = crate::config::LIT_DEFS.with(|d| d.borrow().len());
    if n_defs > 0 {
        out.push(format!("litdefs {}", n_defs));
    }
    let mut built = build(solver, m, true, true, setup.style_seed);
    let mut concluded = false;
    let mut obj_desc = "none".to_string();
    if built.failed_at.is_some() {
        // a post failed: the solver is infeasible; the (immediate) Unsatisfiable answer of `satisfy`
        // is what concludes the proof, exactly as the command-line front-ends do
        out.push(format!("model {}", Model { vars: m.vars.clone(), cons: m.cons[..=built.failed_at.unwrap()].to_vec() }.emit()));
        if n_defs > 0 {
            out.push(format!("litdefs {}", n_defs.min(built.failed_at.unwrap() + 1)));
        }
        out.meta("posterr");
        let mut brancher = make_brancher(&setup.bspec, &built.solver, &built.vars.ids);
        let mut term = StopAt::never();
        match built.solver.satisfy(&mut brancher, &mut term) {
            SatisfactionResult::Unsatisfiable => concluded = true,
            _ => out.push("bad satisfy-after-post-error-is-not-unsatisfiable"),
        }
    } else {
        let mut brancher = make_brancher(&setup.bspec, &built.solver, &built.vars.ids);
        let mut term = StopAt::never();
        match opt {
            None => match built.solver.satisfy(&mut brancher, &mut term) {
                SatisfactionResult::Unsatisfiable => concluded = true,
                SatisfactionResult::Satisfiable(_) => out.meta("satisfiable: no conclusion"),
                SatisfactionResult::Unknown => out.push("nonterm proof"),
            },
            Some(spec) => {
                let obj = built.vars.view(&spec.objective);
                let dirn = if spec.maximise { OptimisationDirection::Maximise } else { OptimisationDirection::Minimise };
                let no_callback: Option<fn(&Solver, SolutionReference<'_>, &BoxB)> = None;
                let result = if spec.lus {
                    built.solver.optimise(&mut brancher, &mut term, LinearUnsatSat::new(dirn, obj, no_callback))
                } else {
                    built.solver.optimise(&mut brancher, &mut term, LinearSatUnsat::new(dirn, obj, no_callback))
                };
                match result {
                    OptimisationResult::Optimal(sol) => {
                        concluded = true;
                        obj_desc = format!("{} {}", if spec.maximise { "max" } else { "min" }, spec.objective.var);
                        if let Some(vs) = extract(sol.as_reference(), &built.vars) {
                            out.meta(format!("optimum {}", spec.objective.eval(&vs)));
                            out.push(format!("opt {} 1 0 {} {}", if spec.maximise { "max" } else { "min" }, spec.objective.var, vs[spec.objective.var]));
                        }
                    }
                    OptimisationResult::Unsatisfiable => concluded = true,
                    _ => out.push("nonterm proof"),
                }
            }
        }
    }
    drop(built);
    if !concluded {
        return;
    }
    let drcp = match std::fs::read_to_string(&path) {
        Ok(t) => t,
        Err(_) => {
            out.push("bad proof-file-missing");
            return;
        }
    };
    let lits_bytes = std::fs::read(&lits_path).unwrap_or_default();
    let defs = match drcp_format::LiteralDefinitions::<String>::parse(&lits_bytes[..]) {
        Ok(d) => d,
        Err(e) => {
            out.push(format!("bad lits-file-unreadable {}", e.to_string().replace(' ', "_")));
            return;
        }
    };
    // the repo's own reader must read the proof file it wrote
    {
        let mut reader = drcp_format::reader::ProofReader::new(drcp.as_bytes(), |l: std::num::NonZero<i32>| l);
        let mut k = 0;
        loop {
            match reader.next_step() {
                Ok(Some(_)) => k += 1,
                Ok(None) => break,
                Err(e) => {
                    out.push(format!("bad proof-unreadable-by-own-reader line={} {}", k + 1, e.to_string().replace(' ', "_")));
                    break;
                }
            }
        }
    }
    // literal codes used in the proof
    let mut codes: Vec<u32> = vec![];
    for tok in drcp.split_whitespace() {
        if let Ok(z) = tok.parse::<i64>() {
            if z != 0 && z.unsigned_abs() <= u32::MAX as u64 {
                codes.push(z.unsigned_abs() as u32);
            }
        }
    }
    codes.sort();
    codes.dedup();
    let mut lit_txt = String::new();
    let mut nlits = 0;
    for c in codes {
        if let Some(atomics) = defs.get(std::num::NonZero::new(c).unwrap()) {
            if let Some(a) = atomics.iter().find_map(|a| atomic_to_atom(a, m.vars.len())) {
                let mut s = String::new();
                a.emit(&mut s);
                lit_txt.push_str(&format!(" {}{}", c, s));
                nlits += 1;
            }
        }
    }
    let steps: Vec<&str> = drcp.lines().filter(|l| !l.trim().is_empty()).collect();
    out.meta(format!("proof kind={} steps={} lits={}", kind, steps.len(), nlits));
    out.push(format!("drcp {} {} {}{} :: {}", kind, obj_desc, nlits, lit_txt, steps.join(" ; ")));
}

// ---------------------------------------------------------------------------------------------
// propagation correspondence (`fix` records): the domains of all model variables at every decision
// point, observed through the brancher interface, against Model/Propagation.lean's fixpoint
// ---------------------------------------------------------------------------------------------

#[derive(Default)]
pub struct FixLog {
    /// every decision of the solve with the domains in which it was made (for the `nlsearch` record)
    pub script: Vec<(String, String)>,
    pub lines: Vec<String>,
    pub pending: Option<(String, String)>,
    pub learned: bool,
    pub first: bool,
    pub steps: usize,
    pub conflicts: usize,
}

pub struct FixRecorder {
    pub inner: BoxB,
    pub ids: Vec<pumpkin_solver::variables::DomainId>,
    pub decl: Vec<Vec<i32>>,
    pub log: std::rc::Rc<RefCell<FixLog>>,
    pub max_lines: usize,
}

impl std::fmt::Debug for FixRecorder {
    fn fmt(&self, f: &mut std::fmt::Formatter<'_>) -> std::fmt::Result {
        f.debug_struct("FixRecorder").finish()
    }
}

impl FixRecorder {
    fn snapshot(&self, context: &pumpkin_solver::branching::SelectionContext) -> String {
        let mut s = format!("{}", self.ids.len());
        for (d, vals) in self.ids.iter().zip(self.decl.iter()) {
            let cur: Vec<String> = vals.iter().filter(|v| context.contains(*d, **v)).map(|v| v.to_string()).collect();
            s.push_str(&format!(" {} {}", cur.len(), cur.join(" ")));
        }
        s.replace("  ", " ")
    }
}

impl pumpkin_solver::branching::Brancher for FixRecorder {
    fn next_decision(&mut self, context: &mut pumpkin_solver::branching::SelectionContext) -> Option<Predicate> {
        let now = self.snapshot(context);
        {
            let mut log = self.log.borrow_mut();
            if log.first {
                log.first = false;
                log.lines.push(format!("fix root ok {}", now));
            } else if let Some((before, dec)) = log.pending.take() {
                if log.lines.len() < self.max_lines {
                    let l = log.learned as u8;
                    log.lines.push(format!("fix step {} {}{} ok {}", l, before, dec, now));
                    log.steps += 1;
                }
            }
        }
        let d = self.inner.next_decision(context);
        let mut log = self.log.borrow_mut();
        log.pending = None;
        if let Some(p) = d {
            let id = p.get_domain().id as usize;
            if id >= 1 && id <= self.ids.len() {
                let mut a = String::new();
                atom_of(p).emit(&mut a);
                log.script.push((now.clone(), a.clone()));
                log.pending = Some((now, a));
            } else {
                log.script.push((now, " foreign 0 0".into()));
            }
        }
        d
    }
    fn on_conflict(&mut self) {
        {
            let mut log = self.log.borrow_mut();
            if let Some((before, dec)) = log.pending.take() {
                if log.lines.len() < self.max_lines {
                    let l = log.learned as u8;
                    log.lines.push(format!("fix step {} {}{} conflict", l, before, dec));
                    log.conflicts += 1;
                }
            }
            log.learned = true;
        }
        self.inner.on_conflict()
    }
    fn on_backtrack(&mut self) {
        self.log.borrow_mut().pending = None;
        self.inner.on_backtrack()
    }
    fn on_restart(&mut self) {
        self.log.borrow_mut().pending = None;
        self.inner.on_restart()
    }
    fn on_solution(&mut self, s: SolutionReference) {
        self.inner.on_solution(s)
    }
    fn on_unassign_integer(&mut self, v: pumpkin_solver::variables::DomainId, x: i32) {
        self.inner.on_unassign_integer(v, x)
    }
    fn on_appearance_in_conflict_predicate(&mut self, p: Predicate) {
        self.inner.on_appearance_in_conflict_predicate(p)
    }
    fn synchronise(&mut self, a: &pumpkin_solver::verif_hooks::Assignments) {
        self.inner.synchronise(a)
    }
    fn is_restart_pointless(&mut self) -> bool {
        self.inner.is_restart_pointless()
    }
    fn subscribe_to_events(&self) -> Vec<pumpkin_solver::branching::BrancherEvent> {
        use pumpkin_solver::branching::BrancherEvent::*;
        // the recorder needs conflicts, backtracks and restarts whatever the wrapped brancher asks for
        let mut ev = self.inner.subscribe_to_events();
        for e in [Conflict, Backtrack, Restart] {
            if !ev.contains(&e) {
                ev.push(e);
            }
        }
        ev
    }
}

pub fn scen_fix(m: &Model, setup: &Setup, solves: usize, out: &mut Out) {
    let solver = Solver::with_options(setup.opts.to_solver_options());
    let mut built = build(solver, m, false, false, setup.style_seed);
    out.push(format!("model {}", m.emit()));
    // `allow_holes_in_domain` of the cumulative constraints (the time-table model needs it)
    out.push(format!(
        "cumopts {}",
        m.cons.iter().map(|c| c.cumopt().map(|o| if o.holes { "1" } else { "0" }).unwrap_or("-")).collect::<Vec<_>>().join(" ")
    ));
    if let Some(i) = built.failed_at {
        out.meta(format!("posterr at={} kind={}", i, m.cons[i].full_kind()));
        out.push("fix root conflict");
        return;
    }
    let decl: Vec<Vec<i32>> = m.vars.iter().map(|d| d.values.clone()).collect();
    let log = std::rc::Rc::new(RefCell::new(FixLog { first: true, ..Default::default() }));
    for k in 0..solves {
        let inner = make_brancher(&setup.bspec, &built.solver, &built.vars.ids);
        let mut brancher = FixRecorder { inner, ids: built.vars.ids.clone(), decl: decl.clone(), log: log.clone(), max_lines: 80 * (k + 1) };
        let mut term = StopAt::never();
        let res = built.solver.satisfy(&mut brancher, &mut term);
        let verdict = match res {
            SatisfactionResult::Satisfiable(sol) => {
                // the state the solver accepted as a solution, judged by the oracle
                let _ = sol_record(out, "fix", sol.as_reference(), &built.vars);
                "sat"
            }
            SatisfactionResult::Unsatisfiable => {
                out.push("verdict fix unsat");
                "unsat"
            }
            SatisfactionResult::Unknown => "unknown",
        };
        out.meta(format!("fix solve {} -> {}", k, verdict));
        log.borrow_mut().pending = None;
        if verdict != "sat" {
            break;
        }
    }
    let log = log.borrow();
    for l in &log.lines {
        out.push(l.clone());
    }
    out.meta(format!("fix steps={} conflicts={} learned={}", log.steps, log.conflicts, log.learned));
}


/// The whole search loop against Model/Search.lean: a solve with `ConflictResolver::NoLearning` and
/// without restarts; the record carries the root state, every decision with the domains in which it
/// was made (also after every backtrack) and the final answer. The Lean model replays the decisions
/// and must be in the same domains at every decision point and end with the same answer.
pub fn scen_nlsearch(m: &Model, setup: &Setup, out: &mut Out) {
    let mut opts = setup.opts.clone();
    opts.resolver_uip = false;
    opts.no_restarts = true;
    let solver = Solver::with_options(opts.to_solver_options());
    let mut built = build(solver, m, false, false, setup.style_seed);
    out.push(format!("model {}", m.emit()));
    if built.failed_at.is_some() {
        out.push("nlsearch posterr");
        return;
    }
    let decl: Vec<Vec<i32>> = m.vars.iter().map(|d| d.values.clone()).collect();
    let log = std::rc::Rc::new(RefCell::new(FixLog { first: true, ..Default::default() }));
    let inner = make_brancher(&setup.bspec, &built.solver, &built.vars.ids);
    let mut brancher = FixRecorder { inner, ids: built.vars.ids.clone(), decl, log: log.clone(), max_lines: 0 };
    let mut term = StopAt::never();
    let res = built.solver.satisfy(&mut brancher, &mut term);
    let answer = match res {
        SatisfactionResult::Satisfiable(sol) => match extract(sol.as_reference(), &built.vars) {
            Some(vs) => format!("sat {}", fmt_vals(&vs)),
            None => {
                out.push("partial nlsearch");
                return;
            }
        },
        SatisfactionResult::Unsatisfiable => "unsat".to_string(),
        SatisfactionResult::Unknown => {
            out.push("nonterm nlsearch");
            return;
        }
    };
    let log = log.borrow();
    if log.script.len() > 400 || log.script.iter().any(|(_, a)| a.contains("foreign")) {
        out.meta(format!("nlsearch skipped decisions={}", log.script.len()));
        return;
    }
    let root = log.lines.iter().find(|l| l.starts_with("fix root ok ")).map(|l| l["fix root ok ".len()..].to_string());
    let mut rec = format!("nlsearch {} {}", log.script.len(), match root {
        Some(r) => r,
        None => "-".to_string(),
    });
    for (st, a) in &log.script {
        rec.push_str(&format!(" {}{}", st, a));
    }
    rec.push_str(&format!(" :: {}", answer));
    out.push(rec);
    out.meta(format!("nlsearch decisions={} conflicts={}", log.script.len(), log.conflicts));
}
