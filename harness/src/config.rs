//! Solver option vectors and brancher factories (the configuration space of C07 / C18).

use std::cell::RefCell;
use std::rc::Rc;

use pumpkin_solver::branching::branchers::alternating_brancher::AlternatingBrancher;
use pumpkin_solver::branching::branchers::alternating_brancher::AlternatingStrategy;
use pumpkin_solver::branching::branchers::autonomous_search::AutonomousSearch;
use pumpkin_solver::branching::branchers::dynamic_brancher::DynamicBrancher;
use pumpkin_solver::branching::branchers::independent_variable_value_brancher::IndependentVariableValueBrancher;
use pumpkin_solver::branching::value_selection::*;
use pumpkin_solver::branching::variable_selection::*;
use pumpkin_solver::branching::Brancher;
use pumpkin_solver::branching::BrancherEvent;
use pumpkin_solver::branching::SelectionContext;
use pumpkin_solver::options::ConflictResolver;
use pumpkin_solver::options::LearnedNogoodSortingStrategy;
use pumpkin_solver::options::LearningOptions;
use pumpkin_solver::options::RestartOptions;
use pumpkin_solver::options::SequenceGeneratorType;
use pumpkin_solver::options::SolverOptions;
use pumpkin_solver::predicates::Predicate;
use pumpkin_solver::results::SolutionReference;
use pumpkin_solver::statistics::StatisticLogger;
use pumpkin_solver::termination::TerminationCondition;
use pumpkin_solver::variables::DomainId;
use pumpkin_solver::verif_hooks::Assignments;
use pumpkin_solver::Solver;
use rand::rngs::SmallRng;
use rand::SeedableRng;

use crate::rng::Rng;

// ---------------------------------------------------------------------------------------------
// solver options
// ---------------------------------------------------------------------------------------------

#[derive(Clone, Debug, PartialEq)]
pub struct Opts {
    pub resolver_uip: bool,
    pub minimise: bool,
    pub seq: u8, // 0 constant, 1 geometric, 2 luby
    pub base_interval: u64,
    pub min_conflicts: u64,
    pub no_restarts: bool,
    pub lbd_threshold: u32,
    pub limit_high_lbd: usize,
    pub sort_lbd: bool,
    pub seed: u64,
    /// recursion depth at which the recursive minimiser gives up (500 in the solver; the harness
    /// lowers it through the verif hook so that the give-up branch runs on small models)
    pub rec_depth: usize,
}

/// derived from the seed draw, so that adding the knob did not change the generated cases
fn rec_depth_of(seed: u64) -> usize {
    if seed % 3 == 0 {
        1 + ((seed / 3) % 6) as usize
    } else {
        500
    }
}

/// number of termination polls after which a solve is declared non-terminating
pub fn poll_cap() -> u64 {
    std::env::var("PHARNESS_CAP").ok().and_then(|s| s.parse().ok()).unwrap_or(2_000_000)
}

impl Default for Opts {
    fn default() -> Self {
        Opts {
            resolver_uip: true,
            minimise: true,
            seq: 0,
            base_interval: 50,
            min_conflicts: 10000,
            no_restarts: false,
            lbd_threshold: 5,
            limit_high_lbd: 4000,
            sort_lbd: true,
            seed: 42,
            rec_depth: 500,
        }
    }
}

impl Opts {
    /// Option vectors chosen to make the rarely-run code run: frequent restarts, tiny database
    /// limits (deletion every few conflicts), both sorting strategies, both resolvers.
    pub fn random(r: &mut Rng) -> Opts {
        if r.chance(1, 8) {
            let seed = r.below(1000);
            return Opts { seed, rec_depth: rec_depth_of(seed), ..Opts::default() };
        }
        let mut o = Opts {
            resolver_uip: !r.chance(1, 5),
            minimise: r.chance(2, 3),
            seq: r.below(3) as u8,
            base_interval: 1 + r.below(4),
            min_conflicts: r.below(3),
            no_restarts: r.chance(1, 6),
            lbd_threshold: r.below(4) as u32,
            limit_high_lbd: r.usize(6),
            sort_lbd: r.chance(1, 2),
            seed: r.below(1000),
            rec_depth: 500,
        };
        o.rec_depth = rec_depth_of(o.seed);
        o
    }

    pub fn describe(&self) -> String {
        format!(
            "uip={} min={} seq={} base={} minc={} norestart={} lbd={} limit={} sortlbd={} seed={} recdepth={}",
            self.resolver_uip as u8,
            self.minimise as u8,
            self.seq,
            self.base_interval,
            self.min_conflicts,
            self.no_restarts as u8,
            self.lbd_threshold,
            self.limit_high_lbd,
            self.sort_lbd as u8,
            self.seed,
            self.rec_depth
        )
    }

    /// inverse of `describe`
    pub fn parse(text: &str) -> Opts {
        let mut o = Opts::default();
        for kv in text.split_whitespace() {
            let Some((k, v)) = kv.split_once('=') else { continue };
            let n: u64 = v.parse().unwrap_or(0);
            match k {
                "uip" => o.resolver_uip = n == 1,
                "min" => o.minimise = n == 1,
                "seq" => o.seq = n as u8,
                "base" => o.base_interval = n,
                "minc" => o.min_conflicts = n,
                "norestart" => o.no_restarts = n == 1,
                "lbd" => o.lbd_threshold = n as u32,
                "limit" => o.limit_high_lbd = n as usize,
                "sortlbd" => o.sort_lbd = n == 1,
                "seed" => o.seed = n,
                "recdepth" => o.rec_depth = (n as usize).max(1),
                _ => {}
            }
        }
        o
    }

    pub fn to_solver_options(&self) -> SolverOptions {
        pumpkin_solver::verif_hooks::set_recursive_minimiser_depth_limit(self.rec_depth);
        SolverOptions {
            restart_options: RestartOptions {
                sequence_generator_type: match self.seq {
                    0 => SequenceGeneratorType::Constant,
                    1 => SequenceGeneratorType::Geometric,
                    _ => SequenceGeneratorType::Luby,
                },
                base_interval: self.base_interval,
                min_num_conflicts_before_first_restart: self.min_conflicts,
                geometric_coef: Some(1.5),
                no_restarts: self.no_restarts,
                ..RestartOptions::default()
            },
            learning_clause_minimisation: self.minimise,
            random_generator: SmallRng::seed_from_u64(self.seed),
            proof_log: Default::default(),
            conflict_resolver: if self.resolver_uip { ConflictResolver::UIP } else { ConflictResolver::NoLearning },
            learning_options: LearningOptions {
                lbd_threshold: self.lbd_threshold,
                limit_num_high_lbd_nogoods: self.limit_high_lbd,
                nogood_sorting_strategy: if self.sort_lbd {
                    LearnedNogoodSortingStrategy::Lbd
                } else {
                    LearnedNogoodSortingStrategy::Activity
                },
                ..LearningOptions::default()
            },
        }
    }
}

// ---------------------------------------------------------------------------------------------
// branchers
// ---------------------------------------------------------------------------------------------

pub static ALLOW_SUBSET_RANDOM: std::sync::atomic::AtomicBool = std::sync::atomic::AtomicBool::new(false);
/// assumption lists mostly made of equalities strictly inside the domain, bounds as the rest (`--eqassume 1`)
pub static EQ_ASSUME: std::sync::atomic::AtomicBool = std::sync::atomic::AtomicBool::new(false);
/// every case uses `ConflictResolver::NoLearning` (`--nolearning 1`)
pub static FORCE_NOLEARNING: std::sync::atomic::AtomicBool = std::sync::atomic::AtomicBool::new(false);

/// C16: declare interval variables with a range of about ±2·10⁹ and narrow them to the model's domain
/// by unary linear constraints posted *after* all other constraints (so that the existing
/// propagators see bound changes larger than 2³¹ in one event). Set per case by the stream.
pub static WIDE_DECL: std::sync::atomic::AtomicBool = std::sync::atomic::AtomicBool::new(false);

thread_local! {
    /// C06: literal variables (by index) that are to be created with `new_literal_for_predicate`
    /// for the given predicate over an earlier variable; the model contains the equivalence as an
    /// ordinary constraint. Set per case by the proof stream.
    pub static LIT_DEFS: std::cell::RefCell<Vec<(usize, crate::model::Atom)>> = const { std::cell::RefCell::new(Vec::new()) };
}

pub const NUM_VARSEL: usize = 10;
pub const NUM_VALSEL: usize = 14;

pub const VARSEL_NAMES: [&str; NUM_VARSEL] = [
    "AntiFirstFail",
    "FirstFail",
    "InputOrder",
    "Largest",
    "MaxRegret",
    "MostConstrained",
    "Occurrence",
    "ProportionalDomainSize",
    "RandomSelector",
    "Smallest",
];
pub const VALSEL_NAMES: [&str; NUM_VALSEL] = [
    "InDomainInterval",
    "InDomainMax",
    "InDomainMedian",
    "InDomainMiddle",
    "InDomainMin",
    "InDomainRandom",
    "InDomainSplit",
    "InDomainSplitRandom",
    "OutDomainMax",
    "OutDomainMedian",
    "OutDomainMin",
    "OutDomainRandom",
    "RandomSplitter",
    "ReverseInDomainSplit",
];

pub fn make_varsel(i: usize, vars: &[DomainId]) -> DynamicVariableSelector<DomainId> {
    let occ: Vec<u32> = (0..vars.len()).map(|k| (k as u32 * 7 + 3) % 5).collect();
    let b: Box<dyn VariableSelector<DomainId>> = match i % NUM_VARSEL {
        0 => Box::new(AntiFirstFail::new(vars)),
        1 => Box::new(FirstFail::new(vars)),
        2 => Box::new(InputOrder::new(vars)),
        3 => Box::new(Largest::new(vars)),
        4 => Box::new(MaxRegret::new(vars)),
        5 => pumpkin_solver::verif_hooks::most_constrained(vars, &occ),
        6 => Box::new(Occurrence::new(vars, &occ)),
        7 => Box::new(ProportionalDomainSize::new(vars)),
        8 => Box::new(RandomSelector::new(vars.iter().copied())),
        _ => Box::new(Smallest::new(vars)),
    };
    DynamicVariableSelector::new(b)
}

pub fn make_valsel(i: usize) -> DynamicValueSelector<DomainId> {
    let b: Box<dyn ValueSelector<DomainId>> = match i % NUM_VALSEL {
        0 => Box::new(InDomainInterval),
        1 => Box::new(InDomainMax),
        2 => Box::new(InDomainMedian),
        3 => Box::new(InDomainMiddle),
        4 => Box::new(InDomainMin),
        5 => Box::new(InDomainRandom),
        6 => Box::new(InDomainSplit),
        7 => Box::new(InDomainSplitRandom),
        8 => Box::new(OutDomainMax),
        9 => Box::new(OutDomainMedian),
        10 => Box::new(OutDomainMin),
        11 => Box::new(OutDomainRandom),
        12 => Box::new(RandomSplitter),
        _ => Box::new(ReverseInDomainSplit),
    };
    DynamicValueSelector::new(b)
}

type Indep = IndependentVariableValueBrancher<DomainId, DynamicVariableSelector<DomainId>, DynamicValueSelector<DomainId>>;

pub fn make_indep(varsel: usize, valsel: usize, vars: &[DomainId]) -> Indep {
    IndependentVariableValueBrancher::new(make_varsel(varsel, vars), make_valsel(valsel))
}

#[derive(Clone, Debug, PartialEq, Eq)]
pub enum BrancherSpec {
    /// `Solver::default_brancher`
    Default,
    /// independent variable/value selection over all variables
    Indep(usize, usize),
    /// `DynamicBrancher` over two independent branchers covering a split of the variables
    Dynamic(usize, usize, usize, usize, usize),
    /// `AlternatingBrancher` (strategy 0..4) around an independent brancher
    Alternating(u8, usize, usize),
    /// `AutonomousSearch` with an independent brancher as backup
    Autonomous(usize, usize),
    /// harness-defined: first unfixed variable in input order, smallest value
    Simple,
}

impl BrancherSpec {
    pub fn random(r: &mut Rng) -> BrancherSpec {
        match r.below(10) {
            0 | 1 => BrancherSpec::Default,
            2..=5 => BrancherSpec::Indep(r.usize(NUM_VARSEL), r.usize(NUM_VALSEL)),
            6 => {
                let mut c = r.usize(NUM_VARSEL);
                // Known finding (C18): RandomSelector over a list other than all variables in
                // creation order panics; only the C18 stream generates that configuration.
                if c == 8 && !ALLOW_SUBSET_RANDOM.load(std::sync::atomic::Ordering::Relaxed) {
                    c = 2;
                }
                BrancherSpec::Dynamic(r.usize(NUM_VARSEL), r.usize(NUM_VALSEL), c, r.usize(NUM_VALSEL), r.usize(100))
            }
            7 => BrancherSpec::Alternating(r.below(4) as u8, r.usize(NUM_VARSEL), r.usize(NUM_VALSEL)),
            8 => BrancherSpec::Autonomous(r.usize(NUM_VARSEL), r.usize(NUM_VALSEL)),
            _ => BrancherSpec::Simple,
        }
    }
    /// inverse of `describe`
    pub fn parse(text: &str) -> BrancherSpec {
        let vs = |n: &str| VARSEL_NAMES.iter().position(|x| *x == n).unwrap_or_else(|| panic!("varsel {}", n));
        let ls = |n: &str| VALSEL_NAMES.iter().position(|x| *x == n).unwrap_or_else(|| panic!("valsel {}", n));
        if text == "default" {
            return BrancherSpec::Default;
        }
        if text == "simple" {
            return BrancherSpec::Simple;
        }
        let parts: Vec<&str> = text.split(':').collect();
        if parts[0] == "indep" {
            return BrancherSpec::Indep(vs(parts[1]), ls(parts[2]));
        }
        if parts[0] == "autonomous" {
            return BrancherSpec::Autonomous(vs(parts[1]), ls(parts[2]));
        }
        if let Some(k) = parts[0].strip_prefix("alternating") {
            return BrancherSpec::Alternating(k.parse().unwrap(), vs(parts[1]), ls(parts[2]));
        }
        if parts[0] == "dynamic" {
            // dynamic:A:B+C:D@s
            let rest = &text["dynamic:".len()..];
            let (ab, cds) = rest.split_once('+').unwrap();
            let (cd, s) = cds.split_once('@').unwrap();
            let (a, b) = ab.split_once(':').unwrap();
            let (c, d) = cd.split_once(':').unwrap();
            return BrancherSpec::Dynamic(vs(a), ls(b), vs(c), ls(d), s.parse().unwrap());
        }
        panic!("cannot parse brancher spec {}", text)
    }

    pub fn describe(&self) -> String {
        match self {
            BrancherSpec::Default => "default".into(),
            BrancherSpec::Indep(a, b) => format!("indep:{}:{}", VARSEL_NAMES[*a], VALSEL_NAMES[*b]),
            BrancherSpec::Dynamic(a, b, c, d, s) => format!(
                "dynamic:{}:{}+{}:{}@{}",
                VARSEL_NAMES[*a], VALSEL_NAMES[*b], VARSEL_NAMES[*c], VALSEL_NAMES[*d], s
            ),
            BrancherSpec::Alternating(s, a, b) => format!("alternating{}:{}:{}", s, VARSEL_NAMES[*a], VALSEL_NAMES[*b]),
            BrancherSpec::Autonomous(a, b) => format!("autonomous:{}:{}", VARSEL_NAMES[*a], VALSEL_NAMES[*b]),
            BrancherSpec::Simple => "simple".into(),
        }
    }
}

/// first unfixed variable, smallest value: the reference brancher of the harness
#[derive(Debug)]
pub struct SimpleBrancher {
    pub vars: Vec<DomainId>,
}

impl Brancher for SimpleBrancher {
    fn next_decision(&mut self, context: &mut SelectionContext) -> Option<Predicate> {
        for &d in &self.vars {
            if !context.is_integer_fixed(d) {
                let lb = context.lower_bound(d);
                return Some(pumpkin_solver::predicate!(d <= lb));
            }
        }
        None
    }
    fn subscribe_to_events(&self) -> Vec<BrancherEvent> {
        vec![]
    }
}

/// One observation made by the checking wrapper (C18).
#[derive(Clone, Debug)]
pub struct BranchViolation {
    pub what: String,
}

#[derive(Debug, Default)]
pub struct BranchLog {
    pub decisions: u64,
    pub nones: u64,
    pub violations: Vec<BranchViolation>,
    /// observed (value selector, variable index, domain values, decision) for the exact correspondence
    pub valsel_records: Vec<String>,
}

/// Type-erased brancher that forwards *every* callback (including `synchronise`, which needs the
/// `Assignments` re-export of the hook) and checks the contract of C18 on every proposal:
/// the decision is over one of the brancher's variables and currently neither true nor false;
/// `None` only when all of its variables are fixed.
pub struct BoxB {
    pub inner: Box<dyn Brancher>,
    pub vars: Vec<DomainId>,
    pub log: Rc<RefCell<BranchLog>>,
    pub check: bool,
    /// index of the value selector when the brancher is a plain independent brancher
    pub valsel: Option<usize>,
}

impl std::fmt::Debug for BoxB {
    fn fmt(&self, f: &mut std::fmt::Formatter<'_>) -> std::fmt::Result {
        f.debug_struct("BoxB").finish()
    }
}

impl Brancher for BoxB {
    fn log_statistics(&self, l: StatisticLogger) {
        self.inner.log_statistics(l)
    }
    fn next_decision(&mut self, context: &mut SelectionContext) -> Option<Predicate> {
        let d = self.inner.next_decision(context);
        if self.check {
            let mut log = self.log.borrow_mut();
            match d {
                Some(p) => {
                    log.decisions += 1;
                    if context.is_predicate_assigned(p) && log.violations.len() < 20 {
                        log.violations.push(BranchViolation { what: format!("decision {} is already assigned", p) });
                    }
                    if !self.vars.contains(&p.get_domain()) && log.violations.len() < 20 {
                        log.violations.push(BranchViolation { what: format!("decision {} is not over a brancher variable", p) });
                    }
                    if let Some(vi) = self.valsel {
                        if log.valsel_records.len() < 12 {
                            let d = p.get_domain();
                            let (lb, ub) = (context.lower_bound(d), context.upper_bound(d));
                            if (ub as i64 - lb as i64) < 200 {
                                let vals: Vec<String> =
                                    (lb..=ub).filter(|v| context.contains(d, *v)).map(|v| v.to_string()).collect();
                                let (k, v) = match p {
                                    Predicate::LowerBound { lower_bound, .. } => ("ge", lower_bound),
                                    Predicate::UpperBound { upper_bound, .. } => ("le", upper_bound),
                                    Predicate::NotEqual { not_equal_constant, .. } => ("ne", not_equal_constant),
                                    Predicate::Equal { equality_constant, .. } => ("eq", equality_constant),
                                };
                                let x = d.id as usize - 1;
                                log.valsel_records.push(format!(
                                    "valsel {} {} {} {} {} {} {}",
                                    VALSEL_NAMES[vi],
                                    x,
                                    vals.len(),
                                    vals.join(" "),
                                    k,
                                    x,
                                    v
                                ));
                            }
                        }
                    }
                }
                None => {
                    log.nones += 1;
                    for &v in &self.vars {
                        if !context.is_integer_fixed(v) && log.violations.len() < 20 {
                            log.violations.push(BranchViolation {
                                what: format!(
                                    "no decision although {} is unfixed [{}..{}]",
                                    v,
                                    context.lower_bound(v),
                                    context.upper_bound(v)
                                ),
                            });
                            break;
                        }
                    }
                }
            }
        }
        d
    }
    fn on_conflict(&mut self) {
        self.inner.on_conflict()
    }
    fn on_backtrack(&mut self) {
        self.inner.on_backtrack()
    }
    fn on_solution(&mut self, s: SolutionReference) {
        self.inner.on_solution(s)
    }
    fn on_unassign_integer(&mut self, v: DomainId, x: i32) {
        self.inner.on_unassign_integer(v, x)
    }
    fn on_appearance_in_conflict_predicate(&mut self, p: Predicate) {
        self.inner.on_appearance_in_conflict_predicate(p)
    }
    fn on_restart(&mut self) {
        self.inner.on_restart()
    }
    fn synchronise(&mut self, a: &Assignments) {
        self.inner.synchronise(a)
    }
    fn is_restart_pointless(&mut self) -> bool {
        self.inner.is_restart_pointless()
    }
    fn subscribe_to_events(&self) -> Vec<BrancherEvent> {
        self.inner.subscribe_to_events()
    }
}

pub fn make_brancher(spec: &BrancherSpec, solver: &Solver, vars: &[DomainId]) -> BoxB {
    let inner: Box<dyn Brancher> = match spec {
        BrancherSpec::Default => Box::new(solver.default_brancher()),
        BrancherSpec::Indep(a, b) => Box::new(make_indep(*a, *b, vars)),
        BrancherSpec::Dynamic(a, b, c, d, split) => {
            let k = if vars.is_empty() { 0 } else { split % (vars.len() + 1) };
            let (v1, v2) = vars.split_at(k);
            Box::new(DynamicBrancher::new(vec![
                Box::new(make_indep(*a, *b, v1)) as Box<dyn Brancher>,
                Box::new(make_indep(*c, *d, v2)) as Box<dyn Brancher>,
            ]))
        }
        BrancherSpec::Alternating(s, a, b) => {
            let strategy = match s {
                0 => AlternatingStrategy::EverySolution,
                1 => AlternatingStrategy::EveryOtherSolution,
                2 => AlternatingStrategy::SwitchToDefaultAfterFirstSolution,
                _ => AlternatingStrategy::EveryRestart,
            };
            Box::new(AlternatingBrancher::new(solver, make_indep(*a, *b, vars), strategy))
        }
        BrancherSpec::Autonomous(a, b) => Box::new(AutonomousSearch::new(make_indep(*a, *b, vars))),
        BrancherSpec::Simple => Box::new(SimpleBrancher { vars: vars.to_vec() }),
    };
    let valsel = match spec {
        BrancherSpec::Indep(_, b) => Some(*b),
        _ => None,
    };
    BoxB { inner, vars: vars.to_vec(), log: Rc::new(RefCell::new(BranchLog::default())), check: true, valsel }
}

// ---------------------------------------------------------------------------------------------
// termination conditions
// ---------------------------------------------------------------------------------------------

/// Counts polls; stops at poll index `stop_at` (0-based) and at every later poll.
#[derive(Debug, Clone)]
pub struct StopAt {
    pub polls: u64,
    pub stop_at: Option<u64>,
    /// hard cap so that a non-terminating search is reported rather than hanging the harness; it
    /// applies to the polls since the last reset of `since` (one solve of an enumeration)
    pub cap: u64,
    pub capped: bool,
    pub since: Rc<std::cell::Cell<u64>>,
    /// one-shot interrupt: when armed, the next poll answers "stop" (once)
    pub armed: Rc<std::cell::Cell<bool>>,
}

impl StopAt {
    pub fn never() -> Self {
        StopAt { polls: 0, stop_at: None, cap: poll_cap(), capped: false, since: Default::default(), armed: Default::default() }
    }
    pub fn at(k: u64) -> Self {
        StopAt { polls: 0, stop_at: Some(k), cap: poll_cap(), capped: false, since: Default::default(), armed: Default::default() }
    }

}

impl TerminationCondition for StopAt {
    fn should_stop(&mut self) -> bool {
        let i = self.polls;
        self.polls += 1;
        let since = self.since.get();
        self.since.set(since + 1);
        if since >= self.cap {
            self.capped = true;
            return true;
        }
        if self.armed.get() {
            self.armed.set(false);
            return true;
        }
        match self.stop_at {
            Some(k) => i >= k,
            None => false,
        }
    }
}
