//! `pharness <mode> --seed S --cases N [--mix a=1,b=2] [--limit L]`
//!
//! Runs the real Pumpkin (built from /repo's working tree, feature `verif-hooks`) on generated
//! inputs and prints observation records for the Lean driver on stdout.

mod config;
mod model;
mod post;
mod rng;
mod scen;

use std::collections::BTreeMap;
use std::panic::catch_unwind;
use std::panic::AssertUnwindSafe;

use model::*;
use rng::Rng;
use scen::*;

pub struct Args {
    pub mode: String,
    pub seed: u64,
    pub cases: usize,
    pub mix: Vec<(String, u64)>,
    pub kv: BTreeMap<String, String>,
}

fn parse_args() -> Args {
    let argv: Vec<String> = std::env::args().collect();
    if argv.len() < 2 {
        eprintln!("usage: pharness <mode> --seed S --cases N [--key value]...");
        std::process::exit(2);
    }
    let mut kv = BTreeMap::new();
    let mut i = 2;
    while i + 1 < argv.len() {
        let k = argv[i].trim_start_matches("--").to_string();
        let _ = kv.insert(k, argv[i + 1].clone());
        i += 2;
    }
    let seed = kv.get("seed").map(|s| s.parse().unwrap()).unwrap_or(1);
    let cases = kv.get("cases").map(|s| s.parse().unwrap()).unwrap_or(10);
    let mix = kv
        .get("mix")
        .map(|s| {
            s.split(',')
                .map(|p| {
                    let (a, b) = p.split_once('=').unwrap();
                    (a.to_string(), b.parse().unwrap())
                })
                .collect()
        })
        .unwrap_or_default();
    Args { mode: argv[1].clone(), seed, cases, mix, kv }
}

fn pick_mix(r: &mut Rng, mix: &[(String, u64)]) -> String {
    let total: u64 = mix.iter().map(|m| m.1).sum();
    let mut k = r.below(total.max(1));
    for (name, w) in mix {
        if k < *w {
            return name.clone();
        }
        k -= *w;
    }
    mix[0].0.clone()
}

pub fn run_case(id: &str, desc: &str, f: impl FnOnce(&mut Out)) {
    println!("case {} {}", id, desc);
    let mut out = Out::default();
    let r = catch_unwind(AssertUnwindSafe(|| f(&mut out)));
    for l in &out.lines {
        println!("{}", l);
    }
    if r.is_err() {
        println!("panic case {}", last_panic().replace(' ', "_"));
    }
}

fn kinds_meta(m: &Model, out: &mut Out) {
    let kinds: Vec<String> = m
        .cons
        .iter()
        .map(|c| match c.cumopt() {
            Some(o) => format!("{}@{}", c.full_kind(), o.index()),
            None => c.full_kind(),
        })
        .collect();
    out.meta(format!("kinds {}", kinds.join(",")));
    let shapes: Vec<String> = m
        .vars
        .iter()
        .map(|v| format!("{:?}:{}", v.kind, v.values.len()).to_lowercase())
        .collect();
    out.meta(format!("vars {}", shapes.join(",")));
}

fn cfg_from(args: &Args) -> GenCfg {
    let mut cfg = GenCfg::default();
    if let Some(k) = args.kv.get("kinds") {
        let all = GenCfg::default().kinds;
        cfg.kinds = all.into_iter().filter(|x| k.split(',').any(|y| y == *x)).collect();
    }
    if let Some(v) = args.kv.get("maxvars") {
        cfg.max_vars = v.parse().unwrap();
    }
    if let Some(v) = args.kv.get("maxcons") {
        cfg.max_cons = v.parse().unwrap();
    }
    if let Some(v) = args.kv.get("maxproduct") {
        cfg.max_product = v.parse().unwrap();
    }
    cfg
}

/// The answer-correspondence stream used by C01–C05, C07: random model x options x brancher x scenario.
fn mode_answers(args: &Args) {
    let mut master = Rng::new(args.seed);
    let cfg = cfg_from(args);
    let mix = if args.mix.is_empty() {
        vec![("satisfy".to_string(), 3), ("iterate".to_string(), 2), ("optimise".to_string(), 2), ("assume".to_string(), 2)]
    } else {
        args.mix.clone()
    };
    let limit: usize = args.kv.get("limit").map(|s| s.parse().unwrap()).unwrap_or(3000);
    let only: Option<usize> = args.kv.get("only").map(|s| s.parse().unwrap());
    for i in 0..args.cases {
        let case_seed = master.next();
        if only.is_some() && only != Some(i) {
            continue;
        }
        let mut r = Rng(case_seed);
        let m = gen_model(&mut r, &cfg);
        let setup = Setup::random(&mut r);
        let scen = pick_mix(&mut r, &mix);
        let id = format!("{}-{}", args.seed, i);
        let desc = format!("scen={} seed={} {}", scen, case_seed, setup.describe());
        run_case(&id, &desc, |out| {
            kinds_meta(&m, out);
            match scen.as_str() {
                "satisfy" => scen_satisfy(&m, &setup, out),
                "iterate" => scen_iterate(&m, &setup, limit, out),
                "iterprefix" => {
                    let k = 1 + r.usize(6);
                    scen_iterate(&m, &setup, k, out)
                }
                "optimise" => {
                    let spec = OptSpec { maximise: r.chance(1, 2), lus: r.chance(1, 2), objective: gen_objective(&mut r, &m) };
                    let _ = scen_optimise(&m, &setup, &spec, None, out);
                }
                "assume" => {
                    let nrounds = 1 + r.usize(3);
                    let rounds: Vec<(Vec<Atom>, bool)> =
                        (0..nrounds).map(|_| (gen_assumptions(&mut r, &m), r.chance(3, 4))).collect();
                    scen_assume(&m, &setup, &rounds, out)
                }
                other => panic!("unknown scenario {}", other),
            }
        });
    }
}

/// One hand-written case: `pharness one --scen satisfy --model "<text>" [--opts ".."] [--brancher ".."]
/// [--style N] [--cumopt I] [--assume "<atoms>"] [--obj "<view>"] [--max 0|1] [--lus 0|1] [--id name]`
fn mode_one(args: &Args) {
    let cumopt = CumOpt::from_index(args.kv.get("cumopt").map(|s| s.parse().unwrap()).unwrap_or(4 + 6));
    let text = args.kv.get("model").expect("--model");
    let m = Toks::new(text).model(cumopt);
    let setup = Setup {
        opts: args.kv.get("opts").map(|s| config::Opts::parse(s)).unwrap_or_default(),
        bspec: args.kv.get("brancher").map(|s| config::BrancherSpec::parse(s)).unwrap_or(config::BrancherSpec::Default),
        style_seed: args.kv.get("style").map(|s| s.parse().unwrap()).unwrap_or(0),
    };
    let scen = args.kv.get("scen").cloned().unwrap_or_else(|| "satisfy".to_string());
    let id = args.kv.get("id").cloned().unwrap_or_else(|| "one".to_string());
    let desc = format!("scen={} {}", scen, setup.describe());
    run_case(&id, &desc, |out| {
        kinds_meta(&m, out);
        match scen.as_str() {
            "satisfy" => scen_satisfy(&m, &setup, out),
            "iterate" => scen_iterate(&m, &setup, 100000, out),
            "optimise" => {
                let objective = Toks::new(args.kv.get("obj").expect("--obj")).view();
                let spec = OptSpec {
                    maximise: args.kv.get("max").map(|s| s == "1").unwrap_or(false),
                    lus: args.kv.get("lus").map(|s| s == "1").unwrap_or(false),
                    objective,
                };
                let _ = scen_optimise(&m, &setup, &spec, None, out);
            }
            "assume" => {
                let atoms = Toks::new(args.kv.get("assume").expect("--assume")).atoms();
                scen_assume(&m, &setup, &[(atoms, true)], out)
            }
            other => panic!("unknown scenario {}", other),
        }
    });
}

fn main() {
    install_panic_hook();
    let args = parse_args();
    if args.kv.get("allow-subset-random").map(|s| s == "1").unwrap_or(false) {
        config::ALLOW_SUBSET_RANDOM.store(true, std::sync::atomic::Ordering::Relaxed);
    }
    match args.mode.as_str() {
        "answers" => mode_answers(&args),
        "one" => mode_one(&args),
        "genonly" => {
            let mut master = Rng::new(args.seed);
            let cfg = cfg_from(&args);
            for _ in 0..args.cases {
                let mut r = Rng(master.next());
                let m = gen_model(&mut r, &cfg);
                println!("model {}", m.emit());
            }
        }
        other => {
            eprintln!("unknown mode {}", other);
            std::process::exit(2);
        }
    }
}
